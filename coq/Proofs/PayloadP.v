(* C16 — proofs about the request-assembly model (Model/Payload.v). *)
From Coq Require Import List ZArith Bool Arith Lia Permutation.
From PV Require Import Model.Payload.
Import ListNotations.

(* ------------------------------------------------------------------ dictionaries *)
Lemma key_eqb_refl k : key_eqb k k = true.
Proof. unfold key_eqb. apply Nat.eqb_refl. Qed.

Lemma lookup_dset_same k v pl : lookup k (dset k v pl) = Some v.
Proof.
  induction pl as [|[k' v'] r IH]; cbn [dset lookup].
  - rewrite key_eqb_refl. reflexivity.
  - destruct (key_eqb k' k) eqn:E; cbn [lookup].
    + rewrite key_eqb_refl. reflexivity.
    + rewrite E. exact IH.
Qed.

Lemma lookup_dset_other k k2 v pl : key_eqb k k2 = false -> lookup k2 (dset k v pl) = lookup k2 pl.
Proof.
  intros H. induction pl as [|[k' v'] r IH]; cbn [dset lookup].
  - rewrite H. reflexivity.
  - destruct (key_eqb k' k) eqn:E; cbn [lookup].
    + rewrite H. unfold key_eqb in *. apply Nat.eqb_eq in E. rewrite E. rewrite H. reflexivity.
    + destruct (key_eqb k' k2); [reflexivity | exact IH].
Qed.

Lemma lookup_refresh1_other k k2 v pl : key_eqb k k2 = false -> lookup k2 (refresh1 k v pl) = lookup k2 pl.
Proof. intros H. unfold refresh1. destruct (lookup k pl); [apply lookup_dset_other; exact H | reflexivity]. Qed.

Lemma lookup_refresh1_same k v pl : lookup k pl <> None -> lookup k (refresh1 k v pl) = Some v.
Proof. intros H. unfold refresh1. destruct (lookup k pl); [apply lookup_dset_same | congruence]. Qed.

Lemma lookup_refresh1_none k v pl : lookup k pl = None -> refresh1 k v pl = pl.
Proof. intros H. unfold refresh1. rewrite H. reflexivity. Qed.

(* ------------------------------------------------------------------ prepare / describe *)
Lemma last_snoc {A} (l : list A) x d : last (l ++ [x]) d = x.
Proof. induction l as [|a r IH]; [reflexivity|]. cbn [app]. destruct (r ++ [x]) eqn:E; [destruct r; discriminate E | exact IH]. Qed.
Lemma dget_dput_same k v d : dget (dput k v d) k = v.
Proof.
  unfold dget. induction d as [|[k' v'] r IH]; cbn [dput find fst snd].
  - rewrite Nat.eqb_refl. reflexivity.
  - destruct (k' =? k) eqn:E; cbn [find fst snd]; [rewrite Nat.eqb_refl; reflexivity | rewrite E; exact IH].
Qed.
Lemma cur_params_upd p f : cur_params (upd_params p f) = f (cur_params p).
Proof. unfold cur_params at 1, upd_params, set_pdicts; cbn [p_pdicts]. apply last_snoc. Qed.
(* whatever route gave the processor its filter, the dict that is sent holds the filter the processor reports *)
Lemma filter_sync p : option_map Z.to_nat (dget (cur_params (sync p)) 0) = p_filter p.
Proof.
  unfold sync. rewrite cur_params_upd, dget_dput_same. destruct (p_filter p); cbn; [rewrite Nat2Z.id|]; reflexivity.
Qed.

Theorem prepare_describes pf p c pl : prepare pf p c = Ok pl -> describe pl = view_of p c.
Proof.
  unfold prepare. pose proof (filter_sync p) as FS. set (d := cur_params (sync p)) in *.
  destruct (p_filter p) eqn:F; [|discriminate].
  destruct (check_circuit pf p); cbn [bind]; [|discriminate].
  destruct (p_in p) as [st|] eqn:I.
  - destruct (check_input pf p (remove_her (p_her p) 0 st)); cbn [bind]; [|discriminate].
    intros H; inversion H; subst; clear H. unfold view_of. rewrite F, I.
    destruct (p_ps p), (p_her p), (p_noise p); unfold describe; cbn [lookup key_eqb key_code Nat.eqb app]; rewrite FS; reflexivity.
  - cbn [bind]. intros H; inversion H; subst; clear H. unfold view_of. rewrite F, I.
    destruct (p_ps p), (p_her p), (p_noise p); unfold describe; cbn [lookup key_eqb key_code Nat.eqb app]; rewrite FS; reflexivity.
Qed.

(* platform constraints, read off what the request describes *)
Definition within (x : nat) (lo hi : option nat) : Prop :=
  (forall b, hi = Some b -> x <= b) /\ (forall b, lo = Some b -> b <= x).
Definition cons_ok (pf : platform) (v : view) : Prop :=
  (forall c, v_circ v = Some c -> within (c_size c) (pf_minm pf) (pf_maxm pf)) /\
  (forall c st, v_circ v = Some c -> v_in v = Some st ->
     length st = c_size c /\
     within (photons (v_her v) (remove_her (v_her v) 0 st)) (pf_minn pf) (pf_maxn pf)).

Lemma above_false x o : above x o = false -> forall b, o = Some b -> x <= b.
Proof. intros H b ->. cbn in H. apply Nat.ltb_ge in H. exact H. Qed.
Lemma below_false x o : below x o = false -> forall b, o = Some b -> b <= x.
Proof. intros H b ->. cbn in H. apply Nat.ltb_ge in H. exact H. Qed.

Theorem prepare_enforces pf p c pl : prepare pf p c = Ok pl -> cons_ok pf (describe pl).
Proof.
  intros H. rewrite (prepare_describes _ _ _ _ H). revert H.
  unfold prepare. destruct (p_filter p); [|discriminate].
  unfold check_circuit.
  destruct (above (p_size p) (pf_maxm pf)) eqn:A; cbn [bind]; [discriminate|].
  destruct (below (p_size p) (pf_minm pf)) eqn:B; cbn [bind]; [discriminate|].
  unfold cons_ok, view_of; cbn [v_circ v_in v_her].
  destruct (p_in p) as [st|] eqn:I.
  - destruct (length st =? p_size p) eqn:Ls; cbn [bind]; [|discriminate].
    unfold check_input.
    destruct (negb (length (remove_her (p_her p) 0 st) =? msize p)); cbn [bind]; [discriminate|].
    destruct (above (photons (p_her p) (remove_her (p_her p) 0 st)) (pf_maxn pf)) eqn:A2; cbn [bind]; [discriminate|].
    destruct (below (photons (p_her p) (remove_her (p_her p) 0 st)) (pf_minn pf)) eqn:B2; cbn [bind]; [discriminate|].
    intros _. split.
    + intros c0 E; inversion E; subst. split; [apply above_false | apply below_false]; assumption.
    + intros c0 st0 E E2; inversion E; inversion E2; subst. split.
      * apply Nat.eqb_eq in Ls. exact Ls.
      * split; [apply above_false | apply below_false]; assumption.
  - intros _. split.
    + intros c0 E; inversion E; subst. split; [apply above_false | apply below_false]; assumption.
    + intros c0 st0 _ E2; discriminate.
Qed.

(* every refusal of prepare happens for a stated reason: nothing else is refused *)
Theorem prepare_accepts pf p c :
  p_filter p <> None ->
  within (p_size p) (pf_minm pf) (pf_maxm pf) ->
  (forall st, p_in p = Some st -> length st = p_size p /\ length (remove_her (p_her p) 0 st) = msize p /\
       within (photons (p_her p) (remove_her (p_her p) 0 st)) (pf_minn pf) (pf_maxn pf)) ->
  exists pl, prepare pf p c = Ok pl.
Proof.
  intros F [W1 W2] HI. unfold prepare. destruct (p_filter p); [|congruence].
  unfold check_circuit.
  assert (A : above (p_size p) (pf_maxm pf) = false).
  { unfold above. destruct (pf_maxm pf) as [b|]; [|reflexivity]. apply Nat.ltb_ge. apply W1. reflexivity. }
  assert (B : below (p_size p) (pf_minm pf) = false).
  { unfold below. destruct (pf_minm pf) as [b|]; [|reflexivity]. apply Nat.ltb_ge. apply W2. reflexivity. }
  rewrite A, B. destruct (p_in p) as [st|].
  - destruct (HI st eq_refl) as (L1 & L2 & [W3 W4]).
    rewrite L1, Nat.eqb_refl. cbn [bind]. unfold check_input. rewrite L2, Nat.eqb_refl. cbn [negb].
    assert (A2 : above (photons (p_her p) (remove_her (p_her p) 0 st)) (pf_maxn pf) = false).
    { unfold above. destruct (pf_maxn pf) as [b|]; [|reflexivity]. apply Nat.ltb_ge. apply W3. reflexivity. }
    assert (B2 : below (photons (p_her p) (remove_her (p_her p) 0 st)) (pf_minn pf) = false).
    { unfold below. destruct (pf_minn pf) as [b|]; [|reflexivity]. apply Nat.ltb_ge. apply W4. reflexivity. }
    rewrite A2, B2. cbn [bind]. eexists. reflexivity.
  - cbn [bind]. eexists. reflexivity.
Qed.

(* ------------------------------------------------------------------ max_samples never above max_shots *)
Definition le_ok (pl : payload) : Prop :=
  forall s t, num_of KMaxSamples pl = Some (Some s) -> num_of KMaxShots pl = Some (Some t) -> (s <= t)%Z.

Theorem clamp_le pl r : clamp pl = Ok r -> le_ok r.
Proof.
  unfold clamp, le_ok, num_of.
  destruct (lookup KMaxSamples pl) as [va|] eqn:A.
  2:{ intros H; inversion H; subst. rewrite A. discriminate. }
  destruct va; try (intros H; inversion H; subst; rewrite A; discriminate).
  destruct (lookup KMaxShots pl) as [vb|] eqn:B.
  2:{ intros H; inversion H; subst. rewrite B. intros ? ? _ E; discriminate E. }
  destruct vb; try (intros H; inversion H; subst; rewrite B; intros ? ? _ E; discriminate E).
  repeat match goal with [ o : option Z |- _ ] => destruct o end; try discriminate.
  match goal with |- context [(?y <? ?x)%Z] => destruct (y <? x)%Z eqn:C end; intros H; inversion H; subst; clear H.
  - rewrite lookup_dset_same. rewrite lookup_dset_other by reflexivity. rewrite B.
    intros s t E1 E2; inversion E1; inversion E2; subst. lia.
  - rewrite A, B. intros s t E1 E2; inversion E1; inversion E2; subst. apply Z.ltb_ge in C. exact C.
Qed.

Theorem exec_le j f it args kw r : exec_payload j f it args kw = Ok r -> le_ok r.
Proof.
  unfold exec_payload. destruct (handle_params _ _ _ _ _); cbn [bind]; [|discriminate]. apply clamp_le.
Qed.

(* ------------------------------------------------------------------ primitive selection *)
Theorem select_sound pf m prim conv : select pf m = Some (prim, conv) ->
  avail pf prim = true /\
  (avail pf m = true -> prim = m /\ conv = None) /\
  (conv = None -> prim = m) /\
  (forall c, conv = Some c -> c = (prim, m) /\ avail pf m = false).
Proof.
  unfold select, avail, others. destruct m; destruct (pf_probs pf) eqn:P, (pf_sc pf) eqn:S, (pf_samples pf) eqn:M;
    cbn; rewrite ?P, ?S, ?M; cbn; intros H; inversion H; subst; cbn; rewrite ?P, ?S, ?M;
    repeat split; try congruence; intros; try discriminate;
    match goal with [ E : Some _ = Some _ |- _ ] => inversion E; subst; auto | _ => idtac end.
Qed.

Theorem select_none pf m : select pf m = None <->
  pf_probs pf = false /\ pf_sc pf = false /\ pf_samples pf = false.
Proof.
  unfold select, avail, others. destruct m; destruct (pf_probs pf) eqn:P, (pf_sc pf) eqn:S, (pf_samples pf) eqn:M;
    cbn; rewrite ?P, ?S, ?M; cbn; split; intros H; try discriminate; try reflexivity; try (repeat split; reflexivity);
    destruct H as (? & ? & ?); discriminate.
Qed.

(* ------------------------------------------------------------------ where exec_payload can refuse *)
Lemma positional_err names args kw cmd e w : positional names args kw cmd = Err e w ->
  (e = XIndex /\ w = 50) \/ (e = XRuntime /\ w = 51).
Proof.
  revert names cmd. induction args as [|a r IH]; intros names cmd; destruct names as [|n ns]; cbn [positional];
    try (intros H; discriminate H).
  - intros H; inversion H; auto.
  - destruct (dhas kw n); [intros H; inversion H; auto | apply IH].
Qed.

Lemma handle_params_err names cmd mapp args kw e w : handle_params names cmd mapp args kw = Err e w ->
  (e = XIndex /\ w = 50) \/ (e = XRuntime /\ w = 51) \/ (e = XRuntime /\ w = 52).
Proof.
  unfold handle_params.
  destruct (positional names _ kw cmd) eqn:P; cbn [bind].
  - destruct (snd (fill _ _)); [intros H; discriminate H|]. intros H; inversion H; auto.
  - intros H; inversion H; subst. destruct (positional_err _ _ _ _ _ _ P) as [|]; auto.
Qed.

Lemma clamp_err pl e w : clamp pl = Err e w -> e = XType /\ w = 53.
Proof.
  unfold clamp. destruct (lookup KMaxSamples pl) as [[]|]; try (intros H; discriminate H);
  destruct (lookup KMaxShots pl) as [[]|]; try (intros H; discriminate H).
  repeat match goal with [ o : option Z |- _ ] => destruct o end; try (intros H; inversion H; auto; fail).
  match goal with |- context [(?y <? ?x)%Z] => destruct (y <? x)%Z end; intros H; discriminate H.
Qed.

Lemma exec_payload_err j f it args kw e w : exec_payload j f it args kw = Err e w -> e <> XHttp.
Proof.
  unfold exec_payload. destruct (handle_params _ _ _ _ _) eqn:H; cbn [bind].
  - intros C. destruct (clamp_err _ _ _ C) as [-> _]. discriminate.
  - intros E; inversion E; subst. destruct (handle_params_err _ _ _ _ _ _ _ H) as [[-> _]|[[-> _]|[-> _]]]; discriminate.
Qed.

(* ------------------------------------------------------------------ what execution changes in the prepared payload *)
Definition minor (k : pkey) : bool :=
  match k with KParams | KIterator | KMaxShots | KMaxSamples | KJobContext | KOther _ => true | _ => false end.
Definition core (pl : payload) :=
  (lookup KCommand pl, lookup KCircuit pl, lookup KInput pl, lookup KHeralds pl, lookup KPostsel pl, lookup KNoise pl).

Lemma core_dset k v pl : minor k = true -> core (dset k v pl) = core pl.
Proof.
  intros H. unfold core.
  rewrite !lookup_dset_other by (destruct k; try discriminate H; reflexivity). reflexivity.
Qed.
Lemma core_refresh1 k v pl : minor k = true -> core (refresh1 k v pl) = core pl.
Proof. intros H. unfold refresh1. destruct (lookup k pl); [apply core_dset; exact H | reflexivity]. Qed.
Lemma minor_name n : minor (key_of_name n) = true.
Proof. destruct n as [|[|n]]; reflexivity. Qed.
Lemma core_update_cmd cmd pl : core (update_cmd cmd pl) = core pl.
Proof.
  unfold update_cmd. revert pl. induction cmd as [|e r IH]; intros pl; cbn [fold_left]; [reflexivity|].
  rewrite IH. apply core_dset. apply minor_name.
Qed.
Lemma core_clamp pl r : clamp pl = Ok r -> core r = core pl.
Proof.
  unfold clamp. destruct (lookup KMaxSamples pl) as [[]|]; try (intros H; inversion H; reflexivity);
  destruct (lookup KMaxShots pl) as [[]|]; try (intros H; inversion H; reflexivity).
  repeat match goal with [ o : option Z |- _ ] => destruct o end; try (intros H; discriminate H).
  match goal with |- context [(?y <? ?x)%Z] => destruct (y <? x)%Z end; intros H; inversion H; subst;
    [apply core_dset; reflexivity | reflexivity].
Qed.
Lemma exec_core j f it args kw r : exec_payload j f it args kw = Ok r -> core r = core (j_pl j).
Proof.
  unfold exec_payload. destruct (handle_params _ _ _ _ _); cbn [bind]; [|intros H; discriminate H].
  intros C. rewrite (core_clamp _ _ C). rewrite core_dset by reflexivity. rewrite core_update_cmd.
  unfold refresh. rewrite !core_refresh1 by reflexivity. reflexivity.
Qed.

Definition same_core (a b : view) : Prop :=
  v_cmd a = v_cmd b /\ v_circ a = v_circ b /\ v_in a = v_in b /\ v_her a = v_her b /\ v_ps a = v_ps b /\
  v_noise a = v_noise b.
Lemma describe_core a b : core a = core b -> same_core (describe a) (describe b).
Proof.
  unfold core. intros H. inversion H as [[H1 H2 H3 H4 H5 H6]]. unfold same_core, describe; cbn.
  rewrite H1, H2, H3, H4, H5, H6. repeat split.
Qed.
Lemma same_core_refl a : same_core a a.
Proof. unfold same_core. repeat split. Qed.
Lemma same_core_trans a b c : same_core a b -> same_core b c -> same_core a c.
Proof. unfold same_core. intros (?&?&?&?&?&?) (?&?&?&?&?&?). repeat split; congruence. Qed.
Lemma cons_ok_same_core pf a b : same_core a b -> cons_ok pf b -> cons_ok pf a.
Proof.
  unfold same_core, cons_ok. intros (_ & C & I & H & _ & _) [K1 K2]. rewrite C, I, H. split; assumption.
Qed.

(* the filter and the iterator list of the request are those of the execution time *)
Lemma lookup_update_cmd k cmd pl : (forall n, key_eqb (key_of_name n) k = false) ->
  lookup k (update_cmd cmd pl) = lookup k pl.
Proof.
  intros H. unfold update_cmd. revert pl. induction cmd as [|e r IH]; intros pl; cbn [fold_left]; [reflexivity|].
  rewrite IH. apply lookup_dset_other. apply H.
Qed.
Lemma lookup_clamp k pl r : key_eqb KMaxSamples k = false -> clamp pl = Ok r -> lookup k r = lookup k pl.
Proof.
  intros K. unfold clamp. destruct (lookup KMaxSamples pl) as [[]|]; try (intros H; inversion H; reflexivity);
  destruct (lookup KMaxShots pl) as [[]|]; try (intros H; inversion H; reflexivity).
  repeat match goal with [ o : option Z |- _ ] => destruct o end; try (intros H; discriminate H).
  match goal with |- context [(?y <? ?x)%Z] => destruct (y <? x)%Z end; intros H; inversion H; subst;
    [apply lookup_dset_other; exact K | reflexivity].
Qed.
Lemma name_not_params n : key_eqb (key_of_name n) KParams = false.
Proof. destruct n as [|[|n]]; reflexivity. Qed.
Lemma name_not_iter n : key_eqb (key_of_name n) KIterator = false.
Proof. destruct n as [|[|n]]; reflexivity. Qed.

Theorem exec_filter_is_current j f it args kw r :
  lookup KParams (j_pl j) <> None -> exec_payload j f it args kw = Ok r -> lookup KParams r = Some (VParams f).
Proof.
  intros P. unfold exec_payload. destruct (handle_params _ _ _ _ _); cbn [bind]; [|intros H; discriminate H].
  intros C. rewrite (lookup_clamp KParams _ _ eq_refl C). rewrite lookup_dset_other by reflexivity.
  rewrite lookup_update_cmd by apply name_not_params. unfold refresh.
  rewrite lookup_refresh1_other by reflexivity. apply lookup_refresh1_same. exact P.
Qed.

Theorem exec_iterator_is_current j f it args kw r :
  exec_payload j f it args kw = Ok r ->
  iter_of r = match lookup KIterator (j_pl j) with Some _ => it | None => [] end.
Proof.
  unfold exec_payload. destruct (handle_params _ _ _ _ _); cbn [bind]; [|intros H; discriminate H].
  intros C. unfold iter_of. rewrite (lookup_clamp KIterator _ _ eq_refl C). rewrite lookup_dset_other by reflexivity.
  rewrite lookup_update_cmd by apply name_not_iter. unfold refresh.
  destruct (lookup KIterator (j_pl j)) eqn:E.
  - rewrite lookup_refresh1_same; [reflexivity|]. rewrite lookup_refresh1_other by reflexivity. congruence.
  - rewrite lookup_refresh1_none; [|rewrite lookup_refresh1_other by reflexivity; exact E].
    rewrite lookup_refresh1_other by reflexivity. rewrite E. reflexivity.
Qed.

(* ------------------------------------------------------------------ job creation *)
Definition job_ok (pf : platform) (j : job) : Prop :=
  exists prim, select pf (j_method j) = Some (prim, j_conv j) /\
    describe (j_pl j) = view_of (j_built j) (meth_code prim) /\
    cons_ok pf (describe (j_pl j)) /\
    lookup KParams (j_pl j) <> None.

Lemma describe_dset k v pl : minor k = true -> key_eqb k KParams = false -> describe (dset k v pl) = describe pl.
Proof.
  intros M K. unfold describe.
  rewrite !lookup_dset_other by (first [exact K | destruct k; try discriminate M; reflexivity]). reflexivity.
Qed.

Lemma prepare_has_params pf p c pl : prepare pf p c = Ok pl -> lookup KParams pl <> None.
Proof.
  unfold prepare. destruct (p_filter p); [|intros H; discriminate H].
  destruct (check_circuit pf p); cbn [bind]; [|intros H; discriminate H].
  destruct (p_in p) as [st|].
  - destruct (check_input pf p _); cbn [bind]; [|intros H; discriminate H].
    intros H; inversion H; subst. cbn. discriminate.
  - cbn [bind]. intros H; inversion H; subst. cbn. discriminate.
Qed.

Theorem create_job_ok pf p shots its gen m j : create_job pf p shots its gen m = Ok j ->
  job_ok pf j /\ j_built j = p /\ j_method j = m /\ j_done j = false /\
  num_of KMaxShots (j_pl j) = Some (Some shots).
Proof.
  unfold create_job. destruct (negb (input_available p its)); [intros H; discriminate H|].
  destruct (select pf m) as [[prim conv]|] eqn:S; [|intros H; discriminate H].
  destruct (prepare pf p (meth_code prim)) as [pl|] eqn:P; cbn [bind]; [|intros H; discriminate H].
  intros H; inversion H; subst; clear H. cbn [j_pl j_built j_method j_done j_conv].
  assert (D : describe (dset KMaxShots (VNum (Some shots))
                 match its with [] => pl | _ :: _ => dset KIterator (VIter its) pl end) = describe pl).
  { rewrite describe_dset by reflexivity. destruct its; [reflexivity|]. apply describe_dset; reflexivity. }
  repeat split.
  - exists prim. cbn [j_pl j_built j_method j_done j_conv]. split; [exact S|]. rewrite D. split; [apply (prepare_describes _ _ _ _ P)|].
    split; [apply (prepare_enforces _ _ _ _ P)|].
    rewrite lookup_dset_other by reflexivity.
    destruct its; [|rewrite lookup_dset_other by reflexivity]; apply (prepare_has_params _ _ _ _ P).
  - unfold num_of. rewrite lookup_dset_same. reflexivity.
Qed.

(* ------------------------------------------------------------------ sessions *)
Definition req_ok (pf : platform) (jobs : list job) (rk : payload * nat) : Prop :=
  exists j prim, nth_error jobs (snd rk) = Some j /\ select pf (j_method j) = Some (prim, j_conv j) /\
    same_core (describe (fst rk)) (view_of (j_built j) (meth_code prim)) /\
    le_ok (fst rk) /\ cons_ok pf (describe (fst rk)).
Definition inv (s : sess) : Prop :=
  Forall (job_ok (s_pf s)) (s_jobs s) /\ Forall (req_ok (s_pf s) (s_jobs s)) (s_net s).

Lemma nth_error_set_nth_same {A} k (x : A) l y : nth_error l k = Some y -> nth_error (set_nth k x l) k = Some x.
Proof. revert k. induction l as [|a r IH]; intros [|k]; cbn; try discriminate; auto. Qed.
Lemma nth_error_set_nth_other {A} k k' (x : A) l : k <> k' -> nth_error (set_nth k x l) k' = nth_error l k'.
Proof.
  revert k k'. induction l as [|a r IH]; intros [|k] [|k'] H; cbn; try reflexivity; try congruence.
  apply IH. congruence.
Qed.
Lemma Forall_set_nth {A} (P : A -> Prop) k x l : P x -> Forall P l -> Forall P (set_nth k x l).
Proof.
  intros Px. revert k. induction l as [|a r IH]; intros k H; destruct k; cbn; auto;
  inversion H; subst; constructor; auto.
Qed.

Lemma job_ok_done pf j : job_ok pf j -> job_ok pf (mark_done j).
Proof. exact (fun H => H). Qed.

Lemma req_ok_app pf jobs j rk : req_ok pf jobs rk -> req_ok pf (jobs ++ [j]) rk.
Proof.
  intros (j0 & prim & N & R). exists j0, prim. split; [|exact R].
  rewrite nth_error_app1; [exact N|]. apply nth_error_Some. congruence.
Qed.
Lemma req_ok_done pf jobs k j rk : nth_error jobs k = Some j -> req_ok pf jobs rk ->
  req_ok pf (set_nth k (mark_done j) jobs) rk.
Proof.
  intros Nk (j0 & prim & N & R). destruct (Nat.eq_dec k (snd rk)) as [E|E].
  - subst k. exists (mark_done j), prim. split; [eapply nth_error_set_nth_same; exact Nk|].
    assert (j0 = j) by congruence. subst j0. exact R.
  - exists j0, prim. split; [rewrite nth_error_set_nth_other by exact E; exact N | exact R].
Qed.

Definition sent_obs (o : obs) : nat := match o with OSent | ORefused | OLost _ => 1 | _ => 0 end.
(* a request whose answer is lost has been registered: the remote job exists *)
Definition created_obs (o : obs) : nat := match o with OSent | OLost _ => 1 | _ => 0 end.
Definition is_exec (e : ev) : bool := match e with EExec _ _ _ _ => true | _ => false end.

Theorem step_inv s e : inv s -> inv (fst (step s e)) /\ s_pf (fst (step s e)) = s_pf s.
Proof.
  intros [J N]. destruct e as [o|it| |m|k args kw acc]; cbn [step].
  - destruct (apply_op (s_proc s) o); cbn; split; try reflexivity; split; assumption.
  - destruct (check_iteration _ _ _); cbn; split; try reflexivity; split; assumption.
  - cbn; split; try reflexivity; split; assumption.
  - destruct (create_job _ _ _ _ _ _) as [j|] eqn:C; cbn; [|split; [split; assumption | reflexivity]].
    split; [|reflexivity]. split.
    + apply Forall_app. split; [exact J|]. constructor; [|constructor].
      apply (create_job_ok _ _ _ _ _ _ _ C).
    + eapply Forall_impl; [|exact N]. intros rk. apply req_ok_app.
  - destruct (nth_error (s_jobs s) k) as [j|] eqn:Nk; [|cbn; split; [split; assumption | reflexivity]].
    destruct (j_done j); [cbn; split; [split; assumption | reflexivity]|].
    assert (Jk : job_ok (s_pf s) j).
    { rewrite Forall_forall in J. apply J. eapply nth_error_In. exact Nk. }
    destruct (exec_payload j _ _ args kw) as [r|] eqn:X; cbn; (split; [|reflexivity]); split.
    + apply Forall_set_nth; [apply job_ok_done; exact Jk | exact J].
    + apply Forall_app. split.
      * eapply Forall_impl; [|exact N]. intros rk. apply req_ok_done. exact Nk.
      * constructor; [|constructor]. destruct Jk as (prim & S & D & K & P).
        exists (mark_done j), prim. cbn [fst snd]. split; [eapply nth_error_set_nth_same; exact Nk|].
        split; [exact S|].
        assert (SC : same_core (describe r) (view_of (j_built j) (meth_code prim))).
        { rewrite <- D. apply describe_core. apply (exec_core _ _ _ _ _ _ X). }
        split; [exact SC|]. split; [apply (exec_le _ _ _ _ _ _ X)|].
        eapply cons_ok_same_core; [exact SC|]. rewrite <- D. exact K.
    + apply Forall_set_nth; [apply job_ok_done; exact Jk | exact J].
    + eapply Forall_impl; [|exact N]. intros rk. apply req_ok_done. exact Nk.
Qed.


Theorem step_counts s e :
  length (s_net (fst (step s e))) = length (s_net s) + sent_obs (snd (step s e)) /\
  s_created (fst (step s e)) = s_created s + created_obs (snd (step s e)) /\
  (is_exec e = false -> s_net (fst (step s e)) = s_net s /\ s_created (fst (step s e)) = s_created s).
Proof.
  destruct e as [o|it| |m|k args kw acc]; cbn [step is_exec].
  - destruct (apply_op (s_proc s) o); cbn; repeat split; lia.
  - destruct (check_iteration _ _ _); cbn; repeat split; lia.
  - cbn; repeat split; lia.
  - destruct (create_job _ _ _ _ _ _); cbn; repeat split; lia.
  - destruct (nth_error (s_jobs s) k) as [j|]; [|cbn; repeat split; try lia; intros H; discriminate H].
    destruct (j_done j); [cbn; repeat split; try lia; intros H; discriminate H|].
    destruct (exec_payload j _ _ args kw); [destruct acc as [|[|[|[|?]]]]|]; cbn; rewrite ?app_length; cbn;
      repeat split; try lia; intros H; discriminate H.
Qed.

(* one execution, whatever the server answers (accepts, refuses, or registers the request and loses the answer):
   at most one request reaches the server and at most one remote job exists afterwards *)
Theorem exec_at_most_one s k args kw answer :
  let s' := fst (step s (EExec k args kw answer)) in
  length (s_net s') <= S (length (s_net s)) /\ s_created s' <= S (s_created s) /\
  (s_created s' = S (s_created s) -> length (s_net s') = S (length (s_net s))).
Proof.
  cbn zeta. destruct (step_counts s (EExec k args kw answer)) as (A & B & _). rewrite A, B.
  destruct (snd (step s (EExec k args kw answer))); cbn; lia.
Qed.

(* whole histories *)
Fixpoint total (f : obs -> nat) (l : list obs) : nat := match l with [] => 0 | o :: r => f o + total f r end.

Theorem run_counts tr : forall s,
  length (s_net (fst (run s tr))) = length (s_net s) + total sent_obs (snd (run s tr)) /\
  s_created (fst (run s tr)) = s_created s + total created_obs (snd (run s tr)).
Proof.
  induction tr as [|e r IH]; intros s; cbn [run fst snd total]; [split; lia|].
  destruct (IH (fst (step s e))) as [A B]. destruct (step_counts s e) as (C & D & _).
  rewrite A, B, C, D. split; lia.
Qed.

Theorem run_inv tr : forall s, inv s -> inv (fst (run s tr)) /\ s_pf (fst (run s tr)) = s_pf s.
Proof.
  induction tr as [|e r IH]; intros s I; cbn [run fst]; [split; [exact I | reflexivity]|].
  destruct (step_inv s e I) as [I' P]. destruct (IH _ I') as [I2 P2]. split; [exact I2 | congruence].
Qed.

Lemma init_inv pf p shots s : init_sess pf p shots = Ok s ->
  inv s /\ s_pf s = pf /\ s_proc s = p /\ s_net s = [] /\ s_created s = 0 /\ (1 <= s_shots s)%Z.
Proof.
  unfold init_sess. destruct shots as [z|]; [|intros H; discriminate H].
  destruct (z =? 0)%Z; [intros H; discriminate H|]. destruct (z <? 1)%Z eqn:L; [intros H; discriminate H|].
  intros H; inversion H; subst; cbn. repeat split; try constructor. apply Z.ltb_ge in L. exact L.
Qed.

(* ------------------------------------------------------------------ local -> remote conversion *)
Lemma merge_nil st : forall k n, length st = n -> merge_in [] k n st = st.
Proof.
  induction st as [|x r IH]; intros k n L; subst n; cbn; [reflexivity|].
  rewrite IH by reflexivity. reflexivity.
Qed.

(* the mode relabelling: index in (modes of interest in increasing order, then heralds in their order) *)
Lemma index_of_map_notin x l r : ~ In x r -> map (fun k => index_of k (x :: l)) r = map (fun k => S (index_of k l)) r.
Proof.
  intros H. apply map_ext_in. intros a Ha. cbn [index_of].
  destruct (x =? a) eqn:E; [apply Nat.eqb_eq in E; subst; contradiction | reflexivity].
Qed.
Lemma index_of_nodup l : NoDup l -> map (fun k => index_of k l) l = seq 0 (length l).
Proof.
  induction 1 as [|x l Hx Hl IH]; [reflexivity|].
  cbn [map length seq]. f_equal.
  - cbn [index_of]. rewrite Nat.eqb_refl. reflexivity.
  - rewrite index_of_map_notin by exact Hx. rewrite <- seq_shift, <- IH, map_map. reflexivity.
Qed.

Theorem sigma_order lp : NoDup (mode_order lp) ->
  map (sigma lp) (mode_order lp) = seq 0 (length (mode_order lp)).
Proof. apply index_of_nodup. Qed.

Definition wf_her (p : proc) : Prop :=
  NoDup (map fst (p_her p)) /\ Forall (fun k => k < p_size p) (map fst (p_her p)).

Lemma is_her_in h k : is_her h k = true <-> In k (map fst h).
Proof.
  unfold is_her, her_find. induction h as [|[a v] r IH]; cbn; [split; [discriminate | tauto]|].
  destruct (a =? k) eqn:E.
  - apply Nat.eqb_eq in E. subst. split; auto.
  - apply Nat.eqb_neq in E. rewrite IH. split; [auto | intros [|]; [contradiction | assumption]].
Qed.

Lemma nodup_app {A} (a b : list A) : NoDup a -> NoDup b -> (forall x, In x a -> In x b -> False) -> NoDup (a ++ b).
Proof.
  induction 1 as [|x a Hx Ha IH]; intros Hb D; cbn; [exact Hb|].
  constructor.
  - rewrite in_app_iff. intros [H|H]; [contradiction | apply (D x); [left; reflexivity | exact H]].
  - apply IH; [exact Hb|]. intros y Hy. apply D. right. exact Hy.
Qed.

Theorem mode_order_perm lp : wf_her lp -> Permutation (mode_order lp) (seq 0 (p_size lp)).
Proof.
  intros [ND IN]. unfold mode_order. apply NoDup_Permutation.
  - apply nodup_app.
    + apply NoDup_filter. apply seq_NoDup.
    + exact ND.
    + intros x Hf Hh. apply filter_In in Hf. destruct Hf as [_ Hf].
      apply is_her_in in Hh. rewrite Hh in Hf. discriminate.
  - apply seq_NoDup.
  - intros x. rewrite in_app_iff, filter_In. split.
    + intros [[H _]|H]; [exact H|]. apply in_seq. rewrite Forall_forall in IN. specialize (IN _ H). lia.
    + intros H. destruct (is_her (p_her lp) x) eqn:E; [right; apply is_her_in; exact E | left; split; [exact H | reflexivity]].
Qed.

Corollary sigma_bijective lp : wf_her lp ->
  Permutation (map (sigma lp) (mode_order lp)) (seq 0 (p_size lp)) /\ length (mode_order lp) = p_size lp.
Proof.
  intros W. pose proof (mode_order_perm lp W) as P.
  assert (L : length (mode_order lp) = p_size lp) by (rewrite (Permutation_length P); apply seq_length).
  split; [|exact L]. rewrite sigma_order.
  - rewrite L. apply Permutation_refl.
  - eapply Permutation_NoDup; [apply Permutation_sym; exact P | apply seq_NoDup].
Qed.

Lemma moi_count lp : wf_her lp ->
  length (filter (fun k => negb (is_her (p_her lp) k)) (seq 0 (p_size lp))) = msize lp.
Proof.
  intros W. destruct (sigma_bijective lp W) as [_ L]. unfold mode_order in L.
  rewrite app_length, map_length in L. unfold msize. lia.
Qed.

(* what the conversion keeps (up to the relabelling sigma) *)
Definition converted (lp rp : proc) : Prop :=
  c_id (p_circ rp) = c_id (p_circ lp) /\ p_size rp = p_size lp /\
  c_lab (p_circ rp) = map (sigma lp) (c_lab (p_circ lp)) /\
  p_her rp = map (fun h => (sigma lp (fst h), snd h)) (p_her lp) /\
  p_ps rp = option_map (relabel_ps (sigma lp)) (p_ps lp) /\
  noise_sem (p_noise rp) = noise_sem (p_noise lp) /\
  p_filter rp = p_filter lp.

(* the code before repo commit 55925315 (historical configuration) *)
Theorem from_local_old_code_partial lp :
  msize lp <> 0 -> (forall st, p_in lp = Some st -> length st = p_size lp) ->
  p_her lp = [] \/ p_in lp = None ->
  exists rp, from_local_old_code lp = Ok rp /\ converted lp rp /\ p_in rp = p_in lp.
Proof.
  intros M L C. unfold from_local_old_code, from_local_gen. destruct (msize lp =? 0) eqn:E; [apply Nat.eqb_eq in E; contradiction|].
  destruct (p_in lp) as [st|] eqn:I.
  - destruct C as [H|H]; [|discriminate H].
    unfold apply_op. unfold msize, relabelled at 1 2. cbn [p_her p_size p_circ c_size]. rewrite H. cbn [map length].
    rewrite Nat.sub_0_r. rewrite (L st eq_refl), Nat.eqb_refl.
    eexists. split; [reflexivity|]. split.
    + unfold converted, relabelled, set_in; cbn. rewrite H. repeat split.
    + unfold relabelled, set_in; cbn. rewrite H. cbn. rewrite merge_nil; [reflexivity | apply (L st eq_refl)].
  - eexists. split; [reflexivity|]. split; [|reflexivity].
    unfold converted, relabelled; cbn. repeat split.
Qed.

(* The full statement (from_local_preserves below, proved for the current code) was false of the code before the
   repair: *)
Theorem from_local_old_code_refuted :
  exists lp, wf_her lp /\ msize lp <> 0 /\ (forall st, p_in lp = Some st -> length st = p_size lp) /\
    from_local_old_code lp = Err XAssert 1.
Proof.
  exists (mkproc (mkcirc 0 4 [0; 1; 2; 3] []) [] [] [(3, 1)] (Some [1; 0; 0; 1]) None None (Some 1) [[(0, Some 1%Z)]]).
  split; [split; [repeat constructor; intros []; contradiction | repeat constructor]|].
  split; [cbn; discriminate|]. split; [intros st H; inversion H; reflexivity|]. vm_compute. reflexivity.
Qed.

(* without heralds the relabelling is the identity *)
Lemma index_of_seq k a n : a <= k < a + n -> index_of k (seq a n) = k - a.
Proof.
  revert a. induction n as [|n IH]; intros a H; [lia|]. cbn [seq index_of].
  destruct (a =? k) eqn:E; [apply Nat.eqb_eq in E; lia|]. apply Nat.eqb_neq in E.
  rewrite IH by lia. lia.
Qed.
Theorem sigma_id_without_heralds lp k : p_her lp = [] -> k < p_size lp -> sigma lp k = k.
Proof.
  intros H K. unfold sigma, mode_order. rewrite H. cbn [map]. rewrite app_nil_r.
  rewrite (proj2 (filter_ext_in_iff _ (fun _ => true) _)).
  - assert (F : forall l : list nat, filter (fun _ => true) l = l) by (induction l; cbn; congruence).
    rewrite F. rewrite index_of_seq by lia. lia.
  - intros a _. reflexivity.
Qed.

(* ------------------------------------------------------------------ with_input stores the FULL state *)
Lemma her_find_is_her h k : is_her h k = match her_find h k with Some _ => true | None => false end.
Proof. reflexivity. Qed.

Lemma remove_merge h : forall n k st,
  length st = length (filter (fun i => negb (is_her h i)) (seq k n)) ->
  remove_her h k (merge_in h k n st) = st /\ length (merge_in h k n st) = n.
Proof.
  induction n as [|n IH]; intros k st L; cbn [seq filter merge_in] in *.
  - destruct st; [split; reflexivity | discriminate L].
  - rewrite her_find_is_her in L. destruct (her_find h k) as [v|] eqn:E; cbn [negb] in L.
    + cbn [remove_her length]. rewrite her_find_is_her, E. destruct (IH (S k) st L) as [A B]. rewrite A, B. split; reflexivity.
    + destruct st as [|x r]; [discriminate L|]. cbn [length] in L. injection L as L.
      cbn [remove_her length]. rewrite her_find_is_her, E. destruct (IH (S k) r L) as [A B]. rewrite A, B. split; reflexivity.
Qed.

Lemma merge_herald h : forall n k st j v, k <= j < k + n -> her_find h j = Some v ->
  nth (j - k) (merge_in h k n st) 0 = v.
Proof.
  induction n as [|n IH]; intros k st j v R F; [lia|]. cbn [merge_in].
  destruct (Nat.eq_dec j k) as [->|N].
  - rewrite F, Nat.sub_diag. reflexivity.
  - assert (J : j - k = S (j - S k)) by lia. rewrite J.
    destruct (her_find h k); [|destruct st]; cbn [nth]; apply IH; try lia; exact F.
Qed.

Theorem with_input_full p st p' : wf_her p -> apply_op p (OInput st) = Ok p' ->
  exists full, p_in p' = Some full /\ length full = p_size p /\
    remove_her (p_her p) 0 full = st /\
    (forall j v, j < p_size p -> her_find (p_her p) j = Some v -> nth j full 0 = v) /\
    p_her p' = p_her p.
Proof.
  intros W. cbn [apply_op]. destruct (length st =? msize p) eqn:E; [|intros H; discriminate H].
  apply Nat.eqb_eq in E. intros H; inversion H; subst; clear H. cbn.
  eexists. split; [reflexivity|].
  destruct (remove_merge (p_her p) (p_size p) 0 st) as [A B]; [rewrite moi_count by exact W; exact E|].
  split; [exact B|]. split; [exact A|]. split; [|reflexivity].
  intros j v J F. pose proof (merge_herald (p_her p) (p_size p) 0 st j v) as M.
  rewrite Nat.sub_0_r in M. apply M; [lia | exact F].
Qed.

(* ------------------------------------------------------------------ argument routing *)
Lemma dhas_ddel_other k0 k kw : k0 <> k -> dhas (ddel k0 kw) k = dhas kw k.
Proof.
  intros N. unfold dhas, ddel. induction kw as [|[a v] r IH]; cbn; [reflexivity|].
  destruct (a =? k0) eqn:E; cbn.
  - apply Nat.eqb_eq in E. subst. rewrite IH. destruct (k0 =? k) eqn:F; [apply Nat.eqb_eq in F; contradiction | reflexivity].
  - rewrite IH. reflexivity.
Qed.
Lemma dget_ddel_other k0 k kw : k0 <> k -> dget (ddel k0 kw) k = dget kw k.
Proof.
  intros N. unfold dget, ddel. induction kw as [|[a v] r IH]; cbn; [reflexivity|].
  destruct (a =? k0) eqn:E; cbn.
  - apply Nat.eqb_eq in E. subst. destruct (k0 =? k) eqn:F; [apply Nat.eqb_eq in F; contradiction | exact IH].
  - destruct (a =? k); [reflexivity | exact IH].
Qed.

Lemma fill_spec d : forall kw k, dhas kw k = true ->
  (dhas (snd (fill d kw)) k = true /\ dget (snd (fill d kw)) k = dget kw k) \/ In (k, dget kw k) (fst (fill d kw)).
Proof.
  induction d as [|[k0 v] r IH]; intros kw k H; cbn [fill]; [left; split; [exact H | reflexivity]|].
  destruct v as [z|].
  - cbn [fst snd]. destruct (IH kw k H) as [L|R]; [left; exact L | right; right; exact R].
  - destruct (dhas kw k0) eqn:E; cbn [fst snd].
    + destruct (Nat.eq_dec k0 k) as [->|N]; [right; left; reflexivity|].
      assert (H' : dhas (ddel k0 kw) k = true) by (rewrite dhas_ddel_other by exact N; exact H).
      destruct (IH (ddel k0 kw) k H') as [[A B]|R].
      * left. split; [exact A | rewrite B; apply dget_ddel_other; exact N].
      * right. right. rewrite <- (dget_ddel_other k0 k kw N). exact R.
    + destruct (IH kw k H) as [L|R]; [left; exact L | right; right; exact R].
Qed.

(* an accepted call: every keyword argument is stored, with its value, in the command or in the mapping;
   equivalently a keyword that fits nowhere makes the call fail (RuntimeError 'Unused parameters') *)
Theorem keywords_routed names cmd mapp args kw cmd' map' :
  handle_params names cmd mapp args kw = Ok (cmd', map') ->
  forall k, dhas kw k = true -> In (k, dget kw k) cmd' \/ In (k, dget kw k) map'.
Proof.
  unfold handle_params. destruct (positional names _ kw cmd) as [cmd1|]; cbn [bind]; [|intros H; discriminate H].
  destruct (snd (fill (snd _) (snd (fill cmd1 kw)))) eqn:E; [|intros H; discriminate H].
  intros H; inversion H; subst; clear H. intros k K.
  destruct (fill_spec cmd1 kw k K) as [[A B]|R]; [|left; exact R].
  right.
  match type of E with snd (fill ?d ?q) = [] => destruct (fill_spec d q k A) as [[A2 _]|R2] end.
  - rewrite E in A2. discriminate A2.
  - rewrite B in R2. exact R2.
Qed.

(* more positional arguments than names + 1 are refused, a name given both ways is refused *)
Theorem positional_overflow names cmd mapp args kw :
  S (length names) < length args -> exists e w, handle_params names cmd mapp args kw = Err e w.
Proof.
  intros L. unfold handle_params.
  assert (X : length names <? length args = true) by (apply Nat.ltb_lt; lia). rewrite X. cbn [fst snd].
  assert (P : forall ns a c, length ns < length a -> exists e w, positional ns a kw c = Err e w).
  { induction ns as [|n ns IH]; intros a c La; destruct a as [|x a]; cbn in La; try lia; cbn [positional].
    - eauto.
    - destruct (dhas kw n); [eauto | apply IH; lia]. }
  destruct (P names (removelast args) cmd) as (e & w & Q).
  { destruct args as [|x a]; [cbn in L; lia|]. pose proof (@app_removelast_last _ (x :: a) None) as R.
    assert (x :: a <> []) by discriminate. specialize (R H). apply (f_equal (@length _)) in R.
    rewrite app_length in R. cbn [length] in R, L |- *. lia. }
  rewrite Q. cbn [bind]. eauto.
Qed.

(* the request tells the server how to turn the primitive's result into what the user asked for *)
Lemma job_ctx_conv conv mp :
  match job_ctx conv mp with Some c => cx_conv c | None => None end =
  option_map (fun c => (meth_code (fst c), meth_code (snd c))) conv.
Proof. unfold job_ctx. destruct mp, conv; reflexivity. Qed.

Theorem exec_ctx j f it args kw r : exec_payload j f it args kw = Ok r ->
  exists cm, handle_params (j_names j) (j_cmd j) (j_map j) args kw = Ok cm /\
    ctx_of r = job_ctx (j_conv j) (snd cm).
Proof.
  unfold exec_payload. destruct (handle_params _ _ _ _ _) as [cm|]; cbn [bind]; [|intros H; discriminate H].
  intros C. exists cm. split; [reflexivity|]. unfold ctx_of.
  rewrite (lookup_clamp KJobContext _ _ eq_refl C). rewrite lookup_dset_same. reflexivity.
Qed.

(* ------------------------------------------------------------------ conversion, current code: the full statement *)
Lemma remove_her_length h : forall st k,
  length (remove_her h k st) = length (filter (fun i => negb (is_her h i)) (seq k (length st))).
Proof.
  induction st as [|x r IH]; intros k; cbn [remove_her length seq filter]; [reflexivity|].
  destruct (is_her h k); cbn [negb length]; rewrite IH; reflexivity.
Qed.

Lemma index_of_lt k l : In k l -> index_of k l < length l.
Proof.
  induction l as [|x r IH]; intros H; [contradiction|]. cbn [index_of length].
  destruct (x =? k) eqn:E; [lia|]. apply Nat.eqb_neq in E. destruct H as [H|H]; [contradiction|].
  specialize (IH H). lia.
Qed.
Lemma index_of_inj a b l : In a l -> In b l -> index_of a l = index_of b l -> a = b.
Proof.
  induction l as [|x r IH]; intros Ha Hb; [contradiction|]. cbn [index_of].
  destruct (x =? a) eqn:Ea, (x =? b) eqn:Eb; intros E.
  - apply Nat.eqb_eq in Ea, Eb. congruence.
  - discriminate E.
  - discriminate E.
  - apply Nat.eqb_neq in Ea, Eb. destruct Ha as [|Ha]; [contradiction|]. destruct Hb as [|Hb]; [contradiction|].
    apply IH; [exact Ha | exact Hb | congruence].
Qed.

Lemma herald_in_order lp k : In k (map fst (p_her lp)) -> In k (mode_order lp).
Proof. intros H. unfold mode_order. apply in_or_app. right. exact H. Qed.

Lemma her_find_relabelled lp : forall r k v,
  (forall a, In a (map fst r) -> In a (mode_order lp)) -> In k (mode_order lp) ->
  her_find r k = Some v ->
  her_find (map (fun h => (sigma lp (fst h), snd h)) r) (sigma lp k) = Some v.
Proof.
  unfold her_find. induction r as [|[a x] r IH]; intros k v Hr Hk; cbn [find map fst snd]; [intros H; discriminate H|].
  destruct (a =? k) eqn:E.
  - apply Nat.eqb_eq in E. subst. rewrite Nat.eqb_refl. trivial.
  - apply Nat.eqb_neq in E. destruct (sigma lp a =? sigma lp k) eqn:F.
    + apply Nat.eqb_eq in F. exfalso. apply E. unfold sigma in F.
      apply (index_of_inj a k (mode_order lp)); [apply Hr; left; reflexivity | exact Hk | exact F].
    + apply IH; [intros b Hb; apply Hr; right; exact Hb | exact Hk].
Qed.

Lemma nodup_app_r {A} (a b : list A) : NoDup (a ++ b) -> NoDup b.
Proof. induction a as [|x a IH]; cbn; intros H; [exact H|]. inversion H; subst. apply IH. assumption. Qed.

Lemma relabelled_wf lp : wf_her lp -> wf_her (relabelled lp).
Proof.
  intros W. destruct (sigma_bijective lp W) as [_ L].
  assert (ND : NoDup (mode_order lp)).
  { eapply Permutation_NoDup; [apply Permutation_sym; apply mode_order_perm; exact W | apply seq_NoDup]. }
  pose proof (sigma_order lp ND) as S.
  unfold wf_her, relabelled; cbn [p_her p_size p_circ c_size]. rewrite map_map. cbn [fst].
  rewrite <- (map_map fst (sigma lp)). split.
  - unfold mode_order in S at 1. rewrite map_app in S.
    assert (N : NoDup (map (sigma lp) (filter (fun k => negb (is_her (p_her lp) k)) (seq 0 (p_size lp))) ++
                       map (sigma lp) (map fst (p_her lp)))) by (rewrite S; apply seq_NoDup).
    apply nodup_app_r in N. exact N.
  - apply Forall_forall. intros y Hy. apply in_map_iff in Hy. destruct Hy as (k & <- & Hk).
    unfold sigma. rewrite <- L. apply index_of_lt. apply herald_in_order. exact Hk.
Qed.

Theorem from_local_preserves lp :
  wf_her lp -> msize lp <> 0 -> (forall st, p_in lp = Some st -> length st = p_size lp) ->
  exists rp, from_local lp = Ok rp /\ converted lp rp /\
    match p_in lp with
    | None => p_in rp = None
    | Some st => exists full, p_in rp = Some full /\ length full = p_size lp /\
        remove_her (p_her rp) 0 full = remove_her (p_her lp) 0 st /\
        (forall k v, her_find (p_her lp) k = Some v -> nth (sigma lp k) full 0 = v)
    end.
Proof.
  intros W M L. unfold from_local, from_local_gen.
  destruct (msize lp =? 0) eqn:E; [apply Nat.eqb_eq in E; contradiction|].
  destruct (p_in lp) as [st|] eqn:I.
  2:{ eexists. split; [reflexivity|]. split; [|reflexivity]. unfold converted, relabelled; cbn. repeat split. }
  set (rl := relabelled lp). set (st' := remove_her (p_her lp) 0 st).
  assert (Ms : msize rl = msize lp).
  { unfold msize, rl, relabelled; cbn [p_her p_size p_circ c_size]. rewrite map_length. reflexivity. }
  assert (Ls : length st' = msize rl).
  { rewrite Ms. unfold st'. rewrite remove_her_length, (L st eq_refl). apply moi_count. exact W. }
  assert (X : apply_op rl (OInput st') = Ok (set_in rl (Some (merge_in (p_her rl) 0 (p_size rl) st')))).
  { cbn [apply_op]. rewrite Ls, Nat.eqb_refl. reflexivity. }
  rewrite X. eexists. split; [reflexivity|]. split.
  { unfold converted, set_in, rl, relabelled; cbn. repeat split. }
  destruct (with_input_full rl st' _ (relabelled_wf lp W) X) as (full & F1 & F2 & F3 & F4 & F5).
  exists full. split; [exact F1|]. split; [exact F2|]. split.
  { cbn [p_her set_in]. exact F3. }
  intros k v H. destruct (sigma_bijective lp W) as [_ Lm].
  assert (Hk : In k (mode_order lp)).
  { apply herald_in_order. apply is_her_in. unfold is_her. rewrite H. reflexivity. }
  apply F4.
  - change (p_size rl) with (p_size lp). unfold sigma. rewrite <- Lm. apply index_of_lt. exact Hk.
  - unfold rl, relabelled; cbn [p_her]. apply her_find_relabelled; [intros a Ha; apply herald_in_order; exact Ha | exact Hk | exact H].
Qed.

(* ------------------------------------------------------------------ parameter values between two jobs *)
Theorem job_circuit_is_current pf p shots its gen m j : create_job pf p shots its gen m = Ok j ->
  v_circ (describe (j_pl j)) = Some (p_circ p).
Proof.
  intros C. destruct (create_job_ok _ _ _ _ _ _ _ C) as ((prim & _ & D & _) & B & _).
  rewrite D, B. reflexivity.
Qed.

Theorem job_after_set_value pf p n v p' shots its gen m j :
  apply_op p (OParam n v) = Ok p' -> create_job pf p' shots its gen m = Ok j ->
  exists c, v_circ (describe (j_pl j)) = Some c /\ c_id c = c_id (p_circ p) /\ c_lab c = c_lab (p_circ p) /\
    c_vals c = vput n v (c_vals (p_circ p)).
Proof.
  cbn [apply_op]. destruct (existsb (Nat.eqb n) (p_pnames p)); [|intros H; discriminate H].
  intros H; inversion H; subst; clear H. intros C. rewrite (job_circuit_is_current _ _ _ _ _ _ _ C).
  eexists. split; [reflexivity|]. cbn. repeat split.
Qed.

(* ------------------------------------------------------------------ the filter, whatever route set it *)
Theorem request_filter_is_processor_filter pf p c pl : prepare pf p c = Ok pl ->
  exists d, lookup KParams pl = Some (VParams d) /\ dget d 0 = zf (p_filter p) /\
    v_filter (describe pl) = p_filter p.
Proof.
  intros H. pose proof (prepare_describes _ _ _ _ H) as D. revert H. unfold prepare.
  destruct (p_filter p) eqn:F; [|intros H; discriminate H].
  destruct (check_circuit pf p); cbn [bind]; [|intros H; discriminate H].
  assert (G : dget (cur_params (sync p)) 0 = zf (p_filter p)).
  { unfold sync. rewrite cur_params_upd, dget_dput_same. reflexivity. }
  destruct (p_in p) as [st|].
  - destruct (check_input pf p _); cbn [bind]; [|intros H; discriminate H].
    intros H; inversion H; subst; clear H. eexists. split; [reflexivity|]. split; [rewrite <- F; exact G|].
    rewrite D. exact F.
  - cbn [bind]. intros H; inversion H; subst; clear H. eexists. split; [reflexivity|]. split; [rewrite <- F; exact G|].
    rewrite D. exact F.
Qed.

Lemma nth_snoc_last {A} (l : list A) x d : nth (length l - 1) (removelast l ++ [x]) d = x.
Proof.
  destruct l as [|a r]; [reflexivity|].
  assert (L : length (removelast (a :: r)) = length (a :: r) - 1).
  { assert (N : a :: r <> []) by discriminate. pose proof (app_removelast_last a N) as E.
    apply (f_equal (@length A)) in E. rewrite app_length in E. cbn [length] in E |- *. lia. }
  rewrite <- L. rewrite app_nth2 by lia. rewrite Nat.sub_diag. reflexivity.
Qed.

(* a job executed as created: the request carries the filter the processor reported when the job was created,
   whether it got there through the setter, a LogicalState default, the experiment object, an assigned experiment,
   or after clear_parameters *)
Theorem fresh_job_filter pf p shots its gen m j it args kw r :
  create_job pf p shots its gen m = Ok j ->
  exec_payload j (nth (j_pgen j) (p_pdicts (job_sync pf p its m)) []) it args kw = Ok r ->
  v_filter (describe r) = p_filter p.
Proof.
  intros C X. pose proof (create_job_ok _ _ _ _ _ _ _ C) as ((prim & _ & _ & _ & P) & _).
  revert C. unfold create_job, job_sync in *.
  destruct (input_available p its); cbn [negb]; [|intros H; discriminate H].
  destruct (select pf m) as [[prim' conv]|]; [|intros H; discriminate H].
  destruct (prepare pf p (meth_code prim')) as [pl|] eqn:Q; cbn [bind]; [|intros H; discriminate H].
  assert (F : p_filter p <> None).
  { unfold prepare in Q. destruct (p_filter p); [discriminate | discriminate Q]. }
  destruct (p_filter p) as [n|] eqn:Fn; [|congruence].
  intros H; inversion H; subst; clear H. cbn [j_pgen] in X.
  assert (E : nth (length (p_pdicts p) - 1) (p_pdicts (sync p)) [] = cur_params (sync p)).
  { unfold sync at 1, upd_params, set_pdicts; cbn [p_pdicts]. rewrite nth_snoc_last.
    unfold sync. rewrite cur_params_upd. reflexivity. }
  rewrite E in X. pose proof (exec_filter_is_current _ _ _ _ _ _ P X) as K.
  unfold describe; cbn [v_filter]. rewrite K. rewrite filter_sync. exact Fn.
Qed.
