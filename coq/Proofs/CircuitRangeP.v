(* C01: Circuit.add given an explicit range of modes accepts exactly the consecutive ascending ranges. *)
From Coq Require Import ZArith List Bool Lia.
From PV Require Import Model.CircuitX.
Import ListNotations.

Lemma zlist_eqb_eq a : forall b, zlist_eqb a b = true <-> a = b.
Proof.
  induction a as [|x a IH]; intros [|y b]; cbn [zlist_eqb]; split; intro H; try reflexivity; try discriminate.
  - apply andb_true_iff in H. destruct H as [H1 H2]. apply Z.eqb_eq in H1. apply IH in H2. subst. reflexivity.
  - injection H as H1 H2. subst. apply andb_true_iff. split. apply Z.eqb_refl. apply IH. reflexivity.
Qed.

(* accepted with offset o  <->  the range is literally o, o+1, ..., o+k-1 (k >= 1: a component has at least one mode) *)
Theorem range_off_spec r k o : (0 < k)%nat ->
  (range_off r k = Some o <-> r = map Z.of_nat (seq o k)).
Proof.
  intros Hk. unfold range_off. split.
  - destruct r as [|z r']; [discriminate|].
    destruct (0 <=? z)%Z eqn:Hz; cbn [andb]; [|discriminate].
    destruct (zlist_eqb (z :: r') (map Z.of_nat (seq (Z.to_nat z) k))) eqn:He; [|discriminate].
    intro H. injection H as H. subst o. apply zlist_eqb_eq in He. exact He.
  - intro H. subst r. destruct k as [|k']; [lia|].
    change (map Z.of_nat (seq o (S k'))) with (Z.of_nat o :: map Z.of_nat (seq (S o) k')).
    cbv beta iota.
    assert (Hz : (0 <=? Z.of_nat o)%Z = true) by (apply Z.leb_le; lia). rewrite Hz. cbn [andb].
    rewrite Nat2Z.id.
    replace (zlist_eqb (Z.of_nat o :: map Z.of_nat (seq (S o) k')) (map Z.of_nat (seq o (S k')))) with true.
    reflexivity. symmetry. apply zlist_eqb_eq. reflexivity.
Qed.

(* every other shape is refused: permuted, repeated, gapped, of the wrong length, negative, empty *)
Corollary range_off_refuses r k : (0 < k)%nat ->
  (forall o, r <> map Z.of_nat (seq o k)) -> range_off r k = None.
Proof.
  intros Hk H. destruct (range_off r k) as [o|] eqn:E; [|reflexivity].
  apply range_off_spec in E; [|exact Hk]. exfalso. exact (H o E).
Qed.

Example range_off_examples :
  range_off [1; 2; 3]%Z 3 = Some 1%nat /\ range_off [0; 2; 1; 3]%Z 4 = None /\ range_off [1; 1; 3]%Z 3 = None /\
  range_off [1; 3]%Z 2 = None /\ range_off [1; 2]%Z 3 = None /\ range_off [(-1); 0]%Z 2 = None /\ range_off [] 1 = None.
Proof. repeat split; reflexivity. Qed.
