(* C11: concrete witnesses over the Gaussian rationals (vm_compute): where the faithful models violate the
   statement, and satisfiability of the hypotheses of the positive theorems. *)
From PV Require Import Model.Transform Model.Simplify Model.TransformX Proofs.CircuitP Proofs.ComponentsP
  Proofs.TransformP Proofs.FlattenP Proofs.BubbleP Proofs.SimplifyP.
From Coq Require Import Permutation.
Local Open Scope nat_scope.

Definition q (a b : Z) (d : positive) : QI := mkqi (Q2Qc (a # d)) (Q2Qc (b # d)).
Definition c35 : QI := q 3 0 5.
Definition s45 : QI := q 4 0 5.
Definition ph : QI := q 3 4 5.     (* exp(i phi), cos phi = 3/5 *)
Definition one : QI := k1.

Lemma qi_dec (a b : QI) : qi_eqb a b = true -> a = b. Proof. apply qi_eqb_eq. Qed.

(* a legal beam splitter: c, s real with c^2 + s^2 = 1, unit phases, phi_tl <> 0 only *)
Lemma witness_legal : kmul qII qII = kopp (k1 : QI) /\ kconj qII = kopp qII /\
  kconj c35 = c35 /\ kconj s45 = s45 /\ kmul c35 c35 = ksub k1 (kmul s45 s45) /\
  kmul ph (kconj ph) = k1 /\ kmul one (kconj one) = k1.
Proof. repeat split; apply qi_dec; vm_compute; reflexivity. Qed.

Lemma not_meq_by_meqb n (A B : mat QI) : meqb n A B = false -> ~ meq n A B.
Proof. intros H HA. apply meqb_sound in HA. congruence. Qed.

(* HISTORICAL code. BS.inverse(h=True) before db5cda2f: not the adjoint for phi_tl <> 0 = other phases (all three conventions) *)
Theorem bs_inverse_h_refuted : forall cv,
  ~ meq 2 (leafm qII (bs_inverse false false false cv false true c35 s45 ph one one one))
          (expected false true 2 (bs_mat cv qII c35 s45 ph one one one)).
Proof. intros cv. apply not_meq_by_meqb. destruct cv; vm_compute; reflexivity. Qed.
(* HISTORICAL code. BS.inverse(v=True) before db5cda2f: not J U J *)
Theorem bs_inverse_v_refuted : forall cv,
  ~ meq 2 (leafm qII (bs_inverse false false false cv true false c35 s45 ph one one one))
          (expected true false 2 (bs_mat cv qII c35 s45 ph one one one)).
Proof. intros cv. apply not_meq_by_meqb. destruct cv; vm_compute; reflexivity. Qed.
(* HISTORICAL code. BS.Ry.inverse(v=True, h=True) before db5cda2f: wrong even with all phases zero *)
Theorem bs_inverse_vh_ry_refuted :
  ~ meq 2 (leafm qII (bs_inverse false false false Ry true true c35 s45 one one one one))
          (expected true true 2 (bs_mat Ry qII c35 s45 one one one one)).
Proof. apply not_meq_by_meqb. vm_compute. reflexivity. Qed.

(* HISTORICAL code. Experiment.flatten before 47d2b926: a circuit at offset 1 that nests a circuit at offset 1 *)
Definition swap2 : tcomp QI := TSub 2 [(0, TLeaf (LPERM [1; 0]))].
Definition nest_items : list (nat * tcomp QI) := [(1, TSub 3 [(1, swap2)])].
Lemma nest_fits : fits QI qII 4 nest_items.
Proof. simpl. unfold twf. simpl. repeat split; lia. Qed.
Theorem flatten_refuted : fits QI qII 4 nest_items /\
  ~ meq 4 (emat qII 4 (exp_flatten false None nest_items)) (emat qII 4 nest_items).
Proof. split. exact nest_fits. apply not_meq_by_meqb. vm_compute. reflexivity. Qed.
Example flatten_partial_hyp : okF_top QI [(0, TSub 3 [(1, swap2)])] /\ Forall (fun ot => shallow QI (snd ot)) [(1, swap2)].
Proof. split. simpl. tauto. repeat constructor. Qed.

(* _update_adjacent BEFORE its repair: after components on (2,3) then (1,2), mode 3 belongs to no group *)
Theorem update_adjacent_refuted :
  let groups := fold_left update_adjacent_old [[2; 3]; [1; 2]] (map (fun j => [j]) (seq 0 4)) in
  ~ (forall k, k < 4 -> exists g, In g groups /\ In k g).
Proof. vm_compute. intros H. destruct (H 3) as [g [Hg Hk]]. lia.
  destruct Hg as [<- | [<- | []]]; simpl in Hk; intuition lia. Qed.
Theorem update_adjacent_now_witness :
  fold_left update_adjacent [[2; 3]; [1; 2]] (map (fun j => [j]) (seq 0 4)) = [[0]; [1; 2; 3]].
Proof. vm_compute. reflexivity. Qed.

(* hypotheses of the positive theorems are satisfiable *)
Example is_perm_ex : is_perm [2; 0; 1].
Proof. unfold is_perm. simpl. apply Permutation_sym. apply perm_trans with [1; 2; 0].
  - apply perm_trans with [1; 0; 2]. apply perm_swap. apply perm_skip. apply perm_swap.
  - apply perm_trans with [2; 1; 0]. apply perm_swap. apply perm_skip. apply perm_swap. Qed.
Example bij_ex : bij_on 3 (fun k => nth k [2; 0; 1] k) (fun k => nth k [1; 2; 0] k).
Proof. split; intros k Hk; destruct k as [|[|[|k]]]; simpl; split; lia. Qed.
Example leaf_sym_ex : leaf_sym QI true true (LBS Rx c35 s45 ph ph ph ph) /\ leaf_real QI (LBS Rx c35 s45 ph ph ph ph).
Proof. repeat split; try discriminate; apply qi_dec; vm_compute; reflexivity. Qed.
