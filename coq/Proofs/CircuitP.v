From PV Require Import Model.Circuit.
From Coq Require Import Setoid Morphisms.

Section CircuitP.
Variable R : cring.
Notation comp := (comp R).
Notation mat := (mat R).

Lemma comp_ind' (P : comp -> Prop) :
  (forall k U, P (Leaf k U)) ->
  (forall m items, Forall (fun p => P (snd p)) items -> P (Sub m items)) -> forall c, P c.
Proof. intros HL HS. fix IH 1. intros [k U | m items]. apply HL. apply HS.
  induction items as [|[o c] r IHr]; constructor. simpl. apply IH. exact IHr. Qed.

Definition E (oc : nat * comp) : mat := embed (fst oc) (width (snd oc)) (cmat (snd oc)).

Lemma cmat_Sub m items : meq m (cmat (Sub m items)) (oprod m (map E items)).
Proof. simpl. rewrite oprodx_eq. erewrite map_ext. reflexivity. intros [o c]. reflexivity. Qed.

Lemma oprod_ext M (l l' : list mat) : Forall2 (meq M) l l' -> meq M (oprod M l) (oprod M l').
Proof. induction 1; simpl. reflexivity. rewrite IHForall2, H. reflexivity. Qed.
Lemma oprod_single M (A : mat) : meq M (oprod M [A]) A.
Proof. simpl. apply mmul_id_l. Qed.

Lemma embed_oprod M off k (l : list mat) : (off + k <= M)%nat ->
  meq M (embed off k (oprod k l)) (oprod M (map (embed off k) l)).
Proof. intros H. induction l as [|A r IH]; simpl. apply embed_id.
  rewrite <- IH. rewrite embed_mul by exact H. reflexivity. Qed.

(* wf unfolded over the item list *)
Fixpoint wf_items (m : nat) (l : list (nat * comp)) : Prop :=
  match l with [] => True | (off, c') :: r => ((off + width c' <= m)%nat /\ wf c') /\ wf_items m r end.
Lemma wf_Sub m items : wf (Sub m items) <-> (0 < m)%nat /\ wf_items m items.
Proof. simpl. split; intros [H1 H2]; split; auto; clear H1;
  induction items as [|[o c] r IH]; simpl in *; intuition. Qed.
Lemma wf_items_app m l1 l2 : wf_items m (l1 ++ l2) <-> wf_items m l1 /\ wf_items m l2.
Proof. induction l1 as [|[o c] r IH]; simpl. tauto. rewrite IH. tauto. Qed.

(* C01, first clause: the reported matrix is the ordered product of the leaves' own matrices, each
   embedded at exactly its absolute range — any nesting depth, any offsets, any mode count *)
Theorem cmat_flatten_gen (c : comp) : wf c -> forall off M, (off + width c <= M)%nat ->
  meq M (embed off (width c) (cmat c)) (oprod M (leaf_mats M (flatten off c))).
Proof.
  induction c as [k U | m items IH] using comp_ind'; intros Hwf off M HM.
  - simpl. rewrite mmul_id_l. reflexivity.
  - apply wf_Sub in Hwf. destruct Hwf as [Hm Hit]. simpl width in *.
    rewrite (embed_ext R M off m _ _ (cmat_Sub m items)).
    rewrite embed_oprod by exact HM. simpl flatten.
    clear Hm. induction items as [|[o c'] r IHr].
    + simpl. reflexivity.
    + simpl in Hit. destruct Hit as [[Ho Hc'] Hr]. inversion IH as [|? ? Hhd Htl]; subst.
      simpl. unfold leaf_mats. rewrite map_app. fold (leaf_mats M (flatten (off + o) c')).
      rewrite oprod_app. rewrite <- (IHr Htl Hr).
      unfold E at 2. simpl fst. simpl snd. rewrite embed_embed by exact Ho.
      simpl in Hhd. rewrite (Hhd Hc' (off + o)%nat M) by lia. reflexivity.
Qed.

Theorem cmat_flatten (c : comp) : wf c ->
  meq (width c) (cmat c) (oprod (width c) (leaf_mats (width c) (flatten 0 c))).
Proof. intros H. rewrite <- (cmat_flatten_gen c H 0 (width c)) by lia. symmetry. apply embed_full. Qed.

(* every leaf carries a unitary matrix *)
Fixpoint leaves_unitary (c : comp) : Prop :=
  match c with
  | Leaf k U => unitary k U
  | Sub m items => (fix all (l : list (nat * comp)) : Prop :=
      match l with [] => True | (_, c') :: r => leaves_unitary c' /\ all r end) items
  end.

Theorem cmat_unitary (c : comp) : wf c -> leaves_unitary c -> unitary (width c) (cmat c).
Proof.
  induction c as [k U | m items IH] using comp_ind'; intros Hwf Hu.
  - exact Hu.
  - apply wf_Sub in Hwf. destruct Hwf as [Hm Hit]. simpl width.
    rewrite (cmat_Sub m items). apply oprod_unitary. clear Hm.
    induction items as [|[o c'] r IHr]; simpl; constructor.
    + simpl in Hit, Hu. inversion IH; subst. unfold E. simpl. apply unitary_embed. tauto. apply H1; tauto.
    + simpl in Hit, Hu. inversion IH; subst. apply IHr; tauto.
Qed.

(* C01: merging a sub-circuit or nesting it gives the same matrix *)
Lemma merge_core m off ms (l : list (nat * comp)) : (off + ms <= m)%nat -> wf_items ms l ->
  meq m (oprod m (map E (map (fun oc => (off + fst oc, snd oc)%nat) l))) (embed off ms (cmat (Sub ms l))).
Proof. intros Eo Hs.
  rewrite (embed_ext R m off ms _ _ (cmat_Sub ms l)). rewrite embed_oprod by exact Eo.
  apply oprod_ext. induction l as [|[o c'] r IHr]; simpl; constructor.
  - unfold E. simpl. simpl in Hs. symmetry. apply embed_embed. tauto.
  - apply IHr. simpl in Hs. tauto.
Qed.

Theorem merge_eq_nest (c : comp) off s c1 c2 : wf c -> wf s ->
  add c off s true = Some c1 -> add c off s false = Some c2 -> meq (width c) (cmat c1) (cmat c2).
Proof.
  destruct c as [k U | m items]; cbn [add width]; try discriminate. intros Hc Hs.
  destruct (off + width s <=? m)%nat eqn:Eo; try discriminate. apply Nat.leb_le in Eo.
  destruct s as [k U | ms [|si sitems]]; intros E1 E2; injection E1 as <-; injection E2 as <-; try reflexivity.
  apply wf_Sub in Hs. destruct Hs as [_ Hs]. simpl width in Eo.
  change ((off + fst si, snd si)%nat :: map (fun oc : nat * comp => (off + fst oc, snd oc)%nat) sitems)
    with (map (fun oc : nat * comp => (off + fst oc, snd oc)%nat) (si :: sitems)).
  remember (si :: sitems) as l. clear Heql.
  rewrite !cmat_Sub. rewrite !map_app, !oprod_app.
  apply mmul_proper; [|reflexivity].
  rewrite (merge_core m off ms l Eo Hs). symmetry. apply oprod_single.
Qed.

(* a barrier (identity on all modes) anywhere in the list leaves the matrix unchanged *)
Theorem barrier_neutral m (l1 l2 : list (nat * comp)) :
  meq m (cmat (Sub m (l1 ++ (0%nat, Leaf m mid) :: l2))) (cmat (Sub m (l1 ++ l2))).
Proof. rewrite !cmat_Sub, !map_app, !oprod_app. simpl. unfold E at 2. simpl.
  rewrite (embed_id R m 0 m). rewrite mmul_id_r. reflexivity. Qed.

(* add rejects exactly the ranges that do not fit; accepted adds keep well-formedness *)
Theorem add_rejects m (items : list (nat * comp)) off s merge :
  add (Sub m items) off s merge = None <-> (m < off + width s)%nat.
Proof. simpl. destruct (off + width s <=? m)%nat eqn:Eo.
  - apply Nat.leb_le in Eo. split; [|lia]. destruct s as [|? [|? ?]]; destruct merge; discriminate.
  - apply Nat.leb_gt in Eo. tauto. Qed.

Lemma wf_items_shift m off ms (l : list (nat * comp)) : (off + ms <= m)%nat -> wf_items ms l ->
  wf_items m (map (fun oc => (off + fst oc, snd oc)%nat) l).
Proof. intros Eo. induction l as [|[o c'] r IHr]; simpl; auto.
  intros [[H1 H2] H3]. split. split; [lia | exact H2]. apply IHr. exact H3. Qed.

Theorem add_wf (c : comp) off s merge c' : wf c -> wf s -> add c off s merge = Some c' -> wf c' /\ width c' = width c.
Proof. destruct c as [k U | m items]; cbn [add width]; try discriminate. intros Hc Hs.
  destruct (off + width s <=? m)%nat eqn:Eo; try discriminate. apply Nat.leb_le in Eo.
  apply wf_Sub in Hc. destruct Hc as [Hm Hit].
  assert (Hnest : wf (Sub m (items ++ [(off, s)])) /\ width (Sub m (items ++ [(off, s)])) = m).
  { split; [|reflexivity]. apply wf_Sub. split; auto. apply wf_items_app. simpl. tauto. }
  destruct s as [k U | ms [|si sitems]]; destruct merge; intros E1; injection E1 as <-; auto.
  split; [|reflexivity]. apply wf_Sub. split; auto. apply wf_items_app. split; auto.
  apply wf_Sub in Hs. destruct Hs as [_ Hs]. simpl width in Eo.
  apply (wf_items_shift m off ms (si :: sitems) Eo Hs). Qed.
End CircuitP.
