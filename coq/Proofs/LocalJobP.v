(* C18 — proofs about the local job schedule model (Model/LocalJob.v).
   All statements quantify over every event list, i.e. over every interleaving of the worker's program with
   the caller's actions (the worker's program order is enforced by its program counter). *)
From PV Require Import Model.LocalJob.
Local Open Scope Z_scope.

Definition wk_of (s : st) : wstate := if sync s then WNone else WAlive.

(* the task has been handed to a worker and the wrapper has not yet set the final status *)
Definition mid_run (x : pcs) : bool :=
  match x with PStart | PTask _ _ | PRet | PExc _ _ _ => true | _ => false end.
(* the task itself has not returned yet *)
Definition in_task (x : pcs) : bool := match x with PStart | PTask _ _ => true | _ => false end.

(* every entry of an iterated result has been converted as often as the dictionary as a whole *)
Definition ent_ok (r : res) : Prop := Forall (fun e => enconv e = nconv r) (entries r).
(* ... with the mapping parameters overridden by its own iteration dict *)
Definition ent_args (m : kw) (r : res) : Prop := Forall (fun e => ecargs e = override m (eiter e)) (entries r).

Definition res_inv (c : cfg) (s : st) : Prop :=
  match results s with
  | None => conv_pending s = has_map c
  | Some r => ent_ok r /\
              ((nconv r = 0%nat /\ conv_pending s = has_map c) \/
               (nconv r = 1%nat /\ conv_pending s = false /\ has_map c = true /\ ent_args (mapp s) r))
  end.

Lemma ent_ok_task p early a : ent_ok (task_result p early a).
Proof.
  unfold ent_ok, task_result. cbn. destruct (pshape p =? 1); [|constructor].
  apply Forall_forall. intros e He. apply in_map_iff in He. destruct He as (x & <- & _). reflexivity.
Qed.
Lemma ent_ok_conv r m : ent_ok r -> ent_ok (conv r m).
Proof.
  unfold ent_ok, conv. cbn. intros H. apply Forall_forall. intros e He. apply in_map_iff in He.
  destruct He as (x & <- & Hx). cbn. f_equal. rewrite Forall_forall in H. auto.
Qed.
Lemma ent_args_conv r m : ent_args m (conv r m).
Proof.
  unfold ent_args, conv. cbn. apply Forall_forall. intros e He. apply in_map_iff in He.
  destruct He as (x & <- & Hx). reflexivity.
Qed.

Definition is_escape (o : outcome) : Prop := exists ty m rr, o = OEscape ty m rr.
(* the exception (ty, m) now in the wrapper's handler is the one the task raises *)
Definition raised (c : cfg) (p : prog) (ty m : Z) (rr : bool) : Prop :=
  (out p = ORaise ty m /\ rr = false) \/ (out p = OEscape ty m rr /\ escapes_unhandled (ver c) = false).

Definition pc_inv (c : cfg) (p : prog) (s : st) : Prop :=
  match pc s with
  | PIdle => status s = Waiting /\ calls s = [] /\ results s = None /\ worker s = WNone
  | PStart => status s = Running /\ calls s = [] /\ results s = None /\ worker s = wk_of s
  | PTask _ early => status s = Running /\ length (calls s) = 1%nat /\ results s = None /\ worker s = wk_of s /\
                     (early = true -> cancel s = true)
  | PRet => status s = Running /\ length (calls s) = 1%nat /\ worker s = wk_of s /\
            exists early, results s = Some (task_result p early (last (calls s) [])) /\
                          (early = true -> cancel s = true) /\ (early = false -> out p = ORet)
  | PExc ty m rr => status s = Running /\ length (calls s) = 1%nat /\ results s = None /\ worker s = wk_of s /\
                    raised c p ty m rr
  | PSyncRet => sync s = true /\ worker s = WNone /\ length (calls s) = 1%nat /\ maybe_completed (status s) = true
  | PDone => length (calls s) = 1%nat /\
             (maybe_completed (status s) = true \/
              (status s = Running /\ escapes_unhandled (ver c) = true /\ is_escape (out p) /\ results s = None /\
               worker s = (if sync s then WNone else WDead)))
  end.

Definition Inv (c : cfg) (p : prog) (s : st) : Prop :=
  pc_inv c p s /\ res_inv c s /\
  (status s = Success -> out p = ORet \/ (escapes_unhandled (ver c) = true /\ is_escape (out p))) /\
  (status s = Error -> results s = None).

Lemma inv_init c p : Inv c p (init c).
Proof. unfold Inv, pc_inv, res_inv; cbn. repeat split; auto; discriminate. Qed.

Ltac brk := repeat match goal with
  | H : _ /\ _ |- _ => destruct H
  | H : exists _, _ |- _ => destruct H
  end.

Lemma running_eq x : is_running x = true -> x = Running.
Proof. destruct x; try discriminate; reflexivity. Qed.

Lemma do_status_inv c p s : Inv c p s -> Inv c p (fst (do_status c s)).
Proof.
  intros H. unfold do_status.
  destruct (is_running (status s)) eqn:Er; [|exact H].
  destruct (worker s) eqn:Ew; [destruct (status_needs_worker (ver c)); exact H|exact H|]. apply running_eq in Er.
  (* dead worker while running: only after an escaped exception *)
  destruct H as (Hp & Hr & Hs & He). unfold Inv, pc_inv, res_inv, wk_of in *; cbn.
  destruct (pc s) eqn:Epc; brk; try (destruct (sync s); congruence); try congruence.
  match goal with H : _ \/ _ |- _ => destruct H as [H|H]; [rewrite Er in H; discriminate|] end. brk.
  match goal with H : escapes_unhandled _ = true |- _ => rewrite H in * end. cbn. rewrite ?Epc.
  repeat split; auto; try congruence.
Qed.

Lemma do_status_fields c s : let s' := fst (do_status c s) in
  pc s' = pc s /\ calls s' = calls s /\ results s' = results s /\ conv_pending s' = conv_pending s /\
  cancel s' = cancel s /\ sync s' = sync s /\ worker s' = worker s /\ mapp s' = mapp s /\ cmd s' = cmd s /\
  user_cb s' = user_cb s /\ cb_log s' = cb_log s.
Proof. unfold do_status. cbv zeta. destruct (is_running (status s)); [destruct (worker s) eqn:E; [destruct (status_needs_worker (ver c))| |destruct (escapes_unhandled (ver c))]|]; cbn; rewrite ?E; repeat split; reflexivity. Qed.

Lemma do_status_view c s : let s' := fst (do_status c s) in
  snd (do_status c s) = SAttrErr \/ snd (do_status c s) = SOk (status s') (progress s') (phase s') (msg s').
Proof. unfold do_status. cbv zeta. destruct (is_running (status s)); [destruct (worker s) eqn:E; [destruct (status_needs_worker (ver c))| |destruct (escapes_unhandled (ver c))]|]; cbn; auto. Qed.

Ltac fin := unfold Inv, pc_inv, res_inv, wk_of in *; cbn in *; brk; repeat split; auto; try congruence.

Lemma final_pc c p s : pc_inv c p s -> maybe_completed (status s) = true -> pc s = PSyncRet \/ pc s = PDone.
Proof.
  unfold pc_inv. destruct (pc s); intros; brk; auto;
    match goal with H : status s = _ |- _ => rewrite H in *; discriminate end.
Qed.

Lemma do_get_inv c p s : Inv c p s -> Inv c p (fst (do_get c s)).
Proof.
  intros H. unfold do_get. pose proof (do_status_inv c p s H) as H1. pose proof (do_status_view c s) as Hv.
  destruct (do_status c s) as [s1 v]; cbn in *. destruct Hv as [Hv|Hv]; subst v; [exact H1|].
  destruct (maybe_completed (status s1)) eqn:Em; cbn; [|exact H1].
  destruct (conv_pending s1) eqn:Ec; [|exact H1].
  destruct (results s1) eqn:Er; [|destruct (is_failed (status s1)); exact H1].
  destruct (convertible (shape r)); [|destruct (is_failed (status s1)); exact H1].
  destruct H1 as (Hp & Hr & Hs & He). unfold res_inv in Hr. rewrite Er in Hr. destruct Hr as (Hok & Hr).
  assert (Hn : nconv r = 0%nat /\ has_map c = true)
    by (destruct Hr as [(N & E)|(N & E & _)]; [split; congruence|congruence]).
  destruct Hn as (Hn & Hm).
  split; [|split; [|split]].
  - destruct (final_pc c p s1 Hp Em) as [E|E]; unfold pc_inv in *; cbn; rewrite E in *; [exact Hp|].
    destruct Hp as (Hl & _). split; [exact Hl|left; exact Em].
  - unfold res_inv; cbn. split; [apply ent_ok_conv; exact Hok|]. right.
    split; [rewrite Hn; reflexivity|]. split; [reflexivity|]. split; [exact Hm|apply ent_args_conv].
  - exact Hs.
  - cbn. intros Q. apply He in Q. congruence.
Qed.

Lemma waiting_idle c p s : pc_inv c p s -> status s = Waiting -> pc s = PIdle.
Proof.
  unfold pc_inv. destruct (pc s); intros H E; auto; rewrite E in H; brk; try discriminate.
  match goal with H : _ \/ _ |- _ => destruct H; brk; discriminate end.
Qed.

Lemma do_exec_inv c p s m a k : Inv c p s -> Inv c p (fst (do_exec c s m a k)).
Proof.
  intros H. unfold do_exec. destruct (status s) eqn:Est; try exact H.
  destruct H as (Hp & Hr & Hs & He). pose proof (waiting_idle c p s Hp Est) as Epc.
  assert (Ern : results s = None) by (unfold pc_inv in Hp; rewrite Epc in Hp; tauto).
  destruct (handle_params _ _ _ _ _) as [[c2 m2] [e|]]; destruct (lookup N_PROGRESS_CB k); destruct m;
    unfold Inv, pc_inv, res_inv, wk_of in *; cbn; rewrite ?Epc in *; rewrite ?Ern in *; cbn; brk; repeat split; auto; try congruence;
    try discriminate.
Qed.

Lemma ucb_no_cancel c : cancel_requested (ucb_resp c) = false.
Proof. unfold ucb_resp. destruct (c mod 3) as [|[q|q|]|]; reflexivity. Qed.

Lemma do_get_fields c s : let s' := fst (do_get c s) in
  pc s' = pc s /\ calls s' = calls s /\ cancel s' = cancel s /\ sync s' = sync s /\ worker s' = worker s /\
  status s' = status (fst (do_status c s)) /\ msg s' = msg (fst (do_status c s)).
Proof.
  unfold do_get. pose proof (do_status_fields c s) as F. cbv zeta in *. destruct (do_status c s) as [s1 v]; cbn in *. brk.
  destruct v; cbn; [|repeat split; assumption].
  destruct (negb (maybe_completed x)); cbn; [repeat split; assumption|].
  destruct (conv_pending s1); [|repeat split; assumption].
  destruct (results s1); [destruct (convertible (shape r))|]; cbn; repeat split; assumption.
Qed.

Lemma wk_inv c p s : Inv c p s -> Inv c p (fst (wk c p s)).
Proof.
  intros H. unfold wk. destruct (pc s) eqn:Epc; try exact H.
  - (* PStart *) destruct H as (Hp & Hr & Hs & He). unfold Inv, pc_inv, res_inv, wk_of in *; rewrite Epc in *; cbn.
    brk. rewrite H0. cbn. repeat split; auto; try congruence; try discriminate.
  - (* PTask *) destruct H as (Hp & Hr & Hs & He). destruct rest as [|[pr ph] rest]; [|destruct early].
    + destruct early; [|destruct (out p) as [|ty m|ty m rr] eqn:Eo;
                         [| |destruct (escapes_unhandled (ver c)) eqn:Ee; [destruct (sync s) eqn:Esy|]]];
      unfold Inv, pc_inv, res_inv, wk_of, raised, is_escape in *; rewrite Epc in *; cbn; brk; rewrite ?Esy in *.
      * repeat split; auto; try congruence. exists true; repeat split; auto; discriminate.
        apply ent_ok_task. left; split; [reflexivity|]. rewrite H1 in Hr; exact Hr.
      * repeat split; auto; try congruence. exists false; repeat split; auto; discriminate.
        apply ent_ok_task. left; split; [reflexivity|]. rewrite H1 in Hr; exact Hr.
      * repeat split; auto; try congruence.
      * repeat split; auto; try congruence. right. repeat split; eauto.
      * repeat split; auto; try congruence. right. repeat split; eauto.
      * repeat split; auto; try congruence.
    + unfold Inv, pc_inv, res_inv, wk_of in *; rewrite Epc in *; cbn; brk.
      repeat split; auto; try congruence. exists true; repeat split; auto; discriminate.
      apply ent_ok_task. left; split; [reflexivity|]. rewrite H1 in Hr; exact Hr.
    + cbn. destruct (cancel s) eqn:Ec; [|destruct (user_cb s)]; destruct (coop p) eqn:Eco;
      unfold Inv, pc_inv, res_inv, wk_of in *; rewrite Epc in *; cbn; rewrite ?Ec, ?Eco, ?ucb_no_cancel; cbn;
      brk; repeat split; auto; try congruence; try discriminate.
  - (* PRet *) destruct H as (Hp & Hr & Hs & He). unfold finish_worker.
    destruct (cancel s) eqn:Ec; cbn; destruct (sync s) eqn:Esy;
    unfold Inv, pc_inv, res_inv, wk_of in *; rewrite Epc in *; cbn; rewrite ?Esy in *; brk; repeat split; auto;
      try congruence; try discriminate.
    all: intros _; match goal with x : bool |- _ => destruct x end;
      [match goal with H : true = true -> _ |- _ => rewrite H in Ec; [discriminate|reflexivity] end
      |match goal with H : false = false -> _ |- _ => left; apply H; reflexivity end].
  - (* PExc *) destruct H as (Hp & Hr & Hs & He). unfold finish_worker. destruct reraise; cbn; destruct (sync s) eqn:Esy;
    unfold Inv, pc_inv, res_inv, wk_of in *; rewrite Epc in *; cbn; rewrite ?Esy in *; brk; repeat split; auto;
      try congruence; try discriminate.
  - (* PSyncRet *) pose proof (do_get_inv c p s H) as H1. pose proof (do_get_fields c s) as Hpc. cbv zeta in Hpc.
    destruct (do_get c s) as [s1 g]; cbn in *. destruct Hpc as (Hpc & _). rewrite Epc in Hpc.
    destruct H1 as (Hp & Hr & Hs & He). unfold Inv, pc_inv, res_inv in *; cbn. rewrite Hpc in Hp. brk.
    repeat split; auto.
Qed.

Lemma step_inv c p s e : Inv c p s -> Inv c p (fst (step c p s e)).
Proof.
  intros H. destruct e as [|[| | |m a k|cb]]; cbn.
  - apply wk_inv; exact H.
  - pose proof (do_status_inv c p s H). destruct (do_status c s); exact H0.
  - destruct H as (Hp & Hr & Hs & He). unfold Inv, pc_inv, res_inv, wk_of in *; cbn.
    destruct (pc s); brk; repeat split; auto. eexists; repeat split; eauto.
  - pose proof (do_get_inv c p s H). destruct (do_get c s); exact H0.
  - pose proof (do_exec_inv c p s m a k H). destruct (do_exec c s m a k); exact H0.
  - destruct H as (Hp & Hr & Hs & He). unfold Inv, pc_inv, res_inv, wk_of in *; cbn. repeat split; auto.
Qed.

Lemma run_inv c p l : forall s, Inv c p s -> Inv c p (fst (run c p s l)).
Proof.
  induction l as [|e l IH]; intros s H; cbn; [exact H|].
  pose proof (step_inv c p s e H) as H1. destruct (step c p s e) as [s1 o]. cbn in H1.
  specialize (IH s1 H1). destruct (run c p s1 l); exact IH.
Qed.

Lemma final_inv c p l : Inv c p (final c p l).
Proof. apply run_inv, inv_init. Qed.

(* ------------------------------------------------------------------ 1. the task runs exactly once *)
Lemma calls_by_pc c p l : let s := final c p l in
  length (calls s) = match pc s with PIdle | PStart => 0%nat | _ => 1%nat end.
Proof.
  cbv zeta. destruct (final_inv c p l) as (Hp & _). unfold pc_inv in Hp.
  destruct (pc (final c p l)); brk; try congruence; match goal with H : calls _ = [] |- _ => rewrite H; reflexivity end.
Qed.

Theorem runs_at_most_once c p l : (length (calls (final c p l)) <= 1)%nat.
Proof. pose proof (calls_by_pc c p l) as H. cbv zeta in H. rewrite H. destruct (pc (final c p l)); lia. Qed.

Theorem runs_exactly_once c p l : let s := final c p l in
  (maybe_completed (status s) = true \/ (pc s <> PIdle /\ pc s <> PStart)) -> length (calls s) = 1%nat.
Proof.
  cbv zeta. intros H. pose proof (calls_by_pc c p l) as Hc. cbv zeta in Hc. rewrite Hc.
  destruct (final_inv c p l) as (Hp & _).
  destruct H as [H|[H1 H2]]; [destruct (final_pc c p _ Hp H) as [E|E]; rewrite E; reflexivity|].
  destruct (pc (final c p l)); congruence.
Qed.

Theorem not_started_before_execute c p l : let s := final c p l in status s = Waiting -> calls s = [].
Proof.
  cbv zeta. intros H. destruct (final_inv c p l) as (Hp & _). pose proof (waiting_idle c p _ Hp H) as E.
  unfold pc_inv in Hp. rewrite E in Hp. brk. assumption.
Qed.

(* ------------------------------------------------------------------ 2. running until the task returned *)
Theorem status_running_until_finish c p l : let s := final c p l in mid_run (pc s) = true -> status s = Running.
Proof.
  cbv zeta. intros H. destruct (final_inv c p l) as (Hp & _). unfold pc_inv in Hp.
  destruct (pc (final c p l)); try discriminate; brk; assumption.
Qed.

(* the code as it is now: every status query made between the accepted execute and the wrapper's finish reports
   RUNNING, for synchronous and asynchronous runs alike *)
Theorem status_query_running c p l : status_needs_worker (ver c) = false -> let s := final c p l in
  mid_run (pc s) = true -> do_status c s = (s, SOk Running (progress s) (phase s) (msg s)).
Proof.
  cbv zeta. intros Hv H. pose proof (status_running_until_finish c p l H) as Er.
  destruct (final_inv c p l) as (Hp & _). unfold pc_inv, wk_of in Hp. unfold do_status. rewrite Er, Hv. cbn.
  destruct (pc (final c p l)); try discriminate; brk;
  match goal with H : worker _ = _ |- _ => rewrite H end; destruct (sync (final c p l)); reflexivity.
Qed.

(* any version of the code: right for asynchronous runs *)
Theorem status_query_running_async c p l : let s := final c p l in
  mid_run (pc s) = true -> sync s = false -> do_status c s = (s, SOk Running (progress s) (phase s) (msg s)).
Proof.
  cbv zeta. intros H Hs. pose proof (status_running_until_finish c p l H) as Er.
  destruct (final_inv c p l) as (Hp & _). unfold pc_inv, wk_of in Hp. unfold do_status. rewrite Er. cbn.
  destruct (pc (final c p l)); try discriminate; brk; rewrite Hs in *;
  match goal with H : worker _ = WAlive |- _ => rewrite H; reflexivity end.
Qed.

(* HISTORICAL (code before 5d55599b): every status query during a synchronous run raised AttributeError *)
Theorem status_query_during_sync_run_old_code c p l : status_needs_worker (ver c) = true -> let s := final c p l in
  mid_run (pc s) = true -> sync s = true -> do_status c s = (s, SAttrErr).
Proof.
  cbv zeta. intros Hv H Hs. pose proof (status_running_until_finish c p l H) as Er.
  destruct (final_inv c p l) as (Hp & _). unfold pc_inv, wk_of in Hp. unfold do_status. rewrite Er, Hv. cbn.
  destruct (pc (final c p l)); try discriminate; brk; rewrite Hs in *;
  match goal with H : worker _ = WNone |- _ => rewrite H; reflexivity end.
Qed.

Definition cfg_w : cfg := mkcfg [10] [(10, None)] [] true None code_now.
(* the same job run by the code before the repairs 5d55599b / 53f68db6 *)
Definition cfg_old : cfg := mkcfg [10] [(10, None)] [] true None code_3e543e6e.
Definition prog_w : prog := mkprog [(500, 1)] ORet false 0 5 6 [].
(* HISTORICAL witness: with the old code the full statement was false *)
Theorem status_query_running_refuted_old_code : exists p l, let s := final cfg_old p l in
  mid_run (pc s) = true /\ snd (do_status cfg_old s) = SAttrErr.
Proof. exists prog_w, [Act (AExec Sync [3] []); Wk]. vm_compute. split; reflexivity. Qed.

(* ------------------------------------------------------------------ 4. no results while it runs *)
Theorem no_results_while_running c p l : let s := final c p l in
  (pc s = PIdle \/ mid_run (pc s) = true) -> forall v, snd (do_get c s) <> GValue v.
Proof.
  cbv zeta. intros H v. destruct (final_inv c p l) as (Hp & _). unfold do_get, do_status.
  assert (E : status (final c p l) = Waiting \/ (status (final c p l) = Running /\ worker (final c p l) <> WDead)).
  { unfold pc_inv, wk_of in Hp. destruct H as [H|H]; [rewrite H in Hp; brk; auto|].
    destruct (pc (final c p l)); try discriminate; brk; right; split; auto;
    match goal with H : worker _ = _ |- _ => rewrite H end; destruct (sync (final c p l)); discriminate. }
  destruct E as [E|[E Ew]]; rewrite E; cbn; [discriminate|].
  destruct (worker (final c p l)); [destruct (status_needs_worker (ver c))| |congruence]; cbn; rewrite ?E; cbn; discriminate.
Qed.

(* ------------------------------------------------------------------ 3. the final state is truthful *)
Lemma run_app c p l1 : forall l2 s, fst (run c p s (l1 ++ l2)) = fst (run c p (fst (run c p s l1)) l2).
Proof.
  induction l1 as [|e l1 IH]; intros l2 s; cbn; [reflexivity|].
  destruct (step c p s e) as [s1 o]. specialize (IH l2 s1).
  destruct (run c p s1 (l1 ++ l2)), (run c p s1 l1); cbn in *. exact IH.
Qed.

Lemma final_app c p l1 l2 : final c p (l1 ++ l2) = fst (run c p (final c p l1) l2).
Proof. unfold final. apply run_app. Qed.

Definition ebase (e : entry) : Z * kw := (epay e, eiter e).
Definition same_base (r r' : res) : Prop :=
  shape r = shape r' /\ payload r = payload r' /\ rargs r = rargs r' /\ map ebase (entries r) = map ebase (entries r').
Definition ores_base (o o' : option res) : Prop :=
  match o, o' with Some r, Some r' => same_base r r' | None, None => True | _, _ => False end.
Lemma ores_base_refl o : ores_base o o.
Proof. destruct o; cbn; unfold same_base; auto. Qed.
Lemma ores_base_trans a b d : ores_base a b -> ores_base b d -> ores_base a d.
Proof. destruct a, b, d; cbn; unfold same_base; intros; brk; try contradiction; repeat split; congruence. Qed.

(* once a final status is set, nothing changes it, nor the message, nor the base of the results *)
Lemma do_get_stable c s : maybe_completed (status s) = true -> let s' := fst (do_get c s) in
  status s' = status s /\ msg s' = msg s /\ ores_base (results s) (results s').
Proof.
  intros Hm. unfold do_get, do_status. destruct (status s) eqn:Est; try discriminate; cbn; rewrite ?Est; cbn;
  (destruct (conv_pending s); [destruct (results s) eqn:Er; [destruct (convertible (shape r))|]|]; cbn; rewrite ?Er, ?Est;
   repeat split; auto using ores_base_refl; cbn; unfold same_base; cbn; repeat split; auto;
   rewrite map_map; reflexivity).
Qed.

Lemma step_stable c p s e : Inv c p s -> maybe_completed (status s) = true -> let s' := fst (step c p s e) in
  status s' = status s /\ msg s' = msg s /\ ores_base (results s) (results s') /\ calls s' = calls s.
Proof.
  intros (Hp & _) Hm. destruct e as [|[| | |m a k|cb]]; cbn.
  - destruct (final_pc c p s Hp Hm) as [E|E]; unfold wk; rewrite E; cbn; [|repeat split; auto using ores_base_refl].
    pose proof (do_get_stable c s Hm) as G. pose proof (do_get_fields c s) as F. cbv zeta in *.
    destruct (do_get c s) as [s1 g]; cbn in *. brk. repeat split; auto.
  - unfold do_status. destruct (status s) eqn:Est; try discriminate; cbn; rewrite ?Est; repeat split; auto using ores_base_refl.
  - repeat split; auto using ores_base_refl.
  - pose proof (do_get_stable c s Hm) as G. pose proof (do_get_fields c s) as F. cbv zeta in *.
    destruct (do_get c s) as [s1 g]; cbn in *. brk. repeat split; auto.
  - unfold do_exec. destruct (status s) eqn:Est; try discriminate; cbn; rewrite ?Est; repeat split; auto using ores_base_refl.
  - repeat split; auto using ores_base_refl.
Qed.

Lemma run_stable c p l : forall s, Inv c p s -> maybe_completed (status s) = true -> let s' := fst (run c p s l) in
  status s' = status s /\ msg s' = msg s /\ ores_base (results s) (results s') /\ calls s' = calls s.
Proof.
  induction l as [|e l IH]; intros s Hi Hm; cbn; [auto using ores_base_refl|].
  pose proof (step_stable c p s e Hi Hm) as S. pose proof (step_inv c p s e Hi) as Hi1. cbv zeta in S.
  destruct (step c p s e) as [s1 o]; cbn in *. destruct S as (S1 & S2 & S3 & S4).
  assert (Hm1 : maybe_completed (status s1) = true) by (rewrite S1; exact Hm).
  specialize (IH s1 Hi1 Hm1). cbv zeta in IH. destruct (run c p s1 l) as [s2 os]; cbn in *.
  destruct IH as (I1 & I2 & I3 & I4). repeat split; try congruence. eapply ores_base_trans; eauto.
Qed.

Definition is_cancel (e : ev) : bool := match e with Act ACancel => true | _ => false end.

Lemma step_cancel c p s e : cancel (fst (step c p s e)) = cancel s || is_cancel e.
Proof.
  destruct e as [|[| | |m a k|cb]]; cbn; rewrite ?orb_false_r; try reflexivity.
  - unfold wk. destruct (pc s) eqn:Epc; cbn; try reflexivity.
    + destruct rest as [|[pr ph] rest]; [|destruct early]; cbn.
      * destruct early; cbn; [reflexivity|]. destruct (out p); cbn; try reflexivity.
        destruct (escapes_unhandled (ver c)); [destruct (sync s)|]; reflexivity.
      * reflexivity.
      * destruct (cancel s) eqn:Ec; [|destruct (user_cb s)]; cbn; rewrite ?Ec; reflexivity.
    + unfold finish_worker. destruct (cancel s) eqn:Ec; cbn; destruct (sync s); cbn; rewrite ?Ec; reflexivity.
    + unfold finish_worker. destruct reraise; cbn; destruct (sync s); reflexivity.
    + pose proof (do_get_fields c s) as F. cbv zeta in F. destruct (do_get c s); cbn in *. brk. assumption.
  - pose proof (do_status_fields c s) as F. cbv zeta in F. destruct (do_status c s); cbn in *. brk. assumption.
  - symmetry; apply orb_true_r.
  - pose proof (do_get_fields c s) as F. cbv zeta in F. destruct (do_get c s); cbn in *. brk. assumption.
  - unfold do_exec. destruct (status s); try reflexivity.
    destruct (lookup N_PROGRESS_CB k); destruct (handle_params _ _ _ _ _) as [[c2 m2] [e|]]; destruct m; reflexivity.
Qed.

Lemma run_cancel c p l : forall s, cancel (fst (run c p s l)) = cancel s || existsb is_cancel l.
Proof.
  induction l as [|e l IH]; intros s; cbn; [rewrite orb_false_r; reflexivity|].
  pose proof (step_cancel c p s e) as S. destruct (step c p s e) as [s1 o]; cbn in *.
  specialize (IH s1). destruct (run c p s1 l); cbn in *. rewrite IH, S. symmetry; apply orb_assoc.
Qed.

(* cancellation was requested <-> a cancel action occurred *)
Theorem cancel_flag_iff_requested c p l : cancel (final c p l) = existsb is_cancel l.
Proof. unfold final. rewrite run_cancel. reflexivity. Qed.

(* the task has returned (the wrapper's finish is the worker's next step): whatever came before and whatever
   comes after, the job ends CANCELED iff a cancel was requested before the finish, else SUCCESS, with the
   task's results *)
Theorem final_state_after_return c p l1 l2 : let s1 := final c p l1 in pc s1 = PRet ->
  let s := final c p (l1 ++ Wk :: l2) in
  status s = (if existsb is_cancel l1 then Canceled else Success) /\
  msg s = (if existsb is_cancel l1 then MCancel else MNone) /\
  exists early, ores_base (Some (task_result p early (last (calls s) []))) (results s) /\
                (early = true -> coop p = true -> existsb is_cancel l1 = true) /\
                (early = false -> out p = ORet) /\ length (calls s) = 1%nat.
Proof.
  cbv zeta. intros Epc. rewrite final_app. cbn [run].
  pose proof (final_inv c p l1) as Hi. pose proof (cancel_flag_iff_requested c p l1) as Hc.
  set (s1 := final c p l1) in *. pose proof (step_inv c p s1 Wk Hi) as Hi2.
  assert (W : let s2 := fst (step c p s1 Wk) in
              status s2 = (if cancel s1 then Canceled else Success) /\ msg s2 = (if cancel s1 then MCancel else MNone) /\
              results s2 = results s1 /\ calls s2 = calls s1).
  { cbn. unfold wk. rewrite Epc. unfold finish_worker. destruct (cancel s1); cbn; destruct (sync s1); cbn; auto. }
  cbv zeta in W. destruct (step c p s1 Wk) as [s2 o]; cbn in *. destruct W as (W1 & W2 & W3 & W4).
  assert (Hm : maybe_completed (status s2) = true) by (rewrite W1; destruct (cancel s1); reflexivity).
  pose proof (run_stable c p l2 s2 Hi2 Hm) as S. cbv zeta in S. destruct (run c p s2 l2) as [s3 os]; cbn in *.
  destruct S as (S1 & S2 & S3 & S4). rewrite S1, S2, W1, W2, Hc. split; [reflexivity|split; [reflexivity|]].
  destruct Hi as (Hp & _). unfold pc_inv in Hp. rewrite Epc in Hp. destruct Hp as (_ & Hl & _ & early & Hr & He1 & He2).
  exists early. rewrite S4, W4. rewrite W3, Hr in S3. repeat split; auto. intros E _. rewrite <- Hc. auto.
Qed.

(* the task has raised (ty, m) and the wrapper's handler is entered: the job ends ERROR with the exception's type and
   message, no results — for an Exception, and (current code) for a BaseException or an unprintable exception *)
Theorem final_state_after_raise c p l1 l2 ty m rr : pc (final c p l1) = PExc ty m rr ->
  let s := final c p (l1 ++ Wk :: l2) in
  raised c p ty m rr /\ status s = Error /\ msg s = MErr ty m /\ results s = None.
Proof.
  cbv zeta. intros Epc. rewrite final_app. cbn [run].
  pose proof (final_inv c p l1) as Hi. set (s1 := final c p l1) in *. pose proof (step_inv c p s1 Wk Hi) as Hi2.
  assert (W : let s2 := fst (step c p s1 Wk) in status s2 = Error /\ msg s2 = MErr ty m).
  { cbn. unfold wk. rewrite Epc. unfold finish_worker. destruct rr; cbn; destruct (sync s1); cbn; auto. }
  cbv zeta in W. destruct (step c p s1 Wk) as [s2 o]; cbn in *. destruct W as (W1 & W2).
  assert (Hm : maybe_completed (status s2) = true) by (rewrite W1; reflexivity).
  pose proof (run_stable c p l2 s2 Hi2 Hm) as S. cbv zeta in S.
  pose proof (run_inv c p l2 s2 Hi2) as Hi3. destruct (run c p s2 l2) as [s3 os]; cbn in *.
  destruct S as (S1 & S2 & S3 & S4). destruct Hi as (Hp & _). unfold pc_inv in Hp. rewrite Epc in Hp. brk.
  repeat split; try congruence. destruct Hi3 as (_ & _ & _ & He). apply He. congruence.
Qed.

(* a raising task always ends in ERROR with a message: from the moment the task is about to raise (ty, m) —
   an Exception, or under the current code anything else, whatever it carries: the message is a total function of
   (ty, m) — the worker's next step enters the handler, caller actions in between change nothing, and the following
   worker step sets ERROR; the wrapper's handler has no other exit *)
Definition is_act (e : ev) : Prop := match e with Act _ => True | Wk => False end.

Lemma acts_keep_pexc c p ty m rr l : forall s, Inv c p s -> pc s = PExc ty m rr -> Forall is_act l ->
  pc (fst (run c p s l)) = PExc ty m rr.
Proof.
  induction l as [|e l IH]; intros s Hi Epc Hf; cbn; [exact Epc|]. inversion Hf; subst.
  pose proof (step_inv c p s e Hi) as Hi1.
  assert (E1 : pc (fst (step c p s e)) = PExc ty m rr).
  { destruct e as [|[| | |md a k|cb]]; cbn in *; try contradiction.
    - pose proof (do_status_fields c s) as F. cbv zeta in F. destruct (do_status c s); cbn in *. brk. congruence.
    - exact Epc.
    - pose proof (do_get_fields c s) as F. cbv zeta in F. destruct (do_get c s); cbn in *. brk. congruence.
    - destruct Hi as (Hp & _). unfold pc_inv in Hp. rewrite Epc in Hp. destruct Hp as (Est & _).
      unfold do_exec. rewrite Est. exact Epc.
    - exact Epc. }
  destruct (step c p s e) as [s1 o]; cbn in *. specialize (IH s1 Hi1 E1 H2). destruct (run c p s1 l); exact IH.
Qed.

Theorem raising_task_ends_in_error c p l1 l2 l3 ty m rr :
  pc (final c p l1) = PTask [] false -> raised c p ty m rr -> Forall is_act l2 ->
  let s := final c p (l1 ++ Wk :: l2 ++ Wk :: l3) in
  status s = Error /\ msg s = MErr ty m /\ results s = None.
Proof.
  cbv zeta. intros Epc Ho Hf.
  assert (E : pc (final c p (l1 ++ Wk :: l2)) = PExc ty m rr).
  { rewrite final_app. cbn [run]. pose proof (step_inv c p _ Wk (final_inv c p l1)) as Hi1.
    assert (E1 : pc (fst (step c p (final c p l1) Wk)) = PExc ty m rr).
    { cbn; unfold wk; rewrite Epc. destruct Ho as [(Ho & ->)|(Ho & Ee)]; rewrite Ho; [|rewrite Ee]; reflexivity. }
    destruct (step c p (final c p l1) Wk) as [s1 o]; cbn in *.
    pose proof (acts_keep_pexc c p ty m rr l2 s1 Hi1 E1 Hf) as K. destruct (run c p s1 l2); exact K. }
  pose proof (final_state_after_raise c p (l1 ++ Wk :: l2) l3 ty m rr E) as T. cbv zeta in T.
  replace (l1 ++ Wk :: l2 ++ Wk :: l3) with ((l1 ++ Wk :: l2) ++ Wk :: l3)
    by (rewrite <- app_assoc; reflexivity).
  destruct T as (_ & T1 & T2 & T3). auto.
Qed.

(* current code: a task that raised — an Exception, a BaseException, an unprintable exception — is never reported
   successful, in any schedule *)
Theorem never_success_when_task_raised c p l : escapes_unhandled (ver c) = false ->
  out p <> ORet -> status (final c p l) <> Success.
Proof.
  intros Hv Ho Hs. destruct (final_inv c p l) as (_ & _ & H & _).
  destruct (H Hs) as [E|(E & _)]; congruence.
Qed.

(* any version of the code: true for ordinary Exceptions *)
Theorem never_success_when_task_raised_exception_any_code c p l ty m :
  out p = ORaise ty m -> status (final c p l) <> Success.
Proof.
  intros Ho Hs. destruct (final_inv c p l) as (_ & _ & H & _).
  destruct (H Hs) as [E|(_ & ty' & m' & rr & E)]; congruence.
Qed.

(* current code: what the wrapper does with a non-Exception (SystemExit, KeyboardInterrupt, ...): it records ERROR
   with the exception's type and message, and only then re-raises — execute_sync re-raises it to its caller (no
   get_results), an asynchronous worker thread ends with it *)
Theorem base_exception_recorded_then_reraised c p s ty m : pc s = PExc ty m true ->
  let s' := fst (wk c p s) in
  status s' = Error /\ msg s' = MErr ty m /\ pc s' = PDone /\ results s' = results s /\
  (sync s = true -> sync_ret s' = Some GEscaped /\ snd (wk c p s) = OEscaped) /\
  (sync s = false -> worker s' = WDead).
Proof.
  intros Epc. unfold wk. rewrite Epc. cbn. destruct (sync s); cbn; repeat split; auto; discriminate.
Qed.

(* HISTORICAL (code before 92fc55a7): a BaseException that is not an Exception, or an exception whose str() raises,
   left the job reported SUCCESS with no results (asynchronous run, then a status query) *)
Definition cfg_pre3 : cfg := mkcfg [10] [(10, None)] [] true None code_before_92fc55a7.
Definition prog_esc : prog := mkprog [] (OEscape 0 4 true) false 0 4 6 [].       (* a BaseException *)
Definition prog_unp : prog := mkprog [] (OEscape 4 5 false) false 0 4 6 [].      (* an unprintable Exception *)
Theorem never_success_when_task_raised_refuted_old_code : exists p l,
  out p <> ORet /\ status (final cfg_pre3 p l) = Success /\ results (final cfg_pre3 p l) = None.
Proof. exists prog_esc, [Act (AExec Async [3] []); Wk; Wk; Act AStatus]. vm_compute. repeat split; discriminate. Qed.
Theorem unprintable_reported_success_refuted_old_code : exists l,
  status (final cfg_pre3 prog_unp l) = Success /\ results (final cfg_pre3 prog_unp l) = None.
Proof. exists [Act (AExec Async [3] []); Wk; Wk; Act AStatus]. vm_compute. split; reflexivity. Qed.
(* HISTORICAL: ... and a synchronous job stayed RUNNING for ever *)
Theorem sync_escape_stays_running_old_code :
  let s := final cfg_pre3 prog_esc [Act (AExec Sync [3] []); Wk; Wk; Wk; Wk] in
  status s = Running /\ pc s = PDone /\ sync_ret s = Some GEscaped.
Proof. vm_compute. repeat split; reflexivity. Qed.

(* the same schedules under the current code: ERROR with the exception's type and message *)
Theorem escapes_end_in_error_now :
  let l := [Act (AExec Async [3] []); Wk; Wk; Wk; Act AStatus] in
  (status (final cfg_w prog_esc l), msg (final cfg_w prog_esc l)) = (Error, MErr 0 4) /\
  (status (final cfg_w prog_unp l), msg (final cfg_w prog_unp l)) = (Error, MErr 4 5) /\
  trace cfg_w prog_esc [Act (AExec Sync [3] []); Wk; Wk; Wk; Act AStatus]
    = [OExec XAccepted; OStarted; ORaised; OEscaped; OStatus (SOk Error 0 0 (MErr 0 4))].
Proof. vm_compute. repeat split; reflexivity. Qed.

(* ------------------------------------------------------------------ 5. repeated get_results *)
Definition frozen (s : st) (v : option res) : Prop :=
  maybe_completed (status s) = true /\ conv_pending s = false /\ results s = v.

Lemma do_get_frozen c s v : frozen s v -> do_get c s = (s, GValue v).
Proof.
  intros (Hm & Hc & Hr). unfold do_get, do_status. destruct (status s) eqn:Est; try discriminate; cbn;
  rewrite ?Est; cbn; rewrite Hc, Hr; reflexivity.
Qed.

Lemma do_get_value_frozen c s v : snd (do_get c s) = GValue v -> frozen (fst (do_get c s)) v.
Proof.
  unfold do_get, do_status, frozen.
  destruct (status s) eqn:Est; cbn; try discriminate;
  try (destruct (worker s); [destruct (status_needs_worker (ver c))| |destruct (escapes_unhandled (ver c))]; cbn; try discriminate);
  rewrite ?Est; cbn;
  (destruct (conv_pending s) eqn:Ec; [destruct (results s) eqn:Er; [destruct (convertible (shape r))|]|]; cbn;
   intros H; inversion H; subst; cbn; rewrite ?Est, ?Ec; auto).
Qed.

Lemma step_frozen c p s e v : Inv c p s -> frozen s v -> frozen (fst (step c p s e)) v.
Proof.
  intros (Hp & _) F. pose proof F as (Hm & Hc & Hr). destruct e as [|[| | |m a k|cb]]; cbn.
  - destruct (final_pc c p s Hp Hm) as [E|E]; unfold wk; rewrite E; cbn; [|exact F].
    rewrite (do_get_frozen c s v F). cbn. exact F.
  - unfold do_status. destruct (status s) eqn:Est; try discriminate; cbn; exact F.
  - exact F.
  - rewrite (do_get_frozen c s v F). exact F.
  - unfold do_exec. destruct (status s) eqn:Est; try discriminate; cbn; exact F.
  - exact F.
Qed.

Lemma run_frozen c p l v : forall s, Inv c p s -> frozen s v -> frozen (fst (run c p s l)) v.
Proof.
  induction l as [|e l IH]; intros s Hi F; cbn; [exact F|].
  pose proof (step_frozen c p s e v Hi F) as F1. pose proof (step_inv c p s e Hi) as Hi1.
  destruct (step c p s e) as [s1 o]; cbn in *. specialize (IH s1 Hi1 F1). destruct (run c p s1 l); exact IH.
Qed.

(* a value once obtained is obtained again, unchanged, after any further events *)
Theorem results_idempotent c p l v : let s := final c p l in snd (do_get c s) = GValue v ->
  forall l2, snd (do_get c (fst (run c p (fst (do_get c s)) l2))) = GValue v.
Proof.
  cbv zeta. intros H l2. pose proof (do_get_value_frozen c _ _ H) as F.
  pose proof (do_get_inv c p _ (final_inv c p l)) as Hi.
  rewrite (do_get_frozen c _ v (run_frozen c p l2 v _ Hi F)). reflexivity.
Qed.

(* the value is converted exactly once when there is a mapping function, never otherwise — the dictionary as a
   whole and, for an iterated result ('results_list'), every one of its entries *)
Theorem results_converted_once c p l r : snd (do_get c (final c p l)) = GValue (Some r) ->
  let n := if has_map c then 1%nat else 0%nat in
  nconv r = n /\ Forall (fun e => enconv e = n) (entries r).
Proof.
  intros H. pose proof (do_get_value_frozen c _ _ H) as (_ & Hc & Hr).
  destruct (do_get_inv c p _ (final_inv c p l)) as (_ & Ri & _). unfold res_inv in Ri. rewrite Hr in Ri.
  destruct Ri as (Hok & Ri). cbv zeta.
  assert (N : nconv r = if has_map c then 1%nat else 0%nat).
  { destruct Ri as [(N & E)|(N & _ & E & _)]; rewrite N; [rewrite <- E, Hc|rewrite E]; reflexivity. }
  split; [exact N|]. unfold ent_ok in Hok. rewrite N in Hok. exact Hok.
Qed.

(* each entry of an iterated result was converted with the mapping parameters overridden by its own iteration *)
Theorem results_list_entry_args c p l r : has_map c = true ->
  snd (do_get c (final c p l)) = GValue (Some r) ->
  Forall (fun e => ecargs e = override (mapp (fst (do_get c (final c p l)))) (eiter e)) (entries r).
Proof.
  intros Hm H. pose proof (do_get_value_frozen c _ _ H) as (_ & Hc & Hr).
  destruct (do_get_inv c p _ (final_inv c p l)) as (_ & Ri & _). unfold res_inv in Ri. rewrite Hr in Ri.
  destruct Ri as (_ & [(_ & E)|(_ & _ & _ & A)]); [congruence|exact A].
Qed.

(* witness: an iterated result is converted entry by entry, once, whatever the number of retrievals *)
Definition prog_list : prog := mkprog [] ORet false 1 5 6 [(1, [(20, Some 9)]); (2, [])].
Definition cfg_list : cfg := mkcfg [10] [(10, None)] [(20, Some 4); (21, None)] true None code_now.
Theorem results_list_example :
  let l := [Act (AExec Async [3] []); Wk; Wk; Wk; Act AGet; Act AGet] in
  map (fun e => (epay e, enconv e, ecargs e)) (match results (final cfg_list prog_list l) with Some r => entries r | None => [] end)
  = [(1, 1%nat, [(20, Some 9); (21, None)]); (2, 1%nat, [(20, Some 4); (21, None)])].
Proof. vm_compute. reflexivity. Qed.

(* ------------------------------------------------------------------ 7. arguments *)
Lemma exec_refused_not_started c s m a k : snd (do_exec c s m a k) <> XAccepted ->
  let s' := fst (do_exec c s m a k) in
  status s' = status s /\ pc s' = pc s /\ calls s' = calls s /\ worker s' = worker s /\ results s' = results s.
Proof.
  unfold do_exec. destruct (status s) eqn:Est; cbn; auto.
  destruct (lookup N_PROGRESS_CB k); destruct (handle_params _ _ _ _ _) as [[c2 m2] [e|]]; destruct m; cbn;
  intros H; try congruence; auto.
Qed.

Lemma dset_none d k k' v : In (k, None) (dset d k' (Some v)) -> In (k, None) d.
Proof.
  induction d as [|[k0 v0] d IH]; cbn; [intros [H|[]]; discriminate|].
  destruct (k' =? k0); cbn; intros [H|H]; auto; discriminate.
Qed.

Lemma assign_pos_none names : forall args kwargs cmd k,
  In (k, None) (fst (assign_pos names args kwargs cmd)) -> In (k, None) cmd.
Proof.
  induction names as [|n names IH]; intros [|a args] kwargs cmd k; cbn; auto.
  destruct (lookup n kwargs); cbn; auto. intros H. apply IH in H. eapply dset_none; eauto.
Qed.

Lemma lookup_remove_neq k k' l : k <> k' -> lookup k (remove_key k' l) = lookup k l.
Proof.
  intros Hn. induction l as [|[k0 v0] l IH]; cbn; [reflexivity|].
  destruct (k' =? k0) eqn:E1; cbn; destruct (k =? k0) eqn:E2; auto.
  apply Z.eqb_eq in E1, E2. congruence.
Qed.

Lemma fill_keeps d : forall kwargs k v, ~ In (k, None) d -> lookup k kwargs = Some v ->
  lookup k (snd (fill d kwargs)) = Some v.
Proof.
  induction d as [|[k0 v0] d IH]; intros kwargs k v Hn Hl; cbn; [exact Hl|].
  assert (Hd : ~ In (k, None) d) by (intros Q; apply Hn; right; exact Q).
  destruct v0 as [x|].
  - specialize (IH kwargs k v Hd Hl). destruct (fill d kwargs); exact IH.
  - destruct (lookup k0 kwargs) eqn:E0.
    + assert (Hk : k <> k0) by (intros ->; apply Hn; left; reflexivity).
      specialize (IH (remove_key k0 kwargs) k v Hd). rewrite lookup_remove_neq in IH by exact Hk.
      specialize (IH Hl). destruct (fill d (remove_key k0 kwargs)); exact IH.
    + specialize (IH kwargs k v Hd Hl). destruct (fill d kwargs); exact IH.
Qed.

Lemma in_lookup k v (l : list (Z * Z)) : In (k, v) l -> exists v', lookup k l = Some v'.
Proof.
  induction l as [|[k0 v0] l IH]; cbn; [intros []|]. intros [H|H].
  - inversion H; subst. rewrite Z.eqb_refl. eauto.
  - destruct (k =? k0); eauto.
Qed.

(* a keyword that is not a None-valued preset of the command or of the mapping makes _handle_params fail *)
Lemma handle_params_unknown names cmd mapp args kwargs k v :
  In (k, v) kwargs -> ~ In (k, None) cmd -> ~ In (k, None) mapp ->
  exists e, snd (handle_params names cmd mapp args kwargs) = Some e.
Proof.
  intros Hin Hc Hm. unfold handle_params.
  set (am := if (length names <? length args)%nat then _ else _). destruct am as [args1 mapp1] eqn:Eam.
  assert (Hm1 : ~ In (k, None) mapp1).
  { subst am. destruct (length names <? length args)%nat; inversion Eam; subst; auto.
    intros Q. apply dset_none in Q. auto. }
  pose proof (assign_pos_none names args1 kwargs cmd k) as Ha.
  destruct (assign_pos names args1 kwargs cmd) as [cmd1 [e|]]; cbn in *; [eauto|].
  destruct (in_lookup _ _ _ Hin) as (v' & Hl).
  assert (Hc1 : ~ In (k, None) cmd1) by auto.
  pose proof (fill_keeps cmd1 kwargs k v' Hc1 Hl) as F1. destruct (fill cmd1 kwargs) as [cmd2 kw1]; cbn in *.
  pose proof (fill_keeps mapp1 kw1 k v' Hm1 F1) as F2. destruct (fill mapp1 kw1) as [mapp2 kw2]; cbn in *.
  destruct kw2; [discriminate|eauto].
Qed.

Lemma in_remove_key k k' v (l : list (Z * Z)) : k <> k' -> In (k, v) l -> In (k, v) (remove_key k' l).
Proof.
  intros Hn. induction l as [|[k0 v0] l IH]; cbn; [auto|]. intros [H|H].
  - inversion H; subst. destruct (k' =? k) eqn:E; [apply Z.eqb_eq in E; congruence|left; reflexivity].
  - destruct (k' =? k0); [auto|right; auto].
Qed.

(* an unknown keyword (not a None-valued preset; progress_callback is a known keyword since 53f68db6) *)
Theorem unknown_args_rejected_before_start c s m a k kn v :
  status s = Waiting -> In (kn, v) k -> kn <> N_PROGRESS_CB ->
  ~ In (kn, None) (cmd s) -> ~ In (kn, None) (mapp s) ->
  (exists e, snd (do_exec c s m a k) = XRejected e) /\
  let s' := fst (do_exec c s m a k) in status s' = Waiting /\ pc s' = pc s /\ calls s' = calls s.
Proof.
  intros Est Hin Hn Hc Hm.
  assert (R : exists e, snd (do_exec c s m a k) = XRejected e).
  { unfold do_exec. rewrite Est.
    set (s1 := match lookup N_PROGRESS_CB k with Some cb => set_ucb s (Some cb) | None => s end).
    assert (E1 : cmd s1 = cmd s /\ mapp s1 = mapp s) by (subst s1; destruct (lookup N_PROGRESS_CB k); auto).
    destruct E1 as (E1 & E2). rewrite E1, E2.
    set (k1 := if cb_keyword_kept (ver c) then k else remove_key N_PROGRESS_CB k).
    assert (Hin1 : In (kn, v) k1) by (subst k1; destruct (cb_keyword_kept (ver c)); auto using in_remove_key).
    destruct (handle_params_unknown (names c) (dset (cmd s) N_PROGRESS_CB (Some 0)) (mapp s) a k1 kn v Hin1) as (e & He); auto.
    { intros Q. apply dset_none in Q. auto. }
    destruct (handle_params _ _ _ _ _) as [[c2 m2] oe]; cbn in He; subst oe. cbn. eauto. }
  split; [exact R|]. destruct R as (e & R).
  pose proof (exec_refused_not_started c s m a k) as N. rewrite R in N. cbv zeta in *.
  destruct N as (N1 & N2 & N3 & _); [discriminate|]. repeat split; congruence.
Qed.

(* ------------------------------------------------------------------ 6. the user's progress callback *)
(* the job with every trace of a user callback erased *)
Definition core (s : st) : st :=
  mkst (status s) (progress s) (phase s) (msg s) (cancel s) (worker s) (results s) (conv_pending s) None
       (cmd s) (mapp s) (sync s) (pc s) (calls s) [] (sync_ret s).
(* the schedule with every supply of a callback erased: set_progress_callback(None), keyword removed *)
Definition strip (e : ev) : ev :=
  match e with
  | Act (ASetCb _) => Act (ASetCb None)
  | Act (AExec m a k) => Act (AExec m a (remove_key N_PROGRESS_CB k))
  | _ => e
  end.
Definition no_cb_kw (e : ev) : Prop :=
  match e with Act (AExec _ _ k) => lookup N_PROGRESS_CB k = None | _ => True end.
Definition nocb (c : cfg) : cfg := mkcfg (names c) (cmd0 c) (mapp0 c) (has_map c) None (ver c).

Lemma lookup_remove_same k l : lookup k (remove_key k l) = None.
Proof.
  induction l as [|[k0 v0] l IH]; cbn; [reflexivity|]. destruct (k =? k0) eqn:E; [exact IH|]. cbn. rewrite E. exact IH.
Qed.
Lemma remove_key_absent k l : lookup k l = None -> remove_key k l = l.
Proof.
  induction l as [|[k0 v0] l IH]; cbn; [reflexivity|]. destruct (k =? k0); [discriminate|]. intros H. rewrite IH; auto.
Qed.

Lemma core_status c s : fst (do_status (nocb c) (core s)) = core (fst (do_status c s)) /\
                        snd (do_status (nocb c) (core s)) = snd (do_status c s).
Proof.
  unfold do_status. cbn.
  destruct (is_running (status s)); [destruct (worker s); [destruct (status_needs_worker (ver c))| |destruct (escapes_unhandled (ver c))]|]; cbn; auto.
Qed.

Lemma core_get c s : fst (do_get (nocb c) (core s)) = core (fst (do_get c s)) /\
                     snd (do_get (nocb c) (core s)) = snd (do_get c s).
Proof.
  unfold do_get. destruct (core_status c s) as (E1 & E2).
  destruct (do_status (nocb c) (core s)) as [t1 v1], (do_status c s) as [s1 v]; cbn in *. subst.
  destruct v; cbn; auto. destruct (negb (maybe_completed x)); cbn; auto.
  destruct (conv_pending s1); cbn; auto.
  destruct (results s1) as [r|]; cbn; [destruct (convertible (shape r)); cbn; auto|]; destruct (is_failed x); auto.
Qed.

(* an event is harmless for the comparison if the keyword is consumed (current code) or absent *)
Definition cb_ok (c : cfg) (e : ev) : Prop := cb_keyword_kept (ver c) = false \/ no_cb_kw e.

Lemma core_step c p s e : cb_ok c e ->
  core (fst (step (nocb c) p (core s) (strip e))) = core (fst (step c p s e)).
Proof.
  intros Hk. destruct e as [|[| | |m a k|cb]]; cbn.
  - unfold wk. cbn. destruct (pc s) eqn:Epc; cbn; try reflexivity.
    + destruct rest as [|[pr ph] rest]; [|destruct early]; cbn.
      * destruct early; cbn; [reflexivity|]. destruct (out p); cbn; try reflexivity.
        destruct (escapes_unhandled (ver c)); [destruct (sync s)|]; reflexivity.
      * reflexivity.
      * destruct (cancel s) eqn:Ec; cbn; [reflexivity|]. destruct (user_cb s); cbn; rewrite ?ucb_no_cancel;
        rewrite ?andb_false_r; reflexivity.
    + unfold finish_worker. destruct (cancel s); cbn; destruct (sync s); reflexivity.
    + unfold finish_worker. destruct reraise; cbn; destruct (sync s); reflexivity.
    + destruct (core_get c s) as (E1 & E2). destruct (do_get (nocb c) (core s)) as [t1 g1], (do_get c s) as [s1 g]; cbn in *.
      subst. reflexivity.
  - destruct (core_status c s) as (E1 & E2). destruct (do_status (nocb c) (core s)), (do_status c s); cbn in *. subst. reflexivity.
  - reflexivity.
  - destruct (core_get c s) as (E1 & E2). destruct (do_get (nocb c) (core s)), (do_get c s); cbn in *. subst. reflexivity.
  - unfold do_exec. cbn. rewrite lookup_remove_same. destruct (status s); try reflexivity.
    destruct (cb_keyword_kept (ver c)) eqn:Ek.
    + destruct Hk as [Hk|Hk]; [congruence|]. cbn in Hk. rewrite Hk. rewrite (remove_key_absent _ _ Hk).
      destruct (handle_params _ _ _ _ _) as [[c2 m2] [e|]]; [reflexivity|]. destruct m; reflexivity.
    + rewrite (remove_key_absent _ _ (lookup_remove_same N_PROGRESS_CB k)).
      destruct (lookup N_PROGRESS_CB k); cbn;
      (destruct (handle_params _ _ _ _ _) as [[c2 m2] [e|]]; [reflexivity|]; destruct m; reflexivity).
  - reflexivity.
Qed.

Lemma strip_strip e : strip (strip e) = strip e.
Proof.
  destruct e as [|[| | |m a k|cb]]; cbn; try reflexivity.
  rewrite (remove_key_absent _ _ (lookup_remove_same N_PROGRESS_CB k)). reflexivity.
Qed.

Lemma cb_ok_strip c e : cb_ok (nocb c) (strip e).
Proof. right. destruct e as [|[| | |m a k|cb]]; cbn; auto. apply lookup_remove_same. Qed.

Lemma core_step' c p s t e : cb_ok c e -> core t = core s ->
  core (fst (step (nocb c) p t (strip e))) = core (fst (step c p s e)).
Proof.
  intros Hk E. rewrite <- (core_step c p s e Hk). rewrite <- E.
  pose proof (core_step (nocb c) p t (strip e) (cb_ok_strip c e)) as Q. rewrite strip_strip in Q.
  symmetry. exact Q.
Qed.

Lemma core_run c p l : forall s t, Forall (cb_ok c) l -> core t = core s ->
  core (fst (run (nocb c) p t (map strip l))) = core (fst (run c p s l)).
Proof.
  induction l as [|e l IH]; intros s t Hf E; cbn [map run]; [exact E|]. inversion Hf; subst.
  pose proof (core_step' c p s t e H1 E) as E1.
  destruct (step (nocb c) p t (strip e)) as [t1 o1], (step c p s e) as [s1 o]; cbn in *.
  specialize (IH s1 t1 H2 E1). destruct (run (nocb c) p t1 (map strip l)), (run c p s1 l); exact IH.
Qed.

(* the code as it is now: supplying, replacing or removing a user callback in ANY way (at construction, with
   set_progress_callback, with the progress_callback keyword of execute), at any point of any schedule, changes
   nothing but the callback itself and what it received *)
Theorem user_callback_transparent c p l : cb_keyword_kept (ver c) = false ->
  core (final (nocb c) p (map strip l)) = core (final c p l).
Proof.
  intros H. unfold final. apply core_run; [|reflexivity]. apply Forall_forall. intros e _. left. exact H.
Qed.

(* any version of the code: true of schedules that do not use the keyword *)
Theorem user_callback_transparent_without_keyword c p l : Forall no_cb_kw l ->
  core (final (nocb c) p (map strip l)) = core (final c p l).
Proof.
  intros H. unfold final. apply core_run; [|reflexivity]. eapply Forall_impl; [|exact H]. intros e He. right. exact He.
Qed.

(* the code as it is now: execute(..., progress_callback=cb) is exactly set_progress_callback(cb) followed by
   the same execute without the keyword: the callback is installed and the keyword does not reach _handle_params *)
Theorem callback_keyword_installs c s m a k cb : cb_keyword_kept (ver c) = false ->
  status s = Waiting -> lookup N_PROGRESS_CB k = Some cb ->
  do_exec c s m a k = do_exec c (set_ucb s (Some cb)) m a (remove_key N_PROGRESS_CB k).
Proof.
  intros Hv Est Hl. unfold do_exec. cbn. rewrite Est, Hl, Hv, lookup_remove_same.
  rewrite (remove_key_absent _ _ (lookup_remove_same N_PROGRESS_CB k)). reflexivity.
Qed.

Theorem callback_keyword_accepted c s m a k cb : cb_keyword_kept (ver c) = false ->
  status s = Waiting -> lookup N_PROGRESS_CB k = Some cb ->
  snd (do_exec c s m a (remove_key N_PROGRESS_CB k)) = XAccepted ->
  snd (do_exec c s m a k) = XAccepted /\ user_cb (fst (do_exec c s m a k)) = Some cb.
Proof.
  intros Hv Est Hl. unfold do_exec. cbn. rewrite Est, Hl, Hv, lookup_remove_same.
  rewrite (remove_key_absent _ _ (lookup_remove_same N_PROGRESS_CB k)). cbn.
  destruct (handle_params _ _ _ _ _) as [[c2 m2] [e|]]; cbn; [discriminate|]. destruct m; cbn; auto.
Qed.

(* what the callback receives: each progress report made while no cancellation is pending *)
Theorem callback_receives_progress c p s cb pr ph rest : pc s = PTask ((pr, ph) :: rest) false ->
  user_cb s = Some cb -> cancel s = false ->
  let s' := fst (wk c p s) in cb_log s' = cb_log s ++ [(cb, pr, ph)] /\ progress s' = pr /\ phase s' = ph.
Proof. intros Epc Eu Ec. unfold wk. rewrite Epc. cbn. rewrite Ec, Eu. cbn. auto. Qed.

(* end to end on the current code: a callback given by keyword receives the task's progress *)
Theorem callback_keyword_receives_progress :
  trace cfg_w prog_w [Act (AExec Sync [3] [(N_PROGRESS_CB, 7)]); Wk; Wk] = [OExec XAccepted; OStarted; OProgress (ucb_resp 7) true] /\
  cb_log (final cfg_w prog_w [Act (AExec Sync [3] [(N_PROGRESS_CB, 7)]); Wk; Wk]) = [(7, 500, 1)].
Proof. vm_compute. split; reflexivity. Qed.

(* HISTORICAL witness (code before 53f68db6): the keyword was never consumed and execute was rejected *)
Theorem callback_keyword_refuted_old_code : exists p l,
  trace cfg_old p l = [OExec (XRejected (PUnused [N_PROGRESS_CB]))] /\ calls (final cfg_old p l) = [].
Proof. exists prog_w, [Act (AExec Sync [3] [(N_PROGRESS_CB, 7)])]. vm_compute. split; reflexivity. Qed.
