From PV Require Import Model.Loss.
From Coq Require Import Setoid Morphisms.

Section LossP.
Variable R : cring.
Add Ring Rring : (Kth R).
Open Scope K_scope.

Definition involution_on (M : nat) (f : nat -> nat) := forall k, (k < M)%nat -> (f k < M)%nat /\ f (f k) = k.

Lemma pmat_mul_l M f (X : mat R) : involution_on M f ->
  forall a b, (a < M)%nat -> mmul M (pmat f) X a b = X (f a) b.
Proof. intros Hf a b Ha. unfold mmul, pmat. destruct (Hf a Ha) as [H1 H2].
  rewrite (sumn_single R M _ (f a) H1). rewrite H2, delta_refl. ring.
  intros l Hl Hne. rewrite (delta_neq R a (f l)). ring. intros E. apply Hne. subst a.
  destruct (Hf l Hl) as [_ E]. exact (eq_sym E). Qed.
Lemma pmat_mul_r M f (X : mat R) : involution_on M f ->
  forall a b, (b < M)%nat -> mmul M X (pmat f) a b = X a (f b).
Proof. intros Hf a b Hb. unfold mmul, pmat. destruct (Hf b Hb) as [H1 H2].
  rewrite (sumn_single R M _ (f b) H1). rewrite delta_refl. ring.
  intros l Hl Hne. rewrite (delta_neq R l (f b)) by exact Hne. ring. Qed.

Lemma swap_involution M p q : (p < M)%nat -> (q < M)%nat -> involution_on M (swap_fun p q).
Proof. intros Hp Hq k Hk. unfold swap_fun.
  destruct (Nat.eqb_spec k p), (Nat.eqb_spec k q); subst; split; try lia;
  repeat match goal with |- context[(?x =? ?y)%nat] => destruct (Nat.eqb_spec x y) end; subst; try lia; auto. Qed.

Ltac eqb_cases := repeat match goal with
  | |- context[(?x =? ?y)%nat] => destruct (Nat.eqb_spec x y)
  | |- context[(?x <=? ?y)%nat] => destruct (Nat.leb_spec x y)
  | |- context[(?x <? ?y)%nat] => destruct (Nat.ltb_spec x y)
  end.

(* PERM . BS on (mode, mode+1) . PERM^-1  =  the beam splitter between mode and the fresh mode *)
Theorem swap_conj M mode next (B : mat R) : (S mode < next)%nat -> (next < M)%nat ->
  meq M (mmul M (pmat (swap_fun (S mode) next)) (mmul M (embed mode 2 B) (pmat (swap_fun (S mode) next))))
        (gate2 mode next B).
Proof.
  intros H1 H2 a b Ha Hb.
  assert (Hinv : involution_on M (swap_fun (S mode) next)) by (apply swap_involution; lia).
  rewrite (pmat_mul_l M _ _ Hinv a b Ha).
  rewrite (pmat_mul_r M _ _ Hinv _ b Hb).
  unfold gate2, embed, inb, swap_fun, delta.
  eqb_cases; subst; cbn [andb]; try lia; try reflexivity;
  repeat match goal with
  | |- context[(?x - ?x)%nat] => rewrite Nat.sub_diag
  | |- context[(S ?x - ?x)%nat] => replace (S x - x)%nat with 1%nat by lia
  end; try reflexivity; try lia.
Qed.

Theorem adjacent_is_gate2 M mode (B : mat R) : meq M (embed mode 2 B) (gate2 mode (S mode) B).
Proof. intros a b Ha Hb. unfold gate2, embed, inb, delta.
  eqb_cases; subst; cbn [andb]; try lia; try reflexivity;
  repeat match goal with
  | |- context[(?x - ?x)%nat] => rewrite Nat.sub_diag
  | |- context[(S ?x - ?x)%nat] => replace (S x - x)%nat with 1%nat by lia
  end; try reflexivity; try lia.
  all: try (replace (a - mode)%nat with 1%nat by lia); try (replace (b - mode)%nat with 1%nat by lia); try reflexivity.
Qed.

(* every loss channel sits on an existing mode, fresh modes stay below M *)
Fixpoint lwf (M next : nat) (l : list (lcomp R)) : Prop :=
  match l with
  | [] => True
  | LU off k U :: r => lwf M next r
  | LLC mode c s :: r => (mode < next)%nat /\ (next < M)%nat /\ lwf M (S next) r
  end.

(* C07: the circuit the implementation builds equals the enlarged lossless circuit of the statement,
   for any interleaving of unitary components and loss channels on any modes *)
Theorem expanded_eq_enlarged M : forall l next, lwf M next l ->
  meq M (oprod M (expanded M next l)) (oprod M (enlarged M next l)).
Proof.
  induction l as [|c l IH]; intros next Hwf; simpl. reflexivity.
  destruct c as [off k U | mode c s].
  - simpl. rewrite (IH next Hwf). reflexivity.
  - simpl in Hwf. destruct Hwf as [Hm [Hn Hr]].
    cbn [enlarged oprod]. rewrite oprod_app. rewrite (IH (S next) Hr).
    apply mmul_proper; [reflexivity|].
    destruct (Nat.eqb_spec mode (next - 1)) as [E|E].
    + simpl. rewrite mmul_id_l. replace next with (S mode) by lia. apply adjacent_is_gate2.
    + simpl. rewrite mmul_id_l. rewrite <- (swap_conj M mode next) by lia.
      rewrite mmul_assoc. reflexivity.
Qed.

(* ---- rank-one permanents: all photons enter through columns equal to one vector w ---- *)
Fixpoint kpow (x : R) (n : nat) : R := match n with O => k1 | S n' => x * kpow x n' end.
Fixpoint wpow (w : nat -> R) (j0 : nat) (t : state) : R :=
  match t with [] => k1 | x :: r => kpow (w j0) x * wpow w (S j0) r end.

Lemma wpow_dec w : forall t j0 j, (0 < nth j t 0)%nat -> w (j0 + j)%nat * wpow w j0 (dec t j) = wpow w j0 t.
Proof. induction t as [|x t IH]; intros j0 j H; destruct j; simpl in *; try lia.
  - destruct x; [lia|]. simpl. rewrite Nat.add_0_r. ring.
  - rewrite <- (IH (S j0) j H). replace (S j0 + j)%nat with (j0 + S j)%nat by lia. ring. Qed.
Lemma sum_occupations : forall t : state, sumn (length t) (fun j => of_nat (R:=R) (nth j t 0%nat)) = of_nat (total t).
Proof. induction t as [|x t IH]. reflexivity.
  cbn [length]. rewrite sumn_S_front. simpl nth. rewrite IH. unfold total. simpl. rewrite of_nat_add. reflexivity. Qed.

Theorem perm_rank_one (U : mat R) m (w : nat -> R) cols : (forall k, In k cols -> forall j, (j < m)%nat -> U j k = w j) ->
  forall t, length t = m -> total t = length cols ->
  permS U m cols t = of_nat (fact (length cols)) * wpow w 0 t.
Proof.
  induction cols as [|k cols IH]; intros Hw t Hm Ht.
  - simpl. assert (E : all_zero t = true) by (apply all_zero_total; exact Ht). rewrite E.
    assert (Hz : wpow w 0 t = k1).
    { clear - E. generalize 0%nat. induction t as [|x t IHt]; intros j0; simpl; auto.
      simpl in E. apply andb_prop in E as [E1 E2]. apply Nat.eqb_eq in E1. subst. simpl. rewrite IHt; auto. ring. }
    rewrite Hz. simpl. ring.
  - cbn [permS length].
    transitivity (sumn m (fun j => of_nat (nth j t 0%nat) * (of_nat (fact (length cols)) * wpow w 0 t))).
    + apply sumn_ext. intros j Hj. destruct (0 <? nth j t 0)%nat eqn:E.
      * apply Nat.ltb_lt in E. rewrite (Hw k (or_introl eq_refl) j Hj).
        rewrite IH.
        -- rewrite <- (wpow_dec w t 0 j E). simpl. ring.
        -- intros k' Hk'. apply Hw. right. exact Hk'.
        -- rewrite dec_length. exact Hm.
        -- pose proof (total_dec t j E). simpl in Ht. lia.
      * apply Nat.ltb_ge in E. assert (nth j t 0%nat = 0%nat) by lia. rewrite H. simpl. ring.
    + rewrite sumn_scal_r. rewrite <- Hm, sum_occupations, Ht. simpl length.
      change (fact (S (length cols))) with (S (length cols) * fact (length cols))%nat.
      rewrite of_nat_mul. ring.
Qed.

(* one mode carrying n photons, vacuum ancilla, beam splitter of transmission amplitude c and loss
   amplitude s: k photons survive with amplitude numerator n! c^k s^(n-k); with norm n! k! (n-k)! this
   is the binomial law C(n,k) |c|^2k |s|^2(n-k) *)
Theorem bs_vacuum_binomial (c s : R) n k : (k <= n)%nat ->
  amp_num (loss_bs c s) 2 [n; 0%nat] [k; (n - k)%nat] = of_nat (fact n) * (kpow c k * kpow s (n - k)).
Proof.
  intros Hk. unfold amp_num. replace (total [n; 0%nat] =? total [k; (n - k)%nat])%nat with true
    by (symmetry; apply Nat.eqb_eq; unfold total; simpl; lia).
  assert (Hc : cols_of [n; 0%nat] = repeat 0%nat n).
  { unfold cols_of, rows_of. simpl. rewrite app_nil_r. reflexivity. }
  rewrite Hc.
  rewrite (perm_rank_one (loss_bs c s) 2 (fun j => match j with 0%nat => c | _ => s end)).
  - rewrite repeat_length. simpl. ring.
  - intros k' Hin j Hj. apply repeat_spec in Hin. subst. destruct j as [|[|j]]; try reflexivity. lia.
  - reflexivity.
  - rewrite repeat_length. unfold total. simpl. lia.
Qed.
End LossP.
