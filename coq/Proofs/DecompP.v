(* Proofs about the triangular decomposition model (C12). *)
From PV Require Import Model.Decomp.
From Coq Require Import Setoid Morphisms.

Ltac nb := repeat match goal with
  | |- context[(?x =? ?y)%nat] => destruct (Nat.eqb_spec x y)
  | H : context[(?x =? ?y)%nat] |- _ => destruct (Nat.eqb_spec x y)
  end; try lia; try congruence.

Section DecompP.
Variable R : cring.
Add Ring Rr : (Kth R).
Open Scope K_scope.
Notation mat := (mat R).
Notation blk := (blk R).
Notation item := (item R).

(* ------------------------------------------------------------------ row operations *)
Lemma mmul_embed_out m off k (B u : mat) r c : (r < m)%nat -> inb off k r = false ->
  mmul m (embed off k B) u r c = u r c.
Proof. intros Hr Hi. unfold mmul. rewrite (sumn_single R m _ r Hr).
  - unfold embed. rewrite Hi. simpl. rewrite delta_refl. ring.
  - intros l Hl Hne. unfold embed. rewrite Hi. simpl. rewrite delta_neq by congruence. ring. Qed.

Lemma mmul_embed_in m off k (B u : mat) r c : (off + k <= m)%nat -> inb off k r = true ->
  mmul m (embed off k B) u r c = sumn k (fun l => B (r - off)%nat l * u (off + l)%nat c).
Proof. intros Hm Hi. apply inb_true in Hi. unfold mmul.
  replace m with (off + (k + (m - off - k)))%nat by lia.
  rewrite sumn_app, sumn_app.
  rewrite (sumn_zero _ off).
  2:{ intros l Hl. unfold embed. replace (inb off k l) with false by (symmetry; apply inb_false; lia).
      rewrite andb_false_r. rewrite delta_neq by lia. ring. }
  rewrite (sumn_zero _ (m - off - k)).
  2:{ intros l Hl. unfold embed. replace (inb off k (off + (k + l))) with false by (symmetry; apply inb_false; lia).
      rewrite andb_false_r. rewrite delta_neq by lia. ring. }
  transitivity (sumn k (fun l => embed off k B r (off + l)%nat * u (off + l)%nat c)). ring.
  apply sumn_ext. intros l Hl. unfold embed.
  replace (inb off k r) with true by (symmetry; apply inb_true; lia).
  replace (inb off k (off + l)) with true by (symmetry; apply inb_true; lia). simpl.
  replace (off + l - off)%nat with l by lia. reflexivity. Qed.

Lemma swapf_invol a b i : swapf a b (swapf a b i) = i.
Proof. unfold swapf. nb. Qed.
Lemma swapf_lt a b i m : (a < m)%nat -> (b < m)%nat -> (i < m)%nat -> (swapf a b i < m)%nat.
Proof. unfold swapf. nb. Qed.
Lemma mmul_swapm m a b (u : mat) r c : (a < m)%nat -> (b < m)%nat -> (r < m)%nat ->
  mmul m (swapm a b) u r c = u (swapf a b r) c.
Proof. intros Ha Hb Hr. unfold mmul, swapm.
  apply (sumn_delta_l R m (swapf a b r) (fun l => u l c)). apply swapf_lt; assumption. Qed.
Lemma swapm_invol m a b : (a < m)%nat -> (b < m)%nat -> meq m (mmul m (swapm (R:=R) a b) (swapm a b)) mid.
Proof. intros Ha Hb i j Hi Hj. rewrite mmul_swapm by assumption. unfold swapm, mid.
  rewrite swapf_invol. reflexivity. Qed.

(* ------------------------------------------------------------------ the emitted permutation is the row swap *)
Lemma perm_fn_val w x : (1 <= w)%nat -> (x <= w)%nat ->
  perm_fn w x = if x =? 0 then w else if x =? w then 0%nat else x.
Proof. intros Hw Hx. unfold perm_fn, perm_list. destruct x as [|x]. reflexivity.
  change (S x =? 0) with false. cbv iota. cbn [nth]. destruct (Nat.eqb_spec (S x) w) as [E|E].
  - rewrite app_nth2; rewrite seq_length; [|lia]. replace (x - (w - 1))%nat with 0%nat by lia. reflexivity.
  - rewrite app_nth1 by (rewrite seq_length; lia). rewrite seq_nth by lia. reflexivity. Qed.

Lemma perm_embed_swap m n w : (1 <= w)%nat -> (n + w < m)%nat ->
  meq m (embed n (w + 1) (pmat (R:=R) (perm_fn w))) (swapm n (n + w)).
Proof. intros Hw Hm i j Hi Hj. unfold embed, swapm, pmat.
  destruct (inb n (w + 1) i) eqn:Ei; destruct (inb n (w + 1) j) eqn:Ej; simpl.
  - apply inb_true in Ei, Ej. rewrite perm_fn_val by lia. unfold delta, swapf. nb.
  - apply inb_true in Ei. apply inb_false in Ej. unfold delta, swapf. nb.
  - apply inb_false in Ei. apply inb_true in Ej. unfold delta, swapf. nb.
  - apply inb_false in Ei. unfold delta, swapf. nb. Qed.

Lemma item_perm_swap m n k : (n < k)%nat -> (k < m)%nat -> meq m (item_mat (R:=R) (IPerm n k)) (swapm n k).
Proof. intros H1 H2. simpl. replace k with (n + (k - n))%nat at 3 by lia.
  apply perm_embed_swap; lia. Qed.


(* ------------------------------------------------------------------ diagonal matrices *)
Ltac nb2 := repeat match goal with
  | |- context[(?x =? ?y)%nat] => destruct (Nat.eqb_spec x y)
  | |- context[(?x <=? ?y)%nat] => destruct (Nat.leb_spec x y)
  | |- context[(?x <? ?y)%nat] => destruct (Nat.ltb_spec x y)
  end; simpl; try lia; try congruence.

Lemma diagm_ext n (f g : nat -> R) : (forall i, (i < n)%nat -> f i = g i) -> meq n (diagm f) (diagm g).
Proof. intros H i j Hi Hj. unfold diagm. rewrite H by auto. reflexivity. Qed.
Lemma diagm_one n : meq n (diagm (fun _ => k1 : R)) mid.
Proof. intros i j _ _. reflexivity. Qed.
Lemma mmul_diag_r n (U : mat) d i j : (j < n)%nat -> mmul n U (diagm d) i j = U i j * d j.
Proof. intros Hj. unfold mmul. rewrite (sumn_single R n _ j Hj).
  - unfold diagm. rewrite Nat.eqb_refl. reflexivity.
  - intros l Hl Hne. unfold diagm. nb. ring. Qed.
Lemma mmul_diag_l n (U : mat) d i j : (i < n)%nat -> mmul n (diagm d) U i j = d i * U i j.
Proof. intros Hi. unfold mmul. rewrite (sumn_single R n _ i Hi).
  - unfold diagm. rewrite Nat.eqb_refl. reflexivity.
  - intros l Hl Hne. unfold diagm. nb. ring. Qed.
Lemma diagm_mul n (f g : nat -> R) : meq n (mmul n (diagm f) (diagm g)) (diagm (fun i => f i * g i)).
Proof. intros i j Hi Hj. rewrite mmul_diag_l by auto. unfold diagm. nb. ring. Qed.
Lemma embed_cst_diag m i (d : R) : meq m (embed i 1 (cst1 d)) (diagm (fun x => if x =? i then d else k1)).
Proof. intros a b _ _. unfold embed, inb, diagm, cst1, delta. nb2. Qed.
Lemma madj_diagm n (d : nat -> R) : meq n (madj (diagm d)) (diagm (fun i => kconj (d i))).
Proof. intros i j _ _. unfold madj, diagm. nb; apply conj_zero. Qed.
Lemma mflip_diagm n (d : nat -> R) : meq n (mflip n (diagm d)) (diagm (fun i => d (n - 1 - i)%nat)).
Proof. intros i j Hi Hj. unfold mflip, diagm. nb. Qed.
Lemma diag_is_diagm n (u : mat) : (forall r c, (r < n)%nat -> (c < n)%nat -> r <> c -> u r c = k0) ->
  meq n u (diagm (fun i => u i i)).
Proof. intros H i j Hi Hj. unfold diagm. nb. apply H; auto. Qed.

(* ------------------------------------------------------------------ np.flip and the adjoint *)
Lemma sumn_shift n (f : nat -> R) : sumn (S n) f = f 0%nat + sumn n (fun i => f (S i)).
Proof. change (S n) with (1 + n)%nat. rewrite sumn_app. simpl. ring. Qed.
Lemma sumn_rev n (f : nat -> R) : sumn n f = sumn n (fun i => f (n - 1 - i)%nat).
Proof. revert f. induction n; intros f. reflexivity.
  assert (E : sumn (S n) (fun i => f (S n - 1 - i)%nat) =
              sumn n (fun i => f (S n - 1 - i)%nat) + f (S n - 1 - n)%nat) by reflexivity.
  rewrite E. clear E. rewrite sumn_shift. rewrite (IHn (fun i => f (S i))).
  replace (S n - 1 - n)%nat with 0%nat by lia.
  rewrite (sumn_ext R n (fun i => f (S n - 1 - i)%nat) (fun i => f (S (n - 1 - i)))).
  ring. intros i Hi. f_equal. lia. Qed.
Lemma mflip_mul n (A B : mat) : meq n (mflip n (mmul n A B)) (mmul n (mflip n A) (mflip n B)).
Proof. intros i j _ _. unfold mflip, mmul. apply sumn_rev. Qed.
Lemma mflip_id n : meq (R:=R) n (mflip n mid) mid.
Proof. intros i j Hi Hj. unfold mflip, mid, delta. nb. Qed.
Lemma mflip_invol n (A : mat) : meq n (mflip n (mflip n A)) A.
Proof. intros i j Hi Hj. unfold mflip. f_equal; lia. Qed.
Global Instance mflip_proper n : Proper (meq n ==> meq n) (mflip (R:=R) n).
Proof. intros A B H i j Hi Hj. unfold mflip. apply H; lia. Qed.
Lemma mflip_adj n (A : mat) : mflip n (madj A) = madj (mflip n A).
Proof. reflexivity. Qed.
Lemma unitary_flip n (A : mat) : unitary n A -> unitary n (mflip n A).
Proof. intros [H1 H2]. split; rewrite <- mflip_adj, <- mflip_mul.
  rewrite H1. apply mflip_id. rewrite H2. apply mflip_id. Qed.

Lemma mflip_embed m off k (A : mat) : (off + k <= m)%nat ->
  meq m (mflip m (embed off k A)) (embed (m - off - k) k (mflip k A)).
Proof. intros Hm i j Hi Hj. unfold mflip, embed.
  destruct (inb off k (m - 1 - i)) eqn:E1; destruct (inb off k (m - 1 - j)) eqn:E2;
  destruct (inb (m - off - k) k i) eqn:E3; destruct (inb (m - off - k) k j) eqn:E4; simpl;
  repeat match goal with
  | H : inb _ _ _ = true |- _ => apply inb_true in H
  | H : inb _ _ _ = false |- _ => apply inb_false in H
  end; try lia.
  - f_equal; lia.
  - unfold delta. nb.
  - unfold delta. nb.
  - unfold delta. nb.
Qed.

Lemma oprod_ext' M (l l' : list mat) : Forall2 (meq M) l l' -> meq M (oprod M l) (oprod M l').
Proof. induction 1; simpl. reflexivity. rewrite IHForall2, H. reflexivity. Qed.
Lemma oprod_map_flip m (l : list mat) : meq m (oprod m (map (mflip m) l)) (mflip m (oprod m l)).
Proof. induction l; simpl. symmetry. apply mflip_id. rewrite mflip_mul, IHl. reflexivity. Qed.
Lemma oprod_rev_adj m (l : list mat) : meq m (oprod m (rev (map madj l))) (madj (oprod m l)).
Proof. induction l; simpl. symmetry. apply madj_id.
  rewrite oprod_app. simpl. rewrite mmul_id_l, IHl. symmetry. apply madj_mul. Qed.

Lemma swapm_adj m a b : meq m (madj (swapm (R:=R) a b)) (swapm a b).
Proof. intros i j _ _. unfold madj, swapm. rewrite conj_delta. unfold delta, swapf. nb. Qed.
Lemma swapm_unitary m a b : (a < m)%nat -> (b < m)%nat -> unitary m (swapm (R:=R) a b).
Proof. intros Ha Hb. split; rewrite swapm_adj; apply swapm_invol; auto. Qed.
Lemma swapm_flip m a b : (a < m)%nat -> (b < m)%nat ->
  meq m (mflip m (swapm (R:=R) a b)) (swapm (m - 1 - b) (m - 1 - a)).
Proof. intros Ha Hb i j Hi Hj. unfold mflip, swapm, delta, swapf. nb. Qed.

(* -------- (3) a lower-triangular matrix with U U^dagger = 1 is diagonal with unit-modulus entries
   (any commutative ring with conjugation: no order, no integrality needed) *)
Theorem tri_unitary_diag n (u : mat) :
  (forall r c, (r < c)%nat -> (c < n)%nat -> u r c = k0) -> meq n (mmul n u (madj u)) mid ->
  forall c, (c < n)%nat -> u c c * kconj (u c c) = k1 /\ forall r, (r < n)%nat -> r <> c -> u r c = k0.
Proof. intros Htri Hu c. induction c as [c IH] using lt_wf_ind. intros Hc.
  assert (Hrow : forall l, (l < n)%nat -> l <> c -> u c l = k0).
  { intros l Hl Hne. destruct (Nat.lt_ge_cases l c) as [Hlt|Hge].
    - destruct (IH l Hlt Hl) as [_ X]. apply X; lia.
    - apply Htri; lia. }
  assert (Hcc : u c c * kconj (u c c) = k1).
  { specialize (Hu c c Hc Hc). unfold mmul, madj, mid in Hu. rewrite delta_refl in Hu. rewrite <- Hu.
    symmetry. apply (sumn_single R n (fun l => u c l * kconj (u c l)) c Hc).
    intros l Hl Hne. rewrite Hrow by auto. ring. }
  split; auto. intros r Hr Hne. destruct (Nat.lt_ge_cases r c) as [Hlt|Hge]. apply Htri; lia.
  assert (E : u r c * kconj (u c c) = k0).
  { specialize (Hu r c Hr Hc). unfold mmul, madj, mid in Hu. rewrite delta_neq in Hu by auto. rewrite <- Hu.
    symmetry. apply (sumn_single R n (fun l => u r l * kconj (u c l)) c Hc).
    intros l Hl Hne'. rewrite Hrow by auto. rewrite conj_zero. ring. }
  transitivity (u r c * (u c c * kconj (u c c))). rewrite Hcc; ring.
  transitivity ((u r c * kconj (u c c)) * u c c). ring. rewrite E. ring. Qed.

(* ================================================================== the elimination *)
Section Run.
Variable m : nat.
Variable small skip : R -> bool.
Variables iib perm_on : bool.
Variable Os : Type.
Variable solve : Os -> nat -> nat -> mat -> option blk * Os.
Notation cell := (cell m small iib perm_on Os solve).
Notation run_col := (run_col m small iib perm_on Os solve).
Notation run_outer := (run_outer m small iib perm_on Os solve).
Notation cm := (circ_mat m).

Lemma cm_cons (it : item) l : meq m (cm (it :: l)) (mmul m (cm l) (item_mat it)).
Proof. unfold circ_mat. simpl. apply xmul_eq. Qed.
Lemma cm_nil : meq m (cm ([] : list item)) mid.
Proof. unfold circ_mat. simpl. reflexivity. Qed.
Lemma cm_oprod (l : list item) : meq m (cm l) (oprod m (map item_mat l)).
Proof. apply oprodx_eq. Qed.

Lemma find_zero_spec j u k cnt k' : find_zero small j u k cnt = Some k' ->
  (k <= k' < k + cnt)%nat /\ small (u k' j) = true.
Proof. revert k. induction cnt; simpl; intros k H. discriminate.
  destruct (small (u k j)) eqn:E. inversion H; subst. split; [lia|auto].
  apply IHcnt in H. split; [lia|tauto]. Qed.

(* the three ways a cell can succeed *)
Lemma cell_cases n j l u s l' u' s' : cell n j (l, u) s = (Some (l', u'), s') ->
  (l' = l /\ u' = setz n j u /\ small (u n j) = true) \/
  (exists k, (n < k <= j)%nat /\ small (u k j) = true /\ l' = IPerm n k :: l /\
             u' = setz n j (xmul m (swapm n k) u)) \/
  (exists b, solve s n j u = (Some b, s') /\ l' = IBlock n b :: l /\
             u' = setz n j (xmul m (embed n 2 (b_inv b)) u)).
Proof. unfold Decomp.cell.
  destruct (small (u n j) && iib) eqn:E1.
  { intros H. inversion H; subst. left. apply andb_true_iff in E1. tauto. }
  destruct (if perm_on && iib then find_zero small j u (S n) (j - n) else None) as [k|] eqn:E2.
  { intros H. inversion H; subst. right; left. exists k.
    destruct (perm_on && iib); [|discriminate]. apply find_zero_spec in E2. repeat split; try lia; tauto. }
  destruct (solve s n j u) as [[b|] s1] eqn:E3; intros H; inversion H; subst.
  right; right. exists b. auto. Qed.

(* -------- completeness reduces to the oracle: a try is abandoned only because the solver refused a cell,
   and every try starts again from the requested matrix *)
Lemma cell_none n j st s s' : cell n j st s = (None, s') -> exists s0 u, fst (solve s0 n j u) = None.
Proof. destruct st as [l u]. unfold Decomp.cell. destruct (small (u n j) && iib). discriminate.
  destruct (if perm_on && iib then find_zero small j u (S n) (j - n) else None). discriminate.
  destruct (solve s n j u) as [[b|] s1] eqn:E. discriminate. intros _. exists s, u. rewrite E. reflexivity. Qed.
Lemma run_col_none j cnt : forall n st s s', run_col j n cnt st s = (None, s') ->
  exists s0 n0 u, fst (solve s0 n0 j u) = None.
Proof. induction cnt; intros n st s s' H; simpl in H. discriminate.
  destruct (cell n j st s) as [[st1|] s1] eqn:E.
  - eapply IHcnt; eauto.
  - apply cell_none in E. destruct E as [s0 [u E]]. exists s0, n, u. exact E. Qed.
Lemma run_outer_none j : forall st s s', run_outer j st s = (None, s') ->
  exists s0 n0 j0 u, fst (solve s0 n0 j0 u) = None.
Proof. induction j; intros st s s' H; cbn [Decomp.run_outer] in H. discriminate.
  destruct (run_col (S j) 0 (S j) st s) as [[st1|] s1] eqn:E.
  - eapply IHj; eauto.
  - apply run_col_none in E. destruct E as [s0 [n0 [u E]]]. exists s0, n0, (S j), u. exact E. Qed.
Theorem triangle_none wp U s s' : triangle m small skip iib perm_on Os solve wp U s = (None, s') ->
  exists s0 n j u, fst (solve s0 n j u) = None.
Proof. unfold triangle. destruct (run_outer (m - 1) ([], U) s) as [[[l u]|] s1] eqn:E. discriminate.
  intros _. eapply run_outer_none; eauto. Qed.
Theorem retry_none tries wp U : forall s s',
  retry m small skip iib perm_on Os solve tries wp U s = (None, s') ->
  tries = 0%nat \/ exists s0 n j u, fst (solve s0 n j u) = None.
Proof. induction tries; intros s s' H. left; reflexivity. right. simpl in H.
  destruct (triangle m small skip iib perm_on Os solve wp U s) as [[r|] s1] eqn:E. discriminate.
  eapply triangle_none; eauto. Qed.

Lemma setz_same n j (pre : mat) : pre n j = k0 -> meq m (setz n j pre) pre.
Proof. intros H a b _ _. unfold setz. destruct ((a =? n) && (b =? j)) eqn:E; auto.
  apply andb_true_iff in E. destruct E as [E1 E2]. apply Nat.eqb_eq in E1, E2. subst. auto. Qed.

(* -------- (1) bookkeeping.  Only assumption on the oracle: cU_inv(params) is an inverse of cU(params). *)
Hypothesis solve_inv : forall s n j u b s', solve s n j u = (Some b, s') ->
  meq 2 (mmul 2 (b_mat b) (b_inv b)) mid.

Lemma cancel_pair (A M RI u : mat) : meq m (mmul m M RI) mid ->
  meq m (mmul m (mmul m A M) (mmul m RI u)) (mmul m A u).
Proof. intros H. rewrite mmul_assoc. rewrite <- (mmul_assoc R m M). rewrite H, mmul_id_l. reflexivity. Qed.

(* whatever the solver answered: before the forced `u[n, j] = 0`, list * residual is unchanged *)
Theorem cell_bookkeeping n j l u s l' u' s' : (n < j)%nat -> (j < m)%nat ->
  cell n j (l, u) s = (Some (l', u'), s') ->
  exists pre, u' = setz n j pre /\ meq m (mmul m (cm l') pre) (mmul m (cm l) u).
Proof. intros Hn Hj H. apply cell_cases in H. destruct H as [[-> [-> _]] | [[k [Hk [_ [-> ->]]]] | [b [Hs [-> ->]]]]].
  - exists u. split; reflexivity.
  - eexists. split. reflexivity. rewrite cm_cons, xmul_eq. rewrite (item_perm_swap m n k) by lia.
    apply cancel_pair. apply swapm_invol; lia.
  - eexists. split. reflexivity. rewrite cm_cons, xmul_eq. apply cancel_pair. simpl.
    rewrite embed_mul by lia. rewrite (embed_ext R m n 2 _ _ (solve_inv _ _ _ _ _ _ Hs)). apply embed_id. Qed.

(* exact oracle: values declared negligible are zero, and a returned block nulls its target entry *)
Hypothesis small_zero : forall x, small x = true -> x = k0.
Hypothesis solve_exact : forall s n j u b s', (n < j)%nat -> (j < m)%nat -> solve s n j u = (Some b, s') ->
  mmul m (embed n 2 (b_inv b)) u n j = k0.

Lemma cell_exact n j l u s l' u' s' : (n < j)%nat -> (j < m)%nat ->
  cell n j (l, u) s = (Some (l', u'), s') -> meq m (mmul m (cm l') u') (mmul m (cm l) u).
Proof. intros Hn Hj H. apply cell_cases in H.
  destruct H as [[-> [-> Hs]] | [[k [Hk [Hs [-> ->]]]] | [b [Hs [-> ->]]]]].
  - rewrite setz_same. reflexivity. apply small_zero; exact Hs.
  - rewrite setz_same.
    { rewrite cm_cons, xmul_eq. rewrite (item_perm_swap m n k) by lia. apply cancel_pair. apply swapm_invol; lia. }
    rewrite xmul_eq by lia. rewrite mmul_swapm by lia. unfold swapf. rewrite Nat.eqb_refl.
    apply small_zero; exact Hs.
  - rewrite setz_same.
    { rewrite cm_cons, xmul_eq. apply cancel_pair. simpl.
      rewrite embed_mul by lia. rewrite (embed_ext R m n 2 _ _ (solve_inv _ _ _ _ _ _ Hs)). apply embed_id. }
    rewrite xmul_eq by lia. exact (solve_exact _ _ _ _ _ _ Hn Hj Hs). Qed.

Lemma run_col_exact j cnt : forall n st s st' s', (n + cnt <= j)%nat -> (j < m)%nat ->
  run_col j n cnt st s = (Some st', s') ->
  meq m (mmul m (cm (fst st')) (snd st')) (mmul m (cm (fst st)) (snd st)).
Proof. induction cnt; intros n st s st' s' Hn Hj H; simpl in H.
  - inversion H; subst. reflexivity.
  - destruct st as [l u]. destruct (cell n j (l, u) s) as [[[l1 u1]|] s1] eqn:E; [|discriminate].
    apply IHcnt in H; try lia. rewrite H. simpl. apply (cell_exact n j l u s l1 u1 s1); [lia|lia|exact E]. Qed.

Lemma run_outer_exact j : forall st s st' s', (j < m)%nat ->
  run_outer j st s = (Some st', s') ->
  meq m (mmul m (cm (fst st')) (snd st')) (mmul m (cm (fst st)) (snd st)).
Proof. induction j; intros st s st' s' Hj H; cbn [Decomp.run_outer] in H.
  - inversion H; subst. reflexivity.
  - destruct (run_col (S j) 0 (S j) st s) as [[st1|] s1] eqn:E; [|discriminate].
    apply IHj in H; try lia. rewrite H. apply (run_col_exact (S j) (S j) 0%nat st s st1 s1); [lia|lia|exact E]. Qed.


(* -------- (2) the zeros already made are kept — for ANY oracle answer.
   Z j n u: columns right of j are null above the diagonal, and column j is null in rows < n. *)
Definition Z (j n : nat) (u : mat) : Prop :=
  (forall r c, (r < c)%nat -> (j < c)%nat -> (c < m)%nat -> u r c = k0) /\
  (forall r, (r < n)%nat -> u r j = k0).

Lemma setz_Z j n (pre : mat) :
  (forall r c, (r < c)%nat -> (j < c)%nat -> (c < m)%nat -> pre r c = k0) ->
  (forall r, (r < n)%nat -> pre r j = k0) -> Z j (S n) (setz n j pre).
Proof. intros H1 H2. split.
  - intros r c Hr Hc Hm. unfold setz. destruct ((r =? n) && (c =? j)); auto.
  - intros r Hr. unfold setz. destruct (Nat.eqb_spec r n). subst; rewrite Nat.eqb_refl. reflexivity.
    simpl. apply H2. lia. Qed.

Theorem cell_keeps_zeros n j l u s l' u' s' : (n < j)%nat -> (j < m)%nat -> Z j n u ->
  cell n j (l, u) s = (Some (l', u'), s') -> Z j (S n) u'.
Proof. intros Hn Hj [Z1 Z2] H. apply cell_cases in H.
  destruct H as [[_ [-> _]] | [[k [Hk [_ [_ ->]]]] | [b [_ [_ ->]]]]]; apply setz_Z.
  - exact Z1.
  - exact Z2.
  - intros r c Hr Hc Hm. rewrite xmul_eq by lia. rewrite mmul_swapm by lia. apply Z1; try lia.
    unfold swapf. nb.
  - intros r Hr. rewrite xmul_eq by lia. rewrite mmul_swapm by lia.
    replace (swapf n k r) with r by (unfold swapf; nb). apply Z2; lia.
  - intros r c Hr Hc Hm. rewrite xmul_eq by lia. destruct (inb n 2 r) eqn:Ei.
    + rewrite mmul_embed_in by (auto; lia). apply inb_true in Ei. apply sumn_zero. intros l0 Hl.
      rewrite Z1 by lia. ring.
    + rewrite mmul_embed_out by (auto; lia). apply Z1; lia.
  - intros r Hr. rewrite xmul_eq by lia. rewrite mmul_embed_out. apply Z2; lia. lia.
    apply inb_false. lia. Qed.

Lemma run_col_zeros j cnt : forall n st s st' s', (n + cnt <= j)%nat -> (j < m)%nat -> Z j n (snd st) ->
  run_col j n cnt st s = (Some st', s') -> Z j (n + cnt) (snd st').
Proof. induction cnt; intros n st s st' s' Hn Hj HZ H; simpl in H.
  - inversion H; subst. rewrite Nat.add_0_r. exact HZ.
  - destruct st as [l u]. destruct (cell n j (l, u) s) as [[[l1 u1]|] s1] eqn:E; [|discriminate].
    replace (n + S cnt)%nat with (S n + cnt)%nat by lia.
    apply (IHcnt (S n) (l1, u1) s1 st' s'); try lia; auto.
    apply (cell_keeps_zeros n j l u s l1 u1 s1); auto; lia. Qed.

(* the residual of a completed elimination is lower triangular, whatever the solver answered *)
Theorem run_outer_triangular j : forall st s st' s', (j < m)%nat -> Z j 0 (snd st) ->
  run_outer j st s = (Some st', s') ->
  forall r c, (r < c)%nat -> (c < m)%nat -> snd st' r c = k0.
Proof. induction j; intros st s st' s' Hj HZ H; cbn [Decomp.run_outer] in H.
  - inversion H; subst. intros r c Hr Hc. apply HZ; lia.
  - destruct (run_col (S j) 0 (S j) st s) as [[st1|] s1] eqn:E; [|discriminate].
    apply (IHj st1 s1 st' s'); try lia; auto.
    apply (run_col_zeros (S j) (S j) 0%nat st s st1 s1) in E; try lia; auto.
    destruct E as [E1 E2]. split.
    + intros r c Hr Hc Hm. destruct (Nat.eq_dec c (S j)). subst. apply E2. lia. apply E1; lia.
    + intros r Hr. lia. Qed.


(* generic preservation through the two loops *)
Lemma run_col_pres (Q : state R -> Prop) j :
  (forall n st s st' s', (n < j)%nat -> cell n j st s = (Some st', s') -> Q st -> Q st') ->
  forall cnt n st s st' s', (n + cnt <= j)%nat -> run_col j n cnt st s = (Some st', s') -> Q st -> Q st'.
Proof. intros HQ. induction cnt; intros n st s st' s' Hn H Hst; simpl in H.
  - inversion H; subst. exact Hst.
  - destruct (cell n j st s) as [[st1|] s1] eqn:E; [|discriminate].
    apply (IHcnt (S n) st1 s1 st' s'); try lia; auto. apply (HQ n st s st1 s1); auto; lia. Qed.
Lemma run_outer_pres (Q : state R -> Prop) :
  (forall n j st s st' s', (n < j)%nat -> (j < m)%nat -> cell n j st s = (Some st', s') -> Q st -> Q st') ->
  forall j st s st' s', (j < m)%nat -> run_outer j st s = (Some st', s') -> Q st -> Q st'.
Proof. intros HQ. induction j; intros st s st' s' Hj H Hst; cbn [Decomp.run_outer] in H.
  - inversion H; subst. exact Hst.
  - destruct (run_col (S j) 0 (S j) st s) as [[st1|] s1] eqn:E; [|discriminate].
    apply (IHj st1 s1 st' s'); try lia; auto.
    apply (run_col_pres Q (S j)) in E; auto. intros. eapply HQ; eauto. Qed.

(* -------- (5) what the returned list is made of *)
Definition item_fits (it : item) : Prop :=
  match it with
  | IBlock n _ => (n + 2 <= m)%nat
  | IPerm n k => (n < k)%nat /\ (k < m)%nat
  | IPhase i _ => (i < m)%nat
  end.
Definition from_solver (it : item) : Prop :=
  match it with IBlock n b => exists s j u s', solve s n j u = (Some b, s') | _ => True end.
Definition elim_item (it : item) : Prop := match it with IPhase _ _ => False | _ => True end.
Definition good (it : item) : Prop := item_fits it /\ from_solver it.

Lemma cell_items n j st s st' s' : (n < j)%nat -> (j < m)%nat -> cell n j st s = (Some st', s') ->
  Forall (fun it => good it /\ elim_item it) (fst st) -> Forall (fun it => good it /\ elim_item it) (fst st').
Proof. intros Hn Hj H HF. destruct st as [l u]. destruct st' as [l' u']. apply cell_cases in H. simpl in *.
  destruct H as [[-> _] | [[k [Hk [_ [-> _]]]] | [b [Hs [-> _]]]]]; auto.
  - constructor; auto. repeat split; simpl; auto; lia.
  - constructor; auto. repeat split; simpl; auto; try lia. exists s, j, u, s'. exact Hs. Qed.

Lemma phases_items u cnt : forall idx acc, (idx + cnt <= m)%nat -> Forall good acc ->
  Forall good (phases skip idx cnt u acc).
Proof. induction cnt; intros idx acc Hm HF; simpl. exact HF.
  apply IHcnt. lia. destruct (skip (u idx idx)); auto. constructor; auto. split; simpl; auto. lia. Qed.

(* whatever the oracle answers, a returned list holds only solver-made blocks on (n, n+1), swaps on
   n..k and phases on single modes, all inside [0, m) *)
Theorem triangle_items wp U s l u s' : (0 < m)%nat ->
  triangle m small skip iib perm_on Os solve wp U s = (Some (l, u), s') -> Forall good l.
Proof. intros Hm H. unfold triangle in H.
  destruct (run_outer (m - 1) ([], U) s) as [[[l0 u0]|] s0] eqn:E; inversion H; subst; clear H.
  assert (Hlt : (m - 1 < m)%nat) by lia.
  assert (HI := run_outer_pres (fun st => Forall (fun it => good it /\ elim_item it) (fst st))
            (fun n j st s st' s' Hn Hj Hc HQ => cell_items n j st s st' s' Hn Hj Hc HQ)
            (m - 1)%nat ([], U) s (l0, u) s' Hlt E (Forall_nil _)). simpl in HI.
  apply Forall_app. split.
  - destruct wp; [|constructor]. apply phases_items. lia. constructor.
  - clear -HI. induction HI; constructor; tauto. Qed.

(* -------- unitarity of what has been emitted (needs: the block is unitary at the solved parameters) *)
Hypothesis solve_unitary : forall s n j u b s', solve s n j u = (Some b, s') -> unitary 2 (b_mat b).

Lemma item_unitary (it : item) : good it -> elim_item it -> unitary m (item_mat it).
Proof. destruct it as [n b|n k|i d]; intros [Hf Hs] He; simpl in *.
  - destruct Hs as [s [j [u [s' Hs]]]]. apply unitary_embed. lia. eapply solve_unitary; eauto.
  - destruct Hf. rewrite (item_perm_swap m n k) by lia. apply swapm_unitary; lia.
  - contradiction. Qed.
Lemma cm_unitary (l : list item) : Forall (fun it => good it /\ elim_item it) l -> unitary m (cm l).
Proof. intros H. rewrite cm_oprod. apply oprod_unitary. induction H; simpl; constructor; auto.
  destruct H. apply item_unitary; auto. Qed.

(* -------- the phase layer is the diagonal of the residual *)
Definition pd (u : mat) (idx cnt i : nat) : R :=
  if (idx <=? i) && (i <? idx + cnt) then (if skip (u i i) then k1 else u i i) else k1.

Lemma phases_mat u cnt : forall idx acc,
  meq m (cm (phases skip idx cnt u acc)) (mmul m (cm acc) (diagm (pd u idx cnt))).
Proof. induction cnt; intros idx acc; simpl.
  - rewrite (diagm_ext m (pd u idx 0) (fun _ => k1)). rewrite diagm_one, mmul_id_r. reflexivity.
    intros i Hi. unfold pd. nb2.
  - rewrite IHcnt. destruct (skip (u idx idx)) eqn:E.
    + apply mmul_proper. reflexivity. apply diagm_ext. intros i Hi. unfold pd.
      destruct (Nat.eq_dec i idx) as [->|Hne]. rewrite E. nb2. nb2.
    + rewrite cm_cons. simpl item_mat. rewrite embed_cst_diag. rewrite mmul_assoc, diagm_mul.
      apply mmul_proper. reflexivity. apply diagm_ext. intros i Hi. unfold pd.
      destruct (Nat.eq_dec i idx) as [->|Hne]. rewrite E. nb2; ring. nb2; ring. Qed.

Hypothesis skip_one : forall x, skip x = true -> x * kconj x = k1 -> x = k1.
Hypothesis m_pos : (0 < m)%nat.

Lemma cm_app (l1 l2 : list item) : meq m (cm (l1 ++ l2)) (mmul m (cm l2) (cm l1)).
Proof. rewrite !cm_oprod, map_app. apply oprod_app. Qed.

Theorem triangle_correct wp U s l u s' : unitary m U ->
  triangle m small skip iib perm_on Os solve wp U s = (Some (l, u), s') ->
  (forall r c, (r < m)%nat -> (c < m)%nat -> r <> c -> u r c = k0) /\
  (forall c, (c < m)%nat -> u c c * kconj (u c c) = k1) /\
  meq m (mmul m (cm l) (if wp then mid else u)) U /\
  Forall good l.
Proof. intros HU H. unfold triangle in H.
  destruct (run_outer (m - 1) ([], U) s) as [[[l0 u0]|] s0] eqn:E; inversion H; subst; clear H.
  assert (HB : meq m (mmul m (cm l0) u) U).
  { apply run_outer_exact in E; [|lia]. simpl in E. rewrite E, cm_nil. apply mmul_id_l. }
  assert (HT : forall r c, (r < c)%nat -> (c < m)%nat -> u r c = k0).
  { apply (run_outer_triangular (m - 1) ([], U) s (l0, u) s'); auto. lia. split; intros; simpl; lia. }
  assert (HI : Forall (fun it => good it /\ elim_item it) l0).
  { assert (Hlt : (m - 1 < m)%nat) by lia.
    exact (run_outer_pres (fun st => Forall (fun it => good it /\ elim_item it) (fst st))
            (fun n j st s st' s' Hn Hj Hc HQ => cell_items n j st s st' s' Hn Hj Hc HQ)
            (m - 1)%nat ([], U) s (l0, u) s' Hlt E (Forall_nil _)). }
  assert (HP := cm_unitary l0 HI).
  assert (Hu : unitary m u).
  { assert (X : meq m u (mmul m (madj (cm l0)) U)).
    { rewrite <- HB, <- mmul_assoc. destruct HP as [_ HP2]. rewrite HP2, mmul_id_l. reflexivity. }
    rewrite X. apply unitary_mul. apply unitary_adj; auto. auto. }
  assert (HD := fun c Hc => proj1 (tri_unitary_diag m u HT (proj1 Hu) c Hc)).
  assert (HO := fun c Hc => proj2 (tri_unitary_diag m u HT (proj1 Hu) c Hc)).
  split. { intros r c Hr Hc Hne. apply HO; auto. }
  split. exact HD.
  split.
  - destruct wp.
    + rewrite mmul_id_r, cm_app, phases_mat, cm_nil, mmul_id_l. rewrite <- HB. apply mmul_proper. reflexivity.
      rewrite (diag_is_diagm m u) at 2 by (intros; apply HO; auto).
      apply diagm_ext. intros i Hi. unfold pd.
      replace ((0 <=? i) && (i <? 0 + m)) with true by (symmetry; nb2).
      destruct (skip (u i i)) eqn:Es; auto. symmetry. apply skip_one; auto.
    + simpl. exact HB.
  - apply Forall_app. split.
    + destruct wp; [|constructor]. apply phases_items. lia. constructor.
    + clear -HI. induction HI; constructor; tauto. Qed.


(* -------- (4) Circuit.inverse and the pre-processing of Circuit.decomposition cancel.
   Assumed about component.inverse on the building block (the C11 facts): h gives the adjoint, v gives
   the flipped matrix J B J. *)
Variables hinv_b vinv_b : blk -> blk.
Hypothesis hinv_adj : forall b, meq 2 (b_mat (hinv_b b)) (madj (b_mat b)).
Hypothesis vinv_flip : forall b, meq 2 (b_mat (vinv_b b)) (mflip 2 (b_mat b)).
Notation hinv_item := (hinv_item hinv_b).
Notation vinv_item := (vinv_item m vinv_b).
Notation pre := (preprocess m).

Lemma vinv_fits it : item_fits it -> item_fits (vinv_item it).
Proof. destruct it; simpl; lia. Qed.
Lemma item_hinv it : item_fits it -> meq m (item_mat (hinv_item it)) (madj (item_mat it)).
Proof. destruct it as [n b|n k|i d]; intros Hf; simpl in Hf.
  - simpl. rewrite embed_adj. apply embed_ext. apply hinv_adj.
  - simpl Decomp.hinv_item. rewrite (item_perm_swap m n k) by lia. symmetry. apply swapm_adj.
  - simpl. rewrite embed_adj. apply embed_ext. intros a b _ _. reflexivity. Qed.
Lemma item_vinv it : item_fits it -> meq m (item_mat (vinv_item it)) (mflip m (item_mat it)).
Proof. destruct it as [n b|n k|i d]; intros Hf; simpl in Hf.
  - simpl. rewrite mflip_embed by lia. replace (m - n - 2)%nat with (m - 2 - n)%nat by lia.
    apply embed_ext. apply vinv_flip.
  - simpl Decomp.vinv_item. rewrite (item_perm_swap m (m - 1 - k) (m - 1 - n)) by lia.
    rewrite (item_perm_swap m n k) by lia. symmetry. apply swapm_flip; lia.
  - simpl. rewrite mflip_embed by lia. replace (m - i - 1)%nat with (m - 1 - i)%nat by lia.
    apply embed_ext. intros a b _ _. reflexivity. Qed.

Lemma oprod_map_ext (f g : item -> mat) l : (forall it, In it l -> meq m (f it) (g it)) ->
  meq m (oprod m (map f l)) (oprod m (map g l)).
Proof. induction l; intros H; simpl. reflexivity.
  rewrite IHl by (intros; apply H; right; auto). rewrite (H a) by (left; auto). reflexivity. Qed.

Lemma oprod_rev_map_adj (f : item -> mat) l :
  meq m (oprod m (map (fun it => madj (f it)) (rev l))) (madj (oprod m (map f l))).
Proof. rewrite map_rev. replace (map (fun it => madj (f it)) l) with (map madj (map f l)) by apply map_map.
  apply oprod_rev_adj. Qed.
Lemma oprod_map_flip' (f : item -> mat) l :
  meq m (oprod m (map (fun it => mflip m (f it)) l)) (mflip m (oprod m (map f l))).
Proof. replace (map (fun it => mflip m (f it)) l) with (map (mflip m) (map f l)) by apply map_map.
  apply oprod_map_flip. Qed.

Lemma cinverse_mat v h l : Forall item_fits l ->
  meq m (cm (cinverse m hinv_b vinv_b v h l)) (pre v h (cm l)).
Proof. intros HF. rewrite Forall_forall in HF. unfold cinverse, preprocess. rewrite cm_oprod, map_map.
  destruct v, h.
  - etransitivity. apply (oprod_map_ext _ (fun it => madj (mflip m (item_mat it)))).
    { intros it Hin. apply in_rev in Hin. rewrite item_hinv by (apply vinv_fits; auto).
      rewrite item_vinv by auto. reflexivity. }
    etransitivity. apply (oprod_rev_map_adj (fun it => mflip m (item_mat it))).
    rewrite (oprod_map_flip' item_mat), <- cm_oprod. reflexivity.
  - etransitivity. apply (oprod_map_ext _ (fun it => mflip m (item_mat it))).
    { intros; apply item_vinv; auto. }
    rewrite (oprod_map_flip' item_mat), <- cm_oprod. reflexivity.
  - etransitivity. apply (oprod_map_ext _ (fun it => madj (item_mat it))).
    { intros it Hin. apply in_rev in Hin. apply item_hinv; auto. }
    etransitivity. apply (oprod_rev_map_adj item_mat). rewrite <- cm_oprod. reflexivity.
  - rewrite <- cm_oprod. reflexivity. Qed.

Lemma pre_proper v h (A B : mat) : meq m A B -> meq m (pre v h A) (pre v h B).
Proof. intros H. unfold preprocess. destruct v, h; rewrite H; reflexivity. Qed.
Lemma pre_invol v h (U : mat) : meq m (pre v h (pre v h U)) U.
Proof. intros i j Hi Hj. unfold preprocess, mflip, madj. destruct v, h; try rewrite conj_invol; f_equal; lia. Qed.
Lemma pre_mul v h (A B : mat) :
  meq m (pre v h (mmul m A B)) (if h then mmul m (pre v h B) (pre v h A) else mmul m (pre v h A) (pre v h B)).
Proof. unfold preprocess. destruct v, h; try rewrite madj_mul; try rewrite mflip_mul; reflexivity. Qed.
Lemma pre_unitary v h (U : mat) : unitary m U -> unitary m (pre v h U).
Proof. intros H. unfold preprocess. destruct v, h; auto using unitary_flip, unitary_adj. Qed.
Lemma pre_diag v h (d : nat -> R) : (forall i, (i < m)%nat -> d i * kconj (d i) = k1) ->
  exists d', (forall i, (i < m)%nat -> d' i * kconj (d' i) = k1) /\ meq m (pre v h (diagm d)) (diagm d').
Proof. intros H. unfold preprocess. destruct v, h.
  - exists (fun i => kconj (d (m - 1 - i)%nat)). split.
    + intros i Hi. rewrite conj_invol. rewrite <- (H (m - 1 - i)%nat) by lia. ring.
    + rewrite madj_diagm. apply mflip_diagm.
  - exists (fun i => d (m - 1 - i)%nat). split. intros i Hi. apply H. lia. apply mflip_diagm.
  - exists (fun i => kconj (d i)). split.
    + intros i Hi. rewrite conj_invol. rewrite <- (H i) by lia. ring.
    + apply madj_diagm.
  - exists d. split; auto. reflexivity. Qed.

Lemma retry_some tries wp U : forall s r s',
  retry m small skip iib perm_on Os solve tries wp U s = (Some r, s') ->
  exists s0 s1, triangle m small skip iib perm_on Os solve wp U s0 = (Some r, s1).
Proof. induction tries; intros s r s' H; simpl in H. discriminate.
  destruct (triangle m small skip iib perm_on Os solve wp U s) as [[r1|] s1] eqn:E.
  - inversion H; subst. exists s, s'. exact E.
  - eapply IHtries; eauto. Qed.

(* the whole of Circuit.decomposition, every size, every flag combination, every exact oracle *)
Theorem decomposition_correct wp v h tries U s c s' : unitary m U ->
  decomposition m small skip iib perm_on Os solve hinv_b vinv_b wp v h tries U s = (Some c, s') ->
  (wp = true -> meq m (cm c) U) /\
  (wp = false -> exists d, (forall i, (i < m)%nat -> d i * kconj (d i) = k1) /\
       meq m (cm c) (if h then mmul m (diagm d) U else mmul m U (diagm d))) /\
  Forall item_fits c.
Proof. intros HU H. unfold decomposition in H.
  destruct (retry m small skip iib perm_on Os solve tries wp (pre v h U) s) as [[[l u]|] s1] eqn:E;
    inversion H; subst; clear H.
  apply retry_some in E. destruct E as [s0 [s2 E]].
  apply triangle_correct in E; [|apply pre_unitary; exact HU].
  destruct E as [Hoff [Hunit [Hprod Hgood]]].
  assert (Hfits : Forall item_fits l). { clear -Hgood. induction Hgood; constructor; auto. apply H. }
  assert (Hc : meq m (cm (if v || h then cinverse m hinv_b vinv_b v h l else l)) (pre v h (cm l))).
  { destruct (v || h) eqn:Evh. apply cinverse_mat; auto.
    apply orb_false_iff in Evh. destruct Evh; subst. reflexivity. }
  split; [|split].
  - intros ->. rewrite Hc. rewrite mmul_id_r in Hprod. rewrite (pre_proper v h _ _ Hprod). apply pre_invol.
  - intros ->. set (e := fun i => u i i).
    assert (Hu : meq m u (diagm e)) by (unfold e; apply diag_is_diagm; auto).
    assert (Hl : meq m (cm l) (mmul m (pre v h U) (diagm (fun i => kconj (e i))))).
    { rewrite <- Hprod, Hu, mmul_assoc, diagm_mul.
      rewrite (diagm_ext m _ (fun _ => k1)) by (intros i Hi; apply Hunit; auto).
      rewrite diagm_one, mmul_id_r. reflexivity. }
    destruct (pre_diag v h (fun i => kconj (e i))) as [d' [Hd' Hpd]].
    { intros i Hi. rewrite conj_invol. rewrite <- (Hunit i Hi). unfold e. ring. }
    exists d'. split; auto. rewrite Hc, (pre_proper v h _ _ Hl), pre_mul.
    destruct h; rewrite Hpd, pre_invol; reflexivity.
  - destruct (v || h); auto. unfold cinverse. apply Forall_forall. intros it Hin.
    apply in_map_iff in Hin. destruct Hin as [it0 [<- Hin]].
    assert (Hf0 : item_fits it0).
    { rewrite Forall_forall in Hfits. apply Hfits. destruct h; auto. apply in_rev in Hin; auto. }
    assert (Hf1 : item_fits (if v then vinv_item it0 else it0)) by (destruct v; auto using vinv_fits).
    destruct h; auto. destruct (if v then vinv_item it0 else it0); simpl in *; auto. Qed.

End Run.

End DecompP.

(* Circuit.decomposition pre-processes the request ONCE: whatever the number of abandoned tries, the returned list is
   Circuit.inverse of the list of one elimination run on preprocess(U) — never on U itself, never on a matrix left by
   an earlier try *)
Theorem decomposition_runs_on_preprocessed (R : cring) m small skip iib perm_on Os solve hinv_b vinv_b
  wp v h tries (U : mat R) s c s' :
  decomposition m small skip iib perm_on Os solve hinv_b vinv_b wp v h tries U s = (Some c, s') ->
  exists l u s0 s1,
    triangle m small skip iib perm_on Os solve wp (preprocess m v h U) s0 = (Some (l, u), s1) /\
    c = (if v || h then cinverse m hinv_b vinv_b v h l else l).
Proof. unfold decomposition.
  destruct (retry m small skip iib perm_on Os solve tries wp (preprocess m v h U) s) as [[[l u]|] s1] eqn:E;
    intros H; inversion H; subst.
  destruct (retry_some R m small skip iib perm_on Os solve tries wp _ _ _ _ E) as [s0 [s2 E2]].
  exists l, u, s0, s2. split; auto. Qed.

(* Circuit.decomposition answers None only when max_try = 0 or the solver refused some cell: the completeness
   sentence of the property is exactly a statement about the numerical solver *)
Theorem decomposition_none_only_from_solver (R : cring) m small skip iib perm_on Os solve hinv_b vinv_b
  wp v h tries (U : mat R) s s' :
  decomposition m small skip iib perm_on Os solve hinv_b vinv_b wp v h tries U s = (None, s') ->
  tries = 0%nat \/ exists s0 n j u, fst (solve s0 n j u) = None.
Proof. unfold decomposition.
  destruct (retry m small skip iib perm_on Os solve tries wp (preprocess m v h U) s) as [[[l u]|] s1] eqn:E.
  discriminate. intros _. eapply retry_none; eauto. Qed.

From PV Require Import Model.DecompX.

(* the assumptions about the numerical side, bundled *)
Definition oracle_ok (R : cring) (m : nat) (small skip : R -> bool) (Os : Type)
  (solve : Os -> nat -> nat -> mat R -> option (blk R) * Os) : Prop :=
  (forall s n j u b s', solve s n j u = (Some b, s') -> meq 2 (mmul 2 (b_mat b) (b_inv b)) mid) /\
  (forall x, small x = true -> x = k0) /\
  (forall s n j u b s', (n < j)%nat -> (j < m)%nat -> solve s n j u = (Some b, s') ->
     mmul m (embed n 2 (b_inv b)) u n j = k0) /\
  (forall s n j u b s', solve s n j u = (Some b, s') -> unitary 2 (b_mat b)) /\
  (forall x, skip x = true -> kmul x (kconj x) = k1 -> x = k1).
Definition inverse_ok (R : cring) (hinv_b vinv_b : blk R -> blk R) : Prop :=
  (forall b, meq 2 (b_mat (hinv_b b)) (madj (b_mat b))) /\
  (forall b, meq 2 (b_mat (vinv_b b)) (mflip 2 (b_mat b))).

Lemma ideal_inverse_ok R : inverse_ok R (@ideal_hinv R) (@ideal_vinv R).
Proof. split; intros b; simpl; reflexivity. Qed.

Theorem decomposition_correct' (R : cring) m small skip iib perm_on Os solve hinv_b vinv_b :
  oracle_ok R m small skip Os solve -> inverse_ok R hinv_b vinv_b -> (0 < m)%nat ->
  forall wp v h tries U s c s', unitary m U ->
  decomposition m small skip iib perm_on Os solve hinv_b vinv_b wp v h tries U s = (Some c, s') ->
  (wp = true -> meq m (circ_mat m c) U) /\
  (wp = false -> exists d, (forall i, (i < m)%nat -> kmul (d i) (kconj (d i)) = k1) /\
       meq m (circ_mat m c) (if h then mmul m (diagm d) U else mmul m U (diagm d))) /\
  Forall (item_fits R m) c.
Proof. intros [H1 [H2 [H3 [H4 H5]]]] [H6 H7] Hm. intros.
  eapply (decomposition_correct R m small skip iib perm_on Os solve H1 H2 H3 H4 H5 Hm hinv_b vinv_b H6 H7); eauto. Qed.

Theorem triangle_correct' (R : cring) m small skip iib perm_on Os solve :
  oracle_ok R m small skip Os solve -> (0 < m)%nat ->
  forall wp U s l u s', unitary m U ->
  triangle m small skip iib perm_on Os solve wp U s = (Some (l, u), s') ->
  (forall r c, (r < m)%nat -> (c < m)%nat -> r <> c -> u r c = k0) /\
  (forall c, (c < m)%nat -> kmul (u c c) (kconj (u c c)) = k1) /\
  meq m (mmul m (circ_mat m l) (if wp then mid else u)) U /\
  Forall (good R m Os solve) l.
Proof. intros [H1 [H2 [H3 [H4 H5]]]] Hm. intros.
  eapply (triangle_correct R m small skip iib perm_on Os solve H1 H2 H3 H4 H5 Hm); eauto. Qed.

(* the hypotheses are satisfiable: an exact oracle on two modes that answers with a swap or the identity *)
Section Witness.
Add Ring QIr : (Kth QI).
Definition w_small0 (x : QI) : bool := qi_eqb x qi0.
Definition w_skip0 (x : QI) : bool := qi_eqb x qi1.
Definition w_swapB : blk QI := mkblk (swapm 0 1) (swapm 0 1).
Definition w_idB : blk QI := mkblk mid mid.
Definition w_solve0 (s : unit) (n j : nat) (u : mat QI) : option (blk QI) * unit :=
  if qi_eqb (u (S n) j) qi0 then (Some w_swapB, s) else if qi_eqb (u n j) qi0 then (Some w_idB, s) else (None, s).

Lemma witness_oracle_ok : oracle_ok QI 2 w_small0 w_skip0 unit w_solve0.
Proof. unfold oracle_ok, w_solve0. split; [|split; [|split; [|split]]].
  - intros s n j u b s' H. destruct (qi_eqb (u (S n) j) qi0); [|destruct (qi_eqb (u n j) qi0)]; inversion H; subst; simpl.
    apply (swapm_invol QI 2 0 1); lia. apply mmul_id_l.
  - intros x H. apply qi_eqb_eq in H. exact H.
  - intros s n j u b s' Hn Hj H. assert (n = 0%nat) by lia. assert (j = 1%nat) by lia. subst.
    destruct (qi_eqb (u 1%nat 1%nat) qi0) eqn:E1; [|destruct (qi_eqb (u 0%nat 1%nat) qi0) eqn:E2]; inversion H; subst.
    + apply qi_eqb_eq in E1. rewrite mmul_embed_in by (auto; lia). cbn [sumn Nat.add Nat.sub]. rewrite E1.
      unfold w_swapB. cbn [b_inv]. unfold swapm, delta, swapf. cbn [Nat.eqb]. change qi0 with (@k0 QI). ring.
    + apply qi_eqb_eq in E2. rewrite mmul_embed_in by (auto; lia). cbn [sumn Nat.add Nat.sub]. rewrite E2.
      unfold w_idB. cbn [b_inv]. unfold mid, delta. cbn [Nat.eqb]. change qi0 with (@k0 QI). ring.
  - intros s n j u b s' H. destruct (qi_eqb (u (S n) j) qi0); [|destruct (qi_eqb (u n j) qi0)]; inversion H; subst; simpl.
    apply (swapm_unitary QI 2 0 1); lia. apply unitary_id.
  - intros x H _. apply qi_eqb_eq in H. exact H. Qed.

Lemma witness_runs :
  (match fst (decomposition (R:=QI) 2 w_small0 w_skip0 false false unit w_solve0 (@ideal_hinv QI) (@ideal_vinv QI)
     true true true 3 (swapm 0 1) tt) with Some c => Nat.eqb (length c) 1 | None => false end) = true.
Proof. vm_compute. reflexivity. Qed.
End Witness.

(* ================================================================== the result checker (over QI) *)

Lemma Qc_leb_le a b : Qc_leb a b = true -> (a <= b)%Qc.
Proof. unfold Qc_leb, Qcle. intros H. apply Qle_alt. unfold Qccompare in H.
  destruct (this a ?= this b)%Q; congruence. Qed.
Lemma all_lt_spec n f : all_lt n f = true -> forall i, (i < n)%nat -> f i = true.
Proof. unfold all_lt. rewrite forallb_forall. intros H i Hi. apply H. apply in_seq. lia. Qed.

Theorem close_to_sound eps2 n A B : close_to eps2 n A B = true ->
  forall i j, (i < n)%nat -> (j < n)%nat -> (qinorm2 (qisub (A i j) (B i j)) <= eps2)%Qc.
Proof. intros H i j Hi Hj. apply Qc_leb_le.
  apply (all_lt_spec n _ (all_lt_spec n _ H i Hi) j Hj). Qed.

Theorem diag_equiv_r_sound eps2 n V U : diag_equiv_r eps2 n V U = true ->
  exists d : nat -> qi,
    (forall j, (j < n)%nat -> ((qinorm2 (d j) - 1) * (qinorm2 (d j) - 1) <= eps2)%Qc) /\
    forall i j, (i < n)%nat -> (j < n)%nat -> (qinorm2 (qisub (V i j) (qimul (U i j) (d j))) <= eps2)%Qc.
Proof. unfold diag_equiv_r. intros H. apply andb_true_iff in H. destruct H as [H1 H2].
  exists (colphase n U V). split.
  - intros j Hj. apply Qc_leb_le. apply (all_lt_spec n _ H1 j Hj).
  - intros i j Hi Hj. apply (close_to_sound _ _ _ _ H2 i j Hi Hj). Qed.

Theorem diag_equiv_l_sound eps2 n V U : diag_equiv_l eps2 n V U = true ->
  exists d : nat -> qi,
    (forall i, (i < n)%nat -> ((qinorm2 (d i) - 1) * (qinorm2 (d i) - 1) <= eps2)%Qc) /\
    forall i j, (i < n)%nat -> (j < n)%nat -> (qinorm2 (qisub (V i j) (qimul (d i) (U i j))) <= eps2)%Qc.
Proof. unfold diag_equiv_l. intros H. apply andb_true_iff in H. destruct H as [H1 H2].
  exists (rowphase n U V). split.
  - intros j Hj. apply Qc_leb_le. apply (all_lt_spec n _ H1 j Hj).
  - intros i j Hi Hj. apply (close_to_sound _ _ _ _ H2 i j Hi Hj). Qed.
