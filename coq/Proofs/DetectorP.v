(* Proofs about the detector model: click law (closed form, total mass), fold to the maximum reading,
   beam-splitter tree = interleaved detector, product kernel and mass bookkeeping of simulate_detectors. *)
From PV Require Import Model.Detector.
From Coq Require Import Field Qcanon.
Open Scope Qc_scope.

(* ---------------------------------------------------------------- numbers *)
Lemma qn_S n : qn (S n) = qn n + 1. Proof. reflexivity. Qed.
Lemma qn_add a b : qn (a + b) = qn a + qn b.
Proof. induction a; simpl. ring. rewrite IHa. ring. Qed.
Lemma qn_mul a b : qn (a * b) = qn a * qn b.
Proof. induction a; simpl. ring. rewrite qn_add, IHa. ring. Qed.
Lemma qn_nonneg n : 0 <= qn n.
Proof. induction n; simpl. apply Qcle_refl. apply Qcle_trans with (qn n + 0). rewrite Qcplus_0_r; auto.
  apply Qcplus_le_compat. apply Qcle_refl. discriminate. Qed.
Lemma qn_pos w : (0 < w)%nat -> qn w <> 0.
Proof. destruct w; [lia|]. intros _ E. simpl in E. pose proof (qn_nonneg w) as H.
  assert (L: 0 + 1 <= qn w + 1) by (apply Qcplus_le_compat; [auto|apply Qcle_refl]).
  rewrite E in L. revert L. compute. intro L; apply L; reflexivity. Qed.
Lemma qpow_nz x n : x <> 0 -> qpow x n <> 0.
Proof. intros H; induction n; simpl. discriminate. intro E. apply Qcmult_integral in E. tauto. Qed.
Lemma qpow_add x a b : qpow x (a + b) = qpow x a * qpow x b.
Proof. induction a; simpl. ring. rewrite IHa. ring. Qed.
Lemma qpow_mul x y n : qpow (x * y) n = qpow x n * qpow y n.
Proof. induction n; simpl. ring. rewrite IHn. ring. Qed.
Lemma qpow_1 n : qpow 1 n = 1.
Proof. induction n; simpl. reflexivity. rewrite IHn. ring. Qed.

Lemma qsum_ext n f g : (forall i, (i < n)%nat -> f i = g i) -> qsum n f = qsum n g.
Proof. induction n; simpl; intros H; [reflexivity|]. rewrite IHn, H; auto. Qed.
Lemma qsum_zero n f : (forall i, (i < n)%nat -> f i = 0) -> qsum n f = 0.
Proof. induction n; simpl; intros H; [reflexivity|]. rewrite IHn, H; auto; ring. Qed.
Lemma qsum_add n f g : qsum n (fun i => f i + g i) = qsum n f + qsum n g.
Proof. induction n; simpl; [ring| rewrite IHn; ring]. Qed.
Lemma qsum_scal n a f : qsum n (fun i => a * f i) = a * qsum n f.
Proof. induction n; simpl; [ring| rewrite IHn; ring]. Qed.
Lemma qsum_scal_r n a f : qsum n (fun i => f i * a) = qsum n f * a.
Proof. induction n; simpl; [ring| rewrite IHn; ring]. Qed.
Lemma qsum_shift n f : qsum (S n) f = f 0%nat + qsum n (fun i => f (S i)).
Proof. induction n. simpl. ring. change (qsum (S (S n)) f) with (qsum (S n) f + f (S n)). rewrite IHn. simpl. ring. Qed.
Lemma qsum_split a b f : qsum (a + b) f = qsum a f + qsum b (fun i => f (a + i)%nat).
Proof. induction b; simpl. rewrite Nat.add_0_r. ring.
  rewrite Nat.add_succ_r. simpl. rewrite IHb. ring. Qed.
Lemma qsum_single n f i : (i < n)%nat -> (forall l, (l < n)%nat -> l <> i -> f l = 0) -> qsum n f = f i.
Proof. induction n; intros Hi H. lia. simpl.
  destruct (Nat.eq_dec i n) as [->|Hne].
  - rewrite qsum_zero. ring. intros l Hl. apply H; lia.
  - rewrite IHn; try lia. rewrite (H n); try lia. ring. intros; apply H; lia. Qed.

Lemma qsuml_app a b : qsuml (a ++ b) = qsuml a + qsuml b.
Proof. induction a; simpl. ring. rewrite IHa. ring. Qed.

(* ---------------------------------------------------------------- binomials, Stirling numbers, falling factorial *)
Lemma binom_gt n : forall k, (n < k)%nat -> binom n k = 0%nat.
Proof. induction n; intros [|k] H; simpl; try lia. rewrite !IHn by lia. reflexivity. Qed.
Lemma binom_diag n : binom n n = 1%nat.
Proof. induction n; simpl; auto. rewrite IHn, binom_gt by lia. reflexivity. Qed.
Lemma stir_gt n : forall k, (n < k)%nat -> stir n k = 0%nat.
Proof. induction n; intros [|k] H; simpl; try lia. rewrite !IHn by lia. lia. Qed.

Lemma ff_S m k : ff (S m) (S k) = qn (S m) * ff m k.
Proof. induction k. simpl. ring.
  change (ff (S m) (S (S k))) with (ff (S m) (S k) * (qn (S m) - qn (S k))).
  rewrite IHk. change (ff m (S k)) with (ff m k * (qn m - qn k)). simpl. ring. Qed.
Lemma ff_pascal m k : ff (S m) (S k) = qn (S k) * ff m k + ff m (S k).
Proof. rewrite ff_S. simpl. ring. Qed.
Lemma ff_0 k : ff 0 (S k) = 0.
Proof. induction k. simpl. ring. change (ff 0 (S (S k))) with (ff 0 (S k) * (qn 0 - qn (S k))). rewrite IHk. ring. Qed.
Lemma ff_binom m : forall k, ff m k = qn (binom m k) * qn (fact k).
Proof. induction m; intros [|k].
  - simpl. ring.
  - rewrite ff_0. simpl. ring.
  - simpl. ring.
  - rewrite ff_pascal, !IHm.
    change (binom (S m) (S k)) with (binom m k + binom m (S k))%nat.
    change (fact (S k)) with (S k * fact k)%nat. rewrite qn_add, !qn_mul. ring. Qed.

(* the sum identity behind the wire-by-wire decomposition: sum_{i<n} C(n,i) S(i,k) = (k+1) S(n,k+1) *)
Lemma stir_binom_sum n : forall k,
  qsum n (fun i => qn (binom n i) * qn (stir i k)) = qn (S k) * qn (stir n (S k)).
Proof.
  induction n; intros k.
  - simpl. ring.
  - rewrite qsum_shift.
    rewrite (qsum_ext n _ (fun i => qn (binom n i) * qn (stir (S i) k) + qn (binom n (S i)) * qn (stir (S i) k))).
    2:{ intros i _. change (binom (S n) (S i)) with (binom n i + binom n (S i))%nat. rewrite qn_add. ring. }
    rewrite qsum_add.
    assert (E2 : qn (binom (S n) 0) * qn (stir 0 k) + qsum n (fun i => qn (binom n (S i)) * qn (stir (S i) k))
                 = qsum n (fun i => qn (binom n i) * qn (stir i k)) + qn (stir n k)).
    { transitivity (qsum (S n) (fun i => qn (binom n i) * qn (stir i k))).
      - rewrite qsum_shift. destruct n; reflexivity.
      - simpl qsum. rewrite binom_diag. simpl. ring. }
    transitivity (qsum n (fun i => qn (binom n i) * qn (stir (S i) k))
                  + (qn (binom (S n) 0) * qn (stir 0 k) + qsum n (fun i => qn (binom n (S i)) * qn (stir (S i) k)))).
    { ring. }
    rewrite E2. clear E2.
    destruct k as [|k].
    + rewrite (qsum_zero n (fun i => qn (binom n i) * qn (stir (S i) 0))).
      2:{ intros i _. simpl. ring. }
      rewrite IHn.
      change (stir (S n) 1) with (1 * stir n 1 + stir n 0)%nat. rewrite qn_add, qn_mul. simpl. ring.
    + rewrite (qsum_ext n _ (fun i => qn (S k) * (qn (binom n i) * qn (stir i (S k))) + qn (binom n i) * qn (stir i k))).
      2:{ intros i _. change (stir (S i) (S k)) with (S k * stir i (S k) + stir i k)%nat.
          rewrite qn_add, qn_mul. ring. }
      rewrite qsum_add, qsum_scal, !IHn.
      change (stir (S n) (S (S k))) with (S (S k) * stir n (S (S k)) + stir n (S k))%nat.
      rewrite qn_add, qn_mul. rewrite !qn_S. ring.
Qed.

(* ---------------------------------------------------------------- the recurrence of _cond_probability *)
Lemma cond_gt w n : forall k, (n < k)%nat -> cond w n k = 0.
Proof. induction n; intros [|k] H; try lia. reflexivity.
  cbn [cond]. assert (E : (S n <? S k)%nat = true) by (apply Nat.ltb_lt; lia). rewrite E. reflexivity. Qed.

(* the early exit `if nph < det: return 0` agrees with the recurrence *)
Lemma cond_rec w n k : cond w (S n) (S k) = cond w n k * (qn w - qn k) / qn w + cond w n (S k) * qn (S k) / qn w.
Proof. cbn [cond]. destruct (S n <? S k)%nat eqn:E; [|reflexivity].
  apply Nat.ltb_lt in E. rewrite !cond_gt by lia. unfold Qcdiv. ring. Qed.
Lemma cond_S0 w n : cond w (S n) 0 = 0. Proof. reflexivity. Qed.

Theorem cond_closed w : (0 < w)%nat -> forall n k, cond w n k * qpow (qn w) n = ff w k * qn (stir n k).
Proof.
  intros Hw. pose proof (qn_pos w Hw) as Hq.
  induction n as [|n IH]; intros k.
  - destruct k; simpl; ring.
  - destruct k as [|k].
    + simpl. ring.
    + rewrite cond_rec.
      change (qpow (qn w) (S n)) with (qn w * qpow (qn w) n).
      change (stir (S n) (S k)) with (S k * stir n (S k) + stir n k)%nat.
      rewrite qn_add, qn_mul.
      transitivity ((cond w n k * qpow (qn w) n) * (qn w - qn k) + (cond w n (S k) * qpow (qn w) n) * qn (S k)).
      { field. exact Hq. }
      rewrite !IH. simpl ff. ring.
Qed.

Theorem cond_closed_form w n k : (0 < w)%nat ->
  cond w n k = qn (binom w k) * qn (stir n k) * qn (fact k) / qpow (qn w) n.
Proof. intros Hw. pose proof (qpow_nz (qn w) n (qn_pos w Hw)) as Hp.
  pose proof (cond_closed w Hw n k) as H. rewrite ff_binom in H.
  replace (cond w n k) with (cond w n k * qpow (qn w) n / qpow (qn w) n) by (field; exact Hp).
  rewrite H. field. exact Hp. Qed.

Theorem cond_total w : (0 < w)%nat -> forall n, qsum (S n) (fun k => cond w n k) = 1.
Proof.
  intros Hw. pose proof (qn_pos w Hw) as Hq. induction n.
  - reflexivity.
  - rewrite qsum_shift. rewrite cond_S0.
    rewrite (qsum_ext (S n) _ (fun d => cond w n d * ((qn w - qn d) / qn w) + cond w n (S d) * (qn (S d) / qn w))).
    2:{ intros i _. rewrite cond_rec. unfold Qcdiv. ring. }
    rewrite qsum_add.
    assert (E : qsum (S n) (fun d => cond w n (S d) * (qn (S d) / qn w))
                = qsum (S n) (fun d => cond w n d * (qn d / qn w))).
    { rewrite (qsum_shift n (fun d => cond w n d * (qn d / qn w))).
      change (qsum (S n) (fun d => cond w n (S d) * (qn (S d) / qn w)))
        with (qsum n (fun d => cond w n (S d) * (qn (S d) / qn w)) + cond w n (S n) * (qn (S n) / qn w)).
      rewrite cond_gt by lia. simpl qn. unfold Qcdiv. ring. }
    rewrite E, <- qsum_add, <- IHn. rewrite Qcplus_0_l. apply qsum_ext. intros i _. field. exact Hq.
Qed.

(* ---------------------------------------------------------------- one-mode distributions *)
Lemma prob1_app j a b : prob1 j (a ++ b) = prob1 j a + prob1 j b.
Proof. unfold prob1. rewrite filter_app, map_app, qsuml_app. reflexivity. Qed.
Lemma mass1_app a b : mass1 (a ++ b) = mass1 a + mass1 b.
Proof. unfold mass1. rewrite map_app, qsuml_app. reflexivity. Qed.
Lemma prob1_seq f j : forall len a,
  prob1 j (map (fun i => (i, f i)) (seq a len)) = if ((a <=? j) && (j <? a + len))%nat then f j else 0.
Proof. induction len; intros a.
  - simpl. destruct (a <=? j)%nat eqn:E1; simpl; auto. destruct (j <? a + 0)%nat eqn:E2; auto.
    apply Nat.leb_le in E1. apply Nat.ltb_lt in E2. lia.
  - cbn [seq map]. unfold prob1 in *. cbn [filter fst]. destruct (a =? j)%nat eqn:E.
    + apply Nat.eqb_eq in E. subst a. cbn [map snd qsuml]. rewrite IHlen.
      assert (E1 : (S j <=? j)%nat = false) by (apply Nat.leb_gt; lia). rewrite E1.
      assert (E2 : (j <=? j)%nat = true) by (apply Nat.leb_le; lia).
      assert (E3 : (j <? j + S len)%nat = true) by (apply Nat.ltb_lt; lia). rewrite E2, E3. simpl. ring.
    + rewrite IHlen. apply Nat.eqb_neq in E.
      destruct (S a <=? j)%nat eqn:E1, (a <=? j)%nat eqn:E2, (j <? S a + len)%nat eqn:E3, (j <? a + S len)%nat eqn:E4;
        simpl; auto;
        repeat match goal with
        | H : (_ <=? _)%nat = true |- _ => apply Nat.leb_le in H
        | H : (_ <=? _)%nat = false |- _ => apply Nat.leb_gt in H
        | H : (_ <? _)%nat = true |- _ => apply Nat.ltb_lt in H
        | H : (_ <? _)%nat = false |- _ => apply Nat.ltb_ge in H
        end; lia. Qed.
Lemma mass1_seq f : forall len a, mass1 (map (fun i => (i, f i)) (seq a len)) = qsum len (fun i => f (a + i)%nat).
Proof. induction len; intros a. reflexivity.
  rewrite qsum_shift. cbn [seq map]. unfold mass1 in *. cbn [map snd qsuml]. rewrite IHlen.
  rewrite Nat.add_0_r. f_equal. apply qsum_ext. intros i _. f_equal. lia. Qed.

(* the general branch of Detector.detect *)
Definition detect_gen (w mx n : nat) : dist1 :=
  let maxd := Nat.min mx n in
  let body := map (fun i => (i, cond w n i)) (seq 1 (maxd - 1)) in
  body ++ [(maxd, 1 - mass1 body)].

(* the two shortcuts (fewer than two photons; threshold) are instances of the general branch *)
Lemma detect_inter_gen w mx n : (1 <= mx)%nat -> (w = 1%nat -> mx = 1%nat) -> detect_inter w mx n = detect_gen w mx n.
Proof. intros Hm Hw. unfold detect_inter, detect_gen.
  destruct n as [|[|n]].
  - rewrite Nat.min_0_r. reflexivity.
  - replace (Nat.min mx 1) with 1%nat by lia. reflexivity.
  - cbn [Nat.ltb Nat.leb]. destruct (w =? 1)%nat eqn:E; [|reflexivity].
    apply Nat.eqb_eq in E. rewrite (Hw E). reflexivity. Qed.

Lemma prob1_single j k p : prob1 j [(k, p)] = if (k =? j)%nat then p else 0.
Proof. unfold prob1. cbn [filter fst]. destruct (k =? j)%nat; simpl; ring. Qed.

Lemma detect_gen_mass w mx n : mass1 (detect_gen w mx n) = 1.
Proof. unfold detect_gen. cbv zeta. rewrite mass1_app. unfold mass1 at 2. simpl. ring. Qed.

Lemma total_split3 w n a : (0 < w)%nat -> (1 <= a)%nat -> (a <= S n)%nat ->
  cond w n 0 + qsum (a - 1) (fun i => cond w n (1 + i)) + qsum (S n - a) (fun i => cond w n (a + i)) = 1.
Proof. intros Hw H1 H2. rewrite <- (cond_total w Hw n).
  transitivity (qsum (1 + ((a - 1) + (S n - a))) (fun k => cond w n k)).
  2:{ f_equal. lia. }
  rewrite (qsum_split 1). rewrite (qsum_split (a - 1)).
  change (qsum 1 (fun k => cond w n k)) with (0 + cond w n 0).
  rewrite (qsum_ext (S n - a) (fun i => cond w n (1 + (a - 1 + i))) (fun i => cond w n (a + i))).
  ring. intros i _. f_equal. lia. Qed.

Lemma detect_gen_below w mx n j : (0 < w)%nat -> (1 <= mx)%nat -> (j < mx)%nat ->
  prob1 j (detect_gen w mx n) = cond w n j.
Proof. intros Hw Hm Hj. unfold detect_gen. cbv zeta. rewrite prob1_app, prob1_seq, prob1_single, mass1_seq.
  destruct (Nat.lt_trichotomy j (Nat.min mx n)) as [H|[H|H]].
  - (* below the top reading *)
    assert (E : (Nat.min mx n =? j)%nat = false) by (apply Nat.eqb_neq; lia). rewrite E.
    destruct j.
    + simpl. destruct n; [lia|]. rewrite cond_S0. ring.
    + assert (E1 : (1 <=? S j)%nat = true) by (apply Nat.leb_le; lia).
      assert (E2 : (S j <? 1 + (Nat.min mx n - 1))%nat = true) by (apply Nat.ltb_lt; lia). rewrite E1, E2. simpl. ring.
  - (* j = min mx n = n < mx : the remainder *)
    assert (Hn : j = n) by lia. clear H. subst j.
    replace (Nat.min mx n) with n by lia. rewrite Nat.eqb_refl.
    destruct n as [|n]. { simpl. ring. }
    assert (E2 : (S n <? 1 + (S n - 1))%nat = false) by (apply Nat.ltb_ge; lia). rewrite E2, andb_false_r.
    pose proof (total_split3 w (S n) (S n) Hw ltac:(lia) ltac:(lia)) as T.
    replace (S (S n) - S n)%nat with 1%nat in T by lia.
    change (qsum 1 (fun i => cond w (S n) (S n + i))) with (0 + cond w (S n) (S n + 0)) in T.
    rewrite Nat.add_0_r in T.
    rewrite cond_S0 in T. rewrite <- T. ring.
  - (* n < j < mx : no such reading *)
    assert (E : (Nat.min mx n =? j)%nat = false) by (apply Nat.eqb_neq; lia). rewrite E.
    assert (E2 : (j <? 1 + (Nat.min mx n - 1))%nat = false) by (apply Nat.ltb_ge; lia). rewrite E2, andb_false_r.
    rewrite cond_gt by lia. ring. Qed.

Lemma detect_gen_top w mx n : (0 < w)%nat -> (1 <= mx)%nat ->
  prob1 mx (detect_gen w mx n) = qsum (S n - mx) (fun i => cond w n (mx + i)).
Proof. intros Hw Hm. unfold detect_gen. cbv zeta. rewrite prob1_app, prob1_seq, prob1_single, mass1_seq.
  assert (E2 : (mx <? 1 + (Nat.min mx n - 1))%nat = false) by (apply Nat.ltb_ge; lia). rewrite E2, andb_false_r.
  destruct (le_lt_dec mx n) as [H|H].
  - replace (Nat.min mx n) with mx by lia. rewrite Nat.eqb_refl.
    pose proof (total_split3 w n mx Hw Hm ltac:(lia)) as T.
    assert (C0 : cond w n 0 = 0). { destruct n; [lia|]. apply cond_S0. }
    rewrite C0 in T. rewrite <- T. ring.
  - assert (E : (Nat.min mx n =? mx)%nat = false) by (apply Nat.eqb_neq; lia). rewrite E.
    replace (S n - mx)%nat with 0%nat by lia. simpl. ring. Qed.

Lemma detect_gen_above w mx n j : (mx < j)%nat -> prob1 j (detect_gen w mx n) = 0.
Proof. intros Hj. unfold detect_gen. cbv zeta. rewrite prob1_app, prob1_seq, prob1_single.
  assert (E : (Nat.min mx n =? j)%nat = false) by (apply Nat.eqb_neq; lia). rewrite E.
  assert (E2 : (j <? 1 + (Nat.min mx n - 1))%nat = false) by (apply Nat.ltb_ge; lia). rewrite E2, andb_false_r. ring. Qed.

(* Detector.detect: every outcome above the configured maximum is folded into the maximum; mass 1 *)
Theorem detect_folds w mx n : (1 <= mx)%nat -> (mx <= w)%nat ->
  (forall j, (j < mx)%nat -> prob1 j (detect (Inter w mx) n) = cond w n j) /\
  prob1 mx (detect (Inter w mx) n) = qsum (S n - mx) (fun i => cond w n (mx + i)) /\
  (forall j, (mx < j)%nat -> prob1 j (detect (Inter w mx) n) = 0) /\
  mass1 (detect (Inter w mx) n) = 1.
Proof. intros Hm Hw. cbn [detect]. rewrite detect_inter_gen by lia.
  repeat split; intros.
  - apply detect_gen_below; lia.
  - apply detect_gen_top; lia.
  - apply detect_gen_above; lia.
  - apply detect_gen_mass. Qed.

Theorem threshold_min1 n : detect threshold n = [(Nat.min n 1, 1)].
Proof. destruct n as [|[|n]]; reflexivity. Qed.
Theorem pnr_identity n : detect Pnr n = [(n, 1)] /\ kernel None n = [(n, 1)].
Proof. split; reflexivity. Qed.
Lemma constructors :
  mk_detector (Some 1%nat) None = Some threshold /\ (forall m, mk_detector None m = Some Pnr) /\
  (forall w m, (0 < w)%nat -> (m <= w)%nat -> mk_detector (Some w) (Some m) = Some (Inter w m)) /\
  (forall w, (0 < w)%nat -> mk_detector (Some w) None = Some (Inter w w)).
Proof. repeat split; intros; try reflexivity; unfold mk_detector.
  - destruct w; [lia|]. cbn [Nat.eqb]. assert (E : (m <=? S w)%nat = true) by (apply Nat.leb_le; lia). rewrite E.
    rewrite Nat.min_l by lia. reflexivity.
  - destruct w; [lia|]. reflexivity. Qed.

(* ---------------------------------------------------------------- beam-splitter tree *)
Lemma flat_map_pair_repeat (a : Qc) y : forall m, flat_map (fun x => [a * x; a * x]) (repeat y m) = repeat (a * y) (m + m).
Proof. induction m. reflexivity. cbn [repeat flat_map app]. rewrite IHm. rewrite Nat.add_succ_r. reflexivity. Qed.

Lemma tree_leaves_half r : r + r = 1 -> forall L, tree_leaves L r = repeat (qpow r L) (2 ^ L).
Proof. intros Hr. assert (E : 1 - r = r) by (rewrite <- Hr; ring).
  induction L. reflexivity.
  cbn [tree_leaves]. rewrite E, IHL, flat_map_pair_repeat. cbn [qpow Nat.pow]. f_equal. lia. Qed.
Lemma half_pow r : r + r = 1 -> forall L, qpow r L * qn (2 ^ L) = 1.
Proof. intros Hr. induction L. reflexivity.
  cbn [qpow Nat.pow]. rewrite qn_mul. change (qn 2) with (0 + 1 + 1).
  transitivity ((r + r) * (qpow r L * qn (2 ^ L))). ring. rewrite IHL, Hr. ring. Qed.

Lemma qn_stir_0 n : qn (stir n 0) = if (n =? 0)%nat then 1 else 0.
Proof. destruct n; reflexivity. Qed.

Lemma clicks_uniform p W : p * qn W = 1 -> forall m n k,
  clicks (repeat p m) n k * qpow (qn W) n = ff m k * qn (stir n k).
Proof.
  intros Hp. induction m; intros n k.
  - cbn [repeat clicks]. destruct k.
    + rewrite qn_stir_0. destruct n; simpl; ring.
    + rewrite ff_0. rewrite andb_false_r. ring.
  - cbn [repeat clicks]. destruct k as [|k].
    + rewrite Qcplus_0_r. rewrite IHm. reflexivity.
    + rewrite Qcmult_plus_distr_l, IHm. rewrite <- qsum_scal_r.
      rewrite (qsum_ext n _ (fun i => ff m k * (qn (binom n i) * qn (stir i k)))).
      2:{ intros i Hi. replace n with ((n - i) + i)%nat at 3 by lia. rewrite qpow_add.
          transitivity (qn (binom n i) * (qpow p (n - i) * qpow (qn W) (n - i)) * (clicks (repeat p m) i k * qpow (qn W) i)).
          ring. rewrite <- qpow_mul, Hp, qpow_1, IHm. ring. }
      rewrite qsum_scal, stir_binom_sum, ff_pascal. ring.
Qed.

Lemma ff_gt w : forall k, (w < k)%nat -> ff w k = 0.
Proof. induction k; intros H. lia. cbn [ff]. destruct (Nat.eq_dec w k) as [->|Hne]. ring. rewrite IHk by lia. ring. Qed.
Lemma cond_gt_w w n k : (0 < w)%nat -> (w < k)%nat -> cond w n k = 0.
Proof. intros Hw Hk. pose proof (cond_closed w Hw n k) as H. rewrite ff_gt in H by lia.
  rewrite Qcmult_0_l in H. apply Qcmult_integral in H. destruct H as [H|H]; auto.
  exfalso. revert H. apply qpow_nz, qn_pos, Hw. Qed.

Lemma pow2_pos L : (0 < 2 ^ L)%nat.
Proof. induction L; simpl; lia. Qed.

(* reflectivity 1/2: the click law of the tree is the click law of 2^L equally likely wires *)
Theorem tree_clicks_uniform r L n k : r + r = 1 -> clicks (tree_leaves L r) n k = cond (2 ^ L) n k.
Proof. intros Hr. pose proof (pow2_pos L) as HW.
  pose proof (qpow_nz (qn (2 ^ L)) n (qn_pos _ HW)) as Hp.
  replace (clicks (tree_leaves L r) n k) with (clicks (tree_leaves L r) n k * qpow (qn (2 ^ L)) n / qpow (qn (2 ^ L)) n)
    by (field; exact Hp).
  rewrite tree_leaves_half by exact Hr.
  rewrite (clicks_uniform _ (2 ^ L) (half_pow r Hr L)).
  rewrite <- (cond_closed _ HW). field. exact Hp. Qed.

Theorem bs_tree_uniform r L n j : r + r = 1 ->
  prob1 j (detect (Tree L r) n) = prob1 j (detect (Inter (2 ^ L) (2 ^ L)) n).
Proof. intros Hr. pose proof (pow2_pos L) as HW. set (W := (2 ^ L)%nat) in *.
  destruct (detect_folds W W n HW (le_n W)) as (Hb & Ht & Ha & _).
  cbn [detect] in *. unfold detect_tree. fold W.
  destruct (n <? 2)%nat eqn:En.
  { unfold detect_inter. rewrite En. reflexivity. }
  rewrite (map_ext _ (fun k => (k, cond W n k))) by (intros k; unfold W; rewrite tree_clicks_uniform by exact Hr; reflexivity).
  rewrite prob1_seq. cbn [Nat.leb andb].
  destruct (Nat.lt_trichotomy j W) as [H|[H|H]].
  - rewrite Hb by exact H. destruct (j <? 0 + S (Nat.min n W))%nat eqn:E; [reflexivity|].
    apply Nat.ltb_ge in E. rewrite cond_gt by lia. reflexivity.
  - subst j. rewrite Ht. destruct (W <? 0 + S (Nat.min n W))%nat eqn:E.
    + apply Nat.ltb_lt in E. replace (S n - W)%nat with (S (n - W)) by lia. rewrite qsum_shift.
      rewrite qsum_zero. rewrite Nat.add_0_r. ring. intros i _. apply cond_gt_w; lia.
    + apply Nat.ltb_ge in E. replace (S n - W)%nat with 0%nat by lia. reflexivity.
  - rewrite Ha by exact H. assert (E : (j <? 0 + S (Nat.min n W))%nat = false) by (apply Nat.ltb_ge; lia).
    rewrite E. reflexivity. Qed.

(* ---------------------------------------------------------------- detector lists *)
Lemma dtype_eqb_eq a b : dtype_eqb a b = true <-> a = b.
Proof. destruct a, b; simpl; split; intros H; try discriminate; auto. Qed.

Lemma dt_loop_inv ds : forall t t', dt_loop (Some t) ds = t' -> t' <> TMixed ->
  t' = t /\ Forall (fun d => otype d = t) ds.
Proof. induction ds as [|d r IH]; intros t t' H Hm; cbn [dt_loop] in H.
  - split; auto.
  - destruct (dtype_eqb t (otype d)) eqn:E.
    + apply dtype_eqb_eq in E. destruct (IH _ _ H Hm) as [-> F]. split; auto.
    + congruence. Qed.
Lemma dt_loop_uniform t ds : Forall (fun d => otype d = t) ds -> dt_loop (Some t) ds = t.
Proof. induction 1; cbn [dt_loop]. reflexivity. rewrite H. 
  replace (dtype_eqb t t) with true by (symmetry; apply dtype_eqb_eq; reflexivity). exact IHForall. Qed.

(* get_detection_type: the common type of a non-empty uniform list, PNR for an empty list, Mixed otherwise *)
Theorem detection_type_inv ds t : detection_type ds = t -> t <> TMixed -> Forall (fun d => otype d = t) ds.
Proof. destruct ds as [|d r]; intros H Hm. constructor.
  cbn [detection_type dt_loop] in H. destruct (dt_loop_inv _ _ _ H Hm) as [E F]. rewrite E. constructor; auto. Qed.
Theorem detection_type_uniform ds t : ds <> [] -> Forall (fun d => otype d = t) ds -> detection_type ds = t.
Proof. destruct ds as [|d r]; intros Hne F. congruence. inversion F; subst.
  cbn [detection_type dt_loop]. apply dt_loop_uniform. assumption. Qed.
Lemma otype_not_mixed d : otype d <> TMixed.
Proof. destruct d as [[|w mx|L r]|]; simpl; try discriminate. destruct (w =? 1)%nat; discriminate. Qed.
Theorem detection_type_mixed ds : ds <> [] ->
  (detection_type ds = TMixed <-> forall t, ~ Forall (fun d => otype d = t) ds).
Proof. intros Hne. split.
  - intros H t F. rewrite (detection_type_uniform ds t Hne F) in H. subst t.
    destruct ds as [|d r]; [congruence|]. inversion F; subst. eapply otype_not_mixed; eauto.
  - intros H. destruct (detection_type ds) eqn:E; auto; exfalso; apply (H _ (detection_type_inv ds _ E ltac:(discriminate))). Qed.

(* check_heralds_detectors refuses exactly when some herald asks a detector for more than its maximum reading *)
Theorem check_heralds_spec hs ds : ds <> [] ->
  (check_heralds hs ds = false <->
   exists k v d m, In (k, v) hs /\ nth k ds None = Some d /\ max_detections d = Some m /\ (m < v)%nat).
Proof. intros Hne. unfold check_heralds. destruct hs as [|h hs'].
  { split. discriminate. intros (k & v & d & m & [] & _). }
  destruct ds as [|d0 ds']; [congruence|]. set (H := h :: hs'). set (D := d0 :: ds'). clearbody H D. clear.
  split.
  - intros F. induction H as [|[k v] r IH]; cbn [forallb] in F. discriminate.
    apply andb_false_iff in F. destruct F as [F|F].
    + unfold herald_ok in F. cbn [fst snd] in F. destruct (nth k D None) as [d|] eqn:En; [|discriminate].
      destruct (max_detections d) as [m|] eqn:Em; [|discriminate].
      apply negb_false_iff, Nat.ltb_lt in F. exists k, v, d, m. repeat split; auto. left; auto.
    + destruct (IH F) as (k' & v' & d & m & Hin & ?). exists k', v', d, m. split; auto. right; auto.
  - intros (k & v & d & m & Hin & En & Em & Hlt).
    destruct (forallb (herald_ok D) H) eqn:F; auto. rewrite forallb_forall in F. specialize (F _ Hin).
    unfold herald_ok in F. cbn [fst snd] in F. rewrite En, Em in F. apply negb_true_iff, Nat.ltb_ge in F. lia. Qed.

(* ---------------------------------------------------------------- simulate_detectors *)
Definition kprob (od : option detector) (n k : nat) : Qc := prob1 k (kernel od n).
(* product of the per-mode kernels: probability that input state s is read as t *)
Fixpoint prodk (ds : list (option detector)) (s t : state) : Qc :=
  match ds, s, t with
  | d :: ds', n :: s', k :: t' => kprob d n k * prodk ds' s' t'
  | [], [], [] => 1
  | _, _, _ => 0
  end.
Definition proper (od : option detector) : Prop := forall n, mass1 (kernel od n) = 1.
Definition expand_gen (d : bsd) (ds : list (option detector)) : bsd :=
  flat_map (fun sp => map (fun tq => (fst tq, snd sp * snd tq)) (tensor (fst sp) ds)) d.

Lemma prob_of_app t a b : prob_of t (a ++ b) = prob_of t a + prob_of t b.
Proof. unfold prob_of. rewrite filter_app, map_app, qsuml_app. reflexivity. Qed.
Lemma mass_app a b : mass (a ++ b) = mass a + mass b.
Proof. unfold mass. rewrite map_app, qsuml_app. reflexivity. Qed.
Lemma prob_of_cons t s p l : prob_of t ((s, p) :: l) = (if state_eqb s t then p else 0) + prob_of t l.
Proof. unfold prob_of. cbn [filter fst]. destruct (state_eqb s t); simpl; ring. Qed.
Lemma prob_of_scale t p l : prob_of t (map (fun tq => (fst tq, p * snd tq)) l) = p * prob_of t l.
Proof. induction l as [|[s q] l IH]. unfold prob_of; simpl; ring.
  cbn [map fst snd]. rewrite !prob_of_cons, IH. destruct (state_eqb s t); ring. Qed.
Lemma mass_scale p (l : bsd) : mass (map (fun tq => (fst tq, p * snd tq)) l) = p * mass l.
Proof. unfold mass. induction l as [|[s q] l IH]; simpl. ring. simpl in IH. rewrite IH. ring. Qed.

Lemma prob_of_consmap k t a p T :
  prob_of (k :: t) (map (fun tq => (a :: fst tq, p * snd tq)) T) = if (a =? k)%nat then p * prob_of t T else 0.
Proof. induction T as [|[s q] T IH]. unfold prob_of; simpl. destruct (a =? k)%nat; ring.
  cbn [map fst snd]. rewrite !prob_of_cons, IH. cbn [state_eqb]. destruct (a =? k)%nat; simpl. 
  destruct (state_eqb s t); ring. ring. Qed.
Lemma prob_of_nilmap a p T : prob_of [] (map (fun tq : state * Qc => (a :: fst tq, p * snd tq)) T) = 0.
Proof. induction T as [|[s q] T IH]. reflexivity. cbn [map fst snd]. rewrite prob_of_cons, IH. simpl. ring. Qed.

Lemma prob_of_join k t (K : dist1) T :
  prob_of (k :: t) (flat_map (fun kp => map (fun tq => (fst kp :: fst tq, snd kp * snd tq)) T) K) = prob1 k K * prob_of t T.
Proof. induction K as [|[a p] K IH]. unfold prob_of, prob1; simpl; ring.
  cbn [flat_map fst snd]. rewrite prob_of_app, IH, prob_of_consmap.
  unfold prob1. cbn [filter fst]. destruct (a =? k)%nat; simpl; ring. Qed.
Lemma prob_of_join_nil (K : dist1) (T : bsd) :
  prob_of [] (flat_map (fun kp => map (fun tq => (fst kp :: fst tq, snd kp * snd tq)) T) K) = 0.
Proof. induction K as [|[a p] K IH]. reflexivity.
  cbn [flat_map fst snd]. rewrite prob_of_app, IH, prob_of_nilmap. ring. Qed.
Lemma mass_consmap a p (T : bsd) : mass (map (fun tq : state * Qc => (a :: fst tq, p * snd tq)) T) = p * mass T.
Proof. unfold mass. induction T as [|[s q] T IH]; simpl. ring. simpl in IH. rewrite IH. ring. Qed.
Lemma mass_join (K : dist1) (T : bsd) :
  mass (flat_map (fun kp => map (fun tq => (fst kp :: fst tq, snd kp * snd tq)) T) K) = mass1 K * mass T.
Proof. induction K as [|[a p] K IH]. unfold mass, mass1; simpl; ring.
  cbn [flat_map fst snd]. rewrite mass_app, IH, mass_consmap. unfold mass1. cbn [map snd qsuml]. ring. Qed.

Lemma tensor_prob : forall s ds t, length s = length ds -> prob_of t (tensor s ds) = prodk ds s t.
Proof. induction s as [|n s IH]; intros [|d ds] t Hl; try discriminate.
  - destruct t; reflexivity.
  - cbn [tensor]. destruct t as [|k t].
    + rewrite prob_of_join_nil. reflexivity.
    + rewrite prob_of_join, IH by (simpl in Hl; lia). reflexivity. Qed.
Lemma tensor_mass : forall s ds, Forall proper ds -> mass (tensor s ds) = 1.
Proof. induction s as [|n s IH]; intros [|d ds] F; try reflexivity.
  cbn [tensor]. inversion F; subst. rewrite mass_join, IH by assumption. rewrite (H1 n). ring. Qed.

(* the product kernel *)
Lemma expand_gen_prob ds t : forall d, Forall (fun sp => length (fst sp) = length ds) d ->
  prob_of t (expand_gen d ds) = qsuml (map (fun sp => snd sp * prodk ds (fst sp) t) d).
Proof. induction d as [|[s p] d IH]; intros F. reflexivity.
  inversion F; subst. unfold expand_gen in *. cbn [flat_map map fst snd qsuml].
  rewrite prob_of_app, IH by assumption. rewrite prob_of_scale, tensor_prob by assumption. reflexivity. Qed.
Lemma expand_gen_mass ds : Forall proper ds -> forall d, mass (expand_gen d ds) = mass d.
Proof. intros P. induction d as [|[s p] d IH]. reflexivity.
  unfold expand_gen in *. cbn [flat_map fst snd]. rewrite mass_app, IH, mass_scale, tensor_mass by assumption.
  unfold mass. simpl. ring. Qed.

(* the all-threshold shortcut (state.threshold_detection()) is the general path *)
Lemma otype_thr d : otype d = TThr -> forall n, kernel d n = [(Nat.min n 1, 1)].
Proof. destruct d as [[|w mx|L r]|]; simpl; try discriminate. destruct (w =? 1)%nat eqn:E; [|discriminate].
  intros _ n. unfold detect_inter. rewrite E. destruct n as [|[|n]]; reflexivity. Qed.
Lemma tensor_thr : forall ds, Forall (fun d => otype d = TThr) ds -> forall s, length s = length ds ->
  tensor s ds = [(thresh_state s, 1)].
Proof. induction ds as [|d ds IH]; intros F [|n s] Hl; try discriminate. reflexivity.
  inversion F; subst. cbn [tensor]. rewrite (otype_thr d H1), IH by (auto; simpl in Hl; lia).
  cbn [flat_map map app fst snd thresh_state]. replace (1 * 1) with 1 by ring. reflexivity. Qed.
Lemma expand_is_gen ds d : Forall (fun sp => length (fst sp) = length ds) d -> expand d ds = expand_gen d ds.
Proof. intros F. unfold expand. destruct (detection_type ds) eqn:E; try reflexivity.
  pose proof (detection_type_inv ds _ E ltac:(discriminate)) as T. unfold expand_gen.
  induction d as [|[s p] d IH]. reflexivity. inversion F; subst.
  cbn [map flat_map fst snd]. rewrite IH by assumption. rewrite tensor_thr by assumption.
  cbn [map app fst snd]. replace (p * 1) with p by ring. reflexivity. Qed.

(* photon filter and normalisation *)
Lemma filter_split_mass g (l : bsd) :
  mass (filter (fun e => g (fst e)) l) + mass (filter (fun e => negb (g (fst e))) l) = mass l.
Proof. unfold mass. induction l as [|[s p] l IH]; simpl. ring. destruct (g s); simpl; rewrite <- IH; ring. Qed.
Lemma prob_of_filter g t (l : bsd) :
  prob_of t (filter (fun e => g (fst e)) l) = if g t then prob_of t l else 0.
Proof. induction l as [|[s p] l IH]. unfold prob_of; simpl. destruct (g t); reflexivity.
  cbn [filter fst]. destruct (g s) eqn:Es.
  - rewrite !prob_of_cons, IH. destruct (state_eqb s t) eqn:Et.
    + apply state_eqb_eq in Et. subst. rewrite Es. reflexivity.
    + destruct (g t); ring.
  - rewrite prob_of_cons, IH. destruct (state_eqb s t) eqn:Et.
    + apply state_eqb_eq in Et. subst. rewrite Es. reflexivity.
    + destruct (g t); ring. Qed.
Lemma mass_div m (l : bsd) : mass (map (fun e => (fst e, snd e / m)) l) = mass l / m.
Proof. unfold mass. induction l as [|[s p] l IH]; simpl. unfold Qcdiv. ring. simpl in IH. rewrite IH. unfold Qcdiv. ring. Qed.
Lemma prob_of_div t m (l : bsd) : prob_of t (map (fun e => (fst e, snd e / m)) l) = prob_of t l / m.
Proof. induction l as [|[s p] l IH]. unfold prob_of; simpl. unfold Qcdiv. ring.
  cbn [map fst snd]. rewrite !prob_of_cons, IH. destruct (state_eqb s t); unfold Qcdiv; ring. Qed.
Lemma normalize_mass l : mass l <> 0 -> mass (normalize l) = 1.
Proof. intros H. unfold normalize. destruct (Qc_eq_dec (mass l) 0); [contradiction|]. rewrite mass_div. field. exact H. Qed.
Lemma normalize_prob t l : mass l <> 0 -> prob_of t (normalize l) = prob_of t l / mass l.
Proof. intros H. unfold normalize. destruct (Qc_eq_dec (mass l) 0); [contradiction|]. apply prob_of_div. Qed.
Lemma normalize_keeps_filter g l : Forall (fun e : state * Qc => g (fst e) = true) l ->
  Forall (fun e => g (fst e) = true) (normalize l).
Proof. intros F. unfold normalize. destruct (Qc_eq_dec (mass l) 0); auto.
  generalize (mass l) as m. clear n. intros m. induction F; simpl; constructor; auto. Qed.

Definition well_formed (d : bsd) (ds : list (option detector)) : Prop :=
  Forall (fun sp => length (fst sp) = length ds) d.

Theorem simulate_independent d ds t : well_formed d ds ->
  prob_of t (expand d ds) = qsuml (map (fun sp => snd sp * prodk ds (fst sp) t) d).
Proof. intros F. rewrite expand_is_gen by exact F. apply expand_gen_prob, F. Qed.

Theorem simulate_preserves_total d ds : well_formed d ds -> Forall proper ds -> mass (expand d ds) = mass d.
Proof. intros F P. rewrite expand_is_gen by exact F. apply expand_gen_mass, P. Qed.

Lemma tensor_pnr ds : detection_type ds = TPnr -> forall s, length s = length ds -> tensor s ds = [(s, 1)].
Proof. intros E. pose proof (detection_type_inv ds _ E ltac:(discriminate)) as T. clear E.
  induction T as [|d' ds' Hd T IH]; intros [|n s] Hl; try discriminate. reflexivity.
  cbn [tensor]. rewrite IH by (simpl in Hl; lia).
  assert (K : kernel d' n = [(n, 1)]).
  { destruct d' as [[|w mx|L r]|]; simpl in *; try discriminate; auto. destruct (w =? 1)%nat; discriminate. }
  rewrite K. cbn [flat_map map app fst snd]. replace (1 * 1) with 1 by ring. reflexivity. Qed.

(* with only PNR / absent detectors the product kernel is the identity *)
Theorem expand_pnr d ds : detection_type ds = TPnr -> well_formed d ds -> expand d ds = d.
Proof. intros E F. rewrite expand_is_gen by exact F. unfold expand_gen.
  induction d as [|[s p] d IH]. reflexivity. inversion F; subst.
  cbn [flat_map fst snd]. rewrite IH by assumption. rewrite (tensor_pnr ds E s) by assumption.
  cbn [map app fst snd]. replace (p * 1) with p by ring. reflexivity. Qed.

Theorem simulate_pnr d ds : detection_type ds = TPnr ->
  simulate d ds None = (d, 1) /\ forall s, length s = length ds -> tensor s ds = [(s, 1)].
Proof. intros E. split. unfold simulate, simulate_cfg. rewrite E. destruct d; reflexivity.
  apply tensor_pnr, E. Qed.

Lemma mass_one_nonempty (d : bsd) : mass d = 1 -> d <> [].
Proof. intros M E. subst d. revert M. unfold mass. simpl. discriminate. Qed.

(* the general branch (filter, performance, normalisation) *)
Lemma bookkeeping_general d ds minp (r : bsd * Qc) : well_formed d ds -> Forall proper ds -> mass d = 1 ->
  r = (normalize (kept minp (expand d ds)), 1 - mass (dropped minp (expand d ds))) ->
  let out := expand d ds in
  let res := fst r in
  let perf := snd r in
  perf = mass (kept minp out) /\
  perf + mass (dropped minp out) = 1 /\
  (forall t, prob_of t (kept minp out) = if keep minp t then prob_of t out else 0) /\
  Forall (fun e => keep minp (fst e) = true) res /\
  (perf <> 0 -> mass res = 1 /\ forall t, prob_of t res = (if keep minp t then prob_of t out else 0) / perf).
Proof. intros F P M S. cbv zeta. rewrite S. cbn [fst snd].
  pose proof (filter_split_mass (keep minp) (expand d ds)) as Sp. fold (kept minp (expand d ds)) in Sp.
  fold (dropped minp (expand d ds)) in Sp. rewrite (simulate_preserves_total d ds F P), M in Sp.
  assert (Pf : 1 - mass (dropped minp (expand d ds)) = mass (kept minp (expand d ds))) by (rewrite <- Sp; ring).
  rewrite Pf. repeat split.
  - exact Sp.
  - intros t. apply prob_of_filter.
  - apply normalize_keeps_filter. unfold kept. clear. induction (expand d ds) as [|e l IH]; simpl. constructor.
    destruct (keep minp (fst e)) eqn:E; auto.
  - apply normalize_mass, H.
  - intros t. rewrite normalize_prob by exact H. unfold kept at 1. rewrite prob_of_filter. reflexivity. Qed.

Lemma filter_all (l : bsd) : filter (fun e => keep None (fst e)) l = l.
Proof. induction l as [|a l IH]; [reflexivity|].
  change (a :: filter (fun e => keep None (fst e)) l = a :: l). rewrite IH. reflexivity. Qed.
Lemma filter_none (l : bsd) : filter (fun e => negb (keep None (fst e))) l = [].
Proof. induction l as [|a l IH]; [reflexivity|]. exact IH. Qed.

(* the all-PNR shortcut without filter: the statement holds trivially *)
Lemma bookkeeping_shortcut d ds : well_formed d ds -> mass d = 1 -> detection_type ds = TPnr ->
  let out := expand d ds in
  let res := fst (d, 1) in
  let perf := snd (d, 1) in
  perf = mass (kept None out) /\
  perf + mass (dropped None out) = 1 /\
  (forall t, prob_of t (kept None out) = if keep None t then prob_of t out else 0) /\
  Forall (fun e => keep None (fst e) = true) res /\
  (perf <> 0 -> mass res = 1 /\ forall t, prob_of t res = (if keep None t then prob_of t out else 0) / perf).
Proof. intros F M E. cbv zeta. cbn [fst snd keep]. rewrite (expand_pnr d ds E F).
  unfold kept, dropped. rewrite filter_all, filter_none. rewrite M.
  split. reflexivity.
  split. unfold mass. simpl. ring.
  split. intros t. reflexivity.
  split. clear. induction d; constructor; auto.
  intros _. split. reflexivity.
  intros t. unfold Qcdiv. field. discriminate. Qed.

(* FULL statement, every detector list (the current code) *)
Theorem simulate_mass d ds minp : well_formed d ds -> Forall proper ds -> mass d = 1 ->
  let out := expand d ds in
  let res := fst (simulate d ds minp) in
  let perf := snd (simulate d ds minp) in
  perf = mass (kept minp out) /\
  perf + mass (dropped minp out) = 1 /\
  (forall t, prob_of t (kept minp out) = if keep minp t then prob_of t out else 0) /\
  Forall (fun e => keep minp (fst e) = true) res /\
  (perf <> 0 -> mass res = 1 /\ forall t, prob_of t res = (if keep minp t then prob_of t out else 0) / perf).
Proof. intros F P M. pose proof (mass_one_nonempty d M) as Hne.
  destruct (detection_type ds) eqn:E; destruct minp as [k|];
    try (apply bookkeeping_general; auto; unfold simulate, simulate_cfg; destruct d; [congruence|]; rewrite E; reflexivity).
  replace (simulate d ds None) with (d, 1) by (unfold simulate, simulate_cfg; rewrite E; destruct d; reflexivity).
  apply bookkeeping_shortcut; auto. Qed.

(* the code before d3d39a64: on every list that is not all-PNR it is the current code ... *)
Lemma simulate_old_code_same d ds minp : detection_type ds <> TPnr -> simulate_old_code d ds minp = simulate d ds minp.
Proof. intros H. unfold simulate_old_code, simulate, simulate_cfg. destruct d; auto. destruct (detection_type ds); congruence. Qed.

(* ... and on all-PNR lists it returned before the photon filter was looked at: there the statement
   "perf = kept mass and every returned state passes the filter" FAILED (historical defect, repaired) *)
Lemma simulate_filter_refuted_old_code : exists d ds k,
  mass d = 1 /\ well_formed d ds /\ Forall proper ds /\
  snd (simulate_old_code d ds (Some k)) = 1 /\
  exists e, In e (fst (simulate_old_code d ds (Some k))) /\ keep (Some k) (fst e) = false.
Proof. exists [([1%nat; 0%nat], Q2Qc (1#2)); ([0%nat; 0%nat], Q2Qc (1#2))], [Some Pnr; None], 1%nat.
  split. apply Qc_is_canon; reflexivity.
  split. repeat constructor.
  split. repeat constructor; intros n; unfold mass1; simpl; ring.
  split. reflexivity.
  exists ([0%nat; 0%nat], Q2Qc (1#2)). split. right; left; reflexivity. reflexivity. Qed.
(* the same witness on the current code: |0,0> is dropped and accounted for *)
Lemma simulate_witness_current_code :
  let r := simulate [([1%nat; 0%nat], Q2Qc (1#2)); ([0%nat; 0%nat], Q2Qc (1#2))] [Some Pnr; None] (Some 1%nat) in
  map fst (fst r) = [[1%nat; 0%nat]] /\ snd r = Q2Qc (1#2).
Proof. split. vm_compute. reflexivity. apply Qc_is_canon. vm_compute. reflexivity. Qed.

(* ---------------------------------------------------------------- every kernel is a probability law *)
Lemma binom_0 n : binom n 0 = 1%nat. Proof. destruct n; reflexivity. Qed.

Lemma binomial_theorem p s : forall n,
  qsum (S n) (fun i => qn (binom n i) * qpow p (n - i) * qpow s i) = qpow (p + s) n.
Proof.
  induction n.
  - simpl. ring.
  - rewrite qsum_shift. rewrite binom_0. cbn [qpow Nat.sub].
    rewrite (qsum_ext (S n) _ (fun i => s * (qn (binom n i) * qpow p (n - i) * qpow s i)
                                        + qn (binom n (S i)) * qpow p (n - i) * qpow s (S i))).
    2:{ intros i _. change (binom (S n) (S i)) with (binom n i + binom n (S i))%nat. rewrite qn_add. cbn [qpow]. ring. }
    rewrite qsum_add, qsum_scal, IHn.
    change (qsum (S n) (fun i => qn (binom n (S i)) * qpow p (n - i) * qpow s (S i)))
      with (qsum n (fun i => qn (binom n (S i)) * qpow p (n - i) * qpow s (S i))
            + qn (binom n (S n)) * qpow p (n - n) * qpow s (S n)).
    rewrite binom_gt by lia.
    rewrite (qsum_ext n _ (fun i => p * (qn (binom n (S i)) * qpow p (n - S i) * qpow s (S i)))).
    2:{ intros i Hi. replace (n - i)%nat with (S (n - S i)) by lia. cbn [qpow]. ring. }
    rewrite qsum_scal.
    assert (E : qsum n (fun i => qn (binom n (S i)) * qpow p (n - S i) * qpow s (S i)) = qpow (p + s) n - qpow p n).
    { rewrite <- IHn. rewrite qsum_shift. rewrite binom_0, Nat.sub_0_r. simpl. ring. }
    rewrite E. simpl. ring.
Qed.

Lemma clicks_gt_n : forall ps n k, (n < k)%nat -> clicks ps n k = 0.
Proof. induction ps as [|p r IH]; intros n k H; cbn [clicks].
  - destruct k; [lia|]. rewrite andb_false_r. reflexivity.
  - rewrite IH by lia. destruct k; [lia|]. rewrite qsum_zero. ring.
    intros i Hi. rewrite IH by lia. ring. Qed.
Lemma clicks_gt_len : forall ps n k, (length ps < k)%nat -> clicks ps n k = 0.
Proof. induction ps as [|p r IH]; intros n k H; cbn [clicks].
  - destruct k; [simpl in H; lia|]. rewrite andb_false_r. reflexivity.
  - simpl in H. rewrite IH by lia. destruct k; [lia|]. rewrite qsum_zero. ring.
    intros i Hi. rewrite IH by lia. ring. Qed.

Lemma qsum_swap n m (f : nat -> nat -> Qc) :
  qsum n (fun i => qsum m (fun j => f i j)) = qsum m (fun j => qsum n (fun i => f i j)).
Proof. induction n; simpl. rewrite qsum_zero; auto.
  rewrite IHn, <- qsum_add. reflexivity. Qed.
Lemma qpow_0 n : qpow 0 n = if (n =? 0)%nat then 1 else 0.
Proof. destruct n; simpl. reflexivity. ring. Qed.

(* summing the click law over all readings gives (sum of the leaf probabilities)^n *)
Lemma clicks_sum : forall ps n K, (length ps <= K)%nat ->
  qsum (S K) (clicks ps n) = qpow (qsuml ps) n.
Proof.
  induction ps as [|p r IH]; intros n K HK.
  - cbn [qsuml]. rewrite qpow_0. rewrite (qsum_single (S K) _ 0%nat).
    + cbn [clicks]. rewrite andb_true_r. reflexivity.
    + lia.
    + intros l _ Hl. cbn [clicks]. destruct l. congruence. rewrite andb_false_r. reflexivity.
  - simpl in HK. destruct K as [|K]; [lia|]. cbn [clicks qsuml].
    rewrite qsum_add. rewrite (IH n (S K)) by lia.
    rewrite qsum_shift. rewrite Qcplus_0_l.
    rewrite qsum_swap.
    rewrite (qsum_ext n _ (fun i => qn (binom n i) * qpow p (n - i) * qpow (qsuml r) i)).
    2:{ intros i _. rewrite qsum_scal. rewrite (IH i K) by lia. reflexivity. }
    rewrite <- (binomial_theorem p (qsuml r) n).
    change (qsum (S n) (fun i => qn (binom n i) * qpow p (n - i) * qpow (qsuml r) i))
      with (qsum n (fun i => qn (binom n i) * qpow p (n - i) * qpow (qsuml r) i)
            + qn (binom n n) * qpow p (n - n) * qpow (qsuml r) n).
    rewrite binom_diag, Nat.sub_diag. simpl. ring.
Qed.

Lemma tree_leaves_sum r : forall L, qsuml (tree_leaves L r) = 1.
Proof. induction L. simpl. ring. cbn [tree_leaves].
  assert (G : forall l, qsuml (flat_map (fun x => [r * x; (1 - r) * x]) l) = qsuml l).
  { induction l; simpl. reflexivity. rewrite IHl. ring. }
  rewrite G. exact IHL. Qed.
Lemma tree_leaves_length r : forall L, length (tree_leaves L r) = (2 ^ L)%nat.
Proof. induction L. reflexivity. cbn [tree_leaves Nat.pow].
  assert (G : forall l, length (flat_map (fun x => [r * x; (1 - r) * x]) l) = (2 * length l)%nat).
  { induction l; simpl. reflexivity. rewrite IHl. lia. }
  rewrite G, IHL. reflexivity. Qed.

Lemma mass1_single n : mass1 [(n, 1)] = 1. Proof. unfold mass1. simpl. ring. Qed.

Theorem kernels_proper od : proper od.
Proof. intros n. destruct od as [[|w mx|L r]|]; cbn [kernel detect]; try apply mass1_single.
  - unfold detect_inter. destruct (n <? 2)%nat. apply mass1_single. destruct (w =? 1)%nat. apply mass1_single.
    apply (detect_gen_mass w mx n).
  - unfold detect_tree. destruct (n <? 2)%nat. apply mass1_single.
    rewrite (mass1_seq (fun k => clicks (tree_leaves L r) n k)).
    rewrite (qsum_ext _ _ (clicks (tree_leaves L r) n)) by (intros; reflexivity).
    pose proof (clicks_sum (tree_leaves L r) n (2 ^ L) ltac:(rewrite tree_leaves_length; lia)) as T.
    rewrite tree_leaves_sum, qpow_1 in T. rewrite <- T.
    destruct (le_lt_dec (2 ^ L) n) as [H|H].
    + rewrite Nat.min_r by lia. reflexivity.
    + rewrite Nat.min_l by lia. replace (S (2 ^ L)) with (S n + (2 ^ L - n))%nat by lia.
      rewrite qsum_split. rewrite (qsum_zero (2 ^ L - n)). ring.
      intros i _. apply clicks_gt_n. lia. Qed.

Lemma all_proper ds : Forall proper ds.
Proof. induction ds; constructor; auto. apply kernels_proper. Qed.

(* readings never exceed max_detections (for a configured maximum of at least one) *)
Theorem detect_support d m n k : max_detections d = Some m -> (1 <= m)%nat -> (m < k)%nat -> prob1 k (detect d n) = 0.
Proof. destruct d as [|w mx|L r]; cbn [max_detections detect]; intros E Hm Hk; try discriminate; injection E as <-.
  - unfold detect_inter. destruct (n <? 2)%nat eqn:En.
    + apply Nat.ltb_lt in En. rewrite prob1_single. assert (F : (n =? k)%nat = false) by (apply Nat.eqb_neq; lia).
      rewrite F. reflexivity.
    + destruct (w =? 1)%nat. rewrite prob1_single. assert (F : (1 =? k)%nat = false) by (apply Nat.eqb_neq; lia).
      rewrite F. reflexivity. apply (detect_gen_above w mx n k Hk).
  - unfold detect_tree. destruct (n <? 2)%nat eqn:En.
    + apply Nat.ltb_lt in En. pose proof (pow2_pos L). rewrite prob1_single.
      assert (F : (n =? k)%nat = false) by (apply Nat.eqb_neq; lia). rewrite F. reflexivity.
    + rewrite (prob1_seq (fun k => clicks (tree_leaves L r) n k)).
      destruct ((0 <=? k) && (k <? 0 + S (Nat.min n (2 ^ L))))%nat; auto.
      apply clicks_gt_len. rewrite tree_leaves_length. exact Hk. Qed.

(* final forms: every kernel is a law, so no hypothesis on the detectors is left *)
Theorem simulate_total d ds : well_formed d ds -> mass (expand d ds) = mass d.
Proof. intros F. apply simulate_preserves_total; auto using all_proper. Qed.
Theorem simulate_bookkeeping d ds minp : well_formed d ds -> mass d = 1 ->
  let out := expand d ds in
  let res := fst (simulate d ds minp) in
  let perf := snd (simulate d ds minp) in
  perf = mass (kept minp out) /\
  perf + mass (dropped minp out) = 1 /\
  (forall t, prob_of t (kept minp out) = if keep minp t then prob_of t out else 0) /\
  Forall (fun e => keep minp (fst e) = true) res /\
  (perf <> 0 -> mass res = 1 /\ forall t, prob_of t res = (if keep minp t then prob_of t out else 0) / perf).
Proof. intros. apply simulate_mass; auto using all_proper. Qed.

Example simulate_hypotheses_satisfiable : exists d ds,
  well_formed d ds /\ mass d = 1 /\ snd (simulate d ds (Some 2%nat)) <> 0.
Proof. exists [([2%nat; 0%nat], Q2Qc (1#2)); ([1%nat; 1%nat], Q2Qc (1#2))], [Some (Tree 1 (Q2Qc (1#2))); None].
  split. repeat constructor.
  split. apply Qc_is_canon; reflexivity. vm_compute. discriminate. Qed.
