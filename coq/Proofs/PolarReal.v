(* C13, labels at the complex numbers over Coq's reals: the angles of POLARIZATION_MAPPING pushed through
   Polarization.project_eh_ev give the standard Jones vectors with 1/sqrt 2.  Axioms: those of Coq.Reals. *)
From Coq Require Import Reals Lra.
From PV Require Import Model.Polar Proofs.TrigInst.
Open Scope R_scope.

(* POLARIZATION_MAPPING, literally *)
Definition label_theta_phi (l : label) : R * R :=
  match l with
  | LH => (0, 0) | LV => (PI, 0) | LD => (PI / 2, 0) | LA => (PI / 2, PI)
  | LR => (PI / 2, 3 * (PI / 2)) | LL => (PI / 2, PI / 2)
  end.
(* project_eh_ev: (cos(theta/2), exp(i phi) sin(theta/2)) *)
Definition jones_real (theta phi : R) : jones CX :=
  (creal (cos (theta / 2)), kmul (cexp phi) (creal (sin (theta / 2)))).

Lemma label_angles_units l :
  label_theta_phi l = (INR (fst (label_angles l)) * (PI / 2), INR (snd (label_angles l)) * (PI / 2)).
Proof. destruct l; simpl; f_equal; lra. Qed.

Theorem labels_real l :
  jones_real (fst (label_theta_phi l)) (snd (label_theta_phi l)) = jones_standard (R:=CX) cI (creal (1 / sqrt 2)) l.
Proof.
  assert (H4 : PI / 2 / 2 = PI / 4) by lra.
  assert (H0 : 0 / 2 = 0) by lra.
  destruct l; unfold jones_real, jones_standard, label_theta_phi, fst, snd;
  rewrite ?H4, ?H0, ?cos_PI4, ?sin_PI4, ?cos_0, ?sin_0, ?cos_PI2, ?sin_PI2;
  f_equal; apply cx_eq; simpl;
  rewrite ?cos_0, ?sin_0, ?cos_PI2, ?sin_PI2, ?cos_PI, ?sin_PI, ?cos_3PI2, ?sin_3PI2; lra.
Qed.
