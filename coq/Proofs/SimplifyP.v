(* C11: the rewrite rules the simplifier relies on, for all sizes; soundness of the per-instance checkers. *)
From PV Require Import Model.Transform Model.Simplify Proofs.CircuitP Proofs.ComponentsP Proofs.TransformP Proofs.BubbleP.
From Coq Require Import Setoid Morphisms Permutation Lqa.
Local Open Scope nat_scope.

(* ---------------------------------------------------------------- checkers *)
Lemma forallb_seq n (f : nat -> bool) : forallb f (seq 0 n) = true <-> forall i, i < n -> f i = true.
Proof. rewrite forallb_forall. split; intros H i Hi. apply H. apply in_seq. lia. apply H. apply in_seq in Hi. lia. Qed.

Theorem meqb_sound n (A B : mat QI) : meqb n A B = true <-> meq n A B.
Proof. unfold meqb. rewrite forallb_seq. split.
  - intros H i j Hi Hj. specialize (H i Hi). rewrite forallb_seq in H. apply qi_eqb_eq. apply H. exact Hj.
  - intros H i Hi. rewrite forallb_seq. intros j Hj. apply qi_eqb_eq. apply H; assumption. Qed.

Theorem circ_eq_sound ii m (c1 c2 : fcirc QI) : circ_eq ii m c1 c2 = true <-> meq m (fmat ii m c1) (fmat ii m c2).
Proof. unfold circ_eq. rewrite meqb_sound. unfold fmatx, fmat.
  split; intros H.
  - rewrite <- (oprodx_eq QI m (fmats ii c1)), <- (oprodx_eq QI m (fmats ii c2)). exact H.
  - rewrite (oprodx_eq QI m (fmats ii c1)), (oprodx_eq QI m (fmats ii c2)). exact H. Qed.

Lemma qisub_self a : qisub a a = qi0.
Proof. apply qi_eq; simpl; ring. Qed.
(* equal matrices are close for every tolerance >= 0; closeness at tolerance 0 is equality *)
Theorem mat_close_refl eps2 n (A B : mat QI) : (0 <= eps2)%Qc -> meq n A B -> mat_close eps2 n A B = true.
Proof. intros He H. unfold mat_close. apply forallb_seq. intros i Hi. apply forallb_seq. intros j Hj.
  rewrite (H i j Hi Hj), qisub_self. unfold qc_leb. apply Qle_bool_iff. exact He. Qed.
Lemma sq_sum_zero (x y : Qc) : (x * x + y * y <= 0)%Qc -> x = 0%Qc /\ y = 0%Qc.
Proof. intros H.
  assert (Hsq : forall z : Qc, (0 <= z * z)%Qc).
  { intros z. unfold Qcle. change (this (z * z)%Qc) with (Qred (this z * this z)).
    rewrite Qred_correct. change (this 0%Qc) with 0%Q. nra. }
  pose proof (Hsq x) as Hx. pose proof (Hsq y) as Hy.
  assert (Ex : (x * x = 0)%Qc).
  { apply Qcle_antisym; auto. apply Qcle_trans with (x * x + y * y)%Qc; auto.
    rewrite <- (Qcplus_0_r (x * x)) at 1. apply Qcplus_le_compat. apply Qcle_refl. exact Hy. }
  assert (Ey : (y * y = 0)%Qc).
  { apply Qcle_antisym; auto. apply Qcle_trans with (x * x + y * y)%Qc; auto.
    rewrite <- (Qcplus_0_l (y * y)) at 1. apply Qcplus_le_compat. exact Hx. apply Qcle_refl. }
  split; [destruct (Qcmult_integral _ _ Ex) | destruct (Qcmult_integral _ _ Ey)]; assumption. Qed.
Theorem mat_close_zero n (A B : mat QI) : mat_close 0%Qc n A B = true -> meq n A B.
Proof. unfold mat_close. rewrite forallb_seq. intros H i j Hi Hj. specialize (H i Hi). rewrite forallb_seq in H.
  specialize (H j Hj). unfold qc_leb in H. apply Qle_bool_iff in H.
  destruct (sq_sum_zero (re (qisub (A i j) (B i j))) (im (qisub (A i j) (B i j))) H) as [E1 E2].
  simpl in E1, E2. apply qi_eq.
  - apply (f_equal (fun z => (z + re (B i j))%Qc)) in E1. ring_simplify in E1. exact E1.
  - apply (f_equal (fun z => (z + im (B i j))%Qc)) in E2. ring_simplify in E2. exact E2. Qed.

(* ---------------------------------------------------------------- _update_adjacent as it is now *)
Lemma In_insert x y l : In x (insert_sorted y l) <-> x = y \/ In x l.
Proof. induction l as [|a r IH]; simpl. intuition.
  destruct (y <? a). simpl. intuition.
  destruct (Nat.eqb_spec y a). subst. simpl. intuition.
  simpl. rewrite IH. intuition. Qed.
Lemma In_union x : forall b a, In x (union_sorted a b) <-> In x a \/ In x b.
Proof. unfold union_sorted. induction b as [|y r IH]; intros a; simpl. intuition.
  rewrite IH, In_insert. intuition. Qed.
Lemma In_fold_union x : forall hit r, In x (fold_left union_sorted hit r) <-> In x r \/ exists g, In g hit /\ In x g.
Proof. induction hit as [|h t IH]; intros r; simpl.
  - split; [intuition | intros [H | [g [[] _]]]; exact H].
  - rewrite IH, In_union. split.
    + intros [[H | H] | [g [Hg Hx]]]; [left; exact H | right; exists h; auto | right; exists g; auto].
    + intros [H | [g [[<- | Hg] Hx]]]; [left; left; exact H | left; right; exact Hx | right; exists g; auto]. Qed.
Lemma place_keeps r G : forall l placed g, In g l -> meets g r = false -> In g (place r G l placed).
Proof. induction l as [|a t IH]; intros placed g Hin Hm; simpl. exact Hin.
  destruct Hin as [-> | Hin].
  - rewrite Hm. left. reflexivity.
  - destruct (meets a r). destruct placed; [apply IH | right; apply IH]; auto. right. apply IH; auto. Qed.
Lemma place_puts r G : forall l, (exists g, In g l /\ meets g r = true) -> In G (place r G l false).
Proof. induction l as [|a t IH]; intros [g [Hin Hm]]; simpl. destruct Hin.
  destruct (meets a r) eqn:Ea. left. reflexivity.
  destruct Hin as [-> | Hin]. congruence. right. apply IH. exists g. auto. Qed.

Definition covers (m : nat) (adj : list (list nat)) : Prop := forall k, k < m -> exists g, In g adj /\ In k g.
(* no mode is ever lost (the pre-repair code lost modes: update_adjacent_refuted) *)
Theorem update_adjacent_covers m adj r : covers m adj -> covers m (update_adjacent adj r).
Proof. intros H k Hk. destruct (H k Hk) as [g [Hg Hkg]]. unfold update_adjacent.
  destruct (meets g r) eqn:Em.
  - exists (union_sorted [] (fold_left union_sorted (filter (fun g0 => meets g0 r) adj) r)). split.
    + apply place_puts. exists g. auto.
    + apply In_union. right. apply In_fold_union. right. exists g. split; auto. apply filter_In. auto.
  - exists g. split; auto. apply place_keeps; auto. Qed.
Theorem update_adjacent_fold_covers m rs : forall adj, covers m adj -> covers m (fold_left update_adjacent rs adj).
Proof. induction rs as [|r t IH]; intros adj H; simpl. exact H. apply IH. apply update_adjacent_covers. exact H. Qed.
(* the modes of the component end up together in one group, with every group they touched *)
Theorem update_adjacent_groups adj r : (exists g, In g adj /\ meets g r = true) ->
  exists G, In G (update_adjacent adj r) /\ (forall x, In x r -> In x G) /\
            (forall g x, In g adj -> meets g r = true -> In x g -> In x G).
Proof. intros Hex. exists (union_sorted [] (fold_left union_sorted (filter (fun g0 => meets g0 r) adj) r)).
  split. apply place_puts. exact Hex. split.
  - intros x Hx. apply In_union. right. apply In_fold_union. left. exact Hx.
  - intros g x Hg Hm Hx. apply In_union. right. apply In_fold_union. right. exists g. split; auto. apply filter_In. auto. Qed.
Lemma covers_init m : covers m (map (fun j => [j]) (seq 0 m)).
Proof. intros k Hk. exists [k]. split. apply in_map_iff. exists k. split; auto. apply in_seq. lia. left. reflexivity. Qed.

(* ---------------------------------------------------------------- rules, any ring, any size *)
Section Rules.
Variable R : cring.
Add Ring Rring3 : (Kth R).
Open Scope K_scope.
Notation mat := (mat R).

(* conjugating a block by a permutation that keeps its range consecutive moves the block *)
Theorem move_comp_ok M sg tu o o' k (A : mat) : bij_on M sg tu -> (o + k <= M)%nat ->
  (forall t, (t < k)%nat -> tu (o + t)%nat = (o' + t)%nat) ->
  meq M (mmul M (pmat tu) (mmul M (embed o k A) (pmat sg))) (embed o' k A).
Proof. intros Hb Ho Hc i j Hi Hj. rewrite (conj_entry R M sg tu _ Hb i j Hi Hj).
  destruct Hb as [Hs Ht].
  assert (Hin : forall x, (x < M)%nat -> inb o k (sg x) = inb o' k x).
  { intros x Hx. destruct (Hs x Hx) as [Hsx Htx]. destruct (inb o k (sg x)) eqn:E.
    - apply inb_true in E. symmetry. apply inb_true.
      specialize (Hc (sg x - o)%nat). replace (o + (sg x - o))%nat with (sg x) in Hc by lia. rewrite Htx in Hc. lia.
    - apply inb_false in E. symmetry. apply inb_false. intros Hx'. apply E.
      specialize (Hc (x - o')%nat). replace (o' + (x - o'))%nat with x in Hc by lia.
      assert (E2 : sg (tu (o + (x - o'))%nat) = sg x) by (rewrite Hc by lia; reflexivity).
      destruct (Ht (o + (x - o'))%nat) as [_ E3]. lia. rewrite E3 in E2. lia. }
  assert (Hsub : forall x, (x < M)%nat -> inb o' k x = true -> (sg x - o = x - o')%nat).
  { intros x Hx E. apply inb_true in E. specialize (Hc (x - o')%nat).
    replace (o' + (x - o'))%nat with x in Hc by lia.
    assert (E2 : sg (tu (o + (x - o'))%nat) = sg x) by (rewrite Hc by lia; reflexivity).
    destruct (Ht (o + (x - o'))%nat) as [_ E3]. lia. rewrite E3 in E2. lia. }
  unfold embed. rewrite (Hin i Hi), (Hin j Hj).
  destruct (inb o' k i) eqn:Ei; destruct (inb o' k j) eqn:Ej; simpl.
  - rewrite (Hsub i Hi Ei), (Hsub j Hj Ej). reflexivity.
  - unfold delta. destruct (Nat.eqb_spec i j); destruct (Nat.eqb_spec (sg i) (sg j)); auto.
    congruence. exfalso. apply n. destruct (Hs i Hi) as [_ A1]. destruct (Hs j Hj) as [_ A2]. congruence.
  - unfold delta. destruct (Nat.eqb_spec i j); destruct (Nat.eqb_spec (sg i) (sg j)); auto.
    congruence. exfalso. apply n. destruct (Hs i Hi) as [_ A1]. destruct (Hs j Hj) as [_ A2]. congruence.
  - unfold delta. destruct (Nat.eqb_spec i j); destruct (Nat.eqb_spec (sg i) (sg j)); auto.
    congruence. exfalso. apply n. destruct (Hs i Hi) as [_ A1]. destruct (Hs j Hj) as [_ A2]. congruence.
Qed.

Lemma pmat_inv M sg tu : bij_on M sg tu -> meq (R:=R) M (mmul M (pmat sg) (pmat tu)) mid.
Proof. intros [Hs Ht]. rewrite (pmat_compose R M tu sg). 2:{ intros k Hk. apply Ht. exact Hk. }
  intros i j Hi Hj. unfold pmat, mid. destruct (Ht j Hj) as [_ E]. rewrite E. reflexivity. Qed.

Lemma conj_oprod M sg tu (l l' : list mat) : bij_on M sg tu ->
  Forall2 (fun X X' => meq M X' (mmul M (pmat tu) (mmul M X (pmat sg)))) l l' ->
  meq M (oprod M l') (mmul M (pmat tu) (mmul M (oprod M l) (pmat sg))).
Proof. intros Hb. induction 1 as [|X X' r r' HX Hr IH]; simpl.
  - rewrite mmul_id_l. symmetry. apply pmat_inv. destruct Hb; split; assumption.
  - rewrite IH, HX.
    rewrite !mmul_assoc. apply mmul_proper. reflexivity. apply mmul_proper. reflexivity.
    rewrite <- !mmul_assoc. rewrite (pmat_inv M sg tu Hb). rewrite mmul_id_l. reflexivity. Qed.

(* the unravelling step of _simplify_perm: [PERM prev; comps; PERM c] = [PERM (tau o prev); moved comps; PERM (c o sigma)] *)
Theorem move_rule M sg tu prev c (comps comps' : list mat) : bij_on M sg tu ->
  (forall k, (k < M)%nat -> (prev k < M)%nat) ->
  Forall2 (fun X X' => meq M X' (mmul M (pmat tu) (mmul M X (pmat sg)))) comps comps' ->
  meq M (mmul M (pmat c) (mmul M (oprod M comps) (pmat prev)))
        (mmul M (pmat (fun k => c (sg k))) (mmul M (oprod M comps') (pmat (fun k => tu (prev k))))).
Proof. intros Hb Hprev HF.
  rewrite (conj_oprod M sg tu comps comps' Hb HF).
  rewrite <- (pmat_compose R M sg c). 2:{ intros k Hk. apply Hb. exact Hk. }
  rewrite <- (pmat_compose R M prev tu Hprev).
  rewrite !mmul_assoc. apply mmul_proper. reflexivity.
  rewrite <- (mmul_assoc R M (pmat sg) (pmat tu)). rewrite (pmat_inv M sg tu Hb), mmul_id_l.
  apply mmul_proper. reflexivity.
  rewrite <- (mmul_assoc R M (pmat sg) (pmat tu)). rewrite (pmat_inv M sg tu Hb), mmul_id_l. reflexivity. Qed.

(* fusing two phase shifters on the same mode; a zero phase is the identity *)
Theorem ps_fuse M o (e1 e2 : R) : (o + 1 <= M)%nat ->
  meq M (mmul M (embed o 1 (ps_mat e2)) (embed o 1 (ps_mat e1))) (embed o 1 (ps_mat (e1 * e2))).
Proof. intros H. rewrite embed_mul by exact H. apply embed_ext. intros i j Hi Hj.
  assert (i = 0%nat) by lia. assert (j = 0%nat) by lia. subst. unfold mmul, ps_mat, mat1. simpl. ring. Qed.
Theorem ps_zero_drop M o : meq (R:=R) M (embed o 1 (ps_mat k1)) mid.
Proof. rewrite <- (embed_id R M o 1). apply embed_ext. intros i j Hi Hj.
  assert (i = 0%nat) by lia. assert (j = 0%nat) by lia. subst. reflexivity. Qed.
(* a phase shifter goes through a permutation: PS on mode k then PERM = PERM then PS on mode sigma(k) *)
Theorem ps_through_perm M sg tu k (e : R) : bij_on M sg tu -> (k < M)%nat ->
  meq M (mmul M (pmat sg) (embed k 1 (ps_mat e))) (mmul M (embed (sg k) 1 (ps_mat e)) (pmat sg)).
Proof. intros Hb Hk.
  assert (Hb' : bij_on M tu sg) by (destruct Hb; split; assumption).
  assert (Hm : meq M (embed (sg k) 1 (ps_mat e)) (mmul M (pmat sg) (mmul M (embed k 1 (ps_mat e)) (pmat tu)))).
  { symmetry. apply (move_comp_ok M tu sg k (sg k) 1 (ps_mat e) Hb'). lia.
    intros t Ht. replace t with 0%nat by lia. rewrite !Nat.add_0_r. reflexivity. }
  rewrite Hm. rewrite !mmul_assoc. rewrite (pmat_inv M tu sg Hb'). rewrite mmul_id_r. reflexivity. Qed.
(* components on disjoint mode ranges commute (a phase shifter is moved past them) *)
Theorem ps_commute M k (e : R) o w (A : mat) : (k < M)%nat -> (o + w <= M)%nat -> (k < o \/ o + w <= k)%nat ->
  meq M (mmul M (embed k 1 (ps_mat e)) (embed o w A)) (mmul M (embed o w A) (embed k 1 (ps_mat e))).
Proof. intros Hk Ho Hd i j Hi Hj.
  assert (Hrow : forall l, (l < M)%nat -> embed k 1 (ps_mat e) i l = (if (i =? k)%nat then e else k1) * delta i l).
  { intros l Hl. unfold embed, ps_mat, mat1. destruct (inb k 1 i) eqn:Ei; destruct (inb k 1 l) eqn:El; simpl.
    - apply inb_true in Ei, El. assert (i = k) by lia. assert (l = k) by lia. subst.
      rewrite Nat.sub_diag, Nat.eqb_refl, delta_refl. ring.
    - apply inb_true in Ei. apply inb_false in El. assert (i = k) by lia. subst. rewrite Nat.eqb_refl.
      rewrite delta_neq by lia. ring.
    - apply inb_false in Ei. destruct (Nat.eqb_spec i k). lia. ring.
    - apply inb_false in Ei. destruct (Nat.eqb_spec i k). lia. ring. }
  assert (Hcol : forall l, (l < M)%nat -> embed k 1 (ps_mat e) l j = delta l j * (if (j =? k)%nat then e else k1)).
  { intros l Hl. unfold embed, ps_mat, mat1. destruct (inb k 1 l) eqn:El; destruct (inb k 1 j) eqn:Ej; simpl.
    - apply inb_true in Ej, El. assert (j = k) by lia. assert (l = k) by lia. subst.
      rewrite Nat.sub_diag, Nat.eqb_refl, delta_refl. ring.
    - apply inb_true in El. apply inb_false in Ej. destruct (Nat.eqb_spec j k). lia. ring.
    - apply inb_false in El. apply inb_true in Ej. assert (j = k) by lia. subst. rewrite Nat.eqb_refl.
      rewrite delta_neq by lia. ring.
    - apply inb_false in Ej. destruct (Nat.eqb_spec j k). lia. ring. }
  unfold mmul.
  rewrite (sumn_ext R M _ (fun l => (if (i =? k)%nat then e else k1) * (delta i l * embed o w A l j))).
  2:{ intros l Hl. rewrite (Hrow l Hl). ring. }
  rewrite sumn_scal, (sumn_delta_l R M i (fun l => embed o w A l j) Hi).
  rewrite (sumn_ext R M (fun l => embed o w A i l * embed k 1 (ps_mat e) l j)
            (fun l => (embed o w A i l * delta l j) * (if (j =? k)%nat then e else k1))).
  2:{ intros l Hl. rewrite (Hcol l Hl). ring. }
  rewrite sumn_scal_r, (sumn_delta_r R M j (fun l => embed o w A i l) Hj).
  (* the block has identity rows and columns at mode k *)
  unfold embed. destruct (inb o w i) eqn:Ei; destruct (inb o w j) eqn:Ej; simpl.
  - apply inb_true in Ei, Ej. destruct (Nat.eqb_spec i k); destruct (Nat.eqb_spec j k); try lia. ring.
  - unfold delta. destruct (Nat.eqb_spec i j). subst. ring. ring.
  - unfold delta. destruct (Nat.eqb_spec i j). subst. ring. ring.
  - unfold delta. destruct (Nat.eqb_spec i j). subst. ring. ring.
Qed.
End Rules.
