(* The executable output distribution over the Gaussian rationals: for a unitary matrix the probabilities
   |perm|^2 / (prod s! prod t!) of all outputs of the (m, n) space sum to one. *)
From PV Require Import Model.SelectX Proofs.FockHomP.

Lemma Qc_of_nat_S n : Qc_of_nat (S n) = (Qc_of_nat n + 1)%Qc.
Proof. unfold Qc_of_nat. apply Qc_is_canon. rewrite Nat2Z.inj_succ. unfold Qcplus.
  cbn [this Q2Qc]. rewrite !Qred_correct. unfold Qeq, Qplus. simpl. lia. Qed.
Lemma of_nat_QI n : of_nat (R:=QI) n = qi_of_Qc (Qc_of_nat n).
Proof. induction n as [|n IH]. apply qi_eq; reflexivity.
  cbn [of_nat]. rewrite IH, Qc_of_nat_S. apply qi_eq; simpl; ring. Qed.
Lemma Qc_of_nat_neq0 n : n <> 0%nat -> Qc_of_nat n <> 0%Qc.
Proof. intros Hn H. unfold Qc_of_nat in H. apply (f_equal this) in H.
  change (this (Q2Qc (Z.of_nat n # 1))) with (Qred (Z.of_nat n # 1)) in H.
  assert (E : (Z.of_nat n # 1) == 0) by (rewrite <- (Qred_correct (Z.of_nat n # 1)), H; reflexivity).
  unfold Qeq in E. simpl in E. lia. Qed.

Lemma suml_QI_re {A} (l : list A) (f : A -> Qc) :
  suml (R:=QI) l (fun x => qi_of_Qc (f x)) = qi_of_Qc (fold_right (fun x acc => f x + acc)%Qc 0%Qc l).
Proof. induction l as [|x l IH]; simpl. reflexivity. rewrite IH. apply qi_eq; simpl; ring. Qed.

Theorem spec_dist_mass_one (U : mat QI) m s : unitary m U -> length s = m -> mass (spec_dist U m s) = 1%Qc.
Proof. intros HU Hs.
  pose proof (dist_sums_to_one_prob QI U m s (fun t => qi_of_Qc (/ Qc_of_nat (norm2 s t))) HU Hs) as H.
  assert (Hp : forall t, In t (allstates m (total s)) ->
     kmul (of_nat (R:=QI) (norm2 s t)) (qi_of_Qc (/ Qc_of_nat (norm2 s t))) = k1).
  { intros t _. rewrite of_nat_QI. apply qi_eq; simpl; [|ring].
    assert (Qc_of_nat (norm2 s t) <> 0%Qc).
    { apply Qc_of_nat_neq0. unfold norm2. pose proof (factprod_pos s). pose proof (factprod_pos t). nia. }
    field. assumption. }
  specialize (H Hp).
  rewrite (suml_ext QI _ _ (fun t => qi_of_Qc (prob U m s t))) in H.
  2:{ intros t. unfold prob, prob_of. apply qi_eq; simpl; unfold qinorm2, Qcdiv; ring. }
  rewrite suml_QI_re in H. apply (f_equal re) in H. simpl in H.
  unfold spec_dist, mass. rewrite <- H. clear.
  induction (allstates m (total s)) as [|t l IH]; simpl. reflexivity. rewrite IH. reflexivity. Qed.
