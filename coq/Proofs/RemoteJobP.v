(* C17 — proofs about the RemoteJob state machine (Model/RemoteJob.v). *)
From Coq Require Import Lia.
From PV Require Import Model.RemoteJob.
Open Scope Z_scope.

(* ------------------------------------------------------------------ observations on runs *)
Definition reqs_of (o : out) : list req := fst (fst o).
Definition res_of (o : out) : result := snd (fst o).
Definition post_of (o : out) : job := snd o.
Definition all_reqs (os : list out) : list req := flat_map reqs_of os.

Definition is_kind (k : kind) (r : req) : bool :=
  match r, k with
  | Rq KCreate _ _, KCreate | Rq KStatus _ _, KStatus | Rq KCancel _ _, KCancel
  | Rq KRerun _ _, KRerun | Rq KResults _ _, KResults => true
  | _, _ => false
  end.
Definition count (k : kind) (rs : list req) : nat := length (filter (is_kind k) rs).

Lemma count_app k a b : count k (a ++ b) = (count k a + count k b)%nat.
Proof. unfold count. rewrite filter_app, app_length. reflexivity. Qed.

(* consecutive failed status requests at the end of a request log, starting from n *)
Definition tf_step (n : nat) (r : req) : nat :=
  match r with Rq KStatus _ true => 0%nat | Rq KStatus _ false => S n | _ => n end.
Definition trailing_failures (n : nat) (rs : list req) : nat := fold_left tf_step rs n.

Lemma tf_app n a b : trailing_failures n (a ++ b) = trailing_failures (trailing_failures n a) b.
Proof. unfold trailing_failures. apply fold_left_app. Qed.

(* ------------------------------------------------------------------ poll: local facts, any configuration *)
Section AnyCfg.
Variable c : cfg.

Lemma poll_shape j a : forall j1 rq ex, poll c j a = (j1, rq, ex) ->
  jid j1 = jid j /\ jres j1 = jres j /\
  count KCreate rq = 0%nat /\ count KCancel rq = 0%nat /\ count KRerun rq = 0%nat /\ count KResults rq = 0%nat /\
  jstreak j1 = trailing_failures (jstreak j) rq /\
  (polls j = false -> j1 = j /\ rq = [] /\ ex = None) /\
  (polls j = true -> count KStatus rq = 1%nat) /\
  (ex <> None -> j1 = set_streak j (S (jstreak j))).
Proof.
  unfold poll, polls, sent. intros j1 rq ex.
  destruct (jid j) as [i|] eqn:Hi; [destruct (final (jst j)) eqn:Hf; [|destruct a]|];
    intros H; inversion H; subst; clear H; cbn; rewrite ?Hi;
    repeat split; try reflexivity; try congruence; try (intros; discriminate).
Qed.

(* no request is made on an unsent job or after a final status; the status stands *)
Lemma poll_idle j a : polls j = false -> poll c j a = (j, [], None).
Proof.
  intros H. destruct (poll c j a) as [[j1 rq] ex] eqn:E.
  destruct (poll_shape _ _ _ _ _ E) as (_ & _ & _ & _ & _ & _ & _ & K & _). destruct (K H) as (-> & -> & ->). reflexivity.
Qed.

(* a successful read becomes the status, resets the count, one request *)
Lemma poll_ok j v m : polls j = true ->
  poll c j (AOk v m) =
  (mkjob (jid j) (from_server v) 0 (jres j) (if failed (from_server v) then m else jmsg j), [Rq KStatus (jid j) true], None).
Proof.
  unfold poll, polls, sent. destruct (jid j); [|discriminate]. destruct (final (jst j)); [discriminate|]. reflexivity.
Qed.

(* a failed read: one request, the count goes up by one, nothing else changes; raised or absorbed *)
Lemma poll_fail j a : polls j = true -> is_failure a = true ->
  exists ex, poll c j a = (set_streak j (S (jstreak j)), [Rq KStatus (jid j) false], ex) /\
    (ex = None \/ ex = Some (plain_failure a)) /\
    (fatal a = true -> ex = Some (plain_failure a)) /\
    (raise_at c (S (jstreak j)) = true -> ex = Some (plain_failure a)) /\
    (fatal a = false -> raise_at c (S (jstreak j)) = false -> ex = None).
Proof.
  unfold poll, polls, sent. destruct (jid j); [|discriminate]. destruct (final (jst j)); [discriminate|].
  intros _. destruct a as [v m|code m|m]; [discriminate| |]; intros _; cbn.
  - destruct (raise_at c (S (jstreak j))), (transient code); eexists; (split; [reflexivity|]); cbn; intuition congruence.
  - destruct (raise_at c (S (jstreak j))); eexists; (split; [reflexivity|]); cbn; intuition congruence.
Qed.

End AnyCfg.

(* ------------------------------------------------------------------ the retry law *)
(* the code as it is and the repaired code: failures 1-4 of a streak are absorbed when transient *)
Lemma absorbed_below_five c j a : (c = cfg_code \/ c = cfg_patch) ->
  polls j = true -> is_failure a = true -> fatal a = false -> (jstreak j < 4)%nat ->
  poll c j a = (set_streak j (S (jstreak j)), [Rq KStatus (jid j) false], None).
Proof.
  intros Hc Hp Hf Hn Hs. destruct (poll_fail c j a Hp Hf) as (ex & E & _ & _ & _ & K). rewrite E.
  rewrite K; auto. destruct Hc; subst c; cbn.
  - apply PeanoNat.Nat.eqb_neq. unfold max_error. lia.
  - destruct (jstreak j) as [|[|[|[|n]]]]; try reflexivity; lia.
Qed.

Lemma fifth_raises c j a : (c = cfg_code \/ c = cfg_patch) ->
  polls j = true -> is_failure a = true -> jstreak j = 4%nat ->
  poll c j a = (set_streak j 5, [Rq KStatus (jid j) false], Some (plain_failure a)).
Proof.
  intros Hc Hp Hf Hs. destruct (poll_fail c j a Hp Hf) as (ex & E & _ & _ & K & _). rewrite E, Hs in *.
  rewrite K; auto. destruct Hc; subst c; reflexivity.
Qed.

(* repaired code and specification: every failure from the fifth on is raised *)
Lemma later_raise_patch j a : polls j = true -> is_failure a = true -> (4 <= jstreak j)%nat ->
  exists j1 rq, poll cfg_patch j a = (j1, rq, Some (plain_failure a)).
Proof.
  intros Hp Hf Hs. destruct (poll_fail cfg_patch j a Hp Hf) as (ex & E & _ & _ & K & _). rewrite E.
  do 2 eexists. rewrite K; [reflexivity|]. cbn. destruct (jstreak j) as [|[|[|[|n]]]]; try lia; reflexivity.
Qed.

Lemma fatal_raises c j code m : polls j = true -> transient code = false ->
  exists j1 rq, poll c j (AHttp code m) = (j1, rq, Some (EHttp code)).
Proof.
  intros Hp Ht. destruct (poll_fail c j (AHttp code m) Hp eq_refl) as (ex & E & _ & K & _). rewrite E.
  do 2 eexists. rewrite K; [reflexivity|]. cbn. rewrite Ht. reflexivity.
Qed.

(* ------------------------------------------------------------------ steps: shape facts, any configuration *)
Definition guard_waiting (c : cfg) : Prop := forall j, exec_guard c j = true -> jst j = WAITING.
Definition guard_unsent (c : cfg) : Prop := forall j, exec_guard c j = true -> jid j = None.

Lemma guard_waiting_code : guard_waiting cfg_code.
Proof. intros j. cbn. destruct (jst j); (discriminate || reflexivity). Qed.
Lemma guard_waiting_patch : guard_waiting cfg_patch.
Proof. intros j. cbn. destruct (jid j); [discriminate|]. destruct (jst j); (discriminate || reflexivity). Qed.
Lemma guard_unsent_patch : guard_unsent cfg_patch.
Proof. intros j. cbn. destruct (jid j); [discriminate|reflexivity]. Qed.

Ltac poll_cases c j p :=
  let j1 := fresh "j" in let rq := fresh "rq" in let ex := fresh "ex" in let E := fresh "E" in
  destruct (poll c j p) as [[j1 rq] ex] eqn:E.

(* the failure counter is exactly the number of failed status requests since the last successful one *)
Lemma sync_loop_streak c ps : forall j j1 rq e, sync_loop c j ps = (j1, rq, e) ->
  jstreak j1 = trailing_failures (jstreak j) rq.
Proof.
  induction ps as [|p ps IH]; cbn; intros j j1 rq e H.
  - inversion H; subst. reflexivity.
  - poll_cases c j p. destruct (poll_shape _ _ _ _ _ _ E) as (_ & _ & _ & _ & _ & _ & S1 & _).
    destruct ex.
    + inversion H; subst. exact S1.
    + destruct (final (jst j0)).
      * inversion H; subst. exact S1.
      * destruct (sync_loop c j0 ps) as [[j2 rq2] r] eqn:E2. inversion H; subst.
        rewrite tf_app, <- S1. eapply IH; eauto.
Qed.

Lemma tf_nonstatus n k id ok : k <> KStatus -> trailing_failures n [Rq k id ok] = n.
Proof. destruct k; try reflexivity. congruence. Qed.

Lemma exec_streak c j a : forall j1 rq r, exec c j a = (j1, rq, r) -> jstreak j1 = trailing_failures (jstreak j) rq.
Proof.
  unfold exec. intros j1 rq r. destruct (exec_guard c j); [destruct a|]; intros H; inversion H; subst; reflexivity.
Qed.

Lemma get_results_streak c j p1 p2 a : forall j1 rq r, get_results c j p1 p2 a = (j1, rq, r) ->
  jstreak j1 = trailing_failures (jstreak j) rq.
Proof.
  unfold get_results. intros j3 rq r. poll_cases c j p1.
  destruct (poll_shape _ _ _ _ _ _ E) as (_ & _ & _ & _ & _ & _ & S1 & _).
  destruct ex; [intros H; inversion H; subst; exact S1|].
  destruct (negb (maybe_completed (jst j0))); [intros H; inversion H; subst; exact S1|].
  assert (S2 : forall j2 rq2 ex2, (match jres j0 with Some _ => poll c j0 p2 | None => (j0, [], None) end) = (j2, rq2, ex2) ->
               jstreak j2 = trailing_failures (jstreak j0) rq2).
  { intros j2 rq2 ex2. destruct (jres j0).
    - intros E2. destruct (poll_shape _ _ _ _ _ _ E2) as (_ & _ & _ & _ & _ & _ & S2 & _). exact S2.
    - intros E2. inversion E2; subst. reflexivity. }
  destruct (match jres j0 with Some _ => poll c j0 p2 | None => (j0, [], None) end) as [[j2 rq2] ex2] eqn:E2.
  specialize (S2 _ _ _ eq_refl).
  destruct ex2; [intros H; inversion H; subst; rewrite tf_app, <- S1; exact S2|].
  destruct (if final (jst j2) then jres j2 else None).
  - intros H; inversion H; subst. rewrite tf_app, <- S1. exact S2.
  - destruct a as [v m|code m|m]; [destruct v as [|v|v]| |]; intros H; inversion H; subst;
      rewrite !tf_app, <- S1, <- S2; reflexivity.
Qed.

Theorem step_streak c j e : forall j1 rq r, step c j e = (j1, rq, r) ->
  jstreak j1 = trailing_failures (jstreak j) rq.
Proof.
  intros j1 rq r. destruct e as [a|p|p a|p1 p2 a|p1 p2 a|a ps r0]; cbn.
  - apply exec_streak.
  - poll_cases c j p. destruct (poll_shape _ _ _ _ _ _ E) as (_ & _ & _ & _ & _ & _ & S1 & _).
    intros H; inversion H; subst. exact S1.
  - unfold cancel. poll_cases c j p. destruct (poll_shape _ _ _ _ _ _ E) as (_ & _ & _ & _ & _ & _ & S1 & _).
    destruct ex; [intros H; inversion H; subst; exact S1|].
    destruct (cancellable (jst j0)); [destruct (is_ok a)|]; intros H; inversion H; subst;
      rewrite ?tf_app, <- ?S1; try reflexivity; exact S1.
  - unfold rerun. poll_cases c j p1. destruct (poll_shape _ _ _ _ _ _ E) as (_ & _ & _ & _ & _ & _ & S1 & _).
    destruct ex; [intros H; inversion H; subst; exact S1|].
    destruct (failed (jst j0)).
    + destruct a; intros H; inversion H; subst; rewrite tf_app, <- S1; reflexivity.
    + poll_cases c j0 p2. destruct (poll_shape _ _ _ _ _ _ E0) as (_ & _ & _ & _ & _ & _ & S2 & _).
      destruct ex; intros H; inversion H; subst; rewrite tf_app, <- S1; exact S2.
  - apply get_results_streak.
  - unfold exec_sync. destruct (exec c j a) as [[j0 rq0] r1] eqn:E0. pose proof (exec_streak _ _ _ _ _ _ E0) as S0.
    destruct r1; try (intros H; inversion H; subst; exact S0).
    destruct (sync_loop c j0 ps) as [[j2 rq2] le] eqn:E1. pose proof (sync_loop_streak _ _ _ _ _ _ E1) as S1.
    destruct le.
    + destruct (get_results c j2 r0 r0 r0) as [[j3 rq3] r3] eqn:E2. pose proof (get_results_streak _ _ _ _ _ _ _ _ E2) as S2.
      intros H; inversion H; subst. rewrite !tf_app, <- S0, <- S1. exact S2.
    + intros H; inversion H; subst. rewrite tf_app, <- S0. exact S1.
    + intros H; inversion H; subst. rewrite tf_app, <- S0. exact S1.
Qed.

Theorem streak_counts_failures c : forall tr j,
  jstreak (run_state (step c) j tr) = trailing_failures (jstreak j) (all_reqs (run (step c) j tr)).
Proof.
  induction tr as [|e tr IH]; intros j; [reflexivity|].
  cbn [run run_state]. destruct (step c j e) as [[j1 rq] r] eqn:E.
  change (all_reqs ((rq, r, j1) :: run (step c) j1 tr)) with (rq ++ all_reqs (run (step c) j1 tr)).
  cbn [fst]. rewrite tf_app, <- (step_streak _ _ _ _ _ _ E). apply IH.
Qed.

(* ------------------------------------------------------------------ the repaired code refines the specification *)
Lemma poll_patch_spec j a : poll cfg_patch j a = spec_poll j a.
Proof.
  unfold poll, spec_poll, polls, sent. destruct (jid j) as [i|]; [|reflexivity].
  destruct (final (jst j)); [reflexivity|]. cbn [negb andb]. destruct a as [v m|code m|m]; [reflexivity| |]; cbn.
  - destruct (transient code), (jstreak j) as [|[|[|[|n]]]]; reflexivity.
  - destruct (jstreak j) as [|[|[|[|n]]]]; reflexivity.
Qed.

Lemma spec_poll_res j a j1 rq ex : spec_poll j a = (j1, rq, ex) -> jres j1 = jres j.
Proof. rewrite <- poll_patch_spec. intros E. apply (poll_shape _ _ _ _ _ _ E). Qed.

Lemma exec_patch_spec j a : exec cfg_patch j a = spec_exec j a.
Proof.
  unfold exec, spec_exec, sent. cbn [exec_guard cfg_patch]. destruct (jid j); [reflexivity|]. cbn [negb andb].
  destruct (waiting (jst j)); reflexivity.
Qed.

Lemma get_results_patch_spec j p1 p2 a : get_results cfg_patch j p1 p2 a = spec_get_results j p1 p2 a.
Proof.
  unfold get_results, spec_get_results, after_poll, fetch. rewrite poll_patch_spec.
  destruct (spec_poll j p1) as [[j1 rq1] ex1]. cbn [app]. destruct ex1; [reflexivity|].
  destruct (maybe_completed (jst j1)); [|reflexivity]. cbn [negb].
  destruct (jres j1) as [t|] eqn:R.
  - rewrite poll_patch_spec. destruct (spec_poll j1 p2) as [[j2 rq2] ex2] eqn:E2.
    pose proof (spec_poll_res _ _ _ _ _ E2) as R2. destruct ex2; [reflexivity|].
    rewrite R2, R. destruct (final (jst j2)) eqn:F; [reflexivity|].
    destruct a as [v m|code m|m]; [destruct v| |]; rewrite <- app_assoc; reflexivity.
  - rewrite R. destruct (final (jst j1)); destruct a as [v m|code m|m]; try destruct v; reflexivity.
Qed.

Lemma sync_loop_patch_spec ps : forall j, sync_loop cfg_patch j ps = spec_sync_loop j ps.
Proof.
  induction ps as [|p ps IH]; intros j; [reflexivity|]. cbn. rewrite poll_patch_spec.
  destruct (spec_poll j p) as [[j1 rq1] ex]. destruct ex; [reflexivity|].
  destruct (final (jst j1)); [reflexivity|]. rewrite IH. reflexivity.
Qed.

Theorem step_patch_spec j e : step cfg_patch j e = spec_step j e.
Proof.
  destruct e as [a|p|p a|p1 p2 a|p1 p2 a|a ps r]; cbn [step spec_step].
  - apply exec_patch_spec.
  - rewrite poll_patch_spec. reflexivity.
  - unfold cancel, spec_cancel, after_poll. rewrite poll_patch_spec.
    destruct (spec_poll j p) as [[j1 rq1] ex1]. reflexivity.
  - unfold rerun, spec_rerun, after_poll. rewrite poll_patch_spec.
    destruct (spec_poll j p1) as [[j1 rq1] ex1]. cbn [app]. destruct ex1; [reflexivity|].
    destruct (failed (jst j1)); [reflexivity|]. rewrite poll_patch_spec.
    destruct (spec_poll j1 p2) as [[j2 rq2] ex2]. reflexivity.
  - apply get_results_patch_spec.
  - unfold exec_sync, spec_exec_sync. rewrite exec_patch_spec.
    destruct (spec_exec j a) as [[j0 rq0] r0]. destruct r0; try reflexivity.
    rewrite sync_loop_patch_spec. destruct (spec_sync_loop j0 ps) as [[j1 rq1] le]. destruct le; try reflexivity.
    rewrite get_results_patch_spec. reflexivity.
Qed.

Lemma run_ext f g : (forall j e, f j e = g j e) -> forall tr j, run f j tr = run g j tr.
Proof. intros H. induction tr as [|e tr IH]; intros j; cbn; [reflexivity|]. rewrite H. destruct (g j e) as [[j1 rq] r]. rewrite IH. reflexivity. Qed.

Theorem refinement_patch : forall tr j, run (step cfg_patch) j tr = run spec_step j tr.
Proof. apply run_ext. exact step_patch_spec. Qed.

(* ------------------------------------------------------------------ the code as it is: where it agrees *)
(* a trace is benign for the current code when at no point the current code takes a step that the repaired
   code would take differently *)
Fixpoint benign (j : job) (tr : list event) : Prop :=
  match tr with
  | [] => True
  | e :: tr' => step cfg_code j e = step cfg_patch j e /\ benign (fst (fst (step cfg_code j e))) tr'
  end.

Theorem refinement_partial : forall tr j, benign j tr -> run (step cfg_code) j tr = run spec_step j tr.
Proof.
  induction tr as [|e tr IH]; intros j; cbn [benign run]; [reflexivity|]. intros [H1 H2].
  rewrite <- step_patch_spec, <- H1. destruct (step cfg_code j e) as [[j1 rq] r]. cbn [fst] in H2. rewrite (IH _ H2). reflexivity.
Qed.

(* readable sufficient condition: the action is not an execute on a job that already has an identifier, and the
   failure count cannot pass five during the step *)
Definition is_exec (e : event) : bool := match e with Exec _ | ExecSync _ _ _ => true | _ => false end.
Definition npolls (e : event) : nat :=
  match e with Exec _ => 0 | Poll _ | Cancel _ _ => 1 | Rerun _ _ _ | GetResults _ _ _ => 2
             | ExecSync _ ps _ => length ps + 2 end%nat.

Lemma poll_agree j a : (jstreak j < 5)%nat ->
  poll cfg_code j a = poll cfg_patch j a /\ (forall j1 rq ex, poll cfg_patch j a = (j1, rq, ex) -> (jstreak j1 <= S (jstreak j))%nat).
Proof.
  intros H. split.
  - unfold poll. destruct (jid j); [|reflexivity]. destruct (final (jst j)); [reflexivity|].
    destruct a; [reflexivity| |]; cbn; destruct (jstreak j) as [|[|[|[|[|n]]]]]; try reflexivity; lia.
  - unfold poll. intros j1 rq ex. destruct (jid j); [destruct (final (jst j)); [|destruct a]|];
      intros E; inversion E; subst; cbn; lia.
Qed.

Lemma exec_agree j a : jid j = None -> exec cfg_code j a = exec cfg_patch j a.
Proof. intros H. unfold exec. cbn [exec_guard cfg_code cfg_patch]. rewrite H. reflexivity. Qed.

Lemma exec_bound c j a j1 rq r : exec c j a = (j1, rq, r) -> jstreak j1 = jstreak j.
Proof. unfold exec. destruct (exec_guard c j); [destruct a|]; intros E; inversion E; reflexivity. Qed.

Lemma get_results_agree j p1 p2 a : (jstreak j + 2 <= 5)%nat ->
  get_results cfg_code j p1 p2 a = get_results cfg_patch j p1 p2 a.
Proof.
  intros H. unfold get_results. destruct (poll_agree j p1) as [A1 B1]; [lia|]. rewrite A1.
  destruct (poll cfg_patch j p1) as [[j1 rq1] ex1] eqn:E1. specialize (B1 _ _ _ eq_refl).
  destruct ex1; [reflexivity|]. destruct (negb (maybe_completed (jst j1))); [reflexivity|].
  destruct (jres j1); [|reflexivity]. destruct (poll_agree j1 p2) as [A2 _]; [lia|]. rewrite A2. reflexivity.
Qed.

Lemma sync_loop_agree ps : forall j, (jstreak j + length ps <= 5)%nat ->
  sync_loop cfg_code j ps = sync_loop cfg_patch j ps /\
  (forall j1 rq e, sync_loop cfg_patch j ps = (j1, rq, e) -> (jstreak j1 <= jstreak j + length ps)%nat).
Proof.
  induction ps as [|p ps IH]; intros j H; cbn [sync_loop length] in *.
  - split; [reflexivity|]. intros j1 rq e E; inversion E; subst; lia.
  - destruct (poll_agree j p) as [A1 B1]; [lia|]. rewrite A1.
    destruct (poll cfg_patch j p) as [[j1 rq1] ex1] eqn:E1. specialize (B1 _ _ _ eq_refl).
    destruct ex1; [split; [reflexivity|]; intros ? ? ? E; inversion E; subst; lia|].
    destruct (final (jst j1)); [split; [reflexivity|]; intros ? ? ? E; inversion E; subst; lia|].
    destruct (IH j1) as [A2 B2]; [lia|]. rewrite A2. split; [reflexivity|].
    destruct (sync_loop cfg_patch j1 ps) as [[j2 rq2] r2]. specialize (B2 _ _ _ eq_refl).
    intros ? ? ? E; inversion E; subst; lia.
Qed.

Theorem agree_sufficient j e : (is_exec e = true -> jid j = None) -> (jstreak j + npolls e <= 5)%nat ->
  step cfg_code j e = step cfg_patch j e.
Proof.
  intros He Hn. destruct e as [a|p|p a|p1 p2 a|p1 p2 a|a ps r]; cbn [step npolls is_exec] in *.
  - apply exec_agree; auto.
  - destruct (poll_agree j p) as [A _]; [lia|]. rewrite A. reflexivity.
  - unfold cancel. destruct (poll_agree j p) as [A _]; [lia|]. rewrite A. reflexivity.
  - unfold rerun. destruct (poll_agree j p1) as [A1 B1]; [lia|]. rewrite A1.
    destruct (poll cfg_patch j p1) as [[j1 rq1] ex1] eqn:E1. specialize (B1 _ _ _ eq_refl).
    destruct ex1; [reflexivity|]. destruct (failed (jst j1)); [reflexivity|].
    destruct (poll_agree j1 p2) as [A2 _]; [lia|]. rewrite A2. reflexivity.
  - apply get_results_agree. lia.
  - unfold exec_sync. rewrite exec_agree by auto. destruct (exec cfg_patch j a) as [[j0 rq0] r0] eqn:E0.
    pose proof (exec_bound _ _ _ _ _ _ E0) as B0. destruct r0; try reflexivity.
    destruct (sync_loop_agree ps j0) as [A1 B1]; [lia|]. rewrite A1.
    destruct (sync_loop cfg_patch j0 ps) as [[j1 rq1] le]. specialize (B1 _ _ _ eq_refl).
    destruct le; try reflexivity. rewrite get_results_agree by lia. reflexivity.
Qed.

(* ------------------------------------------------------------------ refutations on the code as it is *)
Definition tr_double_send : list event := [Exec (AOk 1 0); Exec (AOk 2 0)].
Definition tr_sixth_failure : list event :=
  [Exec (AOk 1 0); Poll (AHttp 429 0); Poll (AHttp 429 0); Poll (AHttp 429 0); Poll (AHttp 429 0);
   Poll (AHttp 429 0); Poll (AHttp 429 0)].

Theorem refinement_refuted_double_send :
  exists tr, run (step cfg_code) fresh_job tr <> run spec_step fresh_job tr.
Proof. exists tr_double_send. intros H. vm_compute in H. discriminate H. Qed.

Theorem refinement_refuted_sixth_failure :
  exists tr, run (step cfg_code) fresh_job tr <> run spec_step fresh_job tr.
Proof. exists tr_sixth_failure. intros H. vm_compute in H. discriminate H. Qed.

Theorem sent_at_most_once_refuted :
  exists tr, (2 <= count KCreate (all_reqs (run (step cfg_code) fresh_job tr)))%nat.
Proof. exists tr_double_send. vm_compute. lia. Qed.

(* after five failures in a row the sixth is absorbed: returned as a plain status *)
Theorem later_failures_raise_refuted :
  exists tr a, let j := run_state (step cfg_code) fresh_job tr in
    polls j = true /\ (5 <= jstreak j)%nat /\ is_failure a = true /\ snd (poll cfg_code j a) = None.
Proof. exists (firstn 6 tr_sixth_failure), (AHttp 429 0). vm_compute. repeat split; lia. Qed.

(* ------------------------------------------------------------------ sent at most once (repaired code, specification) *)
Definition G (j : job) : bool := exec_guard cfg_patch j.
Definition b2n (b : bool) : nat := if b then 1%nat else 0%nat.

Definition shape (j j1 : job) (rq : list req) : Prop := jid j1 = jid j /\ count KCreate rq = 0%nat.
Lemma shape_poll c j a j1 rq ex : poll c j a = (j1, rq, ex) -> shape j j1 rq.
Proof. intros E. destruct (poll_shape _ _ _ _ _ _ E) as (A & _ & B & _). split; assumption. Qed.
Lemma shape_trans j j1 j2 rq1 rq2 : shape j j1 rq1 -> shape j1 j2 rq2 -> shape j j2 (rq1 ++ rq2).
Proof. intros [A B] [C D]. split; [congruence|]. rewrite count_app. lia. Qed.
Lemma shape_refl j : shape j j []. Proof. split; reflexivity. Qed.
Lemma shape_one j k ok : k <> KCreate -> shape j j [Rq k (jid j) ok].
Proof. intros H. split; [reflexivity|]. destruct k; try reflexivity. congruence. Qed.

Lemma shape_cancel c j p a j1 rq r : cancel c j p a = (j1, rq, r) -> shape j j1 rq.
Proof.
  unfold cancel. poll_cases c j p. pose proof (shape_poll _ _ _ _ _ _ E) as S1.
  destruct ex; [intros H; inversion H; subst; exact S1|].
  destruct (cancellable (jst j0)); [destruct (is_ok a)|]; intros H; inversion H; subst; try exact S1;
    (eapply shape_trans; [exact S1|]); destruct S1 as [S1 _]; split; try reflexivity; cbn; congruence.
Qed.

Lemma shape_rerun c j p1 p2 a j1 rq r : rerun c j p1 p2 a = (j1, rq, r) -> shape j j1 rq.
Proof.
  unfold rerun. poll_cases c j p1. pose proof (shape_poll _ _ _ _ _ _ E) as S1.
  destruct ex; [intros H; inversion H; subst; exact S1|].
  destruct (failed (jst j0)).
  - destruct a; intros H; inversion H; subst; (eapply shape_trans; [exact S1|]); apply shape_one; discriminate.
  - poll_cases c j0 p2. pose proof (shape_poll _ _ _ _ _ _ E0) as S2.
    destruct ex; intros H; inversion H; subst; eapply shape_trans; eauto.
Qed.

Lemma shape_get_results c j p1 p2 a j1 rq r : get_results c j p1 p2 a = (j1, rq, r) -> shape j j1 rq.
Proof.
  unfold get_results. poll_cases c j p1. pose proof (shape_poll _ _ _ _ _ _ E) as S1.
  destruct ex; [intros H; inversion H; subst; exact S1|].
  destruct (negb (maybe_completed (jst j0))); [intros H; inversion H; subst; exact S1|].
  destruct (match jres j0 with Some _ => poll c j0 p2 | None => (j0, [], None) end) as [[j2 rq2] ex2] eqn:E2.
  assert (S2 : shape j0 j2 rq2).
  { destruct (jres j0); [eapply shape_poll; eauto|]. inversion E2; subst. apply shape_refl. }
  destruct ex2; [intros H; inversion H; subst; eapply shape_trans; eauto|].
  destruct (if final (jst j2) then jres j2 else None).
  - intros H; inversion H; subst; eapply shape_trans; eauto.
  - destruct a as [v m|code m|m]; [destruct v| |]; intros H; inversion H; subst;
      (eapply shape_trans; [exact S1|]); (eapply shape_trans; [exact S2|]);
      (split; [reflexivity|reflexivity]).
Qed.

Lemma shape_sync_loop c ps : forall j j1 rq e, sync_loop c j ps = (j1, rq, e) -> shape j j1 rq.
Proof.
  induction ps as [|p ps IH]; cbn; intros j j1 rq e H.
  - inversion H; subst. apply shape_refl.
  - poll_cases c j p. pose proof (shape_poll _ _ _ _ _ _ E) as S1.
    destruct ex; [inversion H; subst; exact S1|].
    destruct (final (jst j0)); [inversion H; subst; exact S1|].
    destruct (sync_loop c j0 ps) as [[j2 rq2] r] eqn:E2. inversion H; subst.
    eapply shape_trans; eauto.
Qed.

Lemma G_of_shape j j1 rq : shape j j1 rq -> jid j <> None -> G j1 = false.
Proof. intros [A _] H. unfold G. cbn. rewrite A. destruct (jid j); [reflexivity|congruence]. Qed.

Ltac fin_with NE :=
  let H := fresh "H" in
  intros H; inversion H; subst; apply NE;
  [first [apply shape_refl | split; reflexivity] | first [left; reflexivity | right; reflexivity]].

(* one step of the repaired code: creations made + "may still create" afterwards <= "may create" before *)
Lemma step_creates j e j1 rq r : step cfg_patch j e = (j1, rq, r) ->
  (count KCreate rq + b2n (G j1) <= b2n (G j))%nat.
Proof.
  assert (EX : forall a j1 rq r, exec cfg_patch j a = (j1, rq, r) ->
               (count KCreate rq + b2n (G j1) <= b2n (G j))%nat /\ (r = RetSelf -> jid j1 <> None)).
  { intros a j1' rq' r'. unfold exec, G. cbn [exec_guard cfg_patch].
    destruct (jid j) eqn:I; [intros H; inversion H; subst; cbn; rewrite I; cbn; split; [lia|discriminate]|].
    destruct (waiting (jst j)) eqn:W.
    - destruct a; intros H; inversion H; subst; cbn; (split; [lia|congruence]).
    - intros H; inversion H; subst; cbn. rewrite I, W. split; [cbn; lia|discriminate]. }
  assert (NE : forall j1 rq, shape j j1 rq -> (jst j1 = jst j \/ waiting (jst j1) = false) ->
               (count KCreate rq + b2n (G j1) <= b2n (G j))%nat).
  { intros j1' rq' [A B] C. rewrite B. unfold G. cbn. rewrite A. destruct (jid j); [cbn; lia|].
    destruct C as [C|C]; rewrite C; [lia|]. destruct (waiting (jst j)); cbn; lia. }
  assert (UN : jid j = None -> forall p, poll cfg_patch j p = (j, [], None)).
  { intros I p. apply poll_idle. unfold polls, sent. rewrite I. reflexivity. }
  destruct (jid j) as [i|] eqn:I.
  - (* already sent: nothing is created, stays sent *)
    intros H. assert (SH : shape j j1 rq).
    { destruct e as [a|p|p a|p1 p2 a|p1 p2 a|a ps r0]; cbn [step] in *.
      - unfold exec in H. cbn [exec_guard cfg_patch] in H. rewrite I in H. inversion H; subst. apply shape_refl.
      - poll_cases cfg_patch j p. inversion H; subst. eapply shape_poll; eauto.
      - eapply shape_cancel; eauto.
      - eapply shape_rerun; eauto.
      - eapply shape_get_results; eauto.
      - unfold exec_sync, exec in H. cbn [exec_guard cfg_patch] in H. rewrite I in H. inversion H; subst. apply shape_refl. }
    destruct SH as [A B]. rewrite B. unfold G. cbn. rewrite A, I. cbn. lia.
  - destruct e as [a|p|p a|p1 p2 a|p1 p2 a|a ps r0]; cbn [step].
    + intros H. apply (EX _ _ _ _ H).
    + rewrite (UN eq_refl). fin_with NE.
    + unfold cancel. rewrite (UN eq_refl).
      destruct (cancellable (jst j)); [destruct (is_ok a)|]; fin_with NE.
    + unfold rerun. rewrite (UN eq_refl). destruct (failed (jst j)).
      * destruct a; fin_with NE.
      * rewrite (UN eq_refl). fin_with NE.
    + unfold get_results. rewrite (UN eq_refl).
      destruct (negb (maybe_completed (jst j))); [fin_with NE|].
      destruct (jres j); [rewrite (UN eq_refl)|];
        (destruct (if final (jst j) then _ else None);
         [fin_with NE | destruct a as [v m|code m|m]; [destruct v| |]; fin_with NE]).
    + unfold exec_sync. destruct (exec cfg_patch j a) as [[j0 rq0] r1] eqn:E0.
      destruct (EX _ _ _ _ E0) as [B0 N0].
      destruct r1; try (intros H; inversion H; subst; exact B0).
      specialize (N0 eq_refl).
      destruct (sync_loop cfg_patch j0 ps) as [[j2 rq2] le] eqn:E1. pose proof (shape_sync_loop _ _ _ _ _ _ E1) as S1.
      assert (C0 : (count KCreate rq0 <= b2n (G j))%nat) by lia.
      destruct le.
      * destruct (get_results cfg_patch j2 r0 r0 r0) as [[j3 rq3] r3] eqn:E2.
        pose proof (shape_get_results _ _ _ _ _ _ _ _ E2) as S2.
        pose proof (shape_trans _ _ _ _ _ S1 S2) as S12.
        intros H; inversion H; subst. rewrite (G_of_shape _ _ _ S12 N0). rewrite count_app. destruct S12 as [_ Z]. rewrite Z. cbn [b2n]. lia.
      * intros H; inversion H; subst. rewrite (G_of_shape _ _ _ S1 N0). rewrite count_app. destruct S1 as [_ Z]. rewrite Z. cbn [b2n]. lia.
      * intros H; inversion H; subst. rewrite (G_of_shape _ _ _ S1 N0). rewrite count_app. destruct S1 as [_ Z]. rewrite Z. cbn [b2n]. lia.
Qed.

Theorem sent_at_most_once_patch : forall tr j,
  (count KCreate (all_reqs (run (step cfg_patch) j tr)) <= b2n (G j))%nat.
Proof.
  induction tr as [|e tr IH]; intros j; [cbn; lia|].
  cbn [run]. destruct (step cfg_patch j e) as [[j1 rq] r] eqn:E.
  change (all_reqs ((rq, r, j1) :: run (step cfg_patch) j1 tr)) with (rq ++ all_reqs (run (step cfg_patch) j1 tr)).
  rewrite count_app. pose proof (step_creates _ _ _ _ _ E). specialize (IH j1). lia.
Qed.

Theorem sent_at_most_once_spec : forall tr, (count KCreate (all_reqs (run spec_step fresh_job tr)) <= 1)%nat.
Proof. intros tr. rewrite <- refinement_patch. apply (sent_at_most_once_patch tr fresh_job). Qed.

(* ------------------------------------------------------------------ final statuses are absorbing, no poll after final *)
Lemma final_not_polls j : final (jst j) = true -> polls j = false.
Proof. unfold polls. intros ->. apply andb_false_r. Qed.

Lemma step_final c (GW : guard_waiting c) j e j1 rq r : final (jst j) = true -> step c j e = (j1, rq, r) ->
  jst j1 = jst j /\ count KStatus rq = 0%nat /\ count KCreate rq = 0%nat /\ count KCancel rq = 0%nat /\
  (forall s, r = RetStatus s -> s = jst j).
Proof.
  intros F. pose proof (final_not_polls _ F) as NP.
  assert (NG : exec_guard c j = false).
  { destruct (exec_guard c j) eqn:E; [|reflexivity]. apply GW in E. rewrite E in F. discriminate. }
  assert (NC : cancellable (jst j) = false) by (destruct (jst j); (reflexivity || discriminate)).
  assert (MC : maybe_completed (jst j) = true) by (destruct (jst j); (reflexivity || discriminate)).
  destruct e as [a|p|p a|p1 p2 a|p1 p2 a|a ps r0]; cbn [step].
  - unfold exec. rewrite NG. intros H; inversion H; subst. repeat split; try reflexivity; discriminate.
  - rewrite (poll_idle c j p NP). intros H; inversion H; subst. repeat split; try reflexivity. intros s E; inversion E; reflexivity.
  - unfold cancel. rewrite (poll_idle c j p NP), NC. intros H; inversion H; subst. repeat split; try reflexivity; discriminate.
  - unfold rerun. rewrite (poll_idle c j p1 NP). destruct (failed (jst j)).
    + destruct a; intros H; inversion H; subst; repeat split; try reflexivity; discriminate.
    + rewrite (poll_idle c j p2 NP). intros H; inversion H; subst. repeat split; try reflexivity; discriminate.
  - unfold get_results. rewrite (poll_idle c j p1 NP), MC. cbn [negb].
    destruct (jres j) eqn:R; [rewrite (poll_idle c j p2 NP)|]; cbv beta iota; rewrite F, R;
      [|destruct a as [v m|code m|m]; [destruct v| |]]; intros H; inversion H; subst;
      repeat split; try reflexivity; discriminate.
  - unfold exec_sync, exec. rewrite NG. intros H; inversion H; subst. repeat split; try reflexivity; discriminate.
Qed.

Theorem final_is_absorbing c (GW : guard_waiting c) : forall tr j, final (jst j) = true ->
  Forall (fun o => jst (post_of o) = jst j /\ count KStatus (reqs_of o) = 0%nat /\ count KCreate (reqs_of o) = 0%nat /\
                   count KCancel (reqs_of o) = 0%nat /\ forall s, res_of o = RetStatus s -> s = jst j)
         (run (step c) j tr).
Proof.
  induction tr as [|e tr IH]; intros j F; cbn [run]; [constructor|].
  destruct (step c j e) as [[j1 rq] r] eqn:E. destruct (step_final c GW _ _ _ _ _ F E) as (A & B).
  constructor; [exact (conj A B)|]. rewrite <- A. apply IH. rewrite A. exact F.
Qed.

(* a status handed to the caller is the state's status *)
Lemma get_results_no_status c j p1 p2 a j1 rq r s : get_results c j p1 p2 a = (j1, rq, r) -> r <> RetStatus s.
Proof.
  unfold get_results. poll_cases c j p1. destruct ex; [intros H; inversion H; subst; discriminate|].
  destruct (negb (maybe_completed (jst j0))); [intros H; inversion H; subst; discriminate|].
  destruct (match jres j0 with Some _ => poll c j0 p2 | None => (j0, [], None) end) as [[j2 rq2] ex2].
  destruct ex2; [intros H; inversion H; subst; discriminate|].
  destruct (if final (jst j2) then jres j2 else None); [intros H; inversion H; subst; discriminate|].
  destruct a as [v m|code m|m]; [destruct v| |]; intros H; inversion H; subst; discriminate.
Qed.

Lemma step_reports c j e j1 rq r s : step c j e = (j1, rq, r) -> r = RetStatus s -> s = jst j1.
Proof.
  destruct e as [a|p|p a|p1 p2 a|p1 p2 a|a ps r0]; cbn [step].
  - unfold exec. destruct (exec_guard c j); [destruct a|]; intros H; inversion H; subst; discriminate.
  - poll_cases c j p. destruct ex; intros H E1; inversion H as [[A B C]]; rewrite <- C in E1;
      [discriminate|inversion E1; subst; reflexivity].
  - unfold cancel. poll_cases c j p. destruct ex; [|destruct (cancellable (jst j0)); [destruct (is_ok a)|]];
      intros H; inversion H; subst; discriminate.
  - unfold rerun. poll_cases c j p1. destruct ex; [intros H; inversion H; subst; discriminate|].
    destruct (failed (jst j0)); [destruct a; intros H; inversion H; subst; discriminate|].
    poll_cases c j0 p2. destruct ex; intros H; inversion H; subst; discriminate.
  - intros H E1. exfalso. subst r. exact (get_results_no_status _ _ _ _ _ _ _ _ _ H eq_refl).
  - unfold exec_sync. destruct (exec c j a) as [[j0' rq0] r1] eqn:E0.
    assert (N0 : r1 <> RetStatus s).
    { revert E0. unfold exec. destruct (exec_guard c j); [destruct a|]; intros H; inversion H; subst; discriminate. }
    destruct r1; try (intros H E1; inversion H; subst; congruence).
    destruct (sync_loop c j0' ps) as [[j2 rq2] le]. destruct le; try (intros H E1; inversion H; subst; discriminate).
    destruct (get_results c j2 r0 r0 r0) as [[j3 rq3] r3] eqn:E2.
    intros H E1. inversion H; subst. exfalso. exact (get_results_no_status _ _ _ _ _ _ _ _ _ E2 eq_refl).
Qed.

(* the trace-level statement: once a final status was handed to the caller, every later report equals it and
   no further status request (nor creation, nor cancellation) is made *)
Theorem reported_final_is_absorbing c (GW : guard_waiting c) : forall tr1 e s tr2 j,
  let j0 := run_state (step c) j tr1 in
  snd (step c j0 e) = RetStatus s -> final s = true ->
  Forall (fun o => count KStatus (reqs_of o) = 0%nat /\ forall s', res_of o = RetStatus s' -> s' = s)
         (run (step c) (fst (fst (step c j0 e))) tr2).
Proof.
  intros tr1 e s tr2 j j0 R F. destruct (step c j0 e) as [[j1 rq] r] eqn:E. cbn [fst snd] in *.
  pose proof (step_reports _ _ _ _ _ _ _ E R) as S. subst s.
  eapply Forall_impl; [|apply (final_is_absorbing c GW tr2 j1 F)].
  intros o (_ & A & _ & _ & B). split; assumption.
Qed.

(* ------------------------------------------------------------------ guards of get_results / cancel / rerun *)
Lemma results_refused_while_unfinished c j p1 p2 a j1 rq1 :
  poll c j p1 = (j1, rq1, None) -> maybe_completed (jst j1) = false ->
  get_results c j p1 p2 a = (j1, rq1, Raise EStillRunning) /\ count KResults rq1 = 0%nat.
Proof.
  intros E M. unfold get_results. rewrite E, M. split; [reflexivity|]. apply (poll_shape _ _ _ _ _ _ E).
Qed.

Lemma results_request_only_when_finished c j p1 p2 a j3 rq r :
  get_results c j p1 p2 a = (j3, rq, r) -> count KResults rq <> 0%nat ->
  exists j1 rq1, poll c j p1 = (j1, rq1, None) /\ maybe_completed (jst j1) = true.
Proof.
  unfold get_results. poll_cases c j p1. pose proof (poll_shape _ _ _ _ _ _ E) as (_ & _ & _ & _ & _ & K1 & _).
  destruct ex; [intros H; inversion H; subst; congruence|].
  destruct (maybe_completed (jst j0)) eqn:M; cbn [negb]; [|intros H; inversion H; subst; congruence].
  intros _ _. eauto.
Qed.

Lemma failed_job_reports_its_message c j p1 p2 v m :
  failed (jst j) = true -> jres j = None -> v <> 0 ->
  get_results c j p1 p2 (AOk v m) = (j, [Rq KResults (jid j) true], Raise (EFailed (jmsg j))).
Proof.
  intros F R V. assert (FI : final (jst j) = true) by (destruct (jst j); (reflexivity || discriminate)).
  assert (MC : maybe_completed (jst j) = true) by (destruct (jst j); (reflexivity || discriminate)).
  unfold get_results. rewrite (poll_idle c j p1 (final_not_polls _ FI)), MC, R. cbn [negb]. rewrite FI, R, F.
  destruct v; [congruence| |]; reflexivity.
Qed.

Lemma failure_message_is_the_one_read c j v m : polls j = true -> failed (from_server v) = true ->
  jmsg (fst (fst (poll c j (AOk v m)))) = m.
Proof. intros P F. rewrite poll_ok by assumption. cbn. rewrite F. reflexivity. Qed.

Lemma cancel_refused_unless_active c j p a j1 rq1 :
  poll c j p = (j1, rq1, None) -> cancellable (jst j1) = false ->
  cancel c j p a = (j1, rq1, Raise ECannotCancel) /\ count KCancel rq1 = 0%nat.
Proof. intros E M. unfold cancel. rewrite E, M. split; [reflexivity|]. apply (poll_shape _ _ _ _ _ _ E). Qed.

Lemma cancel_request_only_when_active c j p a j2 rq r :
  cancel c j p a = (j2, rq, r) -> count KCancel rq <> 0%nat ->
  exists j1 rq1, poll c j p = (j1, rq1, None) /\ cancellable (jst j1) = true.
Proof.
  unfold cancel. poll_cases c j p. pose proof (poll_shape _ _ _ _ _ _ E) as (_ & _ & _ & K1 & _).
  destruct ex; [intros H; inversion H; subst; congruence|].
  destruct (cancellable (jst j0)) eqn:M; [|intros H; inversion H; subst; congruence]. intros _ _. eauto.
Qed.

Lemma cancel_accepted c j p a j1 rq1 :
  poll c j p = (j1, rq1, None) -> cancellable (jst j1) = true -> is_ok a = true ->
  cancel c j p a = (mkjob (jid j1) CANCEL_REQUESTED (jstreak j1) (jres j1) (-1), rq1 ++ [Rq KCancel (jid j1) true], RetNone).
Proof. intros E M O. unfold cancel. rewrite E, M, O. reflexivity. Qed.

Lemma rerun_refused_unless_failed c j p1 p2 a j1 rq1 :
  poll c j p1 = (j1, rq1, None) -> failed (jst j1) = false ->
  exists j2 rq e, rerun c j p1 p2 a = (j2, rq, Raise e) /\ count KRerun rq = 0%nat.
Proof.
  intros E M. unfold rerun. rewrite E, M. pose proof (poll_shape _ _ _ _ _ _ E) as (_ & _ & _ & _ & K1 & _).
  poll_cases c j1 p2. pose proof (poll_shape _ _ _ _ _ _ E0) as (_ & _ & _ & _ & K2 & _).
  destruct ex; do 3 eexists; (split; [reflexivity|]); rewrite count_app; lia.
Qed.

Lemma rerun_accepted_new_id c j p1 p2 v m j1 rq1 :
  poll c j p1 = (j1, rq1, None) -> failed (jst j1) = true ->
  rerun c j p1 p2 (AOk v m) = (j1, rq1 ++ [Rq KRerun (jid j1) true], RetNew v) /\
  jid (new_job v) = Some v /\ jst (new_job v) = WAITING /\ jstreak (new_job v) = 0%nat /\
  (jid j1 <> Some v -> jid (new_job v) <> jid j1).
Proof. intros E M. unfold rerun. rewrite E, M. repeat split. cbn. congruence. Qed.

(* hypotheses of the partial refinement are satisfiable on a trace that exercises the retry law up to the fifth
   failure, a reset, and the results *)
Definition tr_benign : list event :=
  [Exec (AOk 1 0); Poll (AHttp 429 0); Poll (AConn 0); Poll (AHttp 408 0); Poll (AHttp 423 0); Poll (AHttp 409 0);
   Poll (AOk 1 0); Poll (AHttp 500 0); Cancel (AOk 1 0) (AOk 0 0); Poll (AOk 4 7);
   GetResults (AConn 0) (AConn 0) (AOk 1 0); Rerun (AConn 0) (AConn 0) (AOk 2 0)].
Lemma tr_benign_ok : benign fresh_job tr_benign.
Proof. vm_compute. repeat split. Qed.
