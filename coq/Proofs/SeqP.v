(* C11: decompose_perms as a tree transformation (merge on / off), and what follows it: the decomposed circuit has
   the operand's matrix, and inverting it afterwards still yields the adjoint / J U J of the operand's matrix. *)
From PV Require Import Model.Transform Proofs.CircuitP Proofs.ComponentsP Proofs.TransformP Proofs.BubbleP.
From Coq Require Import Setoid Morphisms Permutation.
Local Open Scope nat_scope.

Section SeqP.
Variable R : cring.
Variable ii : R.
Notation tcomp := (tcomp R).
Notation leaf := (leaf R).

Lemma leaf_mats_tflatten M : forall (t : tcomp) off, leaf_mats M (flatten off (denote ii t)) = fmats ii (tflatten off t).
Proof. induction t as [l | m items IH] using (tcomp_ind' R); intros off. reflexivity.
  rewrite denote_Sub. simpl flatten. simpl tflatten.
  induction items as [|[o t'] r IHr]. reflexivity.
  inversion IH as [|? ? Hhd Htl]; subst. simpl. unfold leaf_mats, fmats in *. rewrite !map_app.
  rewrite (IHr Htl). f_equal. apply Hhd. Qed.

Theorem tmat_fmat (t : tcomp) : twf R ii t -> meq (tw t) (tmat ii t) (fmat ii (tw t) (tflatten 0 t)).
Proof. intros H. unfold tmat, fmat. rewrite <- (leaf_mats_tflatten (tw t)). rewrite <- (width_denote R ii t).
  apply cmat_flatten. exact H. Qed.

(* every leaf of a well-formed tree lies inside the tree's range *)
Lemma tflatten_fits : forall (t : tcomp) off, twf R ii t ->
  Forall (fun ol => off <= fst ol /\ fst ol + lw (snd ol) <= off + tw t /\ 0 < lw (snd ol)) (tflatten off t).
Proof. induction t as [l | m items IH] using (tcomp_ind' R); intros off Hwf.
  - constructor; [|constructor]. simpl. unfold twf in Hwf. simpl in Hwf. lia.
  - unfold twf in Hwf. rewrite denote_Sub in Hwf. apply wf_Sub in Hwf. destruct Hwf as [Hm Hit]. simpl tflatten. simpl tw.
    clear Hm. induction items as [|[o t'] r IHr]. constructor.
    simpl in Hit. destruct Hit as [[Ho Hc] Hr]. inversion IH as [|? ? Hhd Htl]; subst.
    simpl. apply Forall_app. split.
    + rewrite width_denote in Ho. specialize (Hhd (off + o) Hc). simpl in Hhd.
      eapply Forall_impl; [|exact Hhd]. intros [o1 l1]. simpl. lia.
    + apply IHr; auto. Qed.

Definition perms_ok (t : tcomp) : Prop :=
  forall l, In l (leaves R t) -> match l with LPERM p => is_perm p | _ => True end.

Lemma fvalid_tflatten (t : tcomp) : twf R ii t -> perms_ok t -> fvalid R (tw t) (tflatten 0 t).
Proof. intros Hwf Hp. pose proof (tflatten_fits t 0 Hwf) as Hf. unfold fvalid.
  rewrite Forall_forall in *. intros [o l] Hin. specialize (Hf (o, l) Hin). simpl in *. split. lia.
  specialize (Hp l). destruct l as [cv c0 s0 tl bl tr br | e | k0 U | p]; auto. apply Hp. unfold leaves. apply in_map_iff. exists (o, LPERM p). auto. Qed.

(* listing of the decomposed tree = decompose_perms of the listing, merged or nested *)
Theorem tflatten_tdecompose merge (t : tcomp) : tflatten 0 (tdecompose merge t) = decompose_perms (tflatten 0 t).
Proof. unfold tdecompose, decompose_perms. simpl tflatten. induction (tflatten 0 t) as [|[o l] r IH]. reflexivity.
  simpl flat_map. rewrite flat_map_app, IH. f_equal. clear IH.
  destruct l as [cv c0 s0 tl bl tr br | e | k0 U | p]; try reflexivity. unfold break_in_2. destruct (length p =? 2). reflexivity.
  destruct merge.
  - induction (bubble_swaps p) as [|k ks IHk]. reflexivity. simpl. rewrite IHk. reflexivity.
  - simpl. rewrite app_nil_r. induction (bubble_swaps p) as [|k ks IHk]. reflexivity. simpl. rewrite IHk. reflexivity. Qed.

Lemma swaps_in_range (p : list nat) : is_perm p -> forall k, In k (bubble_swaps p) -> k + 2 <= length p.
Proof. intros Hp. destruct (bubble_final (length p) p Hp eq_refl) as [new [_ [H _]]]. exact H. Qed.

Lemma wf_items_leaf m o (l : leaf) : o + lw l <= m -> 0 < lw l -> wf_items R m (map (D R ii) [(o, TLeaf l)]).
Proof. intros H1 H2. simpl. repeat split; assumption. Qed.

Theorem tdecompose_wf merge (t : tcomp) : twf R ii t -> perms_ok t -> twf R ii (tdecompose merge t).
Proof. intros Hwf Hp. pose proof (fvalid_tflatten t Hwf Hp) as Hv. pose proof (tflatten_fits t 0 Hwf) as Hf.
  assert (Hm : 0 < tw t). { unfold twf in Hwf. destruct t; simpl in *; [lia | tauto]. }
  unfold twf, tdecompose. rewrite denote_Sub. apply wf_Sub. split. exact Hm.
  unfold fvalid in Hv. induction (tflatten 0 t) as [|[o l] r IH]. exact I.
  inversion Hv as [|? ? [Ho Hl] Hv']; subst. inversion Hf as [|? ? Hfo Hf']; subst. simpl in Ho, Hl, Hfo.
  simpl flat_map. rewrite map_app. apply wf_items_app. split; [|apply IH; auto].
  destruct l as [cv c0 s0 tl bl tr br | e | k0 U | p]; try (apply wf_items_leaf; simpl in *; lia).
  cbn [lw] in Ho, Hfo. destruct (length p =? 2) eqn:E2. apply wf_items_leaf; simpl; lia.
  pose proof (swaps_in_range p Hl) as Hks. destruct merge.
  - induction (bubble_swaps p) as [|k ks IHk]. exact I. simpl. split.
    + split. specialize (Hks k (or_introl eq_refl)). simpl. lia. simpl. lia.
    + apply IHk. intros k' Hk'. apply Hks. right. exact Hk'.
  - simpl. split; [|exact I]. split. lia.
    split. lia. induction (bubble_swaps p) as [|k ks IHk]. exact I. split.
    + split. specialize (Hks k (or_introl eq_refl)). simpl. lia. simpl. lia.
    + apply IHk. intros k' Hk'. apply Hks. right. exact Hk'. Qed.

Theorem tdecompose_mat merge (t : tcomp) : twf R ii t -> perms_ok t ->
  meq (tw t) (tmat ii (tdecompose merge t)) (tmat ii t).
Proof. intros Hwf Hp.
  rewrite (tmat_fmat (tdecompose merge t) (tdecompose_wf merge t Hwf Hp)). simpl tw.
  rewrite tflatten_tdecompose. rewrite (decompose_perms_preserves R ii (tw t) _ (fvalid_tflatten t Hwf Hp)).
  symmetry. apply tmat_fmat. exact Hwf. Qed.

(* leaves of the decomposed tree: leaves of the operand, or two-mode swaps *)
Lemma leaves_tdecompose merge (t : tcomp) l : In l (leaves R (tdecompose merge t)) -> In l (leaves R t) \/ l = swap_leaf.
Proof. unfold leaves. rewrite tflatten_tdecompose. unfold decompose_perms.
  rewrite !in_map_iff. intros [[o l'] [E Hin]]. simpl in E. subst l'. apply in_flat_map in Hin.
  destruct Hin as [[o1 l1] [Hin1 Hin2]].
  destruct l1 as [cv c0 s0 tl bl tr br | e | k0 U | p]; try (destruct Hin2 as [E | []]; inversion E; subst; left; eexists; split; [|exact Hin1]; reflexivity).
  unfold break_in_2 in Hin2. destruct (length p =? 2).
  - destruct Hin2 as [E | []]. inversion E; subst. left. eexists; split; [|exact Hin1]; reflexivity.
  - apply in_map_iff in Hin2. destruct Hin2 as [k [E _]]. inversion E. right. reflexivity. Qed.

(* decompose, then invert: still the adjoint / J U J of the ORIGINAL circuit's matrix, merged or nested *)
Theorem decompose_then_inverse merge v h (t : tcomp) : kconj ii = kopp ii -> twf R ii t -> perms_ok t ->
  (forall l, In l (leaves R t) -> leaf_real R l) ->
  meq (tw t) (tmat ii (circuit_inverse_now v h (tdecompose merge t))) (expected v h (tw t) (tmat ii t)).
Proof. intros Hi Hwf Hp Hr.
  rewrite <- (expected_ext R v h (tw t) _ _ (tdecompose_mat merge t Hwf Hp)).
  apply (circuit_inverse_fixed R ii Hi v h (tdecompose merge t) (tdecompose_wf merge t Hwf Hp)).
  intros l Hl. apply leaves_tdecompose in Hl. destruct Hl as [Hl | ->]. apply Hr; exact Hl. exact I. Qed.
End SeqP.
