(* C06, the all-n link between the two implementations of the photon-source model:
     - the distribution builder   (Source.generate_distribution: tensor product over the requested photons), and
     - the event-table sampler    (_compute_prob_table: multinomial table T_n(i,j,k); _events_to_samples: per-event tags).
   Everything is stated with expectations  E l phi = sum_{(a,w) in l} w * phi a  of arbitrary test functions, for ALL
   admissible parameters, all tag counters, all expected inputs (any number of photons in any number of modes).

   T1  builder_number_law          photon-number marginal of the builder's distribution = the table's mass on
                                   {(i,j,k) : i + j + 2k = N}     (builder_number_table: any function of the number)
   T2  table_matches_distribution  phys_perf(table of (sum input, f)) = mass the builder's distribution puts on >= f photons
   T3  builder_matches_sampler     the joint law of (photons per mode, tag-0 photons per mode) is the same for the builder's
                                   distribution and for sampler_distribution = the product of the sampler's per-event law,
                                   one event per requested photon, merged into modes like the input; by the general lemmas
                                   merge_congr / modes_congr (equal laws per factor => equal laws of the product) from
                                   event_law_matches_builder.  conditioned_builder_matches_sampler: also after the filter.
       all_tags_distinct           every non-zero tag occurs once in every state of either distribution, so the vector of
                                   T3 determines a state up to an injective renaming of the non-zero tags
       table_is_event_count_law    T_n(i,j,k) = probability that n independent draws of the per-event law contain
                                   i "signal alone", j "g2 alone", k "signal + g2" events
       sampler_is_event_image      sampler_distribution is the image of the law of those event sequences under
                                   "forget the event structure, merge per mode" (imperfect source), and
       filter_commutes_with_image  the table's filter i + j + 2k >= f is the filter "at least f photons" on the image. *)
From PV Require Import Model.Source Proofs.SourceP.
From Coq Require Import Lqa Lia Field.
Open Scope Qc_scope.

(* ------------------------------------------------------------------ expectations over association lists *)
Definition E {A} (l : dist A) (phi : A -> Qc) : Qc := sumf (fun e => snd e * phi (fst e)) l.

Lemma E_nil {A} (phi : A -> Qc) : E [] phi = 0.
Proof. reflexivity. Qed.
Lemma E_cons {A} e (l : dist A) phi : E (e :: l) phi = snd e * phi (fst e) + E l phi.
Proof. reflexivity. Qed.
Lemma E_app {A} (l1 l2 : dist A) phi : E (l1 ++ l2) phi = E l1 phi + E l2 phi.
Proof. unfold E. apply sumf_app. Qed.
Lemma E_ext {A} (l : dist A) phi psi : (forall a, phi a = psi a) -> E l phi = E l psi.
Proof. intros H. unfold E. apply sumf_ext. intros e _. rewrite H. reflexivity. Qed.
Lemma E_ext_in {A} (l : dist A) phi psi : (forall e, In e l -> phi (fst e) = psi (fst e)) -> E l phi = E l psi.
Proof. intros H. unfold E. apply sumf_ext. intros e He. rewrite (H e He). reflexivity. Qed.
Lemma E_scal {A} (l : dist A) c phi : E l (fun a => c * phi a) = c * E l phi.
Proof. induction l as [|e l IH]. rewrite !E_nil. ring. rewrite !E_cons, IH. ring. Qed.
Lemma E_add {A} (l : dist A) phi psi : E l (fun a => phi a + psi a) = E l phi + E l psi.
Proof. induction l as [|e l IH]. rewrite !E_nil. ring. rewrite !E_cons, IH. ring. Qed.
Lemma mass_cons {A} e (l : dist A) : mass (e :: l) = snd e + mass l.
Proof. reflexivity. Qed.
Lemma E_one {A} (l : dist A) : E l (fun _ => 1) = mass l.
Proof. induction l as [|e l IH]. reflexivity. rewrite E_cons, mass_cons, IH. ring. Qed.
Lemma E_indicator {A} (h : A -> bool) (l : dist A) :
  E l (fun a => if h a then 1 else 0) = mass (filter (fun e => h (fst e)) l).
Proof. induction l as [|e l IH]. reflexivity. rewrite E_cons, IH. cbn [filter].
  destruct (h (fst e)); rewrite ?mass_cons; ring. Qed.
Lemma E_filter {A} (h : A -> bool) (l : dist A) phi :
  E (filter (fun e => h (fst e)) l) phi = E l (fun a => if h a then phi a else 0).
Proof. induction l as [|e l IH]. reflexivity. cbn [filter]. rewrite E_cons.
  destruct (h (fst e)); rewrite ?E_cons, IH; ring. Qed.
Lemma E_map_div {A} (t : Qc) (l : dist A) phi : E (map (fun e => (fst e, snd e / t)) l) phi = E l phi / t.
Proof. induction l as [|e l IH]. rewrite E_nil. unfold Qcdiv. cbn [map]. rewrite E_nil. ring.
  cbn [map]. rewrite !E_cons, IH. cbn [fst snd]. unfold Qcdiv. ring. Qed.
Lemma E_keep_pos {A} (l : dist A) phi : nonneg l -> E (keep_pos l) phi = E l phi.
Proof. unfold keep_pos. induction 1 as [|e l He Hl IH]. reflexivity. cbn [filter].
  destruct (Qcltb 0 (snd e)) eqn:Hb. rewrite !E_cons, IH. reflexivity.
  rewrite E_cons, IH, (Qcltb_false_nonneg _ He Hb). ring. Qed.
Lemma E_map_scal {A B} (w : Qc) (h : A -> B) (tr : dist A) phi :
  E (map (fun e' => (h (fst e'), w * snd e')) tr) phi = w * E tr (fun b => phi (h b)).
Proof. induction tr as [|e tr IH]. cbn [map]. rewrite !E_nil. ring.
  cbn [map]. rewrite !E_cons, IH. cbn [fst snd]. ring. Qed.
Lemma E_map_key {A B} (h : A -> B) (l : dist A) phi : E (map (fun e => (h (fst e), snd e)) l) phi = E l (fun a => phi (h a)).
Proof. induction l as [|e l IH]. reflexivity. cbn [map]. rewrite !E_cons, IH. reflexivity. Qed.
(* Fubini for the products the code builds (tensor products of distributions) *)
Lemma E_product {A B C} (h : A -> B -> C) (d : dist A) (tr : dist B) phi :
  E (flat_map (fun e => map (fun e' => (h (fst e) (fst e'), snd e * snd e')) tr) d) phi =
  E d (fun a => E tr (fun b => phi (h a b))).
Proof. induction d as [|e d IH]. reflexivity.
  cbn [flat_map]. rewrite E_app, IH, (E_map_scal (snd e) (h (fst e)) tr phi), E_cons. reflexivity. Qed.

Lemma E_tensor_merge d ds phi :
  E (tensor_merge (d :: ds)) phi = E d (fun a => E (tensor_merge ds) (fun b => phi (a ++ b))).
Proof. cbn [tensor_merge]. cbv zeta. apply (E_product (@app nat) d (tensor_merge ds)). Qed.
Lemma E_tensor_modes d ds (phi : state -> Qc) :
  E (tensor_modes (d :: ds)) phi = E d (fun a => E (tensor_modes ds) (fun s => phi (a :: s))).
Proof. cbn [tensor_modes]. cbv zeta. unfold state in *. apply (E_product (@cons (list nat)) d (tensor_modes ds)). Qed.
Lemma E_single {A} (a : A) phi : E [(a, 1)] phi = phi a.
Proof. unfold E. cbn [sumf fold_right fst snd]. ring. Qed.

(* ------------------------------------------------------------------ T1: photon-number law, all n *)
(* the photon-number functional of one requested photon, common to both implementations *)
Definition Psi (P : src) (g : nat -> Qc) : Qc :=
  p_none P * g 0%nat + (p_signal P + p_g2 P) * g 1%nat + p_duo P * g 2%nat.
(* ... and of n requested photons (n-fold convolution) *)
Fixpoint Phi (P : src) (n : nat) (g : nat -> Qc) : Qc :=
  match n with O => g 0%nat | S n' => Psi P (fun x => Phi P n' (fun y => g (x + y)%nat)) end.
Definition numlaw (P : src) (d : dist (list nat)) : Prop := forall g, E d (fun a => g (length a)) = Psi P g.

Lemma Phi_ext P n : forall g h, (forall x, g x = h x) -> Phi P n g = Phi P n h.
Proof. induction n as [|n IH]; intros g h H; cbn [Phi]. apply H.
  unfold Psi. rewrite (IH (fun y => g (0 + y)%nat) (fun y => h (0 + y)%nat)) by (intros; apply H).
  rewrite (IH (fun y => g (1 + y)%nat) (fun y => h (1 + y)%nat)) by (intros; apply H).
  rewrite (IH (fun y => g (2 + y)%nat) (fun y => h (2 + y)%nat)) by (intros; apply H). reflexivity. Qed.

Lemma Phi_S P n g : Phi P (S n) g =
  p_none P * Phi P n g + (p_signal P + p_g2 P) * Phi P n (fun y => g (S y)) + p_duo P * Phi P n (fun y => g (S (S y))).
Proof. reflexivity. Qed.

Lemma Phi_add P a : forall b g, Phi P a (fun x => Phi P b (fun y => g (x + y)%nat)) = Phi P (a + b) g.
Proof. induction a as [|a IH]; intros b g. reflexivity.
  cbn [Nat.add]. rewrite !Phi_S. rewrite <- (IH b g), <- (IH b (fun y => g (S y))), <- (IH b (fun y => g (S (S y)))).
  reflexivity. Qed.

Lemma merge_numlaw P ds : Forall (numlaw P) ds ->
  forall g, E (tensor_merge ds) (fun a => g (length a)) = Phi P (length ds) g.
Proof.
  induction 1 as [|d ds Hd _ IH]; intros g.
  - cbn [tensor_merge length Phi]. apply (E_single (@nil nat)).
  - rewrite E_tensor_merge. cbn [length Phi].
    rewrite (E_ext d _ (fun a => Phi P (length ds) (fun y => g (length a + y)%nat))).
    2:{ intros a. rewrite <- (IH (fun y => g (length a + y)%nat)). apply E_ext. intros b. rewrite app_length. reflexivity. }
    apply (Hd (fun x => Phi P (length ds) (fun y => g (x + y)%nat))).
Qed.

Lemma modes_numlaw P ds ns : Forall2 (fun d n => forall g, E d (fun a => g (length a)) = Phi P n g) ds ns ->
  forall g, E (tensor_modes ds) (fun s => g (nphotons s)) = Phi P (list_sum ns) g.
Proof.
  induction 1 as [|d n ds ns Hd _ IH]; intros g.
  - cbn [tensor_modes list_sum Phi]. apply (E_single (@nil (list nat))).
  - rewrite E_tensor_modes. cbn [list_sum].
    rewrite (E_ext d _ (fun a => Phi P (list_sum ns) (fun y => g (length a + y)%nat))).
    2:{ intros a. rewrite <- (IH (fun y => g (length a + y)%nat)). apply E_ext. intros s. reflexivity. }
    rewrite (Hd (fun x => Phi P (list_sum ns) (fun y => g (x + y)%nat))). apply Phi_add.
Qed.

(* one requested photon, builder *)
Lemma builder_piece_numlaw P c : admissible P -> numlaw P (fst (one_photon P c)).
Proof.
  intros A g. cbn [one_photon fst]. rewrite E_keep_pos by (apply one_photon_entries_nonneg, A).
  unfold Psi, one_photon_entries, p_none, p_signal, p_g2, p_duo, pzero, q2.
  destruct (partially_distinguishable P), (dmodel P); unfold E; cbn [sumf fold_right app fst snd length]; ring.
Qed.
(* one requested photon, sampler (no hypothesis on the parameters) *)
Lemma event_piece_numlaw P c : numlaw P (map forget (event_law P c)).
Proof. intros g. unfold Psi, event_law, forget, E.
  cbn [map sumf fold_right app fst snd length olist]. ring. Qed.

Lemma perfect_probs P : is_perfect P = true -> p_none P = 0 /\ p_signal P + p_g2 P = 1 /\ p_duo P = 0.
Proof.
  unfold is_perfect. intros H. apply Bool.andb_true_iff in H. destruct H as [H H4].
  apply Bool.andb_true_iff in H. destruct H as [H H3]. apply Bool.andb_true_iff in H. destruct H as [H1 H2].
  apply Qceqb_true in H1, H2, H3, H4. pose proof (p2_g2_zero P H2) as Hp2.
  unfold p_none, p_signal, p_g2, p_duo, p1to1, p2to1, p2to2, p1, eta. rewrite Hp2, H1, H4. repeat split; ring.
Qed.
Lemma Phi_perfect P : is_perfect P = true -> forall n g, Phi P n g = g n.
Proof. intros H. destruct (perfect_probs P H) as (H0 & H1 & H2).
  induction n as [|n IH]; intros g. reflexivity.
  rewrite Phi_S, H0, H1, H2, !IH. ring. Qed.

Lemma photon_dists_numlaw P : admissible P -> forall n c,
  Forall (numlaw P) (fst (photon_dists P c n)) /\ length (fst (photon_dists P c n)) = n.
Proof.
  intros A. induction n as [|n IH]; intros c; cbn [photon_dists]. split; constructor.
  cbn [one_photon]. specialize (IH (next_tag P c)). destruct (photon_dists P (next_tag P c) n) as [ds c2].
  cbn [fst length] in *. destruct IH as [IH1 IH2]. split; [|congruence]. constructor; [|exact IH1].
  apply (builder_piece_numlaw P c A).
Qed.

Lemma prob_dist_numlaw P c n : admissible P -> forall g, E (fst (prob_dist P c n)) (fun a => g (length a)) = Phi P n g.
Proof.
  intros A g. unfold prob_dist. destruct (n =? 0)%nat eqn:En; [|destruct (is_perfect P) eqn:Ep]; cbn [orb fst].
  - apply Nat.eqb_eq in En. subst n. apply (E_single (@nil nat)).
  - rewrite E_single, repeat_length, Phi_perfect by exact Ep. reflexivity.
  - destruct (photon_dists_numlaw P A n c) as [H1 H2]. destruct (photon_dists P c n) as [ds c']. cbn [fst] in *.
    rewrite (merge_numlaw P ds H1), H2. reflexivity.
Qed.

Lemma mode_dists_numlaw P : admissible P -> forall input c,
  Forall2 (fun d n => forall g, E d (fun a => g (length a)) = Phi P n g) (fst (mode_dists P c input)) input.
Proof.
  intros A. induction input as [|n rest IH]; intros c; cbn [mode_dists]. constructor.
  pose proof (prob_dist_numlaw P c n A) as H1. destruct (prob_dist P c n) as [d c1].
  specialize (IH c1). destruct (mode_dists P c1 rest) as [ds c2]. cbn [fst] in *. constructor; assumption.
Qed.

(* the photon-number functional of the builder's distribution is the n-fold convolution, n = photons requested *)
Theorem builder_number_functional P c input : admissible P -> forall g,
  E (fst (raw_distribution P c input)) (fun s => g (nphotons s)) = Phi P (list_sum input) g.
Proof.
  intros A g. unfold raw_distribution. pose proof (mode_dists_numlaw P A input c) as H.
  destruct (mode_dists P c input) as [ds c']. cbn [fst] in *. apply (modes_numlaw P ds input H).
Qed.

(* ---- the multinomial table as an n-fold convolution *)
Fixpoint Phi3 (P : src) (n : nat) (g : nat -> nat -> nat -> Qc) : Qc :=
  match n with
  | O => g 0%nat 0%nat 0%nat
  | S n' => p_none P * Phi3 P n' g
          + p_signal P * Phi3 P n' (fun i j k => g (S i) j k)
          + p_g2 P * Phi3 P n' (fun i j k => g i (S j) k)
          + p_duo P * Phi3 P n' (fun i j k => g i j (S k))
  end.
Lemma Phi3_ext P n : forall g h, (forall i j k, g i j k = h i j k) -> Phi3 P n g = Phi3 P n h.
Proof. induction n as [|n IH]; intros g h H; cbn [Phi3]. apply H.
  rewrite (IH g h) by (intros; apply H).
  rewrite (IH (fun i j k => g (S i) j k) (fun i j k => h (S i) j k)) by (intros; apply H).
  rewrite (IH (fun i j k => g i (S j) k) (fun i j k => h i (S j) k)) by (intros; apply H).
  rewrite (IH (fun i j k => g i j (S k)) (fun i j k => h i j (S k))) by (intros; apply H). reflexivity. Qed.

Theorem Phi3_table P : forall n M g, (n < M)%nat ->
  Phi3 P n g = S3 M (fun i j k => T P n i j k * g i j k).
Proof.
  induction n as [|n IH]; intros M g HM.
  - destruct M as [|M]; [lia|]. cbn [Phi3]. unfold S3.
    rewrite sumf_seq_single.
    2:{ intros i Hi. apply sumf_zero. intros j _. apply sumf_zero. intros k _. rewrite T_0.
        destruct i; [lia|]. cbn [Nat.eqb andb]. ring. }
    rewrite sumf_seq_single.
    2:{ intros j Hj. apply sumf_zero. intros k _. rewrite T_0. destruct j; [lia|]. cbn [Nat.eqb andb]. ring. }
    rewrite sumf_seq_single.
    2:{ intros k Hk. rewrite T_0. destruct k; [lia|]. cbn [Nat.eqb andb]. ring. }
    rewrite T_0. cbn [Nat.eqb andb]. ring.
  - destruct M as [|M]; [lia|]. cbn [Phi3].
    rewrite (S3_ext (S M) _ (fun i j k =>
        p_signal P * predT (fun i' => T P n i' j k * g (S i') j k) i
      + p_g2 P * predT (fun j' => T P n i j' k * g i (S j') k) j
      + p_duo P * predT (fun k' => T P n i j k' * g i j (S k')) k
      + p_none P * (T P n i j k * g i j k))).
    2:{ intros i j k. rewrite table_recurrence. destruct i, j, k; cbn [predT]; ring. }
    rewrite !S3_add, !S3_scal.
    pose proof (S3_shift_i M (fun i j k => T P n i j k * g (S i) j k)) as Hi. cbv beta in Hi.
    rewrite Hi by (intros; rewrite T_out by lia; ring).
    pose proof (S3_shift_j M (fun i j k => T P n i j k * g i (S j) k)) as Hj. cbv beta in Hj.
    rewrite Hj by (intros; rewrite T_out by lia; ring).
    pose proof (S3_shift_k M (fun i j k => T P n i j k * g i j (S k))) as Hk. cbv beta in Hk.
    rewrite Hk by (intros; rewrite T_out by lia; ring).
    rewrite <- !(IH (S M)) by lia. ring.
Qed.

Lemma Phi_Phi3 P n : forall g, Phi P n g = Phi3 P n (fun i j k => g (i + j + 2 * k)%nat).
Proof.
  induction n as [|n IH]; intros g. reflexivity.
  rewrite Phi_S. cbn [Phi3]. rewrite !IH.
  rewrite (Phi3_ext P n (fun i j k => g (i + S j + 2 * k)%nat) (fun i j k => g (S (i + j + 2 * k)))) by (intros; f_equal; lia).
  rewrite (Phi3_ext P n (fun i j k => g (S i + j + 2 * k)%nat) (fun i j k => g (S (i + j + 2 * k)))) by (intros; f_equal; lia).
  rewrite (Phi3_ext P n (fun i j k => g (i + j + 2 * S k)%nat) (fun i j k => g (S (S (i + j + 2 * k))))) by (intros; f_equal; lia).
  ring.
Qed.

(* the builder's distribution integrates any function of the photon number like the event table does *)
Theorem builder_number_table P c input : admissible P -> forall g,
  E (fst (raw_distribution P c input)) (fun s => g (nphotons s)) =
  S3 (S (list_sum input)) (fun i j k => T P (list_sum input) i j k * g (i + j + 2 * k)%nat).
Proof. intros A g. rewrite (builder_number_functional P c input A), Phi_Phi3. apply Phi3_table. lia. Qed.

(* T1 *)
Theorem builder_number_law P c input N : admissible P ->
  mass (filter (fun e => (nphotons (fst e) =? N)%nat) (fst (raw_distribution P c input))) =
  S3 (S (list_sum input)) (fun i j k => if (i + j + 2 * k =? N)%nat then T P (list_sum input) i j k else 0).
Proof.
  intros A. rewrite <- (E_indicator (fun s => (nphotons s =? N)%nat)).
  rewrite (builder_number_table P c input A (fun x => if (x =? N)%nat then 1 else 0)).
  apply S3_ext. intros i j k. destruct (i + j + 2 * k =? N)%nat; ring.
Qed.

(* T2 *)
Theorem table_matches_distribution_raw P c input f : admissible P ->
  mass (raw_table P (list_sum input) f) =
  mass (filter (fun e => (f <=? nphotons (fst e))%nat) (fst (raw_distribution P c input))).
Proof.
  intros A. rewrite table_kept_mass. rewrite <- (E_indicator (fun s => (f <=? nphotons s)%nat)).
  rewrite (builder_number_table P c input A (fun x => if (f <=? x)%nat then 1 else 0)).
  apply S3_ext. intros i j k. destruct (f <=? i + j + 2 * k)%nat; ring.
Qed.

(* T2 on what the code returns: physical performance of _compute_prob_table(sum input, f)
   = kept mass of generate_distribution(input) conditioned on "at least f photons" *)
Theorem table_matches_distribution P c input f : admissible P ->
  snd (fst (prob_table P (list_sum input) f)) = snd (Source.condition f (fst (generate_distribution P c input))).
Proof.
  intros A. destruct (generate_distribution_normalised P c input A) as [_ Hg]. rewrite Hg.
  unfold prob_table, Source.condition. cbn [fst snd]. apply (table_matches_distribution_raw P c input f A).
Qed.

(* ------------------------------------------------------------------ T3: the sampler's law and the builder's law *)
(* The distribution the event sampler draws from, built like the builder's: one event per requested photon
   (event_law, tags forgotten into annotation lists), the events of a mode merged, the modes juxtaposed; the same
   tag-counter discipline and the same shortcut for a perfect source / an empty mode (generate_samples returns the
   expected input when is_perfect()). *)
Definition event_piece (P : src) (c : nat) : dist (list nat) := map forget (event_law P c).
Fixpoint event_dists (P : src) (c n : nat) : list (dist (list nat)) * nat :=
  match n with
  | O => ([], c)
  | S n' => let '(ds, c2) := event_dists P (next_tag P c) n' in (event_piece P c :: ds, c2)
  end.
Definition event_mode (P : src) (c n : nat) : dist (list nat) * nat :=
  if (n =? 0)%nat || is_perfect P then ([(repeat O n, 1)], c)
  else let '(ds, c') := event_dists P c n in (tensor_merge ds, c').
Fixpoint event_modes (P : src) (c : nat) (input : list nat) : list (dist (list nat)) * nat :=
  match input with
  | [] => ([], c)
  | n :: rest => let '(d, c1) := event_mode P c n in let '(ds, c2) := event_modes P c1 rest in (d :: ds, c2)
  end.
Definition sampler_distribution (P : src) (c : nat) (input : list nat) : dist state * nat :=
  let '(ds, c') := event_modes P c input in (tensor_modes ds, c').

(* the statistic: (photons, photons carrying tag 0) of an annotation list; additive under merging *)
Definition lz (a : list nat) : nat * nat := (length a, zeros a).
Definition padd (x y : nat * nat) : nat * nat := (fst x + fst y, snd x + snd y)%nat.
Lemma zeros_app a b : zeros (a ++ b) = (zeros a + zeros b)%nat.
Proof. unfold zeros. rewrite filter_app, app_length. reflexivity. Qed.
Lemma lz_app a b : lz (a ++ b) = padd (lz a) (lz b).
Proof. unfold lz, padd. cbn [fst snd]. rewrite app_length, zeros_app. reflexivity. Qed.

(* two one-mode distributions with the same (photons, tag-0 photons) law *)
Definition equiv1 (d d' : dist (list nat)) : Prop := forall g : nat * nat -> Qc, E d (fun a => g (lz a)) = E d' (fun a => g (lz a)).

(* general lemma: equal laws per factor => equal laws of the merged product ... *)
Lemma merge_congr ds ds' : Forall2 equiv1 ds ds' -> equiv1 (tensor_merge ds) (tensor_merge ds').
Proof.
  induction 1 as [|d d' ds ds' Hd _ IH]; intros g. reflexivity.
  rewrite !E_tensor_merge.
  rewrite (E_ext d _ (fun a => E (tensor_merge ds') (fun b => g (padd (lz a) (lz b))))).
  2:{ intros a. rewrite <- (IH (fun y => g (padd (lz a) y))). apply E_ext. intros b. rewrite lz_app. reflexivity. }
  rewrite (Hd (fun x => E (tensor_merge ds') (fun b => g (padd x (lz b))))).
  apply E_ext. intros a. apply E_ext. intros b. rewrite lz_app. reflexivity.
Qed.
(* ... and of the juxtaposition of modes (joint law of the per-mode statistics) *)
Lemma modes_congr ds ds' : Forall2 equiv1 ds ds' -> forall g : list (nat * nat) -> Qc,
  E (tensor_modes ds) (fun s => g (map lz s)) = E (tensor_modes ds') (fun s => g (map lz s)).
Proof.
  induction 1 as [|d d' ds ds' Hd _ IH]; intros g. reflexivity.
  rewrite !E_tensor_modes.
  rewrite (E_ext d _ (fun a => E (tensor_modes ds') (fun s => g (lz a :: map lz s)))).
  2:{ intros a. apply (IH (fun y => g (lz a :: y))). }
  apply (Hd (fun x => E (tensor_modes ds') (fun s => g (x :: map lz s)))).
Qed.

(* class decomposition of an expectation: the classes of SourceP.classes are pairwise different and cover the laws *)
Lemma cmass_cons key e (l : dist (list nat)) :
  cmass key (e :: l) = (if key_eqb (canon1 (fst e)) key then snd e else 0) + cmass key l.
Proof. unfold cmass. cbn [filter]. destruct (key_eqb (canon1 (fst e)) key); rewrite ?mass_cons; ring. Qed.
Lemma E_by_classes (d : dist (list nat)) (G : nat * nat * bool -> Qc) :
  Forall (fun e => In (canon1 (fst e)) classes) d ->
  E d (fun a => G (canon1 a)) = sumf (fun key => cmass key d * G key) classes.
Proof.
  induction 1 as [|e d He _ IH].
  - rewrite E_nil. symmetry. apply sumf_zero. intros key _. unfold cmass. cbn [filter mass fold_right]. ring.
  - rewrite E_cons, IH.
    rewrite (sumf_ext (fun key => cmass key (e :: d) * G key)
               (fun key => (if key_eqb (canon1 (fst e)) key then snd e else 0) * G key + cmass key d * G key)).
    2:{ intros key _. rewrite cmass_cons. ring. }
    rewrite sumf_add. f_equal.
    generalize dependent (canon1 (fst e)). intros k0 Hk. cbn [classes In] in Hk.
    repeat (destruct Hk as [Hk|Hk]; [subst k0; cbn [classes sumf fold_right key_eqb Nat.eqb andb Bool.eqb]; ring|]).
    contradiction.
Qed.

Lemma keep_pos_classes (d : dist (list nat)) :
  Forall (fun e => In (canon1 (fst e)) classes) d -> Forall (fun e => In (canon1 (fst e)) classes) (keep_pos d).
Proof. intros H. apply Forall_forall. intros e He. apply filter_In in He. destruct He as [He _].
  rewrite Forall_forall in H. apply H, He. Qed.

(* one requested photon: from event_law_matches_builder and laws_classes_complete *)
Theorem piece_equiv P c : admissible P -> equiv1 (fst (one_photon P c)) (event_piece P c).
Proof.
  intros A g. cbn [one_photon fst]. rewrite E_keep_pos by (apply one_photon_entries_nonneg, A).
  destruct (laws_classes_complete P c) as [Hb Hs]. unfold event_piece.
  pose (G := fun key : nat * nat * bool => g (fst (fst key), snd (fst key))).
  rewrite (E_ext _ _ (fun a => G (canon1 a))) by reflexivity.
  rewrite (E_ext (map forget (event_law P c)) _ (fun a => G (canon1 a))) by reflexivity.
  rewrite (E_by_classes _ G Hb), (E_by_classes _ G Hs).
  apply sumf_ext. intros key Hk. rewrite (event_law_matches_builder P c A key Hk). reflexivity.
Qed.

Lemma dists_equiv P : admissible P -> forall n c,
  Forall2 equiv1 (fst (photon_dists P c n)) (fst (event_dists P c n)) /\
  snd (photon_dists P c n) = snd (event_dists P c n).
Proof.
  intros A. induction n as [|n IH]; intros c; cbn [photon_dists event_dists]. split; constructor.
  cbn [one_photon]. specialize (IH (next_tag P c)).
  destruct (photon_dists P (next_tag P c) n) as [ds c2]. destruct (event_dists P (next_tag P c) n) as [ds' c2'].
  cbn [fst snd] in *. destruct IH as [IH1 IH2]. split; [|exact IH2]. constructor; [|exact IH1].
  apply (piece_equiv P c A).
Qed.
Lemma mode_equiv P c n : admissible P ->
  equiv1 (fst (prob_dist P c n)) (fst (event_mode P c n)) /\ snd (prob_dist P c n) = snd (event_mode P c n).
Proof.
  intros A. unfold prob_dist, event_mode. destruct ((n =? 0)%nat || is_perfect P).
  - split; [intros g|]; reflexivity.
  - destruct (dists_equiv P A n c) as [H1 H2].
    destruct (photon_dists P c n) as [ds c1]. destruct (event_dists P c n) as [ds' c1']. cbn [fst snd] in *.
    split; [apply merge_congr, H1|exact H2].
Qed.
Lemma modes_equiv P : admissible P -> forall input c,
  Forall2 equiv1 (fst (mode_dists P c input)) (fst (event_modes P c input)) /\
  snd (mode_dists P c input) = snd (event_modes P c input).
Proof.
  intros A. induction input as [|n rest IH]; intros c; cbn [mode_dists event_modes]. split; constructor.
  destruct (mode_equiv P c n A) as [H1 H2].
  destruct (prob_dist P c n) as [d c1]. destruct (event_mode P c n) as [d' c1']. cbn [fst snd] in *. subst c1'.
  specialize (IH c1). destruct (mode_dists P c1 rest) as [ds c2]. destruct (event_modes P c1 rest) as [ds' c2'].
  cbn [fst snd] in *. destruct IH as [IH1 IH2]. split; [constructor; assumption|exact IH2].
Qed.

(* T3: joint law of (photons, tag-0 photons) per mode — any test function g of the vector — and same final counter *)
Theorem builder_matches_sampler P c input : admissible P ->
  (forall g : list (nat * nat) -> Qc,
     E (fst (raw_distribution P c input)) (fun s => g (map lz s)) =
     E (fst (sampler_distribution P c input)) (fun s => g (map lz s))) /\
  snd (raw_distribution P c input) = snd (sampler_distribution P c input).
Proof.
  intros A. unfold raw_distribution, sampler_distribution. destruct (modes_equiv P A input c) as [H1 H2].
  destruct (mode_dists P c input) as [ds c1]. destruct (event_modes P c input) as [ds' c1']. cbn [fst snd] in *.
  split; [apply modes_congr, H1|exact H2].
Qed.

(* the same, as masses of events, for the distribution the code returns *)
Corollary builder_matches_sampler_mass P c input (h : list (nat * nat) -> bool) : admissible P ->
  mass (filter (fun e => h (map lz (fst e))) (fst (generate_distribution P c input))) =
  mass (filter (fun e => h (map lz (fst e))) (fst (sampler_distribution P c input))).
Proof.
  intros A. destruct (generate_distribution_normalised P c input A) as [_ Hg]. rewrite Hg.
  rewrite <- (E_indicator (fun s => h (map lz s))), <- (E_indicator (fun s => h (map lz s))).
  apply (proj1 (builder_matches_sampler P c input A) (fun v => if h v then 1 else 0)).
Qed.

(* conditioning on "at least f photons" (the filtered sampler): same kept mass, same conditioned law *)
Lemma nphotons_lz (s : state) : nphotons s = list_sum (map fst (map lz s)).
Proof. induction s as [|m s IH]. reflexivity. cbn [nphotons fold_right map list_sum lz fst].
  fold (nphotons s). rewrite IH. reflexivity. Qed.
Lemma E_condition f (d : dist state) phi :
  E (fst (Source.condition f d)) phi =
  E d (fun s => if (f <=? nphotons s)%nat then phi s else 0) / snd (Source.condition f d).
Proof. unfold Source.condition, normalize. cbn [fst snd]. rewrite E_map_div.
  rewrite (E_filter (fun s => (f <=? nphotons s)%nat)). reflexivity. Qed.
Lemma equiv_filtered (l l' : dist state) :
  (forall g : list (nat * nat) -> Qc, E l (fun s => g (map lz s)) = E l' (fun s => g (map lz s))) ->
  forall f (g : list (nat * nat) -> Qc),
    E l (fun s => if (f <=? nphotons s)%nat then g (map lz s) else 0) =
    E l' (fun s => if (f <=? nphotons s)%nat then g (map lz s) else 0).
Proof.
  intros H f g. pose (G := fun v : list (nat * nat) => if (f <=? list_sum (map fst v))%nat then g v else 0).
  transitivity (E l (fun s => G (map lz s))).
  { apply E_ext. intros s. unfold G. rewrite <- nphotons_lz. reflexivity. }
  rewrite (H G). apply E_ext. intros s. unfold G. rewrite <- nphotons_lz. reflexivity.
Qed.
Theorem conditioned_builder_matches_sampler P c input f : admissible P ->
  snd (Source.condition f (fst (generate_distribution P c input))) =
  snd (Source.condition f (fst (sampler_distribution P c input))) /\
  forall g : list (nat * nat) -> Qc,
    E (fst (Source.condition f (fst (generate_distribution P c input)))) (fun s => g (map lz s)) =
    E (fst (Source.condition f (fst (sampler_distribution P c input)))) (fun s => g (map lz s)).
Proof.
  intros A. destruct (generate_distribution_normalised P c input A) as [_ Hg]. rewrite Hg.
  destruct (builder_matches_sampler P c input A) as [H _].
  assert (Hm : snd (Source.condition f (fst (raw_distribution P c input))) =
               snd (Source.condition f (fst (sampler_distribution P c input)))).
  { unfold Source.condition. cbn [snd].
    rewrite <- (E_indicator (fun s => (f <=? nphotons s)%nat)), <- (E_indicator (fun s => (f <=? nphotons s)%nat)).
    apply (equiv_filtered _ _ H f (fun _ => 1)). }
  split; [exact Hm|]. intros g. rewrite !E_condition, Hm. f_equal.
  apply (equiv_filtered _ _ H f g).
Qed.

(* ------------------------------------------------------------------ the table is the count law of independent events *)
(* sequences of events: one draw of event_law per requested photon (any tag counters), kept as a sequence *)
Definition ev := (option nat * option nat)%type.
Fixpoint tensor_seq {A} (ds : list (dist A)) : dist (list A) :=
  match ds with
  | [] => [([], 1)]
  | d :: rest => let tr := tensor_seq rest in
                 flat_map (fun e => map (fun e' => (fst e :: fst e', snd e * snd e')) tr) d
  end.
Lemma E_tensor_seq {A} (d : dist A) ds phi :
  E (tensor_seq (d :: ds)) phi = E d (fun a => E (tensor_seq ds) (fun s => phi (a :: s))).
Proof. cbn [tensor_seq]. cbv zeta. apply (E_product (@cons A) d (tensor_seq ds)). Qed.

Definition k_sig (e : ev) : nat := match e with (Some _, None) => 1 | _ => 0 end.   (* signal photon alone *)
Definition k_g2 (e : ev) : nat := match e with (None, Some _) => 1 | _ => 0 end.    (* g2 photon alone *)
Definition k_duo (e : ev) : nat := match e with (Some _, Some _) => 1 | _ => 0 end. (* signal + g2 *)
Definition count (k : ev -> nat) (evs : list ev) : nat := list_sum (map k evs).
Definition event_seq (P : src) (cs : list nat) : dist (list ev) := tensor_seq (map (event_law P) cs).

Theorem event_count_functional P cs : forall g : nat -> nat -> nat -> Qc,
  E (event_seq P cs) (fun evs => g (count k_sig evs) (count k_g2 evs) (count k_duo evs)) = Phi3 P (length cs) g.
Proof.
  unfold event_seq. induction cs as [|c cs IH]; intros g.
  - apply (E_single (@nil ev)).
  - cbn [map length]. etransitivity. apply (E_tensor_seq (A:=ev) (event_law P c) (map (event_law P) cs)).
    rewrite (E_ext _ _ (fun e => Phi3 P (length cs) (fun i j k => g (k_sig e + i)%nat (k_g2 e + j)%nat (k_duo e + k)%nat))).
    2:{ intros e. rewrite <- (IH (fun i j k => g (k_sig e + i)%nat (k_g2 e + j)%nat (k_duo e + k)%nat)). reflexivity. }
    unfold event_law, E. cbn [sumf fold_right fst snd k_sig k_g2 k_duo Nat.add length Phi3].
    change (fun i j k : nat => g i j k) with g. ring.
Qed.

Lemma Phi3_zero P n : Phi3 P n (fun _ _ _ => 0) = 0.
Proof. induction n as [|n IH]; cbn [Phi3]. reflexivity. rewrite !IH. ring. Qed.

Definition delta3 (i j k i' j' k' : nat) : Qc := if ((i' =? i) && (j' =? j) && (k' =? k))%nat then 1 else 0.
Lemma Phi3_delta P : forall n i j k, Phi3 P n (delta3 i j k) = T P n i j k.
Proof.
  induction n as [|n IH]; intros i j k.
  - cbn [Phi3]. rewrite T_0. unfold delta3. destruct i, j, k; reflexivity.
  - cbn [Phi3]. rewrite table_recurrence, IH.
    assert (Hi : Phi3 P n (fun i' j' k' => delta3 i j k (S i') j' k') = predT (fun i0 => T P n i0 j k) i).
    { destruct i as [|i0]; cbn [predT].
      - rewrite <- (Phi3_zero P n). apply Phi3_ext. intros. reflexivity.
      - rewrite <- IH. apply Phi3_ext. intros. reflexivity. }
    assert (Hj : Phi3 P n (fun i' j' k' => delta3 i j k i' (S j') k') = predT (fun j0 => T P n i j0 k) j).
    { destruct j as [|j0]; cbn [predT].
      - rewrite <- (Phi3_zero P n). apply Phi3_ext. intros i' j' k'. unfold delta3. cbn [Nat.eqb].
        destruct (i' =? i)%nat; reflexivity.
      - rewrite <- IH. apply Phi3_ext. intros. reflexivity. }
    assert (Hk : Phi3 P n (fun i' j' k' => delta3 i j k i' j' (S k')) = predT (fun k0 => T P n i j k0) k).
    { destruct k as [|k0]; cbn [predT].
      - rewrite <- (Phi3_zero P n). apply Phi3_ext. intros i' j' k'. unfold delta3. cbn [Nat.eqb].
        destruct (i' =? i)%nat, (j' =? j)%nat; reflexivity.
      - rewrite <- IH. apply Phi3_ext. intros. reflexivity. }
    rewrite Hi, Hj, Hk. ring.
Qed.

(* T_n(i,j,k) = probability that n independent events contain i signal-alone, j g2-alone, k signal+g2 events *)
Theorem table_is_event_count_law P cs i j k :
  mass (filter (fun e => ((count k_sig (fst e) =? i) && (count k_g2 (fst e) =? j) && (count k_duo (fst e) =? k))%nat)
               (event_seq P cs)) = T P (length cs) i j k.
Proof.
  rewrite <- (E_indicator (fun evs => ((count k_sig evs =? i) && (count k_g2 evs =? j) && (count k_duo evs =? k))%nat)).
  rewrite <- Phi3_delta. apply (event_count_functional P cs (delta3 i j k)).
Qed.

(* the photon number of the builder's distribution, through the event counts: for every test function g,
   E_builder[g(photon number)] = E_events[g(i + j + 2k)] *)
Theorem builder_number_is_event_number P c input cs : admissible P -> length cs = list_sum input ->
  forall g : nat -> Qc,
    E (fst (raw_distribution P c input)) (fun s => g (nphotons s)) =
    E (event_seq P cs) (fun evs => g (count k_sig evs + count k_g2 evs + 2 * count k_duo evs)%nat).
Proof.
  intros A Hl g. rewrite (builder_number_functional P c input A), Phi_Phi3, <- Hl.
  symmetry. apply (event_count_functional P cs (fun i j k => g (i + j + 2 * k)%nat)).
Qed.

(* ------------------------------------------------------------------ every non-zero tag occurs once *)
(* In every state of either distribution the non-zero tags are pairwise different (each is drawn fresh from the tag
   counter).  Hence a state is determined, up to an injective renaming of the non-zero tags and the order inside a mode,
   by the vector (photons, tag-0 photons) per mode — the statistic of builder_matches_sampler. *)
Definition nz (a : list nat) : list nat := filter (fun t => negb (t =? 0)%nat) a.
Definition fresh_in (lo hi : nat) (a : list nat) : Prop :=
  NoDup (nz a) /\ forall t, In t (nz a) -> (lo < t <= hi)%nat.
Lemma nz_app a b : nz (a ++ b) = nz a ++ nz b.
Proof. apply filter_app. Qed.
Lemma NoDup_app_disjoint {A} (l1 l2 : list A) :
  NoDup l1 -> NoDup l2 -> (forall x, In x l1 -> ~ In x l2) -> NoDup (l1 ++ l2).
Proof. induction 1 as [|x l1 Hx _ IH]; intros H2 Hd; cbn [app]. exact H2.
  constructor. intro Hi. apply in_app_or in Hi. destruct Hi as [Hi|Hi]; [contradiction|]. apply (Hd x); [left; reflexivity|exact Hi].
  apply IH. exact H2. intros y Hy. apply Hd. right. exact Hy. Qed.
Lemma fresh_app lo mid hi a b : (lo <= mid)%nat -> (mid <= hi)%nat ->
  fresh_in lo mid a -> fresh_in mid hi b -> fresh_in lo hi (a ++ b).
Proof.
  intros H1 H2 [Na Ba] [Nb Bb]. unfold fresh_in. rewrite nz_app. split.
  - apply NoDup_app_disjoint; try assumption. intros x Hx Hx'. specialize (Ba x Hx). specialize (Bb x Hx'). lia.
  - intros t Ht. apply in_app_or in Ht. destruct Ht as [Ht|Ht]; [specialize (Ba t Ht)|specialize (Bb t Ht)]; lia.
Qed.
Lemma fresh_nil lo hi : fresh_in lo hi [].
Proof. split. constructor. intros t []. Qed.
Lemma fresh_zeros lo hi n : fresh_in lo hi (repeat O n).
Proof. unfold fresh_in. replace (nz (repeat O n)) with (@nil nat). split. constructor. intros t [].
  induction n as [|n IH]. reflexivity. cbn [repeat nz filter Nat.eqb negb]. exact IH. Qed.

Definition dfresh (lo hi : nat) (d : dist (list nat)) : Prop := Forall (fun e => fresh_in lo hi (fst e)) d.
(* a list of one-mode distributions using consecutive segments of the tag counter *)
Inductive seg : nat -> list (dist (list nat)) -> nat -> Prop :=
| seg_nil c : seg c [] c
| seg_cons c c1 c2 d ds : (c <= c1)%nat -> dfresh c c1 d -> seg c1 ds c2 -> seg c (d :: ds) c2.

Lemma seg_merge c ds c' : seg c ds c' -> (c <= c')%nat /\ dfresh c c' (tensor_merge ds).
Proof.
  induction 1 as [c|c c1 c2 d ds Hle Hd _ [IH1 IH2]].
  - split. lia. constructor; [apply fresh_nil|constructor].
  - split. lia. cbn [tensor_merge]. cbv zeta. apply Forall_forall. intros e He.
    apply in_flat_map in He. destruct He as (a & Ha & He). apply in_map_iff in He. destruct He as (b & <- & Hb).
    cbn [fst]. unfold dfresh in *. rewrite Forall_forall in Hd, IH2.
    apply (fresh_app c c1 c2); try assumption. apply Hd, Ha. apply IH2, Hb.
Qed.
Lemma seg_modes c ds c' : seg c ds c' ->
  (c <= c')%nat /\ Forall (fun e => fresh_in c c' (concat (fst e))) (tensor_modes ds).
Proof.
  induction 1 as [c|c c1 c2 d ds Hle Hd _ [IH1 IH2]].
  - split. lia. constructor; [apply fresh_nil|constructor].
  - split. lia. cbn [tensor_modes]. cbv zeta. apply Forall_forall. intros e He.
    apply in_flat_map in He. destruct He as (a & Ha & He). apply in_map_iff in He. destruct He as (b & <- & Hb).
    cbn [fst concat]. unfold dfresh in *. rewrite Forall_forall in Hd, IH2.
    apply (fresh_app c c1 c2); try assumption. apply Hd, Ha. apply (IH2 b Hb).
Qed.

Lemma next_tag_le P c : (c <= next_tag P c)%nat.
Proof. unfold next_tag. destruct (dmodel P); lia. Qed.
Ltac fresh_tac :=
  unfold fresh_in, nz; cbn [fst filter Nat.eqb negb olist app];
  split; [repeat (constructor; [cbn [In]; lia|]); constructor | cbn [In]; intros t Ht; lia].
Lemma builder_piece_fresh P c : dfresh c (next_tag P c) (fst (one_photon P c)).
Proof.
  cbn [one_photon fst]. apply Forall_forall. intros e He. apply filter_In in He. destruct He as [He _]. revert e He.
  apply Forall_forall. unfold one_photon_entries, next_tag.
  destruct (partially_distinguishable P), (dmodel P); cbn [app]; repeat (constructor; [fresh_tac|]); constructor.
Qed.
Lemma event_piece_fresh P c : dfresh c (next_tag P c) (event_piece P c).
Proof.
  unfold event_piece, event_law, forget, next_tag, dfresh.
  destruct (dmodel P); cbn [map fst snd]; repeat (constructor; [fresh_tac|]); constructor.
Qed.

Lemma photon_dists_seg P : forall n c, seg c (fst (photon_dists P c n)) (snd (photon_dists P c n)).
Proof. induction n as [|n IH]; intros c; cbn [photon_dists]. constructor.
  pose proof (builder_piece_fresh P c) as Hb. cbn [one_photon fst] in *. specialize (IH (next_tag P c)).
  destruct (photon_dists P (next_tag P c) n) as [ds c2]. cbn [fst snd] in *.
  apply (seg_cons c (next_tag P c) c2); [apply next_tag_le|exact Hb|exact IH]. Qed.
Lemma event_dists_seg P : forall n c, seg c (fst (event_dists P c n)) (snd (event_dists P c n)).
Proof. induction n as [|n IH]; intros c; cbn [event_dists]. constructor.
  specialize (IH (next_tag P c)). destruct (event_dists P (next_tag P c) n) as [ds c2]. cbn [fst snd] in *.
  apply (seg_cons c (next_tag P c) c2); [apply next_tag_le|apply event_piece_fresh|exact IH]. Qed.

Lemma prob_dist_fresh P c n : (c <= snd (prob_dist P c n))%nat /\ dfresh c (snd (prob_dist P c n)) (fst (prob_dist P c n)).
Proof. unfold prob_dist. destruct ((n =? 0)%nat || is_perfect P); cbn [fst snd].
  - split. lia. constructor; [apply fresh_zeros|constructor].
  - pose proof (photon_dists_seg P n c) as H. destruct (photon_dists P c n) as [ds c']. cbn [fst snd] in *.
    apply seg_merge, H. Qed.
Lemma event_mode_fresh P c n : (c <= snd (event_mode P c n))%nat /\ dfresh c (snd (event_mode P c n)) (fst (event_mode P c n)).
Proof. unfold event_mode. destruct ((n =? 0)%nat || is_perfect P); cbn [fst snd].
  - split. lia. constructor; [apply fresh_zeros|constructor].
  - pose proof (event_dists_seg P n c) as H. destruct (event_dists P c n) as [ds c']. cbn [fst snd] in *.
    apply seg_merge, H. Qed.
Lemma mode_dists_seg P : forall input c, seg c (fst (mode_dists P c input)) (snd (mode_dists P c input)).
Proof. induction input as [|n rest IH]; intros c; cbn [mode_dists]. constructor.
  destruct (prob_dist_fresh P c n) as [H1 H2]. destruct (prob_dist P c n) as [d c1]. specialize (IH c1).
  destruct (mode_dists P c1 rest) as [ds c2]. cbn [fst snd] in *. apply (seg_cons c c1 c2); assumption. Qed.
Lemma event_modes_seg P : forall input c, seg c (fst (event_modes P c input)) (snd (event_modes P c input)).
Proof. induction input as [|n rest IH]; intros c; cbn [event_modes]. constructor.
  destruct (event_mode_fresh P c n) as [H1 H2]. destruct (event_mode P c n) as [d c1]. specialize (IH c1).
  destruct (event_modes P c1 rest) as [ds c2]. cbn [fst snd] in *. apply (seg_cons c c1 c2); assumption. Qed.

Theorem all_tags_distinct P c input :
  Forall (fun e => NoDup (nz (concat (fst e)))) (fst (generate_distribution P c input)) /\
  Forall (fun e => NoDup (nz (concat (fst e)))) (fst (sampler_distribution P c input)).
Proof.
  split.
  - unfold generate_distribution, raw_distribution. pose proof (mode_dists_seg P input c) as H.
    destruct (mode_dists P c input) as [ds c']. cbn [fst snd] in *. apply seg_modes in H. destruct H as [_ H].
    unfold normalize. apply Forall_forall. intros e He. apply in_map_iff in He. destruct He as (e0 & <- & He0).
    cbn [fst]. rewrite Forall_forall in H. apply (H e0 He0).
  - unfold sampler_distribution. pose proof (event_modes_seg P input c) as H.
    destruct (event_modes P c input) as [ds c']. cbn [fst snd] in *. apply seg_modes in H. destruct H as [_ H].
    apply Forall_forall. intros e He. rewrite Forall_forall in H. apply (H e He).
Qed.

(* ------------------------------------------------------------------ the sampler's distribution is the image of the event sequences *)
(* sampler_distribution is the push-forward of the law of the event sequence (whose counts follow the table, see
   table_is_event_count_law) under "forget the event structure, merge the events of each mode": for an imperfect
   source (a perfect one draws no events: generate_samples returns the expected input). *)
Definition forget0 (e : ev) : list nat := olist (fst e) ++ olist (snd e).
Fixpoint counters (P : src) (c n : nat) : list nat :=
  match n with O => [] | S n' => c :: counters P (next_tag P c) n' end.
Fixpoint counter_end (P : src) (c n : nat) : nat :=
  match n with O => c | S n' => counter_end P (next_tag P c) n' end.
Fixpoint regroup (input : list nat) (pieces : list (list nat)) : state :=
  match input with
  | [] => []
  | n :: rest => concat (firstn n pieces) :: regroup rest (skipn n pieces)
  end.

Lemma counters_length P n : forall c, length (counters P c n) = n.
Proof. induction n as [|n IH]; intros c; cbn [counters length]. reflexivity. rewrite IH. reflexivity. Qed.
Lemma counters_add P a : forall b c, counters P c (a + b) = counters P c a ++ counters P (counter_end P c a) b.
Proof. induction a as [|a IH]; intros b c; cbn [Nat.add counters counter_end app]. reflexivity. rewrite IH. reflexivity. Qed.
Lemma event_dists_counters P n : forall c,
  event_dists P c n = (map (event_piece P) (counters P c n), counter_end P c n).
Proof. induction n as [|n IH]; intros c; cbn [event_dists counters counter_end map]. reflexivity.
  rewrite IH. reflexivity. Qed.

Lemma E_event_piece P c phi : E (event_piece P c) phi = E (event_law P c) (fun e => phi (forget0 e)).
Proof. apply (E_map_key forget0 (event_law P c) phi). Qed.

Lemma merge_is_event_image P cs : forall phi,
  E (tensor_merge (map (event_piece P) cs)) phi = E (event_seq P cs) (fun evs => phi (concat (map forget0 evs))).
Proof.
  unfold event_seq. induction cs as [|c cs IH]; intros phi.
  - reflexivity.
  - cbn [map]. rewrite E_tensor_merge, E_event_piece. symmetry. etransitivity.
    apply (E_tensor_seq (A:=ev) (event_law P c) (map (event_law P) cs)).
    apply E_ext. intros e. symmetry. apply (IH (fun b => phi (forget0 e ++ b))).
Qed.

Lemma event_seq_app P cs1 : forall cs2 phi,
  E (event_seq P (cs1 ++ cs2)) phi = E (event_seq P cs1) (fun l1 => E (event_seq P cs2) (fun l2 => phi (l1 ++ l2))).
Proof.
  unfold event_seq. induction cs1 as [|c cs1 IH]; intros cs2 phi.
  - cbn [app map]. symmetry. apply (E_single (@nil ev)).
  - cbn [app map]. etransitivity. apply (E_tensor_seq (A:=ev) (event_law P c) (map (event_law P) (cs1 ++ cs2))).
    symmetry. etransitivity. apply (E_tensor_seq (A:=ev) (event_law P c) (map (event_law P) cs1)).
    apply E_ext. intros e. symmetry. apply (IH cs2 (fun s => phi (e :: s))).
Qed.
Lemma event_seq_length P cs : forall e, In e (event_seq P cs) -> length (fst e) = length cs.
Proof.
  unfold event_seq. induction cs as [|c cs IH]; intros e He.
  - destruct He as [<-|[]]. reflexivity.
  - cbn [map tensor_seq] in He. cbv zeta in He. apply in_flat_map in He. destruct He as (a & _ & He).
    apply in_map_iff in He. destruct He as (b & <- & Hb). cbn [fst length]. f_equal. apply (IH b Hb).
Qed.
Lemma firstn_length_app {A} (l l' : list A) : firstn (length l) (l ++ l') = l.
Proof. induction l as [|a l IH]; cbn [length firstn app]. destruct l'; reflexivity. rewrite IH. reflexivity. Qed.
Lemma skipn_length_app {A} (l l' : list A) : skipn (length l) (l ++ l') = l'.
Proof. induction l as [|a l IH]; cbn [length skipn app]. reflexivity. exact IH. Qed.

Lemma event_mode_imperfect P c n : is_perfect P = false ->
  event_mode P c n = (tensor_merge (map (event_piece P) (counters P c n)), counter_end P c n).
Proof. intros Hp. unfold event_mode. rewrite Hp, Bool.orb_false_r. destruct n as [|n]. reflexivity.
  cbn [Nat.eqb]. rewrite event_dists_counters. reflexivity. Qed.

Lemma modes_is_event_image P : is_perfect P = false -> forall input c (phi : state -> Qc),
  E (tensor_modes (fst (event_modes P c input))) phi =
  E (event_seq P (counters P c (list_sum input))) (fun evs => phi (regroup input (map forget0 evs))).
Proof.
  intros Hp. induction input as [|n rest IH]; intros c phi.
  - reflexivity.
  - change (list_sum (n :: rest)) with (n + list_sum rest)%nat. cbn [event_modes]. rewrite (event_mode_imperfect P c n Hp). specialize (IH (counter_end P c n)).
    destruct (event_modes P (counter_end P c n) rest) as [ds c2]. cbn [fst] in *.
    rewrite E_tensor_modes, merge_is_event_image, counters_add, event_seq_app.
    apply E_ext_in. intros e1 He1. apply event_seq_length in He1. rewrite counters_length in He1.
    rewrite IH. apply E_ext. intros l2. cbn [regroup]. rewrite map_app.
    rewrite <- He1, <- (map_length forget0 (fst e1)), firstn_length_app, skipn_length_app. reflexivity.
Qed.

Theorem sampler_is_event_image P c input : is_perfect P = false -> forall phi : state -> Qc,
  E (fst (sampler_distribution P c input)) phi =
  E (event_seq P (counters P c (list_sum input))) (fun evs => phi (regroup input (map forget0 evs))).
Proof.
  intros Hp phi. unfold sampler_distribution. pose proof (modes_is_event_image P Hp input c phi) as H.
  destruct (event_modes P c input) as [ds c']. exact H.
Qed.

(* the filter commutes with the image: an event sequence passes the table's filter (i + j + 2k >= f) exactly when the
   state built from it has at least f photons *)
Lemma nphotons_regroup input : forall pieces, length pieces = list_sum input ->
  nphotons (regroup input pieces) = length (concat pieces).
Proof.
  induction input as [|n rest IH]; intros pieces Hl.
  - destruct pieces; [reflexivity|discriminate].
  - change (list_sum (n :: rest)) with (n + list_sum rest)%nat in Hl.
    cbn [regroup nphotons fold_right]. fold (nphotons (regroup rest (skipn n pieces))).
    rewrite IH by (rewrite skipn_length; lia).
    rewrite <- (firstn_skipn n pieces) at 3. rewrite concat_app, app_length. reflexivity.
Qed.
Lemma forget0_length (e : ev) : length (forget0 e) = (k_sig e + k_g2 e + 2 * k_duo e)%nat.
Proof. destruct e as [[s|] [t|]]; reflexivity. Qed.
Lemma concat_forget0_length (evs : list ev) :
  length (concat (map forget0 evs)) = (count k_sig evs + count k_g2 evs + 2 * count k_duo evs)%nat.
Proof. unfold count. induction evs as [|e evs IH]. reflexivity.
  cbn [map concat]. rewrite app_length, IH, forget0_length.
  change (list_sum (k_sig e :: map k_sig evs)) with (k_sig e + list_sum (map k_sig evs))%nat.
  change (list_sum (k_g2 e :: map k_g2 evs)) with (k_g2 e + list_sum (map k_g2 evs))%nat.
  change (list_sum (k_duo e :: map k_duo evs)) with (k_duo e + list_sum (map k_duo evs))%nat. lia. Qed.

Theorem filter_commutes_with_image P c input f : is_perfect P = false -> forall phi : state -> Qc,
  E (fst (sampler_distribution P c input)) (fun s => if (f <=? nphotons s)%nat then phi s else 0) =
  E (event_seq P (counters P c (list_sum input)))
    (fun evs => if passes f (count k_sig evs, count k_g2 evs, count k_duo evs)
                then phi (regroup input (map forget0 evs)) else 0).
Proof.
  intros Hp phi. rewrite (sampler_is_event_image P c input Hp).
  apply E_ext_in. intros e He. apply event_seq_length in He. rewrite counters_length in He.
  rewrite nphotons_regroup by (rewrite map_length; exact He). rewrite concat_forget0_length. reflexivity.
Qed.

(* ------------------------------------------------------------------ non-vacuity: the statements on the example source *)
(* brightness 4/5, g2 9/40, indistinguishability 81/100, transmittance 3/4, 'distinguishable' model; input |1,2>,
   filter 2: both sides evaluate (independently, by computation) to 1199/1728, strictly between 0 and 1 *)
Example table_matches_distribution_example :
  snd (fst (prob_table example_source 3 2)) =
    snd (Source.condition 2 (fst (generate_distribution example_source 0 [1; 2]%nat))) /\
  snd (fst (prob_table example_source 3 2)) = qq 1199 1728 /\
  snd (Source.condition 2 (fst (generate_distribution example_source 0 [1; 2]%nat))) = qq 1199 1728.
Proof.
  split; [|split].
  - apply (table_matches_distribution example_source 0 [1; 2]%nat 2 example_admissible).
  - apply Qc_is_canon. vm_compute. reflexivity.
  - apply Qc_is_canon. vm_compute. reflexivity.
Qed.
(* the builder's 125-entry and the sampler's 216-entry distributions put the same mass 208791/4000000 on
   "mode 0: one photon, tagged 0; mode 1: two photons, one tagged 0"; the event (1,1,0) has probability T_3(1,1,0) *)
Definition example_event (v : list (nat * nat)) : bool := match v with [(1, 1); (2, 1)]%nat => true | _ => false end.
Example builder_matches_sampler_example :
  length (fst (generate_distribution example_source 0 [1; 2]%nat)) = 125%nat /\
  length (fst (sampler_distribution example_source 0 [1; 2]%nat)) = 216%nat /\
  mass (filter (fun e => example_event (map lz (fst e))) (fst (generate_distribution example_source 0 [1; 2]%nat))) = qq 208791 4000000 /\
  mass (filter (fun e => example_event (map lz (fst e))) (fst (sampler_distribution example_source 0 [1; 2]%nat))) = qq 208791 4000000 /\
  T example_source 3 1 1 0 = qq 253 12000.
Proof.
  split; [vm_compute; reflexivity|]. split; [vm_compute; reflexivity|].
  split; [|split]; apply Qc_is_canon; vm_compute; reflexivity.
Qed.
