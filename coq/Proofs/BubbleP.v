(* C11: PERM.break_in_2_mode_perms emits adjacent swaps whose product is the permutation, for every
   permutation of every size; decompose_perms preserves the matrix of every flat circuit. *)
From PV Require Import Model.Transform Proofs.CircuitP Proofs.ComponentsP Proofs.TransformP.
From Coq Require Import Setoid Morphisms Permutation.

(* ---------------------------------------------------------------- lists *)
Definition tau (k i : nat) : nat := if i =? k then k + 1 else if i =? k + 1 then k else i.

Lemma swap_at_cons x l k : swap_at (x :: l) (S k) = x :: swap_at l k.
Proof. unfold swap_at. simpl. destruct (skipn k l) as [|a [|b r]]; reflexivity. Qed.

Lemma nth_swap_at : forall k l i d, k + 1 < length l -> nth i (swap_at l k) d = nth (tau k i) l d.
Proof. induction k; intros l i d H.
  - destruct l as [|a [|b r]]; simpl in H; try lia. unfold swap_at, tau. simpl.
    destruct i as [|[|i]]; reflexivity.
  - destruct l as [|x l]; simpl in H; try lia. rewrite swap_at_cons.
    destruct i as [|i]. reflexivity. simpl nth at 1. rewrite IHk by lia. unfold tau.
    change (S i =? S k) with (i =? k). change (S i =? S k + 1) with (i =? k + 1).
    destruct (i =? k). reflexivity. destruct (i =? k + 1); reflexivity. Qed.

Lemma swap_at_perm : forall k l, Permutation (swap_at l k) l.
Proof. induction k; intros l.
  - destruct l as [|a [|b r]]; try apply Permutation_refl. unfold swap_at. simpl. apply perm_swap.
  - destruct l as [|x l]. apply Permutation_refl. rewrite swap_at_cons. apply perm_skip. apply IHk. Qed.
Lemma swap_at_length k l : length (swap_at l k) = length l.
Proof. apply Permutation_length. apply swap_at_perm. Qed.

Lemma idx_spec x l d : In x l -> idx x l < length l /\ nth (idx x l) l d = x.
Proof. induction l as [|y r IH]; simpl. tauto. intros H.
  destruct (Nat.eqb_spec x y). subst. split. lia. reflexivity.
  destruct H as [H | H]. congruence. destruct (IH H). split. lia. assumption. Qed.
Lemma idx_nth : forall l j d, NoDup l -> j < length l -> idx (nth j l d) l = j.
Proof. induction l as [|y r IH]; intros j d Hnd Hj; simpl in Hj. lia.
  inversion Hnd; subst. destruct j as [|j]; simpl. rewrite Nat.eqb_refl. reflexivity.
  destruct (Nat.eqb_spec (nth j r d) y) as [E|E].
  - exfalso. apply H1. rewrite <- E. apply nth_In. lia.
  - rewrite IH; auto. lia. Qed.
Lemma idx_ge x l i : In x l -> (forall j, j < i -> nth j l 0 <> x) -> i <= idx x l.
Proof. intros Hin H. destruct (le_lt_dec i (idx x l)). assumption.
  exfalso. apply (H (idx x l) l0). apply idx_spec. exact Hin. Qed.

Definition is_perm (p : list nat) : Prop := Permutation p (seq 0 (length p)).
Lemma is_perm_nodup p : is_perm p -> NoDup p.
Proof. intros H. apply (Permutation_NoDup (Permutation_sym H)). apply seq_NoDup. Qed.
Lemma is_perm_in p x : is_perm p -> (In x p <-> x < length p).
Proof. intros H. split; intros Hx.
  - apply (Permutation_in _ H) in Hx. apply in_seq in Hx. lia.
  - apply (Permutation_in _ (Permutation_sym H)). apply in_seq. lia. Qed.
Lemma is_perm_nth p j : is_perm p -> j < length p -> nth j p 0 < length p.
Proof. intros H Hj. apply (is_perm_in p _ H). apply nth_In. exact Hj. Qed.

(* ---------------------------------------------------------------- the loops *)
Lemma inner_acc : forall fuel new i out acc,
  exists ks, bubble_inner fuel new i out acc = (fold_left swap_at ks new, acc ++ ks).
Proof. induction fuel; intros new i out acc; simpl.
  - exists []. simpl. rewrite app_nil_r. reflexivity.
  - destruct (nth i new 0 =? out). exists []. simpl. rewrite app_nil_r. reflexivity.
    destruct (IHfuel (swap_at new (idx out new - 1)) i out (acc ++ [idx out new - 1])) as [ks E].
    exists ((idx out new - 1) :: ks). simpl. rewrite E, <- app_assoc. reflexivity. Qed.

Section Loops.
Variable n : nat.
Definition good (new : list nat) := Permutation new (seq 0 n).
Lemma good_len new : good new -> length new = n.
Proof. intros H. rewrite (Permutation_length H). apply seq_length. Qed.
Lemma good_nodup new : good new -> NoDup new.
Proof. intros H. apply (Permutation_NoDup (Permutation_sym H)). apply seq_NoDup. Qed.
Lemma good_in new x : good new -> x < n -> In x new.
Proof. intros H Hx. apply (Permutation_in _ (Permutation_sym H)). apply in_seq. lia. Qed.

Lemma inner_spec : forall fuel new i out acc, good new -> out < n -> i < n ->
  (forall j, j < i -> nth j new 0 <> out) -> idx out new - i < fuel ->
  let new' := fst (bubble_inner fuel new i out acc) in
  good new' /\ nth i new' 0 = out /\ (forall j, j < i -> nth j new' 0 = nth j new 0) /\
  (forall k, In k (skipn (length acc) (snd (bubble_inner fuel new i out acc))) -> k + 2 <= n).
Proof. induction fuel; intros new i out acc Hg Hout Hi Hlow Hf. lia.
  simpl. destruct (Nat.eqb_spec (nth i new 0) out) as [E|E].
  - simpl. repeat split; auto. intros k0 Hk0. rewrite skipn_all in Hk0. destruct Hk0.
  - pose proof (good_in new out Hg Hout) as Hin.
    destruct (idx_spec out new 0 Hin) as [Hk Hnk]. rewrite (good_len new Hg) in Hk.
    pose proof (idx_ge out new i Hin Hlow) as Hge.
    assert (Hne : idx out new <> i) by (intros E'; apply E; rewrite <- E'; exact Hnk).
    set (k := idx out new) in *.
    assert (Hlen : k - 1 + 1 < length new) by (rewrite (good_len new Hg); lia).
    assert (Hg2 : good (swap_at new (k - 1))).
    { unfold good. eapply Permutation_trans. apply swap_at_perm. exact Hg. }
    assert (Hidx : idx out (swap_at new (k - 1)) = k - 1).
    { replace out with (nth (k - 1) (swap_at new (k - 1)) 0).
      apply idx_nth. apply good_nodup. exact Hg2. rewrite swap_at_length. lia.
      rewrite nth_swap_at by exact Hlen. unfold tau. rewrite Nat.eqb_refl.
      replace (k - 1 + 1) with k by lia. exact Hnk. }
    assert (Hlow2 : forall j, j < i -> nth j (swap_at new (k - 1)) 0 = nth j new 0).
    { intros j Hj. rewrite nth_swap_at by exact Hlen. unfold tau.
      destruct (Nat.eqb_spec j (k - 1)). lia. destruct (Nat.eqb_spec j (k - 1 + 1)). lia. reflexivity. }
    destruct (IHfuel (swap_at new (k - 1)) i out (acc ++ [k - 1]) Hg2 Hout Hi) as [A [B [C Dd]]].
    + intros j Hj. rewrite Hlow2 by exact Hj. apply Hlow. exact Hj.
    + rewrite Hidx. lia.
    + repeat split; auto. intros j Hj. rewrite C by exact Hj. apply Hlow2. exact Hj.
      destruct (inner_acc fuel (swap_at new (k - 1)) i out (acc ++ [k - 1])) as [ks Eq].
      rewrite Eq in *. simpl snd in *. rewrite app_length in Dd. simpl in Dd.
      intros x Hx. rewrite <- app_assoc in Hx. rewrite skipn_app in Hx.
      rewrite skipn_all, Nat.sub_diag in Hx. simpl in Hx. destruct Hx as [<- | Hx]. lia.
      apply Dd. rewrite skipn_app. rewrite skipn_all2 by (rewrite app_length; simpl; lia).
      replace (length acc + 1 - length (acc ++ [k - 1])) with 0 by (rewrite app_length; simpl; lia).
      simpl. exact Hx.
Qed.

Variable p : list nat.
Hypothesis Hp : is_perm p.
Hypothesis Hn : length p = n.

Lemma idx_p_lt i : i < n -> idx i p < n.
Proof. intros H. rewrite <- Hn. apply (idx_spec i p 0). apply (is_perm_in p i Hp). lia. Qed.
Lemma idx_p_inj i j : i < n -> j < n -> idx i p = idx j p -> i = j.
Proof. intros Hi Hj E.
  assert (A : nth (idx i p) p 0 = i) by (apply idx_spec; apply (is_perm_in p i Hp); lia).
  assert (B : nth (idx j p) p 0 = j) by (apply idx_spec; apply (is_perm_in p j Hp); lia).
  rewrite E in A. congruence. Qed.

Lemma outer_spec : forall c t new acc, t + c = n -> good new -> (forall j, j < t -> nth j new 0 = idx j p) ->
  let res := bubble_outer p (seq t c) new acc in
  good (fst res) /\ (forall j, j < n -> nth j (fst res) 0 = idx j p) /\
  exists ks, res = (fold_left swap_at ks new, acc ++ ks) /\ (forall k, In k ks -> k + 2 <= n).
Proof. induction c; intros t new acc Ht Hg Hlow; simpl.
  - repeat split; auto. intros j Hj. apply Hlow. lia.
    exists []. simpl. rewrite app_nil_r. split; [reflexivity | tauto].
  - destruct (inner_acc (length p) new t (idx t p) acc) as [ks Eq].
    assert (Ht' : t < n) by lia.
    destruct (inner_spec (length p) new t (idx t p) acc Hg (idx_p_lt t Ht') Ht') as [A [B [C Dd]]].
    + intros j Hj. rewrite Hlow by exact Hj. intros E. apply idx_p_inj in E; lia.
    + rewrite Hn. pose proof (idx_spec (idx t p) new 0 (good_in new _ Hg (idx_p_lt t Ht'))) as [Hk _].
      rewrite (good_len new Hg) in Hk. lia.
    + rewrite Eq in *. simpl fst in *. simpl snd in *.
      destruct (IHc (S t) (fold_left swap_at ks new) (acc ++ ks)) as [A' [B' [ks' [Eq' Hks']]]]; auto. lia.
      { intros j Hj. destruct (Nat.eq_dec j t) as [->|Hne]. exact B. rewrite C by lia. apply Hlow. lia. }
      repeat split; auto. exists (ks ++ ks'). rewrite Eq'. rewrite fold_left_app, app_assoc. split. reflexivity.
      intros k Hk. apply in_app_or in Hk. destruct Hk as [Hk | Hk]; [|apply Hks'; exact Hk].
      apply Dd. rewrite skipn_app, skipn_all, Nat.sub_diag. simpl. exact Hk.
Qed.

(* the list fact: the emitted swaps, applied to the identity arrangement, put input mode p^-1(i) at position i *)
Lemma bubble_final : exists new, new = fold_left swap_at (bubble_swaps p) (seq 0 n) /\
  (forall k, In k (bubble_swaps p) -> k + 2 <= n) /\ forall j, j < n -> nth j new 0 = idx j p.
Proof. unfold bubble_swaps. rewrite Hn.
  destruct (outer_spec n 0 (seq 0 n) []) as [A [B [ks [Eq Hks]]]]; auto.
  apply Permutation_refl. intros j Hj. lia.
  rewrite Eq in *. simpl in *. exists (fold_left swap_at ks (seq 0 n)). repeat split; auto. Qed.
End Loops.

(* ---------------------------------------------------------------- matrices *)
Section BubbleMat.
Variable R : cring.
Add Ring Rring2 : (Kth R).
Open Scope K_scope.
Notation mat := (mat R).

Definition rowmat (new : list nat) : mat := fun i j => delta (nth i new 0%nat) j.
Definition swapm (k : nat) : mat := embed k 2 (perm_mat [1%nat; 0%nat]).

Ltac eqb_cases := repeat (match goal with |- context [Nat.eqb ?a ?b] => destruct (Nat.eqb_spec a b) end); try lia; auto.
Lemma tau_invol k i : tau k (tau k i) = i.
Proof. unfold tau. destruct (Nat.eqb_spec i k); [|destruct (Nat.eqb_spec i (k + 1))]; eqb_cases. Qed.
Lemma tau_lt M k i : (k + 2 <= M)%nat -> (i < M)%nat -> (tau k i < M)%nat.
Proof. unfold tau. intros. eqb_cases. Qed.
Lemma bij_tau M k : (k + 2 <= M)%nat -> bij_on M (tau k) (tau k).
Proof. intros H. split; intros i Hi; split; try apply tau_invol; apply tau_lt; auto. Qed.

Ltac eqb_only := repeat (match goal with |- context [Nat.eqb ?a ?b] => destruct (Nat.eqb_spec a b) end).
Lemma swapm_pmat M k : (k + 2 <= M)%nat -> meq M (swapm k) (pmat (tau k)).
Proof. intros H i j Hi Hj. unfold swapm, embed, pmat, perm_mat, pmat, perm_fun, tau.
  destruct (inb k 2 i) eqn:Ei; destruct (inb k 2 j) eqn:Ej; simpl.
  - apply inb_true in Ei, Ej.
    assert (Hi' : i = k \/ i = (k + 1)%nat) by lia. assert (Hj' : j = k \/ j = (k + 1)%nat) by lia.
    destruct Hi' as [-> | ->], Hj' as [-> | ->];
    replace (k - k)%nat with 0%nat by lia; replace (k + 1 - k)%nat with 1%nat by lia; simpl;
    eqb_only; try lia; unfold delta; eqb_cases.
  - apply inb_true in Ei. apply inb_false in Ej. eqb_only; try lia; unfold delta; eqb_cases.
  - apply inb_false in Ei. eqb_only; try lia; unfold delta; eqb_cases.
  - apply inb_false in Ei. eqb_only; try lia; unfold delta; eqb_cases.
Qed.

Lemma pmat_mul_l n sg tu (Y : mat) : bij_on n sg tu -> forall i j, (i < n)%nat ->
  mmul n (pmat tu) Y i j = Y (sg i) j.
Proof. intros [Hs Ht] i j Hi. unfold mmul. destruct (Hs i Hi) as [Hsi Hti].
  rewrite (sumn_single R n _ (sg i) Hsi).
  - unfold pmat. rewrite Hti, delta_refl. ring.
  - intros l Hl Hne. unfold pmat. rewrite delta_neq. ring.
    intros E. apply Hne. subst i. destruct (Ht l Hl) as [_ E]. exact (eq_sym E). Qed.

Lemma swap_row M k new : length new = M -> (k + 2 <= M)%nat ->
  meq M (mmul M (swapm k) (rowmat new)) (rowmat (swap_at new k)).
Proof. intros Hl Hk i j Hi Hj.
  transitivity (mmul M (pmat (tau k)) (rowmat new) i j).
  { unfold mmul. apply sumn_ext. intros l Hl'. rewrite (swapm_pmat M k Hk i l Hi Hl'). reflexivity. }
  rewrite (pmat_mul_l M (tau k) (tau k) _ (bij_tau M k Hk) i j Hi).
  unfold rowmat. rewrite nth_swap_at by lia. reflexivity. Qed.

Lemma swaps_mat M : forall ks new, length new = M -> (forall k, In k ks -> (k + 2 <= M)%nat) ->
  meq M (mmul M (oprod M (map swapm ks)) (rowmat new)) (rowmat (fold_left swap_at ks new)).
Proof. induction ks as [|k r IH]; intros new Hl Hks; simpl.
  - apply mmul_id_l.
  - rewrite mmul_assoc. rewrite (swap_row M k new Hl) by (apply Hks; left; reflexivity).
    apply IH. rewrite swap_at_length. exact Hl. intros k' Hk'. apply Hks. right. exact Hk'. Qed.

Lemma rowmat_id M : meq M (rowmat (seq 0 M)) mid.
Proof. intros i j Hi Hj. unfold rowmat, mid. rewrite seq_nth by lia. reflexivity. Qed.

(* product of the emitted adjacent swaps = the permutation matrix, every permutation of every size *)
Theorem bubble_is_perm (p : list nat) : is_perm p ->
  meq (length p) (oprod (length p) (map swapm (bubble_swaps p))) (perm_mat p).
Proof. intros Hp. set (n := length p).
  destruct (bubble_final n p Hp eq_refl) as [new [Enew [Hks Hfin]]].
  rewrite <- (mmul_id_r R n (oprod n (map swapm (bubble_swaps p)))).
  rewrite <- (rowmat_id n).
  rewrite (swaps_mat n (bubble_swaps p) (seq 0 n) (seq_length n 0) Hks). rewrite <- Enew.
  intros i j Hi Hj. unfold rowmat, perm_mat, pmat, perm_fun. rewrite (Hfin i Hi).
  rewrite (nth_indep p j 0%nat) by exact Hj.
  assert (Hin : In i p) by (apply (is_perm_in p i Hp); exact Hi).
  destruct (idx_spec i p 0%nat Hin) as [_ Hnth].
  unfold delta. destruct (Nat.eqb_spec (idx i p) j) as [E|E]; destruct (Nat.eqb_spec i (nth j p 0%nat)) as [E'|E']; auto.
  - exfalso. apply E'. rewrite <- E. symmetry. exact Hnth.
  - exfalso. apply E. rewrite E'. apply idx_nth. apply is_perm_nodup. exact Hp. exact Hj.
Qed.

(* ---------------------------------------------------------------- decompose_perms on flat circuits *)
Variable ii : R.
Definition fvalid (m : nat) (fc : fcirc R) : Prop :=
  Forall (fun ol => (fst ol + lw (snd ol) <= m)%nat /\ match snd ol with LPERM p => is_perm p | _ => True end) fc.

Lemma fmat_app m (l1 l2 : fcirc R) : meq m (fmat ii m (l1 ++ l2)) (mmul m (fmat ii m l2) (fmat ii m l1)).
Proof. unfold fmat, fmats. rewrite map_app. apply oprod_app. Qed.

Lemma break_in_2_mat m o p : is_perm p -> (o + length p <= m)%nat ->
  meq m (fmat ii m (break_in_2 o p)) (embed o (length p) (perm_mat p)).
Proof. intros Hp Ho. unfold break_in_2. destruct (length p =? 2)%nat.
  - unfold fmat. simpl. apply mmul_id_l.
  - rewrite <- (embed_ext R m o (length p) _ _ (bubble_is_perm p Hp)).
    rewrite (embed_oprod R m o (length p) _ Ho). unfold fmat, fmats. rewrite !map_map.
    destruct (bubble_final (length p) p Hp eq_refl) as [new [_ [Hks _]]].
    apply oprod_ext. induction (bubble_swaps p) as [|k r IH]; simpl; constructor.
    + unfold swapm. symmetry. apply embed_embed. apply Hks. left. reflexivity.
    + apply IH. intros k' Hk'. apply Hks. right. exact Hk'. Qed.

Theorem decompose_perms_preserves m (fc : fcirc R) : fvalid m fc ->
  meq m (fmat ii m (decompose_perms fc)) (fmat ii m fc).
Proof. induction 1 as [|[o l] r [Ho Hl] Hr IH]. reflexivity.
  unfold decompose_perms. simpl flat_map. fold (decompose_perms r).
  change ((o, l) :: r) with ([(o, l)] ++ r). rewrite !fmat_app. rewrite IH.
  apply mmul_proper. reflexivity.
  destruct l; try reflexivity. simpl in *. rewrite (break_in_2_mat m o p Hl Ho).
  unfold fmat. simpl. symmetry. apply mmul_id_l. Qed.
End BubbleMat.
