(* Restricting each group's distribution by a predicate that every contribution to the outcome T
   satisfies does not change the probability of T in the merged (convolved) distribution. *)
From PV Require Import Model.Select Proofs.SelectP.
Open Scope Qc_scope.

Lemma state_add_nil_r a : state_add a [] = a. Proof. destruct a; reflexivity. Qed.
Lemma state_add_assoc a : forall b c, state_add a (state_add b c) = state_add (state_add a b) c.
Proof. induction a as [|x a IH]; intros [|y b] [|z c]; simpl; auto. rewrite IH, Nat.add_assoc. reflexivity. Qed.
Lemma state_add_comm a : forall b, state_add a b = state_add b a.
Proof. induction a as [|x a IH]; intros [|y b]; simpl; auto. rewrite IH, Nat.add_comm. reflexivity. Qed.

(* probability that a + (sum of one choice per group) = T *)
Fixpoint S (ds : list dist) (a T : state) : Qc :=
  match ds with
  | [] => if state_eqb a T then 1 else 0
  | d :: ds' => fold_right (fun tw acc => snd tw * S ds' (state_add a (fst tw)) T + acc) 0 d
  end.
Fixpoint Sf (Ps : list (state -> bool)) (ds : list dist) (a T : state) : Qc :=
  match ds, Ps with
  | [], _ => if state_eqb a T then 1 else 0
  | d :: ds', P :: Ps' => fold_right (fun tw acc => (if P (fst tw) then snd tw * Sf Ps' ds' (state_add a (fst tw)) T else 0) + acc) 0 d
  | d :: ds', [] => fold_right (fun tw acc => snd tw * Sf [] ds' (state_add a (fst tw)) T + acc) 0 d
  end.
Fixpoint filtered (Ps : list (state -> bool)) (ds : list dist) : list dist :=
  match ds, Ps with
  | [], _ => []
  | d :: ds', P :: Ps' => dfilter P d :: filtered Ps' ds'
  | d :: ds', [] => d :: filtered [] ds'
  end.

Lemma pr_dmap_conv2 a d1 d2 T :
  pr (dmap (state_add a) (conv2 d1 d2)) T
  = fold_right (fun tw acc => snd tw * pr (dmap (state_add (state_add a (fst tw))) d2) T + acc) 0 d1.
Proof. induction d1 as [|[t1 w1] d1 IH]; simpl. reflexivity.
  unfold dmap in *. rewrite map_app, pr_app. rewrite IH. f_equal.
  clear. induction d2 as [|[t2 w2] d2 IH2]; simpl. ring.
  rewrite IH2. rewrite state_add_assoc. destruct (state_eqb (state_add (state_add a t1) t2) T); ring. Qed.

Lemma S_spec ds : forall a T, pr (dmap (state_add a) (conv_all ds)) T = S ds a T.
Proof. induction ds as [|d ds IH]; intros a T.
  - simpl. rewrite state_add_nil_r. destruct (state_eqb a T); ring.
  - cbn [conv_all fold_right S]. change (fold_right conv2 [([], 1)] ds) with (conv_all ds).
    rewrite pr_dmap_conv2. induction d as [|tw d IHd]; simpl. reflexivity. rewrite IH, IHd. reflexivity. Qed.
Lemma dmap_id d : dmap (state_add []) d = d.
Proof. unfold dmap. induction d as [|[t w] d IH]; simpl; [reflexivity | f_equal; exact IH]. Qed.
Lemma pr_conv_all ds T : pr (conv_all ds) T = S ds [] T.
Proof. rewrite <- S_spec, dmap_id. reflexivity. Qed.

Lemma Sf_spec Ps : forall ds a T, S (filtered Ps ds) a T = Sf Ps ds a T.
Proof. induction Ps as [|P Ps IH]; intros ds; induction ds as [|d ds IHds]; intros a T; simpl; auto.
  - induction d as [|tw d IHd]; simpl. reflexivity. rewrite IHd, IHds. reflexivity.
  - induction d as [|tw d IHd]; simpl. reflexivity. destruct (P (fst tw)); simpl; rewrite IHd; [rewrite IH|]; ring. Qed.

(* a choice: one support state per group *)
Inductive choice : list state -> list dist -> Prop :=
| ch_nil : choice [] []
| ch_cons t w d ts ds : In (t, w) d -> choice ts ds -> choice (t :: ts) (d :: ds).
Definition sum_from (a : state) (ts : list state) : state := fold_left state_add ts a.

Lemma S_zero ds : forall a T, (forall ts, choice ts ds -> sum_from a ts <> T) -> S ds a T = 0.
Proof. induction ds as [|d ds IH]; intros a T H; simpl.
  - destruct (state_eqb a T) eqn:E; auto. apply state_eqb_eq in E. exfalso. apply (H [] ch_nil). exact E.
  - assert (Hd : forall tw, In tw d -> S ds (state_add a (fst tw)) T = 0).
    { intros [t w] Hin. apply IH. intros ts Hc. apply (H (t :: ts)). econstructor; eauto. }
    clear H. induction d as [|tw d IHd]; simpl. reflexivity.
    rewrite (Hd tw) by (left; reflexivity). rewrite IHd. ring. intros; apply Hd; right; assumption. Qed.

Inductive all_hold : list (state -> bool) -> list state -> Prop :=
| ah_nil ts : all_hold [] ts
| ah_nil2 Ps : all_hold Ps []
| ah_cons (P : state -> bool) Ps t ts : P t = true -> all_hold Ps ts -> all_hold (P :: Ps) (t :: ts).

Lemma Sf_nil ds : forall a T, Sf [] ds a T = S ds a T.
Proof. induction ds as [|d ds IH]; intros a T; simpl. reflexivity.
  induction d as [|tw d IHd]; simpl. reflexivity. rewrite IH, IHd. reflexivity. Qed.

Theorem restriction_invisible_gen Ps : forall ds a T,
  (forall ts, choice ts ds -> sum_from a ts = T -> all_hold Ps ts) -> Sf Ps ds a T = S ds a T.
Proof. induction Ps as [|P Ps IH]; intros ds a T H.
  - apply Sf_nil.
  - destruct ds as [|d ds]; simpl; auto.
    assert (Hd : forall t w, In (t, w) d ->
              (if P t then w * Sf Ps ds (state_add a t) T else 0) = w * S ds (state_add a t) T).
    { intros t w Hin. destruct (P t) eqn:Pt.
      - rewrite IH; auto. intros ts Hc Hs. specialize (H (t :: ts)). 
        assert (HH : all_hold (P :: Ps) (t :: ts)) by (apply H; [econstructor; eauto | exact Hs]).
        inversion HH; subst; auto.
      - rewrite S_zero. ring. intros ts Hc Hs.
        assert (HH : all_hold (P :: Ps) (t :: ts)) by (apply H; [econstructor; eauto | exact Hs]).
        inversion HH; subst. congruence. }
    clear H. induction d as [|[t w] d IHd]; simpl. reflexivity.
    rewrite (Hd t w) by (left; reflexivity). rewrite IHd. reflexivity. intros; apply Hd; right; assumption. Qed.

(* C04: if every contribution (one state per group) to the outcome T satisfies each group's
   restriction, the restricted engines give T the same probability as the unrestricted ones *)
Theorem restriction_invisible Ps ds T :
  (forall ts, choice ts ds -> sum_from [] ts = T -> all_hold Ps ts) ->
  pr (conv_all (filtered Ps ds)) T = pr (conv_all ds) T.
Proof. intros H. rewrite !pr_conv_all, Sf_spec. apply restriction_invisible_gen. exact H. Qed.

(* ---- instantiation at the herald mask with the implementation's photon budget ---- *)
Lemma fold_add_swap post : forall b t, fold_left state_add post (state_add b t) = state_add t (fold_left state_add post b).
Proof. induction post as [|y post IH]; intros b t; simpl. apply state_add_comm.
  rewrite <- IH. f_equal. rewrite <- !state_add_assoc. f_equal. apply state_add_comm. Qed.
Lemma sum_decomp (pre : list state) t post a : sum_from a (pre ++ t :: post) = state_add t (sum_from a (pre ++ post)).
Proof. unfold sum_from. rewrite !fold_left_app. simpl. apply fold_add_swap. Qed.

Lemma state_add_length a : forall b, length a = length b -> length (state_add a b) = length a.
Proof. induction a as [|x a IH]; intros [|y b] H; simpl in *; try discriminate; auto. Qed.
Lemma state_add_zeros g : state_add g (repeat 0%nat (length g)) = g.
Proof. induction g as [|x g IH]; simpl; auto. rewrite IH, Nat.add_0_r. reflexivity. Qed.
Lemma sum_from_length L ts : forall a, Forall (fun t => length t = L) ts -> length a = L ->
  length (sum_from a ts) = L.
Proof. induction ts as [|t ts IH]; intros a Hts Ha; simpl; auto. inversion Hts; subst.
  apply IH; auto. rewrite state_add_length; congruence. Qed.
Lemma sum_from_nil_start L ts : Forall (fun t => length t = L) ts -> ts <> [] -> length (sum_from [] ts) = L.
Proof. destruct ts as [|t ts]; [congruence|]. intros H _. inversion H; subst. simpl.
  apply sum_from_length; auto. Qed.

Definition budget_preds (mk : mask) (n_ext : nat) (ns : list nat) : list (state -> bool) :=
  map (fun n_own t => mask_keep1 (best_n true (mask_fixed_total mk) n_ext n_own) mk t) ns.

Lemma budget_all_hold mk n_ext : forall ns (post pre : list state),
  Forall (fun t : state => length t = length mk) (pre ++ post) ->
  Forall2 (fun n (t : state) => total t = n) ns post ->
  mask_exact mk (sum_from [] (pre ++ post)) = true -> total (sum_from [] (pre ++ post)) = n_ext ->
  all_hold (budget_preds mk n_ext ns) post.
Proof.
  induction ns as [|n ns IH]; intros post pre Hlen Hn Hex Htot; simpl. constructor.
  destruct post as [|t post]; [constructor|]. revert Htot. inversion Hn; subst. intros Htot.
  constructor.
  - rewrite sum_decomp in Hex, Htot.
    assert (Ht : length t = length mk).
    { rewrite Forall_forall in Hlen. apply Hlen. apply in_or_app. right. left. reflexivity. }
    assert (Hothers : Forall (fun t0 => length t0 = length mk) (pre ++ post)).
    { rewrite Forall_forall in *. intros x Hx. apply Hlen. apply in_app_or in Hx as [Hx|Hx]; apply in_or_app; [left|right; right]; auto. }
    remember (pre ++ post) as oth eqn:Eo in *. destruct oth as [|o others].
    + (* t is the only group *)
      unfold sum_from in Hex, Htot. cbn [fold_left] in Hex, Htot. rewrite state_add_nil_r in Hex, Htot.
      rewrite <- (state_add_zeros t) in Hex, Htot.
      apply (mask_budget_sound mk t (repeat 0%nat (length t)) n_ext); auto. rewrite repeat_length. exact Ht.
    + apply (mask_budget_sound mk t (sum_from [] (o :: others)) n_ext); auto.
      apply sum_from_nil_start; auto. discriminate.
  - apply (IH post (pre ++ [t])); rewrite <- ?app_assoc; simpl; auto.
Qed.

(* C04: restricting every group's engine to the herald mask instantiated with the photon budget
   best_n(n_ext, n_own) changes the probability of no outcome that shows the heralded values *)
Theorem herald_mask_invisible mk n_ext ns ds T :
  Forall2 (fun n d => forall t w, In (t, w) d -> total t = n /\ length t = length mk) ns ds ->
  mask_exact mk T = true -> total T = n_ext ->
  pr (conv_all (filtered (budget_preds mk n_ext ns) ds)) T = pr (conv_all ds) T.
Proof.
  intros Hsupp Hex Htot. apply restriction_invisible. intros ts Hc Hs. subst T.
  apply (budget_all_hold mk n_ext ns ts []); simpl; auto.
  - clear Hex Htot. revert ns Hsupp. induction Hc; intros ns Hsupp; constructor.
    + inversion Hsupp; subst. apply (H3 t w H). 
    + inversion Hsupp; subst. apply (IHHc l). assumption.
  - clear Hex Htot. revert ns Hsupp. induction Hc; intros ns Hsupp; inversion Hsupp; subst; constructor.
    + apply (H3 t w H).
    + apply IHHc. assumption.
Qed.
