(* C20, part 1: every fixed catalog gate, with its heralds and post-selection, acts on the dual-rail basis
   as the gate it is named after (uniform invertible factor, no leakage); the parametrised one-qubit
   gates do so for every parameter value; the controlled-rotation block for every a (n = 2, 3). *)
From Coq Require Import Reals.
From PV Require Import Model.Catalog Proofs.TrigInst.

(* ------------------------------------------------------------------ the statement *)
Definition gate_spec {R : cring} (g : gate R) (G : mat R) (f : R) : Prop :=
  let U := g_unitary g in let m := g_m g in let q := g_q g in let h := g_heralds g in
  (* amplitudes between logical basis states: f * G, the same f for every input *)
  (forall b b', (b < 2 ^ q)%nat -> (b' < 2 ^ q)%nat -> lamp U m q h b b' = kmul f (G b' b))
  (* no leakage: an output that passes heralds and post-selection and is not logical has amplitude 0 *)
  /\ (forall b t, (b < 2 ^ q)%nat -> length t = m -> total t = (q + herald_total h)%nat ->
        passes h (g_ps g) t = true -> (forall b', (b' < 2 ^ q)%nat -> t <> basis m q h b') ->
        amp_num U m (basis m q h b) t = k0)
  (* the factor is invertible, hence not zero in any homomorphic image *)
  /\ (exists f', kmul f f' = k1).

(* ------------------------------------------------------------------ completeness of the enumeration *)
Lemma in_down_from n a : (a <= n)%nat -> In a (down_from n).
Proof. induction n; simpl; intros H. left; lia.
  destruct (Nat.eq_dec a (S n)). left; congruence. right. apply IHn. lia. Qed.
Lemma allstates_complete m : forall n t, length t = m -> total t = n -> In t (allstates m n).
Proof. induction m as [|m IH]; intros n t Hl Ht.
  - destruct t; [|discriminate]. unfold total in Ht. simpl in Ht. subst. simpl. left. reflexivity.
  - destruct t as [|a t]; [discriminate|]. simpl. apply in_flat_map. exists a. split.
    + apply in_down_from. unfold total in Ht. simpl in Ht. lia.
    + apply in_map. apply IH. simpl in Hl. lia. unfold total in *. simpl in Ht. lia. Qed.

(* ------------------------------------------------------------------ soundness of the decision procedure *)
Lemma in_nbasis q b : In b (nbasis q) <-> (b < 2 ^ q)%nat.
Proof. unfold nbasis. rewrite in_seq. lia. Qed.

Theorem logical_ok_sound (D : dcring) (g : gate D) (G : mat D) (f : D) :
  logical_ok g G f = true -> gate_spec g G f.
Proof.
  unfold logical_ok, gate_spec. intros H.
  apply andb_prop in H as [H Hinv]. apply andb_prop in H as [Hamp Hleak].
  split; [|split].
  - intros b b' Hb Hb'. unfold amps_ok in Hamp. rewrite forallb_forall in Hamp.
    specialize (Hamp b (proj2 (in_nbasis _ _) Hb)). rewrite forallb_forall in Hamp.
    apply deqb_eq. apply Hamp. apply in_nbasis. exact Hb'.
  - intros b t Hb Hl Ht Hp Hnl. unfold leak_ok in Hleak. rewrite forallb_forall in Hleak.
    specialize (Hleak t (allstates_complete _ _ _ Hl Ht)). rewrite Hp in Hleak.
    assert (E : is_logical (g_m g) (g_q g) (g_heralds g) t = false).
    { destruct (is_logical (g_m g) (g_q g) (g_heralds g) t) eqn:E; auto. exfalso.
      unfold is_logical in E. apply existsb_exists in E as [b' [Hb' E]].
      apply state_eqb_eq in E. apply (Hnl b'). apply in_nbasis. exact Hb'. exact E. }
    rewrite E in Hleak. simpl in Hleak. rewrite forallb_forall in Hleak.
    apply deqb_eq. apply Hleak. apply in_nbasis. exact Hb.
  - exists (dinv f). apply deqb_eq. exact Hinv.
Qed.

(* success probability: if the columns of G are normalised, the total probability of the logical outputs
   is f * conj f for EVERY logical input (and by no-leakage nothing else passes) *)
Section Success.
Variable R : cring.
Add Ring Rr : (Kth R).
Theorem success_uniform (lam G : mat R) (f : R) (N : nat) :
  (forall b b', (b < N)%nat -> (b' < N)%nat -> lam b b' = kmul f (G b' b)) ->
  (forall b, (b < N)%nat -> sumn N (fun b' => kmul (G b' b) (kconj (G b' b))) = k1) ->
  forall b, (b < N)%nat -> sumn N (fun b' => kmul (lam b b') (kconj (lam b b'))) = kmul f (kconj f).
Proof.
  intros Hl Hc b Hb.
  transitivity (sumn N (fun b' => kmul (kmul f (kconj f)) (kmul (G b' b) (kconj (G b' b))))).
  - apply sumn_ext. intros b' Hb'. rewrite Hl by assumption. rewrite conj_mul. ring.
  - rewrite sumn_scal, Hc by assumption. ring.
Qed.
End Success.

Definition cols_ok {D : dcring} (G : mat D) (N : nat) : bool :=
  forallb (fun b => deqb (sumn N (fun b' => kmul (G b' b) (kconj (G b' b)))) k1) (seq 0 N).
Lemma cols_ok_sound (D : dcring) (G : mat D) N : cols_ok G N = true ->
  forall b, (b < N)%nat -> sumn N (fun b' => kmul (G b' b) (kconj (G b' b))) = k1.
Proof. unfold cols_ok. rewrite forallb_forall. intros H b Hb. apply deqb_eq. apply H. apply in_seq. lia. Qed.

(* ------------------------------------------------------------------ the fixed gates (exhaustive, by computation
   in the towers: the basis is finite; 2^q inputs x all states of the (m, n) space) *)
Ltac decide_gate := apply logical_ok_sound; vm_compute; reflexivity.

Theorem h_is_H : gate_spec c_h (M_h t1_r2) k1.                  Proof. decide_gate. Qed.
Theorem x_is_X : gate_spec c_x M_x k1.                          Proof. decide_gate. Qed.
Theorem y_is_Y : gate_spec c_y (M_y t1_ii) k1.                  Proof. decide_gate. Qed.
Theorem z_is_Z : gate_spec c_z (M_diag k1 (kopp k1)) k1.        Proof. decide_gate. Qed.
Theorem s_is_S : gate_spec c_s (M_diag k1 t1_ii) k1.            Proof. decide_gate. Qed.
Theorem sdag_is_Sdag : gate_spec c_sdag (M_diag k1 (kopp t1_ii)) k1.  Proof. decide_gate. Qed.
Theorem t_is_T : gate_spec c_t (M_diag k1 t1_w) k1.             Proof. decide_gate. Qed.
Theorem tdag_is_Tdag : gate_spec c_tdag (M_diag k1 (kconj t1_w)) k1.  Proof. decide_gate. Qed.
Theorem ppcz_is_CZ : gate_spec c_ppcz M_cz (f_of c_ppcz).       Proof. decide_gate. Qed.
Theorem ppcnot_is_CNOT : gate_spec c_ppcnot M_cnot (f_of c_ppcnot).  Proof. decide_gate. Qed.
Theorem hcz_is_CZ : gate_spec c_hcz M_cz (f_of c_hcz).          Proof. decide_gate. Qed.
Theorem hcnot_is_CNOT : gate_spec c_hcnot M_cnot (f_of c_hcnot).  Proof. decide_gate. Qed.
Theorem klm_is_CNOT : gate_spec c_klm M_cnot (f_of c_klm).      Proof. decide_gate. Qed.

(* the constants are what the source says: squares of the adjoined cosines / sines, unit modulus *)
Theorem tower_constants :
  kmul t1_r2 t1_r2 = (t1 (qr 1 2) qi0 : T1) /\ kmul t1_w t1_w = (t1_ii : T1) /\ kmul t1_w (kconj t1_w) = (k1 : T1) /\
  kmul t2_c13 t2_c13 = (t2_of1 (t1 (qr 1 3) qi0) : T2) /\ kmul t2_s13 t2_s13 = (t2_of1 (t1 (qr 2 3) qi0) : T2) /\
  kmul t3_c2 t3_c2 = (t3_of2 t2_dalpha : T3) /\ kadd (kmul t3_c2 t3_c2) (kmul t3_s2 t3_s2) = (k1 : T3) /\
  kmul t4_kc1 t4_kc1 = (t4_of1 (t1 (qr 3 7) (qr (-1) 7)) : T4) /\ kadd (kmul t4_kc1 t4_kc1) (kmul t4_ks1 t4_ks1) = (k1 : T4) /\
  kmul t4_kc2 t4_kc2 = (t4_of1 (t1 (qr 5 1) (qr (-3) 1)) : T4) /\ kadd (kmul t4_kc2 t4_kc2) (kmul t4_ks2 t4_ks2) = (k1 : T4).
Proof. repeat split; apply deqb_eq; vm_compute; reflexivity. Qed.

(* the uniform factors: 1/3, 1/3, sqrt 6 / 9, sqrt 6 / 9, (3 - sqrt 2)/7  (success 1/9, 1/9, 2/27, 2/27, R1^2) *)
Theorem factors :
  f_of c_ppcz = t2_of1 (t1 (qr 1 3) qi0) /\ f_of c_ppcnot = t2_of1 (t1 (qr 1 3) qi0) /\
  f_of c_hcz = t3_of2 (t2 k0 (t1 qi0 (qr 1 9))) /\ f_of c_hcnot = t3_of2 (t2 k0 (t1 qi0 (qr 1 9))) /\
  f_of c_klm = t4_of1 (t1 (qr 3 7) (qr (-1) 7)).
Proof. repeat split; apply deqb_eq; vm_compute; reflexivity. Qed.

(* the named matrices have normalised columns (in their towers), so [success_uniform] applies *)
Theorem named_columns :
  (forall b, (b < 2)%nat -> sumn 2 (fun b' => kmul (M_h t1_r2 b' b) (kconj (M_h t1_r2 b' b))) = (k1 : T1)) /\
  (forall b, (b < 4)%nat -> sumn 4 (fun b' => kmul (M_cz b' b) (kconj (M_cz b' b))) = (k1 : T3)) /\
  (forall b, (b < 4)%nat -> sumn 4 (fun b' => kmul (M_cnot b' b) (kconj (M_cnot b' b))) = (k1 : T4)).
Proof. repeat split; apply cols_ok_sound; vm_compute; reflexivity. Qed.

Corollary klm_success_uniform : forall b, (b < 4)%nat ->
  sumn 4 (fun b' => kmul (lamp (g_unitary c_klm) 8 2 (g_heralds c_klm) b b') (kconj (lamp (g_unitary c_klm) 8 2 (g_heralds c_klm) b b')))
  = kmul (f_of c_klm) (kconj (f_of c_klm)).
Proof.
  apply (success_uniform T4 (fun b b' => lamp (g_unitary c_klm) 8 2 (g_heralds c_klm) b b') M_cnot (f_of c_klm) 4).
  - exact (proj1 klm_is_CNOT).
  - exact (proj2 (proj2 named_columns)).
Qed.

(* ------------------------------------------------------------------ parametrised gates: every parameter value *)
Section Param.
Variable R : cring.
Add Ring Rp : (Kth R).

Ltac two_cases b Hb := destruct b as [|[|b]]; [| |exfalso; simpl in Hb; lia].
Ltac sym_amp := cbv -[K kadd kmul kopp ksub kconj k0 k1]; ring.

Theorem rx_logical (ii c s : R) : forall b b', (b < 2)%nat -> (b' < 2)%nat ->
  lamp (g_unitary (g_rx ii c s)) 2 1 [] b b' = M_rx ii c s b' b.
Proof. intros b b' Hb Hb'. two_cases b Hb; two_cases b' Hb'; sym_amp. Qed.
Theorem ry_logical (ii c s : R) : forall b b', (b < 2)%nat -> (b' < 2)%nat ->
  lamp (g_unitary (g_ry ii c s)) 2 1 [] b b' = M_ry c s b' b.
Proof. intros b b' Hb Hb'. two_cases b Hb; two_cases b' Hb'; sym_amp. Qed.
Theorem rz_logical (e : R) : forall b b', (b < 2)%nat -> (b' < 2)%nat ->
  lamp (g_unitary (g_rz e)) 2 1 [] b b' = M_diag (kconj e) e b' b.
Proof. intros b b' Hb Hb'. two_cases b Hb; two_cases b' Hb'; sym_amp. Qed.
Theorem ph_logical (e : R) : forall b b', (b < 2)%nat -> (b' < 2)%nat ->
  lamp (g_unitary (g_ph e)) 2 1 [] b b' = M_diag k1 e b' b.
Proof. intros b b' Hb Hb'. two_cases b Hb; two_cases b' Hb'; sym_amp. Qed.
(* templates of the generic one-qubit conversion: what each can realise *)
Theorem phase_lower_logical (e : R) : forall b b', (b < 2)%nat -> (b' < 2)%nat ->
  lamp (g_unitary (g_phase_lower e)) 2 1 [] b b' = M_diag e k1 b' b.
Proof. intros b b' Hb Hb'. two_cases b Hb; two_cases b' Hb'; sym_amp. Qed.
Theorem two_phase_logical (e1 e2 : R) : forall b b', (b < 2)%nat -> (b' < 2)%nat ->
  lamp (g_unitary (g_2phase e1 e2)) 2 1 [] b b' = M_diag e1 e2 b' b.
Proof. intros b b' Hb Hb'. two_cases b Hb; two_cases b' Hb'; sym_amp. Qed.
(* a single phase shifter on rail 1 acts as diag(e1, e2) up to a factor only with the RELATIVE phase:
   lam * diag(1, e) = diag(e1, e2) forces lam = e1 and e1 * e = e2 *)
Theorem single_phase_needs_relative_phase (lam e e1 e2 : R) :
  (forall b b', (b < 2)%nat -> (b' < 2)%nat -> kmul lam (lamp (g_unitary (g_ph e)) 2 1 [] b b') = M_diag e1 e2 b' b) ->
  lam = e1 /\ kmul e1 e = e2.
Proof. intros H. pose proof (H 0%nat 0%nat ltac:(lia) ltac:(lia)) as H0. pose proof (H 1%nat 1%nat ltac:(lia) ltac:(lia)) as H1.
  rewrite ph_logical in H0, H1 by lia. cbv -[K kadd kmul kopp ksub kconj k0 k1] in H0, H1.
  assert (E : lam = e1). { rewrite <- H0. ring. } split. exact E. rewrite <- E. exact H1. Qed.
End Param.

(* for every real angle: Rx(theta) = [[cos, -i sin], [-i sin, cos]](theta/2), Ry, Rz = diag(e^{-i theta/2}, e^{i theta/2}),
   P(phi) = diag(1, e^{i phi}) *)
Open Scope R_scope.
Theorem rx_logical_real (theta : R) : forall b b', (b < 2)%nat -> (b' < 2)%nat ->
  lamp (g_unitary (g_rx (R:=CX) cI (creal (cos (theta / 2))) (creal (sin (theta / 2))))) 2 1 [] b b'
  = M_rx (R:=CX) cI (creal (cos (theta / 2))) (creal (sin (theta / 2))) b' b.
Proof. apply rx_logical. Qed.
Theorem ry_logical_real (theta : R) : forall b b', (b < 2)%nat -> (b' < 2)%nat ->
  lamp (g_unitary (g_ry (R:=CX) cI (creal (cos (theta / 2))) (creal (sin (theta / 2))))) 2 1 [] b b'
  = M_ry (R:=CX) (creal (cos (theta / 2))) (creal (sin (theta / 2))) b' b.
Proof. apply ry_logical. Qed.
Theorem rz_logical_real (theta : R) : forall b b', (b < 2)%nat -> (b' < 2)%nat ->
  lamp (g_unitary (g_rz (R:=CX) (cexp (theta / 2)))) 2 1 [] b b' = M_diag (R:=CX) (cexp (- (theta / 2))) (cexp (theta / 2)) b' b.
Proof. replace (cexp (- (theta / 2))) with (kconj (cexp (theta / 2)) : CX).
  apply rz_logical. apply cx_eq; simpl. symmetry; apply cos_neg. symmetry; apply sin_neg. Qed.
Theorem ph_logical_real (phi : R) : forall b b', (b < 2)%nat -> (b' < 2)%nat ->
  lamp (g_unitary (g_ph (R:=CX) (cexp phi))) 2 1 [] b b' = M_diag (R:=CX) k1 (cexp phi) b' b.
Proof. apply ph_logical. Qed.
Close Scope R_scope.
