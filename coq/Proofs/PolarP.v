(* C13: doubling is a monoid morphism; the polarised circuit matrix is the ordered product of its
   doubled / polarising leaves and is unitary; the preparation matrix is unitary; the implementation's
   route (U_pol . Prep on the spatial input) equals the specification (one column U_pol . jones_p per
   photon); labels. *)
From PV Require Import Model.Polar Proofs.CircuitP Proofs.ComponentsP Proofs.EnginesP.
From Coq Require Import Setoid Morphisms Permutation.

Lemma even_mod l : ((2 * l) mod 2 = 0)%nat.
Proof. rewrite Nat.mul_comm. apply Nat.mod_mul. lia. Qed.
Lemma even_div l : ((2 * l) / 2 = l)%nat.
Proof. rewrite Nat.mul_comm. apply Nat.div_mul. lia. Qed.
Lemma odd_mod l : ((2 * l + 1) mod 2 = 1)%nat.
Proof. rewrite Nat.add_comm, Nat.mul_comm, Nat.mod_add by lia. reflexivity. Qed.
Lemma odd_div l : ((2 * l + 1) / 2 = l)%nat.
Proof. rewrite Nat.add_comm, Nat.mul_comm, Nat.div_add by lia. reflexivity. Qed.
Lemma mod2_cases i : (i mod 2 = 0 \/ i mod 2 = 1)%nat.
Proof. pose proof (Nat.mod_upper_bound i 2). lia. Qed.
Lemma div2_lt i n : (i < 2 * n)%nat -> (i / 2 < n)%nat.
Proof. intros H. apply Nat.div_lt_upper_bound; lia. Qed.
Lemma div_mod2 i : (i = 2 * (i / 2) + i mod 2)%nat.
Proof. apply Nat.div_mod. lia. Qed.

Section PolarP.
Variable R : cring.
Add Ring Rring : (Kth R).
Open Scope K_scope.
Notation mat := (mat R).

Lemma sumn_double n (f : nat -> R) :
  sumn (2 * n) f = sumn n (fun l => f (2 * l)%nat + f (2 * l + 1)%nat).
Proof. induction n. reflexivity.
  replace (2 * S n)%nat with (S (S (2 * n))) by lia. cbn [sumn]. rewrite IHn.
  replace (2 * n + 1)%nat with (S (2 * n)) by lia. ring. Qed.

(* ---------------- mdouble is a monoid morphism ---------------- *)
Theorem mdouble_mul n (A B : mat) : meq (2 * n) (mmul (2 * n) (mdouble A) (mdouble B)) (mdouble (mmul n A B)).
Proof. intros i j Hi Hj. unfold mmul at 1. rewrite sumn_double. unfold mdouble.
  rewrite (sumn_ext R n _ (fun l => if (i mod 2 =? j mod 2)%nat then A (i / 2)%nat l * B l (j / 2)%nat else k0)).
  - destruct (i mod 2 =? j mod 2)%nat. reflexivity. apply sumn_zero. reflexivity.
  - intros l _. rewrite !even_mod, !odd_mod, !even_div, !odd_div.
    destruct (mod2_cases i) as [Ei|Ei], (mod2_cases j) as [Ej|Ej]; rewrite Ei, Ej; simpl; ring. Qed.
Theorem mdouble_id n : meq (2 * n) (mdouble mid) (mid (R:=R)).
Proof. intros i j _ _. unfold mdouble, mid, delta.
  destruct (i mod 2 =? j mod 2)%nat eqn:E1; destruct (i =? j)%nat eqn:E2;
  rewrite ?Nat.eqb_eq, ?Nat.eqb_neq in *.
  - subst. rewrite Nat.eqb_refl. reflexivity.
  - destruct (i / 2 =? j / 2)%nat eqn:E3; auto. apply Nat.eqb_eq in E3.
    pose proof (div_mod2 i). pose proof (div_mod2 j). lia.
  - subst. congruence.
  - reflexivity. Qed.
Theorem mdouble_adj n (A : mat) : meq n (madj (mdouble A)) (mdouble (madj A)).
Proof. intros i j _ _. unfold madj, mdouble. rewrite Nat.eqb_sym.
  destruct (i mod 2 =? j mod 2)%nat. reflexivity. apply conj_zero. Qed.
Lemma mdouble_ext n (A B : mat) : meq n A B -> meq (2 * n) (mdouble A) (mdouble B).
Proof. intros H i j Hi Hj. unfold mdouble. destruct (i mod 2 =? j mod 2)%nat; auto.
  apply H; apply div2_lt; assumption. Qed.
Theorem mdouble_unitary n (A : mat) : unitary n A -> unitary (2 * n) (mdouble A).
Proof. intros [H1 H2]. split.
  - rewrite (mdouble_adj (2 * n) A), mdouble_mul. rewrite (mdouble_ext n _ _ H1). apply mdouble_id.
  - rewrite (mdouble_adj (2 * n) A), mdouble_mul. rewrite (mdouble_ext n _ _ H2). apply mdouble_id. Qed.

(* ---------------- polarised circuits ---------------- *)
Notation pcomp := (pcomp R).
Lemma pcomp_ind' (P : pcomp -> Prop) :
  (forall pol k U, P (PLeaf pol k U)) ->
  (forall m items, Forall (fun p => P (snd p)) items -> P (PSub m items)) -> forall c, P c.
Proof. intros HL HS. fix IH 1. intros [pol k U | m items]. apply HL. apply HS.
  induction items as [|[o c] r IHr]; constructor. simpl. apply IH. exact IHr. Qed.

Fixpoint pwf_items (m : nat) (l : list (nat * pcomp)) : Prop :=
  match l with [] => True | (off, c') :: r => ((off + pwidth c' <= m)%nat /\ pwf c') /\ pwf_items m r end.
Lemma pwf_Sub m items : pwf (PSub m items) <-> (0 < m)%nat /\ pwf_items m items.
Proof. simpl. split; intros [H1 H2]; split; auto; clear H1;
  induction items as [|[o c] r IH]; simpl in *; intuition. Qed.
Fixpoint ne_items (l : list (nat * pcomp)) : Prop :=
  match l with [] => True | (_, c') :: r => no_empty c' /\ ne_items r end.
Lemma no_empty_Sub m items : no_empty (PSub m items) <-> items <> [] /\ ne_items items.
Proof. simpl. split; intros [H1 H2]; split; auto; clear H1;
  induction items as [|[o c] r IH]; simpl in *; intuition. Qed.

Fixpoint pleaves_unitary (c : pcomp) : Prop :=
  match c with
  | PLeaf pol k U => if pol then unitary (2 * k) U else unitary k U
  | PSub m items => (fix all (l : list (nat * pcomp)) : Prop :=
      match l with [] => True | (_, c') :: r => pleaves_unitary c' /\ all r end) items
  end.
Fixpoint plu_items (l : list (nat * pcomp)) : Prop :=
  match l with [] => True | (_, c') :: r => pleaves_unitary c' /\ plu_items r end.
Lemma plu_Sub m items : pleaves_unitary (PSub m items) <-> plu_items items.
Proof. simpl. induction items as [|[o c] r IH]; simpl; tauto. Qed.

Section AnyEmpty.
Variable E : mat.
Definition dbl_item (oc : nat * pcomp) : nat * comp R := ((2 * fst oc)%nat, pdouble_g E (snd oc)).
Lemma pdouble_Sub m i items :
  pdouble_g E (PSub m (i :: items)) = Sub (2 * m) (map dbl_item (i :: items)).
Proof. cbn [pdouble_g]. f_equal. apply map_ext. intros [o c]. reflexivity. Qed.

Lemma pdouble_width (c : pcomp) : width (pdouble_g E c) = (2 * pwidth c)%nat.
Proof. destruct c as [pol k U | m [|i items]]; reflexivity. Qed.

Theorem pdouble_wf (c : pcomp) : pwf c -> wf (pdouble_g E c).
Proof. induction c as [pol k U | m items IH] using pcomp_ind'; intros H.
  - simpl in *. lia.
  - apply (proj1 (pwf_Sub _ _)) in H. destruct H as [Hm Hit]. destruct items as [|i items]. simpl. lia.
    rewrite pdouble_Sub. apply wf_Sub. split. lia.
    remember (i :: items) as l. clear Heql i items.
    induction l as [|[o c] r IHr]; simpl; auto. simpl in Hit. destruct Hit as [[Ho Hc] Hr].
    inversion IH; subst. split. split. rewrite pdouble_width. lia. apply H1. exact Hc. apply IHr; auto. Qed.

Theorem polar_cmat_product_g (c : pcomp) : pwf c ->
  meq (2 * pwidth c) (cmat (pdouble_g E c)) (oprod (2 * pwidth c) (leaf_mats (2 * pwidth c) (flatten 0 (pdouble_g E c)))).
Proof. intros H. rewrite <- pdouble_width. apply cmat_flatten. apply pdouble_wf. exact H. Qed.

Theorem flatten_pdouble_g (c : pcomp) : no_empty c -> forall off,
  flatten (2 * off) (pdouble_g E c) = map dleaf (pflatten off c).
Proof. induction c as [pol k U | m items IH] using pcomp_ind'; intros H off.
  - reflexivity.
  - apply (proj1 (no_empty_Sub _ _)) in H. destruct H as [Hne Hit]. destruct items as [|i items]. congruence.
    rewrite pdouble_Sub. cbn [flatten pflatten]. clear Hne.
    remember (i :: items) as l. clear Heql i items.
    induction l as [|[o c] r IHr]; simpl; auto. simpl in Hit. destruct Hit as [Hc Hr]. inversion IH; subst.
    rewrite map_app. f_equal.
    + simpl in H1. rewrite <- (H1 Hc). f_equal. lia.
    + apply IHr; auto. Qed.

(* leaves of the doubled tree are unitary if the circuit's leaves are and either no sub-circuit is empty
   or an empty sub-circuit contributes a unitary matrix *)
Lemma pdouble_leaves_unitary_g (c : pcomp) : (no_empty c \/ forall n, unitary n E) -> pleaves_unitary c ->
  leaves_unitary R (pdouble_g E c).
Proof. induction c as [pol k U | m items IH] using pcomp_ind'; intros Hne Hu.
  - simpl in *. destruct pol. exact Hu. apply mdouble_unitary. exact Hu.
  - apply (proj1 (plu_Sub _ _)) in Hu. destruct items as [|i items].
    + destruct Hne as [Hne|HE]. apply (proj1 (no_empty_Sub _ _)) in Hne. destruct Hne. congruence. apply HE.
    + assert (Hit : forall oc, In oc (i :: items) -> no_empty (snd oc) \/ forall n, unitary n E).
      { destruct Hne as [Hne|HE]; [|intros; right; exact HE]. apply (proj1 (no_empty_Sub _ _)) in Hne.
        destruct Hne as [_ Hne]. intros oc Hin. left. revert Hne Hin. generalize (i :: items).
        induction l as [|[o c] r IHr]; simpl; intros Hn Hin; [destruct Hin|].
        destruct Hin as [<-|Hin]; [simpl; tauto | apply IHr; tauto]. }
      rewrite pdouble_Sub. clear Hne. remember (i :: items) as l. clear Heql i items. cbn [leaves_unitary].
      induction l as [|[o c] r IHr]; simpl; auto. simpl in Hu. inversion IH; subst.
      split. apply H1. apply (Hit (o, c)). left. reflexivity. tauto.
      apply IHr; try tauto. intros oc Hin. apply Hit. right. exact Hin. Qed.

Theorem polar_unitary_g (c : pcomp) : pwf c -> (no_empty c \/ forall n, unitary n E) -> pleaves_unitary c ->
  unitary (2 * pwidth c) (cmat (pdouble_g E c)).
Proof. intros Hwf Hne Hu. rewrite <- pdouble_width. apply cmat_unitary.
  apply pdouble_wf; exact Hwf. apply pdouble_leaves_unitary_g; assumption. Qed.
End AnyEmpty.

(* first clause: the matrix over the 2m sub-modes is the ordered product of the leaves of the doubled
   tree, each embedded at its absolute sub-mode range (any nesting, any offsets, any size) *)
Theorem polar_cmat_product (c : pcomp) : pwf c ->
  meq (2 * pwidth c) (cmat (pdouble c)) (oprod (2 * pwidth c) (leaf_mats (2 * pwidth c) (flatten 0 (pdouble c)))).
Proof. exact (polar_cmat_product_g mid c). Qed.
(* ... and, empty sub-circuits (which contribute the identity) apart, those leaves are exactly the circuit's
   own leaves: a spatial k-mode matrix doubled at sub-modes [2 off, 2 off + 2k), a polarising one as it is *)
Theorem flatten_pdouble (c : pcomp) : no_empty c -> forall off,
  flatten (2 * off) (pdouble c) = map dleaf (pflatten off c).
Proof. exact (flatten_pdouble_g mid c). Qed.
(* second clause: the doubled matrix of EVERY well-formed circuit is unitary when its leaves are (spatial leaves
   k x k, polarising leaves 2k x 2k); an empty circuit contributes eye(2m) *)
Theorem polar_unitary (c : pcomp) : pwf c -> pleaves_unitary c ->
  unitary (2 * pwidth c) (cmat (pdouble c)).
Proof. intros H1 H3. apply (polar_unitary_g mid c H1); auto. right. intros n. apply unitary_id. Qed.
(* the code before e38f1486: only when no sub-circuit is empty *)
Theorem polar_unitary_old (c : pcomp) : pwf c -> no_empty c -> pleaves_unitary c ->
  unitary (2 * pwidth c) (cmat (pdouble_old c)).
Proof. intros H1 H2 H3. apply (polar_unitary_g ones c H1); auto. Qed.

(* pol_unitary_old on circuits without empty sub-circuits never raises and returns that matrix *)
Lemma pol_raises_no_empty (c : pcomp) : no_empty c -> pol_raises c = false.
Proof. induction c as [pol k U | m items IH] using pcomp_ind'; intros Hne. reflexivity.
  apply (proj1 (no_empty_Sub _ _)) in Hne. destruct Hne as [_ Hit]. cbn [pol_raises].
  induction items as [|[o c] r IHr]. reflexivity. cbn [existsb]. simpl in Hit. inversion IH; subst.
  rewrite IHr by tauto. rewrite orb_false_r. simpl in H1.
  destruct c as [pol k U | m' [|i its]]. reflexivity.
  - destruct Hit as [Hc _]. apply (proj1 (no_empty_Sub _ _)) in Hc. destruct Hc. congruence.
  - apply H1. tauto. Qed.
Theorem pol_unitary_old_ok (c : pcomp) : no_empty c ->
  pol_unitary_old c = PolMat (2 * pwidth c) (cmat (pdouble_old c)).
Proof. intros Hne. unfold pol_unitary_old. rewrite (pol_raises_no_empty c Hne).
  destruct c as [pol k U | m [|i its]]; try reflexivity.
  apply (proj1 (no_empty_Sub _ _)) in Hne. destruct Hne. congruence. Qed.

(* PBS: the fixed permutation (H0 V0 H1 V1) -> (H1 V0 H0 V1) *)
Theorem pbs_unitary : unitary 4 (pmat (R:=R) pbs_perm).
Proof. apply (pmat_unitary R 4 pbs_perm pbs_perm). split; intros k Hk;
  (destruct k as [|[|[|[|k]]]]; [simpl; split; [lia|reflexivity] .. | lia]). Qed.

(* ---------------- the preparation matrix ---------------- *)
Notation block := (block R).
Notation jones := (jones R).
Definition bunit (B : block) : Prop :=
  match B with (a, b, c, d) =>
    (a * kconj a + b * kconj b = k1 /\ c * kconj c + d * kconj d = k1 /\ a * kconj c + b * kconj d = k0) /\
    (kconj a * a + kconj c * c = k1 /\ kconj b * b + kconj d * d = k1 /\ kconj a * b + kconj c * d = k0)
  end.

(* in a commutative ring orthonormal columns imply orthonormal rows (2x2, via the adjugate) *)
Lemma cols_to_rows (a b c d a' b' c' d' : R) :
  a' * a + c' * c = k1 -> b' * b + d' * d = k1 -> a' * b + c' * d = k0 -> b' * a + d' * c = k0 ->
  a * a' + b * b' = k1 /\ c * c' + d * d' = k1 /\ a * c' + b * d' = k0.
Proof. intros h1 h2 h3 h3'.
  assert (E1 : a' * (a * d - b * c) = d).
  { transitivity (d * (a' * a + c' * c) - c * (a' * b + c' * d)). ring. rewrite h1, h3. ring. }
  assert (E4 : d' * (a * d - b * c) = a).
  { transitivity (a * (b' * b + d' * d) - b * (b' * a + d' * c)). ring. rewrite h2, h3'. ring. }
  assert (E2 : c' * (a * d - b * c) = - b).
  { transitivity (- (b * (a' * a + c' * c) - a * (a' * b + c' * d))). ring. rewrite h1, h3. ring. }
  split; [|split].
  - transitivity (d' * (a' * (a * d - b * c)) + b * b').
    { transitivity (d' * (a * d - b * c) * a' + b * b'). rewrite E4. ring. ring. }
    rewrite E1. rewrite <- h2. ring.
  - transitivity (c * c' + a' * (d' * (a * d - b * c))).
    { transitivity (c * c' + a' * (a * d - b * c) * d'). rewrite E1. ring. ring. }
    rewrite E4. rewrite <- h1. ring.
  - transitivity (d' * (c' * (a * d - b * c)) + b * d').
    { transitivity (d' * (a * d - b * c) * c' + b * d'). rewrite E4. ring. ring. }
    rewrite E2. ring. Qed.

Lemma bunit_id : bunit (idblock (R:=R)).
Proof. unfold bunit, idblock. rewrite conj_one, conj_zero. repeat split; ring. Qed.

Lemma bdiag_col_even bs i l :
  bdiag bs i (2 * l)%nat = if (i / 2 =? l)%nat then bentry (nth (i / 2) bs idblock) (i mod 2) 0 else k0 :> R.
Proof. unfold bdiag. rewrite even_div, even_mod. reflexivity. Qed.
Lemma bdiag_col_odd bs i l :
  bdiag bs i (2 * l + 1)%nat = if (i / 2 =? l)%nat then bentry (nth (i / 2) bs idblock) (i mod 2) 1 else k0 :> R.
Proof. unfold bdiag. rewrite odd_div, odd_mod. reflexivity. Qed.
Lemma bdiag_row_even bs l j :
  bdiag bs (2 * l)%nat j = if (l =? j / 2)%nat then bentry (nth l bs idblock) 0 (j mod 2) else k0 :> R.
Proof. unfold bdiag. rewrite even_div, even_mod. reflexivity. Qed.
Lemma bdiag_row_odd bs l j :
  bdiag bs (2 * l + 1)%nat j = if (l =? j / 2)%nat then bentry (nth l bs idblock) 1 (j mod 2) else k0 :> R.
Proof. unfold bdiag. rewrite odd_div, odd_mod. reflexivity. Qed.

Lemma delta_same_block i j : (i / 2 = j / 2)%nat -> (i mod 2 = j mod 2)%nat -> mid (R:=R) i j = k1.
Proof. intros H1 H2. pose proof (div_mod2 i). pose proof (div_mod2 j). replace j with i by lia.
  unfold mid. apply delta_refl. Qed.
Lemma delta_other i j : (i / 2 <> j / 2 \/ i mod 2 <> j mod 2)%nat -> mid (R:=R) i j = k0.
Proof. intros H. unfold mid. apply delta_neq. intros ->. lia. Qed.

Theorem bdiag_unitary m (bs : list block) :
  (forall k, bunit (nth k bs idblock)) -> unitary (2 * m) (bdiag bs).
Proof. intros HB. split; intros i j Hi Hj; unfold mmul, madj; rewrite sumn_double.
  - rewrite (sumn_single R m _ (i / 2)%nat (div2_lt i m Hi)).
    + rewrite !bdiag_col_even, !bdiag_col_odd, Nat.eqb_refl.
      destruct (j / 2 =? i / 2)%nat eqn:E.
      * apply Nat.eqb_eq in E. rewrite E. specialize (HB (i / 2)%nat).
        destruct (nth (i / 2) bs idblock) as [[[a b] c] d]. destruct HB as [[r1 [r2 r3]] _].
        assert (r3' : c * kconj a + d * kconj b = k0).
        { rewrite <- (conj_invol R c), <- (conj_invol R d), <- !conj_mul, <- conj_add.
          replace (kconj c * a + kconj d * b) with (a * kconj c + b * kconj d) by ring. rewrite r3. apply conj_zero. }
        destruct (mod2_cases i) as [Ei|Ei], (mod2_cases j) as [Ej|Ej]; rewrite Ei, Ej; cbn [bentry].
        -- rewrite delta_same_block by lia. exact r1.
        -- rewrite delta_other by lia. exact r3.
        -- rewrite delta_other by lia. exact r3'.
        -- rewrite delta_same_block by lia. exact r2.
      * apply Nat.eqb_neq in E. rewrite conj_zero. rewrite delta_other by lia. ring.
    + intros l Hl Hne. rewrite !bdiag_col_even, !bdiag_col_odd.
      replace (i / 2 =? l)%nat with false by (symmetry; apply Nat.eqb_neq; lia). ring.
  - rewrite (sumn_single R m _ (i / 2)%nat (div2_lt i m Hi)).
    + rewrite !bdiag_row_even, !bdiag_row_odd, Nat.eqb_refl.
      destruct (i / 2 =? j / 2)%nat eqn:E.
      * apply Nat.eqb_eq in E. specialize (HB (i / 2)%nat).
        destruct (nth (i / 2) bs idblock) as [[[a b] c] d]. destruct HB as [_ [c1 [c2 c3]]].
        assert (c3' : kconj b * a + kconj d * c = k0).
        { rewrite <- (conj_invol R a), <- (conj_invol R c), <- !conj_mul, <- conj_add.
          replace (b * kconj a + d * kconj c) with (kconj a * b + kconj c * d) by ring. rewrite c3. apply conj_zero. }
        destruct (mod2_cases i) as [Ei|Ei], (mod2_cases j) as [Ej|Ej]; rewrite Ei, Ej; cbn [bentry].
        -- rewrite delta_same_block by lia. exact c1.
        -- rewrite delta_other by lia. exact c3.
        -- rewrite delta_other by lia. exact c3'.
        -- rewrite delta_same_block by lia. exact c2.
      * apply Nat.eqb_neq in E. rewrite delta_other by lia. ring.
    + intros l Hl Hne. rewrite !bdiag_row_even, !bdiag_row_odd.
      replace (l =? i / 2)%nat with false by (symmetry; apply Nat.eqb_neq; lia). rewrite conj_zero. ring.
Qed.

Variable eqb : R -> R -> bool.
Hypothesis eqb_eq : forall a b, eqb a b = true <-> a = b.

Definition normed (v : jones) : Prop := fst v * kconj (fst v) + snd v * kconj (snd v) = k1.
Notation mprep := (mprep R).
Definition mgood (st : mprep) : Prop :=
  match st with
  | MP1 v1 _ => normed v1
  | MP2 v1 v2 _ _ => normed v1 /\ normed v2 /\ inner v1 v2 = k0
  | _ => True
  end.
Lemma mstep_good st v : mgood st -> normed v -> mgood (mstep eqb st v).
Proof. destruct st as [|v1 n1|v1 v2 n1 n2|c]; simpl; intros Hg Hv; auto.
  - destruct (veqb eqb v1 v); simpl; auto. destruct (eqb (inner v1 v) k0) eqn:E; simpl; auto.
    apply eqb_eq in E. auto.
  - destruct (veqb eqb v1 v); simpl; auto. destruct (veqb eqb v2 v); simpl; auto. Qed.
Lemma fold_good vs : forall st, mgood st -> Forall normed vs -> mgood (fold_left (mstep eqb) vs st).
Proof. induction vs as [|v vs IH]; intros st Hg Hn; simpl. exact Hg.
  inversion Hn; subst. apply IH; auto. apply mstep_good; auto. Qed.
Lemma mgood_bunit st : mgood st -> bunit (mblock_old st).
Proof. destruct st as [|[eh ev] n1|[eh1 ev1] [eh2 ev2] n1 n2|c]; simpl; intros Hg; try apply bunit_id.
  - unfold normed in Hg. simpl in Hg. rewrite !conj_opp, !conj_invol.
    repeat split; try (rewrite <- Hg; ring); ring.
  - destruct Hg as [N1 [N2 O]]. unfold normed, inner in *. simpl in *.
    assert (O' : kconj eh2 * eh1 + kconj ev2 * ev1 = k0).
    { rewrite <- (conj_invol R eh1), <- (conj_invol R ev1), <- !conj_mul, <- conj_add.
      replace (eh2 * kconj eh1 + ev2 * kconj ev1) with (kconj eh1 * eh2 + kconj ev1 * ev2) by ring.
      rewrite O. apply conj_zero. }
    assert (C1 : kconj eh1 * eh1 + kconj ev1 * ev1 = k1) by (rewrite <- N1; ring).
    assert (C2 : kconj eh2 * eh2 + kconj ev2 * ev2 = k1) by (rewrite <- N2; ring).
    split. apply cols_to_rows; assumption. auto. Qed.

(* third clause: the preparation matrix built from normalised Jones vectors is unitary, for every
   number of modes and photons, one or two polarisations per mode *)
Theorem prep_unitary_old (inp : pinput R) : Forall (Forall normed) inp ->
  unitary (2 * length inp) (prep_matrix_old (prep_states eqb inp)).
Proof. intros H. apply bdiag_unitary. intros k. unfold prep_states. rewrite map_map.
  destruct (nth_in_or_default k (map (fun x => mblock_old (mode_prep eqb x)) inp) idblock) as [Hin|Hd].
  - apply in_map_iff in Hin. destruct Hin as [vs [E Hvs]]. rewrite <- E. apply mgood_bunit.
    apply fold_good. exact I. rewrite Forall_forall in H. apply H. exact Hvs.
  - rewrite Hd. apply bunit_id. Qed.

(* ---------------- permanents with arbitrary columns ---------------- *)
Definition colvec (W : mat) (k : nat) : nat -> R := fun j => W j k.
Lemma permS_permC (W : mat) n cols : forall t, permS W n cols t = @permC R n (map (colvec W) cols) t.
Proof. induction cols as [|k cols IH]; intros t; simpl. reflexivity.
  apply sumn_ext. intros j _. destruct (0 <? nth j t 0)%nat; auto. rewrite IH. reflexivity. Qed.
Definition ptw (n : nat) (w w' : nat -> R) : Prop := forall j, (j < n)%nat -> w j = w' j.
Lemma permC_ext n cols cols' : Forall2 (ptw n) cols cols' -> forall t, @permC R n cols t = @permC R n cols' t.
Proof. induction 1 as [|w w' cols cols' Hw _ IH]; intros t; simpl. reflexivity.
  apply sumn_ext. intros j Hj. destruct (0 <? nth j t 0)%nat; auto. rewrite IH, (Hw j Hj). reflexivity. Qed.
Lemma permC_zero_if_n_differs n cols : forall t, total t <> length cols -> @permC R n cols t = k0.
Proof. induction cols as [|w cols IH]; intros t H; simpl.
  - destruct (all_zero t) eqn:E; auto. apply all_zero_total in E. simpl in H. congruence.
  - apply sumn_zero. intros j _. destruct (0 <? nth j t 0)%nat eqn:E; auto.
    apply Nat.ltb_lt in E. rewrite IH. ring. pose proof (total_dec t j E). simpl in H. lia. Qed.

Lemma dec_comm (t : state) : forall j l, dec (dec t j) l = dec (dec t l) j.
Proof. induction t as [|x t IH]; intros [|j] [|l]; simpl; auto. rewrite IH. reflexivity. Qed.
Lemma nth_dec (t : state) : forall j l, nth l (dec t j) 0%nat = if (l =? j)%nat then pred (nth j t 0%nat) else nth l t 0%nat.
Proof. induction t as [|x t IH]; intros [|j] [|l]; simpl; auto; try (destruct (l =? j)%nat; reflexivity). Qed.

(* weight of removing a photon from j, then one from l *)
Definition w2 (t : state) (j l : nat) : R :=
  if (0 <? nth j t 0)%nat then if (0 <? nth l (dec t j) 0)%nat then of_nat (nth j t 0%nat) * of_nat (nth l (dec t j) 0%nat) else k0 else k0.
Lemma w2_sym t j l : w2 t j l = w2 t l j.
Proof. unfold w2. rewrite !nth_dec. destruct (Nat.eq_dec l j) as [->|Hne]. reflexivity.
  replace (l =? j)%nat with false by (symmetry; apply Nat.eqb_neq; lia).
  replace (j =? l)%nat with false by (symmetry; apply Nat.eqb_neq; lia).
  destruct (0 <? nth j t 0)%nat, (0 <? nth l t 0)%nat; auto. ring. Qed.
Lemma permC_two n a b cols t :
  @permC R n (a :: b :: cols) t = sumn n (fun j => sumn n (fun l => w2 t j l * (a j * b l * @permC R n cols (dec (dec t j) l)))).
Proof. cbn [permC]. apply sumn_ext. intros j _. unfold w2. destruct (0 <? nth j t 0)%nat.
  - rewrite <- sumn_scal. apply sumn_ext. intros l _. destruct (0 <? nth l (dec t j) 0)%nat; ring.
  - symmetry. apply sumn_zero. intros; ring. Qed.
Lemma permC_swap n a b cols t : @permC R n (a :: b :: cols) t = @permC R n (b :: a :: cols) t.
Proof. rewrite !permC_two. rewrite sumn_swap. apply sumn_ext. intros l _. apply sumn_ext. intros j _.
  rewrite w2_sym, dec_comm. ring. Qed.
(* the order of the photons is irrelevant *)
Theorem permC_perm n cols cols' : Permutation cols cols' -> forall t, @permC R n cols t = @permC R n cols' t.
Proof. induction 1; intros t.
  - reflexivity.
  - simpl. apply sumn_ext. intros j _. destruct (0 <? nth j t 0)%nat; auto. rewrite IHPermutation. reflexivity.
  - apply permC_swap.
  - rewrite IHPermutation1. apply IHPermutation2. Qed.

(* ---------------- convert_polarized_state: which column each photon is sent to ---------------- *)
Lemma veqb_eq v w : veqb eqb v w = true <-> v = w.
Proof. unfold veqb. rewrite andb_true_iff, !eqb_eq. destruct v, w; simpl. split.
  intros [-> ->]; reflexivity. intros E; injection E; auto. Qed.
Lemma veqb_refl v : veqb eqb v v = true.
Proof. apply veqb_eq. reflexivity. Qed.

Definition idx1 (v1 v : jones) : nat := if veqb eqb v1 v then 0%nat else 1%nat.
Definition midx (st : mprep) (v : jones) : nat :=
  match st with MP1 v1 _ => idx1 v1 v | MP2 v1 _ _ _ => idx1 v1 v | _ => 0%nat end.
Definition mvec (st : mprep) (i : nat) : jones := (bentry (mblock_old st) 0 i, bentry (mblock_old st) 1 i).
Lemma midx_lt st v : (midx st v < 2)%nat.
Proof. destruct st; simpl; unfold idx1; try destruct (veqb eqb v1 v); lia. Qed.

Definition Inv (st : mprep) (vs : list jones) : Prop :=
  match st with
  | MP0 => vs = []
  | MP1 v1 n1 => Permutation (repeat 0%nat n1) (map (idx1 v1) vs) /\ (forall v, In v vs -> v = v1)
  | MP2 v1 v2 n1 n2 => Permutation (repeat 0%nat n1 ++ repeat 1%nat n2) (map (idx1 v1) vs) /\
                       (forall v, In v vs -> if veqb eqb v1 v then v = v1 else v = v2)
  | MErr _ => True
  end.

Lemma Inv_step st vs v : Inv st vs -> Inv (mstep eqb st v) (vs ++ [v]).
Proof. destruct st as [|v1 n1|v1 v2 n1 n2|c]; simpl; intros H; auto.
  - subst. simpl. unfold idx1. rewrite veqb_refl. split. apply Permutation_refl.
    intros w [<-|[]]. reflexivity.
  - destruct H as [HP HA]. destruct (veqb eqb v1 v) eqn:E.
    + apply veqb_eq in E. subst v. simpl. rewrite map_app. simpl. unfold idx1 at 2. rewrite veqb_refl. split.
      * eapply Permutation_trans. apply perm_skip. exact HP. apply Permutation_cons_append.
      * intros w Hw. apply in_app_or in Hw. destruct Hw as [Hw|[<-|[]]]; auto.
    + destruct (eqb (inner v1 v) k0); simpl; auto. rewrite map_app. simpl. unfold idx1 at 2. rewrite E. split.
      * apply Permutation_app_tail. exact HP.
      * intros w Hw. apply in_app_or in Hw. destruct Hw as [Hw|[<-|[]]].
        rewrite (HA w Hw), veqb_refl. reflexivity. rewrite E. reflexivity.
  - destruct H as [HP HA]. destruct (veqb eqb v1 v) eqn:E.
    + simpl. rewrite map_app. simpl. unfold idx1 at 2. rewrite E. split.
      * eapply Permutation_trans. apply (perm_skip 0%nat). exact HP. apply Permutation_cons_append.
      * intros w Hw. apply in_app_or in Hw. destruct Hw as [Hw|[<-|[]]]. apply HA; auto.
        rewrite E. apply veqb_eq in E. auto.
    + destruct (veqb eqb v2 v) eqn:E2; simpl; auto. rewrite map_app. simpl. unfold idx1 at 2. rewrite E. split.
      * eapply Permutation_trans. symmetry. apply Permutation_middle.
        eapply Permutation_trans. apply perm_skip. exact HP. apply Permutation_cons_append.
      * intros w Hw. apply in_app_or in Hw. destruct Hw as [Hw|[<-|[]]]. apply HA; auto.
        rewrite E. apply veqb_eq in E2. auto. Qed.

Lemma Inv_mode_prep vs : Inv (mode_prep eqb vs) vs.
Proof. induction vs as [|v vs IH] using rev_ind. reflexivity.
  unfold mode_prep. rewrite fold_left_app. simpl. apply Inv_step. exact IH. Qed.

Lemma Inv_perm st vs : Inv st vs -> merr st = None ->
  Permutation (repeat 0%nat (nth 0 (mcounts st) 0%nat) ++ repeat 1%nat (nth 1 (mcounts st) 0%nat)) (map (midx st) vs).
Proof. destruct st as [|v1 n1|v1 v2 n1 n2|c]; simpl; intros H He; try discriminate.
  - subst. constructor.
  - rewrite app_nil_r. apply H.
  - apply H. Qed.
Lemma Inv_vec st vs : Inv st vs -> merr st = None -> forall v, In v vs -> mvec st (midx st v) = v.
Proof. destruct st as [|[eh ev] n1|[eh1 ev1] [eh2 ev2] n1 n2|c]; simpl; intros H He v Hv; try discriminate.
  - subst. destruct Hv.
  - destruct H as [_ HA]. rewrite (HA v Hv). unfold idx1. rewrite veqb_refl. reflexivity.
  - destruct H as [_ HA]. specialize (HA v Hv). unfold idx1. destruct (veqb eqb (eh1, ev1) v); subst; reflexivity. Qed.

Fixpoint idxs (k : nat) (inp : pinput R) : list nat :=
  match inp with
  | [] => []
  | vs :: r => map (fun v => (2 * k + midx (mode_prep eqb vs) v)%nat) vs ++ idxs (S k) r
  end.
Lemma mcounts_two (st : mprep) : mcounts st = [nth 0 (mcounts st) 0%nat; nth 1 (mcounts st) 0%nat].
Proof. destruct st; reflexivity. Qed.
Lemma map_repeat' {A B} (f : A -> B) x n : map f (repeat x n) = repeat (f x) n.
Proof. induction n; simpl; congruence. Qed.

Lemma cols_perm inp : forall k, first_err (prep_states eqb inp) = None ->
  Permutation (rows_from (2 * k) (spatial_input (prep_states eqb inp))) (idxs k inp).
Proof. induction inp as [|vs r IH]; intros k He. constructor.
  cbn [prep_states map first_err] in He. destruct (merr (mode_prep eqb vs)) eqn:Em. discriminate.
  cbn [prep_states map spatial_input flat_map idxs]. rewrite mcounts_two. cbn [app rows_from].
  rewrite app_assoc. apply Permutation_app.
  - pose proof (Permutation_map (fun i => (2 * k + i)%nat) (Inv_perm _ _ (Inv_mode_prep vs) Em)) as P.
    rewrite map_app, !map_repeat', map_map in P.
    replace (2 * k + 0)%nat with (2 * k)%nat in P by lia. replace (2 * k + 1)%nat with (S (2 * k)) in P by lia. exact P.
  - replace (S (S (2 * k))) with (2 * S k)%nat by lia. apply IH. exact He. Qed.

Lemma idx_div k i : (i < 2)%nat -> ((2 * k + i) / 2 = k)%nat.
Proof. intros H. destruct i as [|[|i]]; try lia. rewrite Nat.add_0_r. apply even_div. apply odd_div. Qed.
Lemma idx_mod k i : (i < 2)%nat -> ((2 * k + i) mod 2 = i)%nat.
Proof. intros H. destruct i as [|[|i]]; try lia. rewrite Nat.add_0_r. apply even_mod. apply odd_mod. Qed.

(* column 2k+i of U . Prep only involves the two sub-modes of spatial mode k *)
Lemma mmul_bdiag_col m (U : mat) bs j k i : (k < m)%nat -> (i < 2)%nat ->
  mmul (2 * m) U (bdiag bs) j (2 * k + i)%nat =
  U j (2 * k)%nat * bentry (nth k bs idblock) 0 i + U j (2 * k + 1)%nat * bentry (nth k bs idblock) 1 i.
Proof. intros Hk Hi. unfold mmul. rewrite sumn_double. rewrite (sumn_single R m _ k Hk).
  - rewrite bdiag_row_even, bdiag_row_odd, idx_div, idx_mod, Nat.eqb_refl by exact Hi. reflexivity.
  - intros l Hl Hne. rewrite bdiag_row_even, bdiag_row_odd, idx_div by exact Hi.
    replace (l =? k)%nat with false by (symmetry; apply Nat.eqb_neq; lia). ring. Qed.

Lemma first_err_none sts : first_err (R:=R) sts = None -> forall st, In st sts -> merr st = None.
Proof. induction sts as [|s r IH]; simpl; intros H st Hin. destruct Hin.
  destruct (merr s) eqn:E. discriminate. destruct Hin as [<-|Hin]; auto. Qed.
Lemma Forall2_map_in {A B} (P : B -> B -> Prop) (f g : A -> B) l :
  (forall a, In a l -> P (f a) (g a)) -> Forall2 P (map f l) (map g l).
Proof. induction l; simpl; intros H; constructor; auto. Qed.

Lemma cols_spec (U : mat) (all : pinput R) m : length all = m -> first_err (prep_states eqb all) = None ->
  forall suf pre, all = pre ++ suf ->
  Forall2 (ptw (2 * m)) (map (colvec (xmul (2 * m) U (prep_matrix_old (prep_states eqb all)))) (idxs (length pre) suf))
          (spec_cols U (length pre) suf).
Proof. intros Hm He. induction suf as [|vs r IH]; intros pre Hall. constructor.
  cbn [idxs spec_cols]. rewrite map_app. apply Forall2_app.
  - rewrite map_map. apply Forall2_map_in. intros v Hv j Hj.
    assert (Hk : (length pre < m)%nat). { rewrite <- Hm, Hall, app_length. simpl. lia. }
    pose proof (midx_lt (mode_prep eqb vs) v) as Hi.
    unfold colvec. rewrite xmul_eq by lia. unfold prep_matrix_old. rewrite mmul_bdiag_col by assumption.
    assert (En : nth (length pre) (map (mblock_old (R:=R)) (prep_states eqb all)) idblock = mblock_old (mode_prep eqb vs)).
    { unfold prep_states. rewrite Hall, !map_app, app_nth2 by (rewrite !map_length; lia).
      rewrite !map_length, Nat.sub_diag. reflexivity. }
    rewrite En.
    assert (Em : merr (mode_prep eqb vs) = None).
    { apply (first_err_none _ He). unfold prep_states. apply in_map. rewrite Hall. apply in_or_app. right. left. reflexivity. }
    pose proof (Inv_vec _ _ (Inv_mode_prep vs) Em v Hv) as Ev. unfold mvec in Ev.
    unfold jcol. rewrite <- Ev at 3 4. reflexivity.
  - specialize (IH (pre ++ [vs])). rewrite app_length in IH. simpl in IH. rewrite Nat.add_1_r in IH.
    apply IH. rewrite <- app_assoc. exact Hall. Qed.

Lemma Forall2_len {A B} (P : A -> B -> Prop) l l' : Forall2 P l l' -> length l = length l'.
Proof. induction 1; simpl; congruence. Qed.
Lemma rows_from_length (t : state) : forall j0, length (rows_from j0 t) = total t.
Proof. induction t as [|x t IH]; intros j0; simpl. reflexivity.
  rewrite app_length, repeat_length, IH. reflexivity. Qed.

(* fourth clause: for every circuit matrix U (unitary or not), every number of modes and photons, every
   input accepted by convert_polarized_state and EVERY spatial output t, the amplitude computed by the
   implementation's route -- the ordinary engine specification applied to U . Prep and the spatial input --
   equals the permanent whose columns are U . (eh |2k> + ev |2k+1>), one per photon *)
Theorem impl_eq_spec_old (U : mat) (inp : pinput R) m t : length inp = m ->
  first_err (prep_states eqb inp) = None -> impl_amp_old eqb U m inp t = spec_amp U m inp t.
Proof. intros Hm He. unfold impl_amp_old, spec_amp, amp_num, cols_of, rows_of.
  pose proof (cols_perm inp 0 He) as P. simpl (2 * 0)%nat in P.
  pose proof (cols_spec U inp m Hm He inp [] eq_refl) as F. simpl length in F.
  destruct (total (spatial_input (prep_states eqb inp)) =? total t)%nat eqn:E.
  - rewrite permS_permC. rewrite (permC_perm _ _ _ (Permutation_map _ P)). apply permC_ext. exact F.
  - symmetry. apply permC_zero_if_n_differs. apply Nat.eqb_neq in E.
    rewrite <- (Forall2_len _ _ _ F), map_length, <- (Permutation_length P), rows_from_length. auto. Qed.

(* what is executed (one shared matrix product for all outputs) is the list of impl_amp_old values *)
Lemma impl_amps_old_eq (U : mat) m (inp : pinput R) ts : impl_amps_old eqb U m inp ts = map (impl_amp_old eqb U m inp) ts.
Proof. reflexivity. Qed.

(* ---------------- normalisation: prod s'! is the squared norm of the polarised input ---------------- *)
Lemma veqb_sym v w : veqb eqb v w = veqb eqb w v.
Proof. destruct (veqb eqb v w) eqn:E1, (veqb eqb w v) eqn:E2; auto.
  - apply veqb_eq in E1. subst. rewrite veqb_refl in E2. discriminate.
  - apply veqb_eq in E2. subst. rewrite veqb_refl in E1. discriminate. Qed.
Lemma occ_app v a b : occ eqb v (a ++ b) = (occ eqb v a + occ eqb v b)%nat.
Proof. induction a as [|w a IH]; simpl; auto. rewrite IH. lia. Qed.
Lemma occ_all v vs : (forall w, In w vs -> w = v) -> occ eqb v vs = length vs.
Proof. induction vs as [|w r IH]; simpl; intros H; auto. rewrite (H w) by auto. rewrite veqb_refl, IH; auto. Qed.
Lemma occ_none v v1 vs : veqb eqb v1 v = false -> (forall w, In w vs -> w = v1) -> occ eqb v vs = 0%nat.
Proof. intros E. induction vs as [|w r IH]; simpl; intros H; auto. rewrite (H w) by auto. rewrite E, IH; auto. Qed.

Definition Inv2 (st : mprep) (vs : list jones) : Prop :=
  match st with
  | MP0 => vs = []
  | MP1 v1 n1 => n1 = length vs /\ (forall v, In v vs -> v = v1)
  | MP2 v1 v2 n1 n2 => veqb eqb v1 v2 = false /\ n1 = occ eqb v1 vs /\ n2 = occ eqb v2 vs /\
                       (forall v, In v vs -> v = v1 \/ v = v2)
  | MErr _ => True
  end.
Lemma Inv2_step st vs v : Inv2 st vs -> Inv2 (mstep eqb st v) (vs ++ [v]).
Proof. destruct st as [|v1 n1|v1 v2 n1 n2|c]; simpl; intros H; auto.
  - subst. simpl. split; auto. intros w [<-|[]]. reflexivity.
  - destruct H as [Hn HA]. destruct (veqb eqb v1 v) eqn:E.
    + apply veqb_eq in E. subst v. simpl. rewrite app_length. simpl. split. lia.
      intros w Hw. apply in_app_or in Hw. destruct Hw as [Hw|[<-|[]]]; auto.
    + destruct (eqb (inner v1 v) k0); simpl; auto. rewrite !occ_app. simpl.
      rewrite (veqb_sym v v1), E, veqb_refl. rewrite (occ_all v1 vs HA), (occ_none v v1 vs E HA).
      repeat split; try lia. intros w Hw. apply in_app_or in Hw. destruct Hw as [Hw|[<-|[]]]; auto.
  - destruct H as [Hd [H1 [H2 HA]]]. destruct (veqb eqb v1 v) eqn:E.
    + apply veqb_eq in E. subst v. simpl. rewrite !occ_app. simpl. rewrite veqb_refl, Hd.
      repeat split; try lia; auto. intros w Hw. apply in_app_or in Hw. destruct Hw as [Hw|[<-|[]]]; auto.
    + destruct (veqb eqb v2 v) eqn:E2; simpl; auto. apply veqb_eq in E2. subst v. rewrite !occ_app. simpl.
      rewrite veqb_refl, (veqb_sym v2 v1), Hd. repeat split; try lia; auto.
      intros w Hw. apply in_app_or in Hw. destruct Hw as [Hw|[<-|[]]]; auto. Qed.
Lemma Inv2_mode_prep vs : Inv2 (mode_prep eqb vs) vs.
Proof. induction vs as [|v vs IH] using rev_ind. reflexivity.
  unfold mode_prep. rewrite fold_left_app. simpl. apply Inv2_step. exact IH. Qed.

Lemma mult_fact_one v1 vs : (forall w, In w vs -> w = v1) -> mult_fact eqb vs = fact (length vs).
Proof. induction vs as [|w r IH]; intros H. reflexivity.
  cbn [mult_fact length fact]. rewrite IH by (intros; apply H; right; auto).
  rewrite (H w) by (left; auto). rewrite occ_all by (intros; apply H; right; auto). reflexivity. Qed.
Lemma mult_fact_two v1 v2 vs : veqb eqb v1 v2 = false -> (forall w, In w vs -> w = v1 \/ w = v2) ->
  mult_fact eqb vs = (fact (occ eqb v1 vs) * fact (occ eqb v2 vs))%nat.
Proof. intros Hd. induction vs as [|w r IH]; intros H. reflexivity.
  cbn [mult_fact occ]. rewrite IH by (intros; apply H; right; auto).
  destruct (H w (or_introl eq_refl)) as [->| ->].
  - rewrite veqb_refl, Hd. simpl. lia.
  - rewrite veqb_refl, (veqb_sym v2 v1), Hd. simpl. lia. Qed.
Lemma mode_norm vs : merr (mode_prep eqb vs) = None -> factprod (mcounts (mode_prep eqb vs)) = mult_fact eqb vs.
Proof. pose proof (Inv2_mode_prep vs) as H. destruct (mode_prep eqb vs) as [|v1 n1|v1 v2 n1 n2|c]; simpl in *; intros He; try discriminate.
  - subst. reflexivity.
  - destruct H as [-> HA]. rewrite (mult_fact_one v1 vs HA). lia.
  - destruct H as [Hd [-> [-> HA]]]. rewrite (mult_fact_two v1 v2 vs Hd HA). lia. Qed.
Lemma factprod_app (a b : state) : factprod (a ++ b) = (factprod a * factprod b)%nat.
Proof. induction a; simpl. lia. rewrite IHa. lia. Qed.
(* the denominator prod s'! used by the engine for the spatial input is the squared norm of the polarised
   input state: the product over the classes of identical photons (same mode, same Jones vector) of (size)! *)
Theorem input_norm (inp : pinput R) : first_err (prep_states eqb inp) = None ->
  factprod (spatial_input (prep_states eqb inp)) = spec_norm_in eqb inp.
Proof. induction inp as [|vs r IH]; intros He. reflexivity.
  cbn [prep_states map first_err] in He. destruct (merr (mode_prep eqb vs)) eqn:Em. discriminate.
  cbn [prep_states map spatial_input flat_map spec_norm_in fold_right]. rewrite factprod_app, (mode_norm vs Em).
  f_equal. apply IH. exact He. Qed.

(* convert_old returns the spatial input and the preparation matrix exactly when some mode holds a photon;
   with no photon at all the matrix stays None (and the simulator's `upol @ None` raises) *)
Theorem convert_old_ok (inp : pinput R) : first_err (prep_states eqb inp) = None -> no_photon inp = false ->
  convert_old eqb inp = ConvOk (spatial_input (prep_states eqb inp)) (prep_matrix_old (prep_states eqb inp)).
Proof. intros H1 H2. unfold convert_old. rewrite H1, H2. reflexivity. Qed.
(* ---------------- the code as it is now (19d38de0, 53c82d36) ---------------- *)
(* two normalised orthogonal vectors: the second IS phase * (complement of the first) with phase = <c, v2>, and
   |phase| = 1 -- so the division by |phase| in the code is the identity and the block is the one written before *)
Lemma complement_phase (v1 v2 : jones) : normed v1 -> normed v2 -> inner v1 v2 = k0 ->
  let ch := - kconj (snd v1) in let cv := kconj (fst v1) in
  let ph := kconj ch * fst v2 + kconj cv * snd v2 in
  ph * ch = fst v2 /\ ph * cv = snd v2 /\ ph * kconj ph = k1.
Proof. destruct v1 as [eh1 ev1], v2 as [eh2 ev2]. unfold normed, inner. simpl. intros N1 N2 O.
  rewrite conj_opp, !conj_invol.
  assert (E1 : (- ev1 * eh2 + eh1 * ev2) * - kconj ev1 = eh2).
  { transitivity ((eh1 * kconj eh1 + ev1 * kconj ev1) * eh2 - eh1 * (kconj eh1 * eh2 + kconj ev1 * ev2)). ring.
    rewrite N1, O. ring. }
  assert (E2 : (- ev1 * eh2 + eh1 * ev2) * kconj eh1 = ev2).
  { transitivity ((eh1 * kconj eh1 + ev1 * kconj ev1) * ev2 - ev1 * (kconj eh1 * eh2 + kconj ev1 * ev2)). ring.
    rewrite N1, O. ring. }
  split; [exact E1|split; [exact E2|]].
  rewrite conj_add, !conj_mul, conj_opp. rewrite <- N2.
  transitivity ((- ev1 * eh2 + eh1 * ev2) * - kconj ev1 * kconj eh2 + (- ev1 * eh2 + eh1 * ev2) * kconj eh1 * kconj ev2).
  ring. rewrite E1, E2. ring. Qed.
Lemma mblock_eq st : mgood st -> mblock st = mblock_old st.
Proof. destruct st as [|v1 n1|v1 v2 n1 n2|c]; try reflexivity. intros [N1 [N2 O]].
  destruct (complement_phase v1 v2 N1 N2 O) as [E1 [E2 _]]. cbn [mblock mblock_old]. cbv zeta. rewrite E1, E2. reflexivity. Qed.
Lemma prep_matrix_eq (inp : pinput R) : Forall (Forall normed) inp ->
  prep_matrix (prep_states eqb inp) = prep_matrix_old (prep_states eqb inp).
Proof. intros H. unfold prep_matrix, prep_matrix_old. f_equal. apply map_ext_in. intros st Hin.
  apply mblock_eq. unfold prep_states in Hin. apply in_map_iff in Hin. destruct Hin as [vs [<- Hvs]].
  apply fold_good. exact I. rewrite Forall_forall in H. apply H. exact Hvs. Qed.

(* third clause: the preparation matrix built from normalised Jones vectors is unitary, for every
   number of modes and photons, one or two polarisations per mode, the vacuum included *)
Theorem prep_unitary (inp : pinput R) : Forall (Forall normed) inp ->
  unitary (2 * length inp) (prep_matrix (prep_states eqb inp)).
Proof. intros H. rewrite (prep_matrix_eq inp H). apply prep_unitary_old. exact H. Qed.
(* the conversion returns a matrix for every accepted input *)
Theorem convert_ok (inp : pinput R) : first_err (prep_states eqb inp) = None ->
  convert eqb inp = ConvOk (spatial_input (prep_states eqb inp)) (prep_matrix (prep_states eqb inp)).
Proof. intros H. unfold convert. rewrite H. reflexivity. Qed.
(* fourth clause, the code as it is: for every circuit matrix, every accepted input of normalised Jones vectors
   (vacuum and two-polarisation modes included) and EVERY output over the sub-modes *)
Theorem impl_eq_spec (U : mat) (inp : pinput R) m t : length inp = m -> Forall (Forall normed) inp ->
  first_err (prep_states eqb inp) = None -> impl_amp eqb U m inp t = spec_amp U m inp t.
Proof. intros Hm Hn He. unfold impl_amp. rewrite (prep_matrix_eq inp Hn). apply (impl_eq_spec_old U inp m t Hm He). Qed.
Lemma impl_amps_eq (U : mat) m (inp : pinput R) ts : impl_amps eqb U m inp ts = map (impl_amp eqb U m inp) ts.
Proof. reflexivity. Qed.
(* a long-lived simulator: over ANY history of set_circuit / queries, from ANY state whose _upol belongs to the
   circuit set last (whatever the inner simulator still holds from earlier queries), every query is answered as by
   a fresh simulator on that circuit: answers do not depend on what was simulated before *)
Definition upol_of (cur : option pcomp) : option (nat * mat) :=
  match cur with Some c => Some (pwidth c, cmat (pdouble c)) | None => None end.
Theorem session_history_independent (h : list (pop R)) : forall (s : psim R) cur,
  ps_upol s = upol_of cur -> prun eqb s h = pspec eqb cur h.
Proof. induction h as [|o r IH]; intros s cur Hs. reflexivity.
  destruct o as [c | inp ts]; cbn [prun pspec pstep fst snd].
  - f_equal. apply IH. reflexivity.
  - rewrite Hs. destruct cur as [c|]; cbn [upol_of fresh_answer].
    + destruct (first_err (prep_states eqb inp)) eqn:E; cbn [fst snd].
      * f_equal. apply IH. exact Hs.
      * f_equal. apply IH. reflexivity.
    + cbn [fst snd]. f_equal. apply IH. exact Hs. Qed.

(* Processor level: over ANY configuration history (inputs, noise assignments, added components, filters, probs
   calls, in any order) every probs() is answered from the circuit as it is at that moment and the polarised input
   given last -- in particular a noise assignment after with_polarized_input does not touch the cached input *)
Definition pinv (s : pproc R) (cur : option (pinput R)) : Prop :=
  pp_input s = cur /\ pp_cache s = cur /\
  (pp_sim s = None \/ pp_sim s = Some (cmat (pdouble (PSub (pp_m s) (pp_items s))))).
Theorem processor_history (h : list (cop R)) : forall (s : pproc R) cur, pinv s cur ->
  crun eqb s h = cspec eqb (pp_m s) (pp_items s) cur (pp_filter s) h.
Proof. induction h as [|o r IH]; intros s cur [Hi [Hc Hs]]. reflexivity.
  destruct o as [inp | | off c | k | ts]; cbn [crun cspec cstep fst snd].
  - f_equal. apply (IH (mkpproc (pp_m s) (pp_items s) (Some inp) (Some inp) (pp_sim s) (pp_filter s)) (Some inp)).
    repeat split; auto.
  - f_equal. apply (IH (mkpproc (pp_m s) (pp_items s) (pp_input s) (if has_custom_input R s then pp_cache s else None) (pp_sim s) (pp_filter s)) cur).
    repeat split; auto. cbn [pp_cache]. unfold has_custom_input. rewrite Hi, Hc. destruct cur; reflexivity.
  - f_equal. apply (IH (mkpproc (pp_m s) (pp_items s ++ [(off, c)]) (pp_input s) (pp_cache s) None (pp_filter s)) cur).
    repeat split; auto.
  - f_equal. apply (IH (mkpproc (pp_m s) (pp_items s) (pp_input s) (pp_cache s) (pp_sim s) (Some k)) cur).
    repeat split; auto.
  - rewrite Hi. destruct cur as [inp|]; cbn [fst snd].
    + rewrite Hc.
      assert (EU : match pp_sim s with Some U => U | None => cmat (pdouble (PSub (pp_m s) (pp_items s))) end
                   = cmat (pdouble (PSub (pp_m s) (pp_items s)))).
      { destruct Hs as [-> | ->]; reflexivity. }
      rewrite EU. f_equal.
      apply (IH (mkpproc (pp_m s) (pp_items s) (Some inp) (Some inp) (Some (cmat (pdouble (PSub (pp_m s) (pp_items s)))))
                         (Some match pp_filter s with Some k => k | None => nphotons inp end)) (Some inp)).
      repeat split; auto.
    + f_equal. apply IH. repeat split; auto. Qed.

Theorem convert_vacuum (inp : pinput R) : no_photon inp = true ->
  convert_old eqb inp = ConvNoMatrix (repeat 0%nat (2 * length inp)).
Proof. intros H. unfold convert_old.
  assert (E : prep_states eqb inp = map (fun _ => MP0) inp).
  { induction inp as [|vs r IH]; simpl in *. reflexivity. destruct vs; try discriminate. rewrite IH; auto. }
  rewrite E, H. clear. induction inp as [|vs r IH]; simpl. reflexivity.
  simpl in IH. destruct (first_err (map (fun _ => MP0) r)); try discriminate.
  replace (length r + S (length r + 0))%nat with (S (2 * length r)) by lia. simpl. injection IH as ->. reflexivity. Qed.

(* ---------------- merging the two sub-modes ---------------- *)
Lemma even_list m : forall t : state, length t = (2 * m)%nat ->
  (m = 0%nat /\ t = []) \/ exists a b r m', t = a :: b :: r /\ m = S m' /\ length r = (2 * m')%nat.
Proof. intros t H. destruct m as [|m']. left. destruct t; [auto|discriminate].
  right. destruct t as [|a [|b r]]; simpl in H; try lia. exists a, b, r, m'. repeat split; auto. lia. Qed.
(* the merged state has m modes, keeps the photon number, and mode k holds t_2k + t_2k+1 *)
Theorem merge_sub_spec m : forall t : state, length t = (2 * m)%nat ->
  length (merge_sub t) = m /\ total (merge_sub t) = total t /\
  forall k, nth k (merge_sub t) 0%nat = (nth (2 * k) t 0 + nth (2 * k + 1) t 0)%nat.
Proof. induction m as [|m IH]; intros t H; destruct (even_list _ t H) as [[_ ->]|[a [b [r [m' [-> [E Hr]]]]]]]; try discriminate.
  - repeat split; auto. intros [|k]; reflexivity.
  - injection E as <-. destruct (IH r Hr) as [L [T N]]. cbn [merge_sub]. repeat split.
    + simpl. rewrite L. reflexivity.
    + unfold total in *. simpl. rewrite T. lia.
    + intros [|k]. reflexivity. cbn [nth]. rewrite N.
      replace (2 * S k)%nat with (S (S (2 * k))) by lia. replace (S (S (2 * k)) + 1)%nat with (S (S (2 * k + 1))) by lia.
      reflexivity. Qed.
End PolarP.

(* ---------------- photons without P annotation ---------------- *)
Section Plain.
Variable R : cring.
Variable eqb : R -> R -> bool.
(* inputs that differ only by writing a plain photon as {P:H} (or any two spellings of the same Jones vectors)
   are the same input for every stage: conversion, preparation matrix, amplitudes, specification *)
Definition same_photons (a b : ainput R) : Prop :=
  Forall2 (Forall2 (fun p q => photon_jones p = photon_jones q)) a b.
Lemma resolve_same a b : same_photons a b -> resolve_photons a = resolve_photons b.
Proof. unfold resolve_photons. induction 1 as [|ra rb a b Hr _ IH]; simpl. reflexivity. f_equal; auto.
  induction Hr as [|p q ra rb Hp _ IHr]; simpl. reflexivity. f_equal; auto. Qed.
Definition spell_H (p : photon R) : photon R := match p with None => Some default_jones | Some v => Some v end.
Theorem plain_is_H (inp : ainput R) : resolve_photons (map (map spell_H) inp) = resolve_photons inp.
Proof. unfold resolve_photons. rewrite map_map. apply map_ext. intros md. rewrite map_map. apply map_ext.
  intros [v|]; reflexivity. Qed.
Theorem plain_is_H_everywhere (inp : ainput R) (U : mat R) m ts :
  convert eqb (resolve_photons (map (map spell_H) inp)) = convert eqb (resolve_photons inp) /\
  impl_amps eqb U m (resolve_photons (map (map spell_H) inp)) ts = impl_amps eqb U m (resolve_photons inp) ts /\
  forall t, spec_amp U m (resolve_photons (map (map spell_H) inp)) t = spec_amp U m (resolve_photons inp) t.
Proof. rewrite plain_is_H. repeat split. Qed.
(* the default vector is the one the label H denotes *)
Lemma default_is_H (ii rh : R) : jones_standard ii rh LH = default_jones.
Proof. reflexivity. Qed.
End Plain.

(* ---------------- labels ---------------- *)
Section Labels.
Variable R : cring.
Add Ring Rring2 : (Kth R).
Open Scope K_scope.
Variables ii rh : R.
Hypothesis ii2 : ii * ii = - k1.
Hypothesis conj_ii : kconj ii = - ii.
Hypothesis rh_real : kconj rh = rh.
Hypothesis rh2 : rh * rh + rh * rh = k1.

(* POLARIZATION_MAPPING pushed through project_eh_ev gives H=(1,0), V=(0,1), D=(r,r), A=(r,-r),
   L=(r,ir), R=(r,-ir) with r = cos(pi/4) = sin(pi/4) *)
Theorem labels_standard l : jones_label ii rh l = jones_standard ii rh l.
Proof. destruct l; unfold jones_label, jones_standard, jones_quarter, label_angles, cos_q, sin_q, ipow;
  f_equal; ring [ii2]. Qed.

(* the quarter-angle table is a cosine/sine table: c^2 + s^2 = 1 and the double-angle values
   cos(a pi/2) = c^2 - s^2 are 1, 0, -1 *)
Theorem quarter_table a : (a <= 2)%nat ->
  cos_q rh a * cos_q rh a + sin_q rh a * sin_q rh a = k1 /\
  cos_q rh a * cos_q rh a - sin_q rh a * sin_q rh a = match a with 0%nat => k1 | 1%nat => k0 | _ => - k1 end.
Proof. intros H. destruct a as [|[|[|a]]]; try lia; cbn [cos_q sin_q]; split.
  ring. ring. exact rh2. ring. ring. ring. Qed.

Definition jnormed (v : jones R) : Prop := fst v * kconj (fst v) + snd v * kconj (snd v) = k1.
Theorem labels_normed l : jnormed (jones_standard ii rh l).
Proof. destruct l; unfold jnormed, jones_standard; simpl;
  rewrite ?conj_opp, ?conj_mul, ?conj_ii, ?rh_real, ?conj_one, ?conj_zero; try ring;
  try (rewrite <- rh2; ring).
  - rewrite <- rh2. transitivity (rh * rh + (- (ii * ii)) * (rh * rh)). ring. rewrite ii2. ring.
  - rewrite <- rh2. transitivity (rh * rh + (- (ii * ii)) * (rh * rh)). ring. rewrite ii2. ring. Qed.
(* H/V, D/A, L/R are orthogonal pairs *)
Theorem labels_orthogonal :
  inner (jones_standard ii rh LH) (jones_standard ii rh LV) = k0 /\
  inner (jones_standard ii rh LD) (jones_standard ii rh LA) = k0 /\
  inner (jones_standard ii rh LL) (jones_standard ii rh LR) = k0.
Proof. unfold inner, jones_standard; simpl.
  rewrite ?conj_opp, ?conj_mul, ?conj_ii, ?rh_real, ?conj_one, ?conj_zero. repeat split; try ring.
  transitivity (rh * rh + (ii * ii) * (rh * rh)). ring. rewrite ii2. ring. Qed.
End Labels.

(* ---------------- what failed in the code before the fix commits e38f1486, 53c82d36 ---------------- *)
From PV Require Import Lib.QI.
(* a 2-mode circuit PBS followed by an empty 1-mode sub-circuit: every leaf is unitary, the circuit is
   well-formed, yet the 4x4 matrix is not unitary (the 1x1 identity of the empty sub-circuit is
   broadcast over a 2x2 block) *)
Definition witness_empty_sub : pcomp QI := PSub 2 [(0%nat, PLeaf true 2 (pmat pbs_perm)); (0%nat, PSub 1 [])].
Theorem polar_unitary_refuted_old_code : exists c : pcomp QI,
  pwf c /\ pleaves_unitary QI c /\ pol_raises c = false /\ ~ unitary (2 * pwidth c) (cmat (pdouble_old c)).
Proof. exists witness_empty_sub. split; [|split; [|split]].
  - simpl. lia.
  - simpl. split. apply pbs_unitary. tauto.
  - reflexivity.
  - intros [H _]. specialize (H 0%nat 0%nat). simpl in H. specialize (H ltac:(lia) ltac:(lia)).
    vm_compute in H. discriminate H. Qed.
(* a circuit without components reports an m x m identity instead of the 2m x 2m one *)
Theorem polar_empty_top_refuted_old_code : exists c : pcomp QI, pwf c /\ forall U, pol_unitary_old c <> PolMat (2 * pwidth c) U.
Proof. exists (PSub 1 []). split. simpl. lia. intros U H. discriminate H. Qed.
(* the vacuum: accepted by the conversion loop, but no preparation matrix comes back *)
Theorem convert_vacuum_refuted_old_code : exists inp : pinput QI,
  first_err (prep_states (R:=QI) qi_eqb inp) = None /\ forall s P, convert_old (R:=QI) qi_eqb inp <> ConvOk s P.
Proof. exists [[]]. split. reflexivity. intros s P H. discriminate H. Qed.
