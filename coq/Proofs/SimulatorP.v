From PV Require Import Model.Simulator.
From Coq Require Import Permutation.

Section SimP.
Variable R : cring.
Add Ring Rring : (Kth R).
Open Scope K_scope.
Variable U : mat R.
Variable m : nat.
Variable w : state -> R.

(* evolution is linear in the input superposition *)
Theorem evolve_additive (p1 p2 : sv R) t :
  evolve_amp U m w (p1 ++ p2) t = evolve_amp U m w p1 t + evolve_amp U m w p2 t.
Proof. induction p1 as [|cs p1 IH]; simpl. ring. rewrite IH. ring. Qed.
Theorem evolve_homogeneous l (psi : sv R) t :
  evolve_amp U m w (scale_sv l psi) t = l * evolve_amp U m w psi t.
Proof. induction psi as [|cs psi IH]; simpl. ring. rewrite IH. ring. Qed.
Theorem evolve_order_irrelevant (p1 p2 : sv R) t : Permutation p1 p2 ->
  evolve_amp U m w p1 t = evolve_amp U m w p2 t.
Proof. induction 1; simpl; auto. rewrite IHPermutation; reflexivity. ring. congruence. Qed.
Theorem evolve_merges_equal_terms a b s (psi : sv R) t :
  evolve_amp U m w ((a, s) :: (b, s) :: psi) t = evolve_amp U m w ((a + b, s) :: psi) t.
Proof. simpl. ring. Qed.
(* terms with another photon number do not contribute to an output *)
Theorem evolve_sector (psi : sv R) t :
  evolve_amp U m w psi t = evolve_amp U m w (filter (fun cs => (total (snd cs) =? total t)%nat) psi) t.
Proof. induction psi as [|[c s] psi IH]; simpl. reflexivity.
  destruct (total s =? total t)%nat eqn:E; simpl; rewrite IH; [reflexivity|].
  unfold amp, amp_num. rewrite E. ring. Qed.

(* generic list sums *)
Lemma lsum_ext {A} (l : list A) (f g : A -> R) : (forall a, f a = g a) -> lsum l f = lsum l g.
Proof. intros H. induction l; simpl; auto. rewrite H, IHl. reflexivity. Qed.
Lemma lsum_scal {A} (l : list A) c (f : A -> R) : lsum l (fun a => c * f a) = c * lsum l f.
Proof. induction l; simpl. ring. rewrite IHl. ring. Qed.
Lemma lsum_scal_r {A} (l : list A) c (f : A -> R) : lsum l (fun a => f a * c) = lsum l f * c.
Proof. induction l; simpl. ring. rewrite IHl. ring. Qed.
Lemma lsum_add {A} (l : list A) (f g : A -> R) : lsum l (fun a => f a + g a) = lsum l f + lsum l g.
Proof. induction l; simpl. ring. rewrite IHl. ring. Qed.
Lemma lsum_zero {A} (l : list A) : lsum l (fun _ => k0 : R) = k0.
Proof. induction l; simpl. reflexivity. rewrite IHl. ring. Qed.
Lemma lsum_swap {A B} (l1 : list A) (l2 : list B) (f : A -> B -> R) :
  lsum l1 (fun a => lsum l2 (fun b => f a b)) = lsum l2 (fun b => lsum l1 (fun a => f a b)).
Proof. induction l1; simpl. rewrite lsum_zero. reflexivity. rewrite IHl1, <- lsum_add. reflexivity. Qed.
Lemma lsum_conj {A} (l : list A) (f : A -> R) : kconj (lsum l f) = lsum l (fun a => kconj (f a)).
Proof. induction l; simpl. apply conj_zero. rewrite conj_add, IHl. reflexivity. Qed.

(* a mixed state given as a density matrix yields the same output probabilities as the mixture of
   state vectors it was built from:  diag(U rho U^dag)(t) = sum_k p_k |<t|U|psi_k>|^2 *)
Theorem dm_eq_svd (B : list state) (mix : list (R * (state -> R))) t :
  dm_prob U m w B (dm_of_mixture mix) t =
  lsum mix (fun pc => fst pc * (evolve_amp_fn U m w B (snd pc) t * kconj (evolve_amp_fn U m w B (snd pc) t))).
Proof.
  unfold dm_prob, dm_of_mixture, evolve_amp_fn.
  transitivity (lsum B (fun s => lsum B (fun s' => lsum mix (fun pc =>
     fst pc * ((snd pc s * amp U m w s t) * kconj (snd pc s' * amp U m w s' t)))))).
  { apply lsum_ext; intros s. apply lsum_ext; intros s'.
    transitivity (lsum mix (fun pc => fst pc * snd pc s * kconj (snd pc s')) * (amp U m w s t * kconj (amp U m w s' t))). ring.
    rewrite <- lsum_scal_r. apply lsum_ext; intros pc. rewrite conj_mul. ring. }
  transitivity (lsum B (fun s => lsum mix (fun pc => lsum B (fun s' =>
     fst pc * ((snd pc s * amp U m w s t) * kconj (snd pc s' * amp U m w s' t)))))).
  { apply lsum_ext; intros s. apply lsum_swap. }
  rewrite lsum_swap. apply lsum_ext; intros pc.
  rewrite lsum_conj.
  transitivity (lsum B (fun s => (fst pc * (snd pc s * amp U m w s t)) * lsum B (fun s' => kconj (snd pc s' * amp U m w s' t)))).
  { apply lsum_ext; intros s. rewrite <- lsum_scal. apply lsum_ext; intros s'. ring. }
  rewrite lsum_scal_r. rewrite lsum_scal. ring.
Qed.
End SimP.

(* the probability-weighted sum: a mixture's distribution is the weighted sum of its members' *)
Open Scope Qc_scope.
Definition mixture (mix : list (Qc * dist)) : dist := flat_map (fun pd => dscale (fst pd) (snd pd)) mix.
Theorem mixture_convex mix T :
  pr (mixture mix) T = fold_right (fun pd acc => fst pd * pr (snd pd) T + acc) 0 mix.
Proof. induction mix as [|[p d] mix IH]; simpl. reflexivity.
  unfold mixture in *. simpl. rewrite pr_app, pr_dscale, IH. reflexivity. Qed.
Theorem mixture_mass mix : mass (mixture mix) = fold_right (fun pd acc => fst pd * mass (snd pd) + acc) 0 mix.
Proof. induction mix as [|[p d] mix IH]; simpl. reflexivity.
  unfold mixture in *. simpl. rewrite mass_app, mass_dscale, IH. reflexivity. Qed.
