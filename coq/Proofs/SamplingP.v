(* Proofs about the sampling model (C09). *)
From PV Require Import Model.Sampling.
From Coq Require Import Lia Qround.
Open Scope Qc_scope.

(* ================================================================ (ii) the loops *)
Definition legal (c : lcfg) (s : state) : Prop :=
  exists t, (c_F c <= total t)%nat /\ passes (c_h c) (c_ps c) t = true /\ s = emit c t.

Record Inv (c : lcfg) (fb : nat) (s : lstate) : Prop := {
  inv_samples : (length (l_out s) <= c_max_samples c)%nat;
  inv_shots : match c_max_shots c with Some k => (l_shots s <= k)%nat | None => True end;
  inv_account : (length (l_out s) + l_notsel s + l_notphys s = l_shots s)%nat;
  inv_legal : Forall (legal c) (l_out s);
  inv_idx : (l_idx s <= l_batch s)%nat;
  inv_inputs : (l_shots s + (l_batch s - l_idx s) = fb + sum_nat (l_reqs s))%nat;
  inv_reqs : Forall (fun r => 1 <= r <= batch_size c)%nat (l_reqs s);
  inv_budget : match c_max_shots c with Some k => (fb <= k -> fb + sum_nat (l_reqs s) <= k)%nat | None => True end
}.

Lemma sum_nat_app a b : sum_nat (a ++ b) = (sum_nat a + sum_nat b)%nat.
Proof. induction a; simpl; auto. rewrite IHa. lia. Qed.

Lemma init_inv c fb : Inv c fb (init fb).
Proof. constructor; simpl; try lia; auto. destruct (c_max_shots c); auto; lia. destruct (c_max_shots c); auto; lia. Qed.

Lemma nb_gen_pos c s : guard c s = true -> (1 <= nb_gen c s <= batch_size c)%nat.
Proof. unfold guard, nb_gen, batch_size. intros G. apply andb_prop in G as [G1 G2]. apply Nat.ltb_lt in G1.
  destruct (c_max_shots c) as [k|]; [apply Nat.ltb_lt in G2|]; lia. Qed.
Lemma nb_gen_budget c s k : c_max_shots c = Some k -> (nb_gen c s <= k - l_shots s)%nat.
Proof. unfold nb_gen. intros ->. lia. Qed.

Lemma step_inv c fb t s : guard c s = true -> Inv c fb s -> Inv c fb (step c t s).
Proof.
  intros G [I1 I2 I3 I4 I5 I6 I7 I8].
  pose proof (nb_gen_pos c s G) as NB.
  assert (G' := G). unfold guard in G'. apply andb_prop in G' as [G1 G2]. apply Nat.ltb_lt in G1.
  assert (HS : match c_max_shots c with Some k => (S (l_shots s) <= k)%nat | None => True end).
  { destruct (c_max_shots c); auto. apply Nat.ltb_lt in G2. lia. }
  assert (HB : match c_max_shots c with Some k => (fb <= k ->
      fb + sum_nat (if (l_idx s =? l_batch s)%nat then l_reqs s ++ [nb_gen c s] else l_reqs s) <= k)%nat | None => True end).
  { destruct (c_max_shots c) as [k|] eqn:E; auto. intros Hfb. specialize (I8 Hfb).
    destruct (l_idx s =? l_batch s)%nat eqn:Ei; auto. apply Nat.eqb_eq in Ei.
    rewrite sum_nat_app. simpl. pose proof (nb_gen_budget c s k E). lia. }
  assert (HR : Forall (fun r => 1 <= r <= batch_size c)%nat
                 (if (l_idx s =? l_batch s)%nat then l_reqs s ++ [nb_gen c s] else l_reqs s)).
  { destruct (l_idx s =? l_batch s)%nat; auto. apply Forall_app; split; auto. }
  assert (HI : (S (if (l_idx s =? l_batch s)%nat then 0 else l_idx s)
                <= (if (l_idx s =? l_batch s)%nat then nb_gen c s else l_batch s))%nat).
  { destruct (l_idx s =? l_batch s)%nat eqn:Ei; [lia|]. apply Nat.eqb_neq in Ei. lia. }
  assert (HN : (S (l_shots s) + ((if (l_idx s =? l_batch s)%nat then nb_gen c s else l_batch s)
                                 - S (if (l_idx s =? l_batch s)%nat then 0 else l_idx s))
                = fb + sum_nat (if (l_idx s =? l_batch s)%nat then l_reqs s ++ [nb_gen c s] else l_reqs s))%nat).
  { destruct (l_idx s =? l_batch s)%nat eqn:Ei.
    - apply Nat.eqb_eq in Ei. rewrite sum_nat_app. simpl. lia.
    - apply Nat.eqb_neq in Ei. lia. }
  unfold step.
  destruct (total t <? c_F c)%nat eqn:EF; [|destruct (passes (c_h c) (c_ps c) t) eqn:EP];
    constructor; simpl; auto; try lia.
  - rewrite app_length. simpl. lia.
  - rewrite app_length. simpl. lia.
  - apply Forall_app; split; auto. constructor; auto. exists t. apply Nat.ltb_ge in EF. auto.
Qed.

Lemma run_inv c fb : forall os s, Inv c fb s -> Inv c fb (run c os s).
Proof. induction os as [|t os IH]; intros s I; simpl; auto.
  destruct (guard c s) eqn:G; auto. apply IH. apply step_inv; auto. Qed.

(* every trace of the loop: bounds, accounting, legality, and the generator is never asked for an empty batch
   nor read beyond what it returned *)
Theorem loop_invariants c fb os : Inv c fb (run c os (init fb)).
Proof. apply run_inv, init_inv. Qed.

Theorem loop_bounds c fb os :
  let s := run c os (init fb) in
  (length (l_out s) <= c_max_samples c)%nat /\
  (forall k, c_max_shots c = Some k -> (length (l_out s) <= k /\ l_shots s <= k)%nat) /\
  (length (l_out s) + l_notsel s + l_notphys s = l_shots s)%nat.
Proof. intros s. destruct (loop_invariants c fb os) as [I1 I2 I3 _ _ _ _ _]. fold s in I1, I2, I3.
  split; [auto|split; [|auto]]. intros k E. rewrite E in I2. lia. Qed.

Theorem loop_legal c fb os : Forall (legal c) (l_out (run c os (init fb))).
Proof. apply (inv_legal _ _ _ (loop_invariants c fb os)). Qed.

(* the emitted samples have the heralded modes removed: m - (number of heralded modes) modes *)
Lemma remove_modes_length h : forall t i,
  length (remove_modes_from i h t) = length (filter (fun j => negb (is_herald h j)) (seq i (length t))).
Proof. induction t as [|x t IH]; intros i; simpl. reflexivity.
  destruct (is_herald h i); simpl; rewrite IH; reflexivity. Qed.
Theorem emitted_modes c s : c_keep c = false -> legal c s ->
  exists t, s = remove_heralds (c_h c) t /\ passes (c_h c) (c_ps c) t = true /\ (c_F c <= total t)%nat /\
            length s = length (filter (fun j => negb (is_herald (c_h c) j)) (seq 0 (length t))).
Proof. intros K [t [H1 [H2 H3]]]. exists t. unfold emit in H3. rewrite K in H3. subst s.
  repeat split; auto. apply remove_modes_length. Qed.

(* ---- the fast path returns exactly the requested number *)
Lemma sum_nat_cons x l : sum_nat (x :: l) = (x + sum_nat l)%nat. Proof. reflexivity. Qed.
Lemma perfect_batches_sum : forall fuel n a, (n - a <= fuel)%nat -> sum_nat (perfect_batches fuel n a) = (n - a)%nat.
Proof. induction fuel as [|f IH]; intros n a H; cbn [perfect_batches]. cbn. lia.
  destruct (a <? n)%nat eqn:E.
  - apply Nat.ltb_lt in E. rewrite sum_nat_cons, IH; lia.
  - apply Nat.ltb_ge in E. cbn. lia. Qed.
Lemma perfect_batches_sizes : forall fuel n a, Forall (fun k => 1 <= k <= 1000)%nat (perfect_batches fuel n a).
Proof. induction fuel as [|f IH]; intros n a; cbn [perfect_batches]. constructor.
  destruct (a <? n)%nat eqn:E; [|constructor]. apply Nat.ltb_lt in E. constructor; [lia|apply IH]. Qed.

(* ---- the re-scaled shot limit *)
Lemma ceil_scaled k x : x <= nat_q k -> (ceil_nat x <= k)%nat.
Proof. intros H. unfold ceil_nat.
  assert (E : (this x <= inject_Z (Z.of_nat k))%Q).
  { unfold Qcle in H. unfold nat_q in H. cbn [this Q2Qc] in H. rewrite Qred_correct in H. exact H. }
  apply Qceiling_resp_le in E. rewrite Qceiling_Z in E. lia. Qed.

(* ---- NoisySamplingSimulator.samples *)
Definition limit (c : lcfg) : nat := prepare_samples (c_max_samples c) (c_max_shots c).

(* Generic in the configuration: the bound holds when the re-scaled limit does not exceed max_shots. *)
Lemma sample_bounds_cfg old c hd fast sd x os :
  (forall k, c_max_shots c = Some k -> (2 <=? c_F c)%nat = true -> old = true -> x <= nat_q k) ->
  (sim_len (sim_samples_cfg old c hd fast sd x os) <= limit c)%nat.
Proof. intros HR. unfold sim_samples_cfg, limit.
  destruct (negb hd); [simpl; lia|].
  set (prep := prepare_samples (c_max_samples c) (c_max_shots c)).
  destruct fast.
  - destruct (prep =? 0)%nat eqn:E; [simpl; lia|]. simpl. rewrite perfect_batches_sum; lia.
  - destruct (prep =? 0)%nat eqn:E; [simpl; lia|].
    match goal with |- context [if ?b then SimEmpty else _] => destruct b end; [simpl; lia|].
    cbn [sim_len].
    match goal with |- context [run ?c' os (init ?fb)] => destruct (loop_bounds c' fb os) as [B1 [B2 _]] end.
    cbn [c_max_samples c_max_shots] in B1, B2. subst prep. unfold prepare_samples, scale_shots_cfg, scale_prepare_cfg in *.
    destruct (c_max_shots c) as [k|] eqn:Ek; [|lia].
    destruct (2 <=? c_F c)%nat eqn:EF.
    + destruct (B2 _ eq_refl) as [B3 _]. destruct old.
      * pose proof (ceil_scaled k x (HR k eq_refl eq_refl eq_refl)). lia.
      * lia.
    + destruct (B2 _ eq_refl) as [B3 _]. lia. Qed.

(* whatever the configuration and the float product, max_samples is a bound *)
Theorem sample_bounds_max_samples old c hd fast sd x os :
  (sim_len (sim_samples_cfg old c hd fast sd x os) <= c_max_samples c)%nat.
Proof. unfold sim_samples_cfg.
  destruct (negb hd); [simpl; lia|].
  set (prep := prepare_samples (c_max_samples c) (c_max_shots c)).
  assert (prep <= c_max_samples c)%nat by (unfold prep, prepare_samples; destruct (c_max_shots c); lia).
  destruct fast.
  - destruct (prep =? 0)%nat eqn:E; [simpl; lia|]. simpl. rewrite perfect_batches_sum; lia.
  - destruct (prep =? 0)%nat eqn:E; [simpl; lia|].
    match goal with |- context [if ?b then SimEmpty else _] => destruct b end; [simpl; lia|].
    simpl.
    match goal with |- context [run ?c' os (init ?fb)] => destruct (loop_bounds c' fb os) as [B1 _] end.
    exact B1. Qed.

(* THE CODE AS IT IS NOW (after /repo commit 869f2c44): the full statement, no hypothesis on the float product *)
Theorem sample_bounds c hd fast sd x os : (sim_len (sim_samples c hd fast sd x os) <= limit c)%nat.
Proof. apply sample_bounds_cfg. intros; discriminate. Qed.

(* HISTORICAL (code before 869f2c44): max_shots = ceil(x) unclamped, where [x] is the floating-point value of
   max_shots * physical_perf / (1 - zpp); mathematically x <= max_shots, but the float sum of the probability table
   can be 1.0000000000000002, and ceil(x) = max_shots + 1. *)
Theorem sample_bounds_partial_old_code c hd fast sd x os :
  (forall k, c_max_shots c = Some k -> x <= nat_q k) ->
  (sim_len (sim_samples_old_code c hd fast sd x os) <= limit c)%nat.
Proof. intros H. apply sample_bounds_cfg. intros k E _ _. auto. Qed.

Theorem sample_bounds_refuted_old_code : exists c hd fast sd x os,
  (limit c < sim_len (sim_samples_old_code c hd fast sd x os))%nat.
Proof.
  exists {| c_max_samples := 10; c_max_shots := Some 1%nat; c_F := 2; c_h := []; c_ps := PTrue; c_keep := false |},
         true, false, true, (Q2Qc (4503599627370497 # 4503599627370496)), [[1;1]; [2;0]]%nat.
  vm_compute. lia. Qed.

Theorem sample_bounds_zero old c hd fast sd x os :
  c_max_samples c = 0%nat \/ c_max_shots c = Some 0%nat -> sim_len (sim_samples_cfg old c hd fast sd x os) = 0%nat.
Proof. intros H. unfold sim_samples_cfg.
  assert (E : prepare_samples (c_max_samples c) (c_max_shots c) = 0%nat).
  { unfold prepare_samples. destruct H as [-> | ->]; [destruct (c_max_shots c)|]; lia. }
  rewrite E. destruct (negb hd), fast; reflexivity. Qed.

Theorem sim_legal old c hd fast sd x os s :
  sim_samples_cfg old c hd fast sd x os = SimLoop s -> Forall (legal c) (l_out s).
Proof. unfold sim_samples_cfg. destruct (negb hd); [discriminate|]. destruct fast.
  - destruct (_ =? 0)%nat; discriminate.
  - destruct (_ =? 0)%nat; [discriminate|].
    match goal with |- context [if ?b then SimEmpty else _] => destruct b end; [discriminate|].
    intros E. injection E as <-.
    match goal with |- context [run ?c' os (init ?fb)] => pose proof (loop_legal c' fb os) as L end.
    exact L. Qed.

(* Sampler._samples_wrapper on top: None = 10^8 for max_samples *)
Theorem wrapper_bound cap ms msh n k c hd fast sd x os :
  wrapper_limits cap ms msh = Some (n, k) -> c_max_samples c = n -> c_max_shots c = k ->
  (forall a, ms = Some a -> sim_len (sim_samples c hd fast sd x os) <= a)%nat /\
  (forall b, msh = Some b -> sim_len (sim_samples c hd fast sd x os) <= b)%nat.
Proof. intros W E1 E2. pose proof (sample_bounds c hd fast sd x os) as B.
  unfold limit, prepare_samples in B. rewrite E1, E2 in B.
  destruct ms as [a|], msh as [b|]; simpl in W; try discriminate; injection W as <- <-;
    split; intros y Hy; try discriminate; injection Hy as <-; lia. Qed.

(* ================================================================ (iii) probs_to_sample_count *)
Lemma upd_out k v : forall l, (length l <= k)%nat -> upd k v l = l.
Proof. revert k. induction k as [|k IH]; intros [|x l] H; simpl in *; auto; try lia. f_equal. apply IH. lia. Qed.
Lemma sumZ_upd v : forall k l, (k < length l)%nat -> sumZ (upd k v l) = (sumZ l - nth k l 0 + v)%Z.
Proof. induction k as [|k IH]; intros [|x l] H; simpl in *; try lia. rewrite IH; lia. Qed.
Lemma upd_nonneg v : (0 <= v)%Z -> forall k l, Forall (fun z => 0 <= z)%Z l -> Forall (fun z => 0 <= z)%Z (upd k v l).
Proof. intros Hv. induction k as [|k IH]; intros [|x l] H; simpl; auto; inversion H; subst; constructor; auto. Qed.
Lemma nth_nonneg k : forall l, Forall (fun z => 0 <= z)%Z l -> (0 <= nth k l 0)%Z.
Proof. induction k as [|k IH]; intros [|x l] H; simpl; try lia; inversion H; subst; auto. Qed.
Lemma upd_length v : forall k l, length (upd k v l) = length l.
Proof. induction k as [|k IH]; intros [|x l]; simpl; auto. Qed.

Lemma repair_neg_sound : forall os diff rs out, (diff <= 0)%Z -> Forall (fun z => 0 <= z)%Z rs ->
  repair_neg os diff rs = Some out ->
  sumZ out = (sumZ rs + diff)%Z /\ Forall (fun z => 0 <= z)%Z out /\ length out = length rs.
Proof. induction os as [|k os IH]; intros diff rs out Hd Hrs; simpl.
  - destruct (0 <=? diff)%Z eqn:E; [|discriminate]. intros H; injection H as <-. apply Z.leb_le in E.
    repeat split; auto. lia.
  - destruct (0 <=? diff)%Z eqn:E.
    + intros H; injection H as <-. apply Z.leb_le in E. repeat split; auto. lia.
    + apply Z.leb_gt in E. intros H.
      pose proof (nth_nonneg k rs Hrs) as Hn.
      apply IH in H; [| lia | apply upd_nonneg; auto; lia].
      destruct H as [H1 [H2 H3]]. rewrite upd_length in H3. repeat split; auto.
      destruct (Nat.lt_ge_cases k (length rs)) as [Hk|Hk].
      * rewrite sumZ_upd in H1 by auto. lia.
      * rewrite upd_out in H1 by auto. rewrite (nth_overflow rs 0%Z Hk) in *. lia. Qed.

Lemma pyround_nonneg x : 0 <= x -> (0 <= pyround x)%Z.
Proof. intros H. unfold pyround.
  assert (F : (0 <= Qfloor x)%Z).
  { change 0%Z with (Qfloor 0). apply Qfloor_resp_le. exact H. }
  destruct (Qccompare _ _); [destruct (Z.even _)|..]; lia. Qed.

Lemma map_pyround_nonneg : forall xs, Forall (fun x => 0 <= x) xs -> Forall (fun z => 0 <= z)%Z (map pyround xs).
Proof. induction xs as [|x xs IH]; intros H; simpl. constructor.
  inversion H; subst. constructor. apply pyround_nonneg; assumption. apply IH; assumption. Qed.

Theorem count_repair_total xs count os out :
  Forall (fun x => 0 <= x) xs -> Forall (fun k => k < length xs)%nat os ->
  repair xs count os = Some out ->
  sumZ out = count /\ Forall (fun z => 0 <= z)%Z out /\ length out = length xs.
Proof. intros Hx Ho. unfold repair.
  pose proof (map_pyround_nonneg xs Hx) as Hrs.
  destruct (0 <? count - sumZ (map pyround xs))%Z eqn:E.
  - apply Z.ltb_lt in E. destruct os as [|k os]; [discriminate|]. intros H; injection H as <-.
    inversion Ho; subst. pose proof (nth_nonneg k _ Hrs).
    rewrite sumZ_upd by (rewrite map_length; auto). rewrite upd_length, map_length.
    repeat split; auto; [lia|]. apply upd_nonneg; auto. lia.
  - apply Z.ltb_ge in E. intros H. apply repair_neg_sound in H; auto.
    destruct H as [H1 [H2 H3]]. rewrite map_length in H3. repeat split; auto. lia. Qed.

(* the loop can always exit: an oracle that keeps choosing a key with a positive count succeeds, because the
   rounded table holds at least |diff| units in excess of the requested count *)
Lemma repair_neg_exits_aux : forall n rs diff, (diff <= 0)%Z -> Forall (fun z => 0 <= z)%Z rs ->
  (- diff <= sumZ rs)%Z -> (Z.to_nat (- diff) <= n)%nat ->
  exists os, Forall (fun k => k < length rs)%nat os /\ repair_neg os diff rs <> None.
Proof. induction n as [|n IH]; intros rs diff Hd Hrs Hs Hn.
  - exists []. split; [constructor|]. simpl. replace (0 <=? diff)%Z with true by (symmetry; apply Z.leb_le; lia). discriminate.
  - destruct (Z.eq_dec diff 0) as [->|Hnz].
    + exists []. split; [constructor|]. simpl. discriminate.
    + assert (Hex : exists k, (k < length rs)%nat /\ (0 < nth k rs 0)%Z).
      { clear -Hrs Hs Hd Hnz. assert (0 < sumZ rs)%Z by lia. clear Hs Hd Hnz.
        induction Hrs as [|x l Hx Hl IHl]; simpl in *; [lia|].
        destruct (Z.eq_dec x 0) as [->|].
        - destruct IHl as [k [K1 K2]]; [lia|]. exists (S k). split; simpl; auto; lia.
        - exists 0%nat. split; simpl; lia. }
      destruct Hex as [k [K1 K2]].
      set (cur := Z.max (- nth k rs 0%Z) diff).
      destruct (IH (upd k (nth k rs 0%Z + cur) rs) (diff - cur)%Z) as [os [O1 O2]].
      * unfold cur. lia.
      * apply upd_nonneg; auto. unfold cur. lia.
      * rewrite sumZ_upd by auto. unfold cur. lia.
      * unfold cur. lia.
      * exists (k :: os). split.
        -- constructor; auto. rewrite upd_length in O1. exact O1.
        -- simpl. replace (0 <=? diff)%Z with false by (symmetry; apply Z.leb_gt; lia). exact O2. Qed.

Theorem count_repair_can_exit xs count : Forall (fun x => 0 <= x) xs -> xs <> [] -> (0 <= count)%Z ->
  exists os, Forall (fun k => k < length xs)%nat os /\ repair xs count os <> None.
Proof. intros Hx Hne Hc. unfold repair.
  assert (Hrs : Forall (fun z => 0 <= z)%Z (map pyround xs)).
  { clear Hne. induction Hx as [|x0 l0 Hx0 Hl0 IH0]; simpl; [constructor|constructor; [apply pyround_nonneg; exact Hx0|exact IH0]]. }
  destruct (0 <? count - sumZ (map pyround xs))%Z eqn:E.
  - exists [0%nat]. split; [|discriminate]. constructor; [|constructor]. destruct xs; [contradiction|simpl; lia].
  - apply Z.ltb_ge in E.
    destruct (repair_neg_exits_aux (Z.to_nat (- (count - sumZ (map pyround xs)))) (map pyround xs)
                (count - sumZ (map pyround xs))%Z) as [os [O1 O2]]; auto; try lia.
    exists os. rewrite map_length in O1. auto. Qed.

(* the two fall-backs count [count] drawn samples *)
Lemma hist_length n : forall l, length (hist n l) = n.
Proof. induction l as [|k l IH]; simpl. apply repeat_length. rewrite upd_length. exact IH. Qed.
Lemma hist_nonneg n : forall l, Forall (fun z => 0 <= z)%Z (hist n l).
Proof. induction l as [|k l IH]; simpl.
  - induction n; simpl; constructor; auto; lia.
  - apply upd_nonneg; auto. pose proof (nth_nonneg k _ IH). lia. Qed.
Theorem hist_total n : forall l, Forall (fun k => k < n)%nat l -> sumZ (hist n l) = Z.of_nat (length l).
Proof. induction l as [|k l IH]; intros H.
  - simpl. induction n; simpl; auto.
  - inversion H; subst. cbn [hist length]. rewrite sumZ_upd by (rewrite hist_length; auto). rewrite IH by auto. lia. Qed.

(* ================================================================ (iv) conversions *)
Lemma ctotal_cinsert t : forall c, ctotal (cinsert t c) = S (ctotal c).
Proof. induction c as [|[t' n] c IH]; simpl; auto. destruct (state_eqb t' t); simpl; [|rewrite IH]; lia. Qed.
Lemma cget_cinsert t T : forall c, cget (cinsert t c) T = ((if state_eqb t T then 1 else 0) + cget c T)%nat.
Proof. induction c as [|[t' n] c IH]; simpl. lia.
  destruct (state_eqb t' t) eqn:E; simpl.
  - apply state_eqb_eq in E. subst. destruct (state_eqb t T); lia.
  - rewrite IH. lia. Qed.
Definition occurrences (T : state) (l : list state) : nat := length (filter (fun t => state_eqb t T) l).
Lemma fold_cinsert_total : forall l acc, ctotal (fold_left (fun a t => cinsert t a) l acc) = (ctotal acc + length l)%nat.
Proof. induction l as [|t l IH]; intros acc; simpl. lia. rewrite IH, ctotal_cinsert. lia. Qed.
Lemma fold_cinsert_get T : forall l acc,
  cget (fold_left (fun a t => cinsert t a) l acc) T = (cget acc T + occurrences T l)%nat.
Proof. unfold occurrences. induction l as [|t l IH]; intros acc; simpl. lia.
  rewrite IH, cget_cinsert. destruct (state_eqb t T); simpl; lia. Qed.

(* samples -> counts: the table sums to the number of samples and holds each state's number of occurrences *)
Theorem samples_to_count_total l : ctotal (samples_to_count l) = length l.
Proof. unfold samples_to_count. rewrite fold_cinsert_total. reflexivity. Qed.
Theorem samples_to_count_get l T : cget (samples_to_count l) T = occurrences T l.
Proof. unfold samples_to_count. rewrite fold_cinsert_get. reflexivity. Qed.

Lemma qnat_add a b : qnat (a + b) = qnat a + qnat b.
Proof. induction a; simpl. ring. rewrite IHa. ring. Qed.
Lemma qnat_nonneg n : 0 <= qnat n.
Proof. induction n; simpl. apply Qcle_refl.
  apply Qcle_trans with (qnat n + 0). ring_simplify (qnat n + 0). exact IHn.
  apply Qcplus_le_compat. apply Qcle_refl. unfold Qcle. simpl. unfold Qle. simpl. lia. Qed.
Lemma qnat_zero n : qnat n = 0 -> n = 0%nat.
Proof. destruct n; auto. simpl. intros H. exfalso.
  pose proof (qnat_nonneg n) as P. assert (Q : qnat n + 1 <= 0 + 0) by (rewrite H; apply Qcle_refl).
  assert (R : 0 + 1 <= qnat n + 1) by (apply Qcplus_le_compat; [exact P|apply Qcle_refl]).
  pose proof (Qcle_trans _ _ _ R Q) as S. revert S. unfold Qcle. simpl. unfold Qle. simpl. lia. Qed.

Definition craw (c : counts) : dist := map (fun tn => (fst tn, qnat (snd tn))) (filter (fun tn => negb (snd tn =? 0)%nat) c).
Lemma craw_mass c : mass (craw c) = qnat (ctotal c).
Proof. unfold craw. induction c as [|[t n] c IH]; simpl. reflexivity.
  destruct (n =? 0)%nat eqn:E; simpl.
  - apply Nat.eqb_eq in E. subst. simpl. exact IH.
  - rewrite IH, qnat_add. reflexivity. Qed.
Lemma craw_pr c T : pr (craw c) T = qnat (cget c T).
Proof. unfold craw. induction c as [|[t n] c IH]; simpl. reflexivity.
  destruct (n =? 0)%nat eqn:E; simpl.
  - apply Nat.eqb_eq in E. subst. rewrite IH. destruct (state_eqb t T); reflexivity.
  - rewrite IH, qnat_add. destruct (state_eqb t T); reflexivity. Qed.

(* counts -> probabilities: total probability 1, and multiplying back by the total gives the counts *)
Theorem count_to_probs_mass c : ctotal c <> 0%nat -> mass (count_to_probs c) = 1.
Proof. intros H. unfold count_to_probs. fold (craw c). apply mass_normalize. rewrite craw_mass.
  intros E. apply qnat_zero in E. contradiction. Qed.
Theorem count_to_probs_roundtrip c T : pr (count_to_probs c) T * qnat (ctotal c) = qnat (cget c T).
Proof. unfold count_to_probs. fold (craw c). unfold normalize.
  destruct (Qc_eq_dec (mass (craw c)) 0) as [E|E].
  - rewrite craw_mass in E. rewrite E, craw_pr.
    apply qnat_zero in E. assert (G : cget c T = 0%nat).
    { clear -E. induction c as [|[t n] c IH]; simpl in *; auto. destruct (state_eqb t T); simpl; lia. }
    rewrite G. simpl. ring.
  - rewrite pr_dscale, craw_pr. rewrite craw_mass in *. field. exact E. Qed.
(* samples -> probabilities: relative frequencies *)
Theorem samples_to_probs_freq l T : pr (samples_to_probs l) T * qnat (length l) = qnat (occurrences T l).
Proof. unfold samples_to_probs. rewrite <- samples_to_count_total, <- samples_to_count_get.
  apply count_to_probs_roundtrip. Qed.
Theorem samples_to_probs_mass l : l <> [] -> mass (samples_to_probs l) = 1.
Proof. intros H. apply count_to_probs_mass. rewrite samples_to_count_total. destruct l; [contradiction|simpl; lia]. Qed.

(* ================================================================ (i) rejection = conditioning *)
Lemma dscale_app c a b : dscale c (a ++ b) = dscale c a ++ dscale c b.
Proof. unfold dscale. apply map_app. Qed.
Lemma dfilter_app P a b : dfilter P (a ++ b) = dfilter P a ++ dfilter P b.
Proof. unfold dfilter. apply filter_app. Qed.
Lemma dfilter_dscale P c d : dfilter P (dscale c d) = dscale c (dfilter P d).
Proof. induction d as [|[t w] d IH]; simpl; auto. destruct (P t); simpl; rewrite IH; auto. Qed.
Lemma dscale_dscale c p d : dscale c (dscale p d) = dscale (c * p) d.
Proof. induction d as [|[t w] d IH]; simpl; auto. rewrite IH. f_equal. f_equal. ring. Qed.
Lemma dmap_dscale f c d : dmap f (dscale c d) = dscale c (dmap f d).
Proof. induction d as [|[t w] d IH]; simpl; auto. rewrite IH. reflexivity. Qed.
Lemma shot_scale spec K c mix : shot spec K (scale_mix c mix) = dscale c (shot spec K mix).
Proof. induction mix as [|[p gs] mix IH]; simpl; auto.
  rewrite dscale_app, IH, dscale_dscale. reflexivity. Qed.
Lemma dfilter_none P d : (forall t w, In (t, w) d -> P t = false) -> dfilter P d = [].
Proof. induction d as [|[t w] d IH]; intros H; simpl; auto.
  rewrite (H t w (or_introl eq_refl)). apply IH. intros t' w' Hin. apply (H t' w'). right. exact Hin. Qed.
Lemma in_dscale t w c d : In (t, w) (dscale c d) -> exists w', In (t, w') d.
Proof. induction d as [|[t' w'] d IH]; simpl; intros H; [contradiction|].
  destruct H as [H|H]. injection H as <- _. exists w'. auto. destruct (IH H) as [x Hx]. exists x. auto. Qed.

Definition no_photon_created (spec K : state -> dist) (mix : mixture) : Prop :=
  forall pg t w, In pg mix -> In (t, w) (shot_of spec K (snd pg)) -> (total t <= gtotal (snd pg))%nat.
Definition shots_normalised (spec K : state -> dist) (mix : mixture) : Prop :=
  forall pg, In pg mix -> mass (shot_of spec K (snd pg)) = 1.

Lemma prefilter_invisible spec K F mix : no_photon_created spec K mix ->
  dfilter (fun t => (F <=? total t)%nat) (shot spec K (prefilter F mix))
  = dfilter (fun t => (F <=? total t)%nat) (shot spec K mix).
Proof. induction mix as [|[p gs] mix IH]; intros H; simpl; auto.
  assert (H' : no_photon_created spec K mix).
  { intros pg t w Hin. apply H. right. exact Hin. }
  destruct (F <=? gtotal gs)%nat eqn:E; simpl; rewrite !dfilter_app, IH by exact H'; auto.
  rewrite (dfilter_none _ (dscale p (shot_of spec K gs))); auto.
  intros t w Hin. apply in_dscale in Hin as [w' Hin].
  pose proof (H (p, gs) t w' (or_introl eq_refl) Hin) as Hle. simpl in Hle.
  apply Nat.leb_gt in E. apply Nat.leb_gt. lia. Qed.
Lemma shot_mass spec K mix : shots_normalised spec K mix -> mass (shot spec K mix) = mix_mass mix.
Proof. induction mix as [|[p gs] mix IH]; intros H; simpl; auto.
  rewrite mass_app, mass_dscale, IH.
  - pose proof (H (p, gs) (or_introl eq_refl)) as E. simpl in E. rewrite E. ring.
  - intros pg Hin. apply H. right. exact Hin. Qed.
Lemma prefilter_incl F mix pg : In pg (prefilter F mix) -> In pg mix.
Proof. unfold prefilter. intros H. apply filter_In in H. tauto. Qed.

Lemma pr_normalize d T : pr (normalize d) T = if Qc_eq_dec (mass d) 0 then pr d T else pr d T / mass d.
Proof. unfold normalize. destruct (Qc_eq_dec (mass d) 0); auto. rewrite pr_dscale. field. auto. Qed.
Lemma normalize_scale_pr c d T : c <> 0 -> mass d <> 0 ->
  pr (normalize (dmerge (dscale c d))) T = pr (normalize (dmerge d)) T.
Proof. intros Hc Hd. rewrite !pr_normalize, !mass_dmerge, !pr_dmerge, mass_dscale, pr_dscale.
  destruct (Qc_eq_dec (c * mass d) 0) as [E|E]; destruct (Qc_eq_dec (mass d) 0) as [E'|E']; try contradiction.
  - exfalso. apply Qcmult_integral in E. tauto.
  - field. auto. Qed.

(* The sampler draws its inputs from the mixture restricted to inputs holding at least F photons (renormalised),
   runs one shot, rejects below the filter, then rejects on heralds / post-selection.  With exact primitives:
   the law of an accepted sample is the conditioned distribution of the specification on the WHOLE mixture,
   and the two performance estimates (written on expected counts) are its physical and logical performances. *)
Theorem rejection_is_conditioning spec K mix h p F keep :
  no_photon_created spec K mix -> shots_normalised spec K mix -> pre_phys F mix <> 0 ->
  let pl := pipeline spec K mix h p F keep in
  let c := condition (shot spec K mix) h p F keep in
  p_phys pl = c_phys c /\ p_logical pl = c_logical c /\
  (c_phys c * c_logical c <> 0 -> forall T, pr (p_results pl) T = pr (c_results c) T).
Proof.
  intros H1 H3 Hpre. unfold pipeline, condition. cbn [p_phys p_logical p_results c_phys c_logical c_results].
  set (Ff := fun t : state => (F <=? total t)%nat).
  set (pre := pre_phys F mix) in *.
  assert (Hinv : / pre <> 0).
  { intros E. apply Hpre. rewrite <- (Qcmult_1_l pre), <- (Qcmult_inv_l pre Hpre), E. ring. }
  rewrite shot_scale.
  assert (Em : mass (shot spec K (prefilter F mix)) = pre).
  { apply shot_mass. intros pg Hin. apply H3. eapply prefilter_incl; eauto. }
  rewrite !dfilter_dscale. unfold Ff. rewrite (prefilter_invisible spec K F mix H1). fold Ff.
  set (D := shot spec K mix).
  rewrite !mass_dscale, Em.
  set (m1 := mass (dfilter Ff D)). set (m2 := mass (dfilter (passes h p) (dfilter Ff D))).
  replace (/ pre * m2 + (/ pre * m1 - / pre * m2) + (/ pre * pre - / pre * m1)) with 1 by (field; auto).
  replace (/ pre * m2 + (/ pre * m1 - / pre * m2)) with (/ pre * m1) by ring.
  destruct (Qc_eq_dec 1 0) as [E|_]; [discriminate|].
  split. { field; repeat split; auto; discriminate. }
  split.
  - destruct (Qc_eq_dec (/ pre * m1) 0) as [E|E]; destruct (Qc_eq_dec m1 0) as [E'|E']; auto.
    + exfalso. apply Qcmult_integral in E. tauto.
    + exfalso. apply E. rewrite E'. ring.
    + field. auto.
  - intros Hacc T.
    assert (Hm2 : m2 <> 0).
    { destruct (Qc_eq_dec m1 0) as [E'|E']. exfalso; apply Hacc; rewrite E'; ring.
      intros E. apply Hacc. rewrite E. field. auto. }
    destruct keep.
    + apply normalize_scale_pr; auto.
    + rewrite dmap_dscale. apply normalize_scale_pr; auto. rewrite mass_dmap. exact Hm2.
Qed.

(* the hypotheses are satisfiable: a two-input mixture (one input below the filter), a deterministic
   specification (identity circuit) and the threshold kernel on mode 0 *)
Definition ex_spec (s : state) : dist := [(s, 1)].
Definition ex_K (t : state) : dist := match t with x :: r => [(Nat.min x 1 :: r, 1)] | [] => [([], 1)] end.
Definition ex_mix : mixture := [(Q2Qc (3 # 4), [[1; 1]; [1; 0]]); (Q2Qc (1 # 4), [[0; 1]])]%nat.
Example rejection_hypotheses_satisfiable :
  no_photon_created ex_spec ex_K ex_mix /\ shots_normalised ex_spec ex_K ex_mix /\ pre_phys 2 ex_mix <> 0 /\
  c_phys (condition (shot ex_spec ex_K ex_mix) [(0, 1)]%nat PTrue 2 false)
  * c_logical (condition (shot ex_spec ex_K ex_mix) [(0, 1)]%nat PTrue 2 false) <> 0.
Proof. repeat split.
  - intros pg t w [<-|[<-|[]]]; vm_compute; intros [E|[]]; injection E as <- _; lia.
  - intros pg [<-|[<-|[]]]; vm_compute; reflexivity.
  - vm_compute. discriminate.
  - vm_compute. discriminate. Qed.

(* Processor.samples as it is now hands filter + herald photons to the sampler: the sampled law and the reported
   performances are those of [condition ... (flt + herald_total h)], the very right-hand side of C04ext's theorems
   on Simulator.probs_svd *)
Theorem processor_samples_condition spec K mix h p flt :
  no_photon_created spec K mix -> shots_normalised spec K mix -> pre_phys (flt + herald_total h) mix <> 0 ->
  let pl := processor_pipeline spec K mix h p flt in
  let c := condition (shot spec K mix) h p (flt + herald_total h) false in
  p_phys pl = c_phys c /\ p_logical pl = c_logical c /\
  (c_phys c * c_logical c <> 0 -> forall T, pr (p_results pl) T = pr (c_results c) T).
Proof. intros H1 H2 H3. apply (rejection_is_conditioning spec K mix h p (flt + herald_total h) false H1 H2 H3). Qed.

(* HISTORICAL (before /repo commit 5caa1a68): the filter was handed over without the herald photons, and the
   physical performance of the samples was not the one of strong simulation *)
Definition ex_mix_h : mixture := [(Q2Qc (1 # 2), [[1; 1]]); (Q2Qc (1 # 2), [[1; 0]])]%nat.
Theorem processor_samples_refuted_old_code : exists spec K mix h p flt,
  no_photon_created spec K mix /\ shots_normalised spec K mix /\ pre_phys (flt + herald_total h) mix <> 0 /\
  p_phys (processor_pipeline_old_code spec K mix h p flt)
  <> c_phys (condition (shot spec K mix) h p (flt + herald_total h) false).
Proof. exists ex_spec, (fun t => [(t, 1)]), ex_mix_h, [(0, 1)]%nat, PTrue, 1%nat. repeat split.
  - intros pg t w [<-|[<-|[]]]; vm_compute; intros [E|[]]; injection E as <- _; lia.
  - intros pg [<-|[<-|[]]]; vm_compute; reflexivity.
  - vm_compute. discriminate.
  - vm_compute. discriminate. Qed.

(* ---- the hypotheses of rejection_is_conditioning for photon-preserving specifications and
        photon-non-increasing kernels (a unitary's specification distribution, detector readings) *)
Lemma total_state_add : forall a b, total (state_add a b) = (total a + total b)%nat.
Proof. induction a as [|x a IH]; intros [|y b]; simpl; auto. unfold total in *. simpl. rewrite IH. lia. Qed.
Lemma in_conv2 t w d1 d2 : In (t, w) (conv2 d1 d2) ->
  exists t1 w1 t2 w2, In (t1, w1) d1 /\ In (t2, w2) d2 /\ t = state_add t1 t2.
Proof. unfold conv2. intros H. apply in_flat_map in H as [[t1 w1] [H1 H2]]. apply in_map_iff in H2 as [[t2 w2] [E H2]].
  simpl in E. injection E as <- _. exists t1, w1, t2, w2. auto. Qed.
Lemma conv_all_total spec : (forall s t w, In (t, w) (spec s) -> total t = total s) ->
  forall gs t w, In (t, w) (conv_all (map spec gs)) -> total t = gtotal gs.
Proof. intros Hs. induction gs as [|g gs IH]; intros t w H; simpl in *.
  - destruct H as [H|[]]. injection H as <- _. reflexivity.
  - apply in_conv2 in H as [t1 [w1 [t2 [w2 [H1 [H2 ->]]]]]]. rewrite total_state_add, (Hs _ _ _ H1), (IH _ _ H2). reflexivity. Qed.
Theorem no_photon_created_of spec K mix :
  (forall s t w, In (t, w) (spec s) -> total t = total s) ->
  (forall t u w, In (u, w) (K t) -> (total u <= total t)%nat) ->
  no_photon_created spec K mix.
Proof. intros Hs HK pg t w _ H. unfold shot_of, dbind in H.
  apply in_flat_map in H as [[u wu] [H1 H2]]. apply in_dscale in H2 as [w' H2]. simpl in H2.
  rewrite <- (conv_all_total spec Hs _ _ _ H1). eapply HK; eauto. Qed.
Lemma allstates_total : forall m n t, In t (allstates m n) -> total t = n.
Proof. induction m as [|m IH]; intros n t H; simpl in H.
  - destruct (n =? 0)%nat eqn:E; [|contradiction]. destruct H as [<-|[]]. apply Nat.eqb_eq in E. auto.
  - apply in_flat_map in H as [a [Ha H]]. apply in_map_iff in H as [r [<- Hr]]. apply IH in Hr.
    assert (a <= n)%nat. { clear -Ha. induction n; simpl in Ha; [destruct Ha as [<-|[]]; lia|]. destruct Ha as [<-|Ha]; [lia|]. apply IHn in Ha. lia. }
    unfold total in *. simpl. lia. Qed.

From PV Require Model.SamplingX.
Theorem unitary_spec_creates_no_photon U m K mix :
  (forall t u w, In (u, w) (K t) -> (total u <= total t)%nat) ->
  no_photon_created (SelectX.spec_dist U m) K mix.
Proof. intros HK. apply no_photon_created_of; auto.
  intros s t w H. unfold SelectX.spec_dist in H. apply in_map_iff in H as [t' [E H]]. injection E as <- _.
  apply allstates_total in H. exact H. Qed.
Corollary perfect_detection_creates_no_photon U m mix :
  no_photon_created (SelectX.spec_dist U m) (SamplingX.det_kernel []) mix.
Proof. apply unitary_spec_creates_no_photon. intros t u w [H|[]]. injection H as <- _. lia. Qed.

(* with no photon filter the sampler draws its inputs from the WHOLE mixture, the vacuum members included
   (sample(i, non_null=False) in _prepare_provider); in general exactly the members holding >= F photons *)
Lemma prefilter_zero mix : prefilter 0 mix = mix.
Proof. unfold prefilter. induction mix as [|pg mix IH]; simpl; auto. f_equal. exact IH. Qed.
Lemma prefilter_spec F mix pg : In pg (prefilter F mix) <-> In pg mix /\ (F <= gtotal (snd pg))%nat.
Proof. unfold prefilter. rewrite filter_In, Nat.leb_le. tauto. Qed.
