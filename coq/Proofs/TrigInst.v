(* Instantiation of the generic component theorems at the complex numbers over Coq's reals:
   for EVERY real parameter value the documented matrices are unitary and periodic.
   Axioms: only those of Coq.Reals (named in DESIGN section 6). *)
From Coq Require Import Reals Lra.
From PV Require Import Model.Components Proofs.ComponentsP.
Open Scope R_scope.

Record cx := mkcx { cre : R; cim : R }.
Definition cx0 := mkcx 0 0.
Definition cx1 := mkcx 1 0.
Definition cxi := mkcx 0 1.
Definition cxadd a b := mkcx (cre a + cre b) (cim a + cim b).
Definition cxmul a b := mkcx (cre a * cre b - cim a * cim b) (cre a * cim b + cim a * cre b).
Definition cxopp a := mkcx (- cre a) (- cim a).
Definition cxsub a b := mkcx (cre a - cre b) (cim a - cim b).
Definition cxconj a := mkcx (cre a) (- cim a).
Lemma cx_eq a b : cre a = cre b -> cim a = cim b -> a = b.
Proof. destruct a, b; simpl; intros; subst; reflexivity. Qed.
Lemma cx_ring : ring_theory cx0 cx1 cxadd cxmul cxsub cxopp (@eq cx).
Proof. split; intros; apply cx_eq; simpl; ring. Qed.
Definition CX : cring.
Proof. refine (@Build_cring cx cx0 cx1 cxadd cxmul cxsub cxopp cxconj cx_ring _ _ _ _ _ _);
  intros; apply cx_eq; simpl; ring. Defined.

Definition creal (x : R) : CX := mkcx x 0.
Definition cexp (phi : R) : CX := mkcx (cos phi) (sin phi).

Lemma cexp_add a b : cexp (a + b) = kmul (cexp a) (cexp b).
Proof. apply cx_eq; simpl; [apply cos_plus | rewrite sin_plus; ring]. Qed.
Lemma cexp_unit a : kmul (cexp a) (kconj (cexp a)) = k1.
Proof. apply cx_eq; simpl; pose proof (sin2_cos2 a) as H; unfold Rsqr in H; lra. Qed.
Lemma creal_conj x : kconj (creal x) = creal x.
Proof. apply cx_eq; simpl; lra. Qed.
Lemma cs_real x : kmul (creal (cos x)) (creal (cos x)) = ksub k1 (kmul (creal (sin x)) (creal (sin x))).
Proof. apply cx_eq; simpl; pose proof (sin2_cos2 x) as H; unfold Rsqr in H; lra. Qed.
Definition cI : CX := cxi.
Lemma cxi2 : kmul cI cI = kopp (k1 : CX). Proof. apply cx_eq; simpl; lra. Qed.
Lemma cxi_conj : kconj cI = kopp cI. Proof. apply cx_eq; simpl; lra. Qed.

(* The documented beam-splitter matrix, as computed by BS._compute_unitary *)
Definition bs_doc (cv : convention) (theta tl bl tr br : R) : mat CX :=
  let c := creal (cos (theta / 2)) in let s := creal (sin (theta / 2)) in
  match cv with
  | Rx => mat2 (kmul k1 (kmul (cexp (tl + tr)) c)) (kmul cI (kmul (cexp (tr + bl)) s))
               (kmul cI (kmul (cexp (tl + br)) s)) (kmul k1 (kmul (cexp (bl + br)) c))
  | Ry => mat2 (kmul k1 (kmul (cexp (tl + tr)) c)) (kmul (kopp k1) (kmul (cexp (tr + bl)) s))
               (kmul k1 (kmul (cexp (tl + br)) s)) (kmul k1 (kmul (cexp (bl + br)) c))
  | Hc => mat2 (kmul k1 (kmul (cexp (tl + tr)) c)) (kmul k1 (kmul (cexp (tr + bl)) s))
               (kmul k1 (kmul (cexp (tl + br)) s)) (kmul (kopp k1) (kmul (cexp (bl + br)) c))
  end.

Lemma bs_doc_generic cv theta tl bl tr br :
  bs_doc cv theta tl bl tr br =
  bs_mat (R:=CX) cv cI (creal (cos (theta/2))) (creal (sin (theta/2))) (cexp tl) (cexp bl) (cexp tr) (cexp br).
Proof. unfold bs_doc, bs_mat. rewrite !cexp_add.
  replace (kmul (cexp bl) (cexp br)) with (kmul (cexp br) (cexp bl)) by (apply cx_eq; simpl; ring).
  destruct cv; reflexivity. Qed.

Theorem bs_unitary_real cv theta tl bl tr br : unitary 2 (bs_doc cv theta tl bl tr br).
Proof. rewrite bs_doc_generic. apply bs_unitary;
  auto using cxi2, cxi_conj, cs_real, creal_conj, cexp_unit. Qed.

Theorem ps_unitary_real phi : unitary 1 (ps_mat (R:=CX) (cexp phi)).
Proof. apply ps_unitary, cexp_unit. Qed.

Theorem wp_unitary_real delta xsi :
  unitary 2 (wp_mat (R:=CX) cI (creal (cos delta)) (creal (sin delta)) (creal (cos (2*xsi))) (creal (sin (2*xsi)))).
Proof. apply wp_unitary; auto using cxi2, cxi_conj, cs_real, creal_conj. Qed.

Theorem pr_unitary_real delta : unitary 2 (pr_mat (R:=CX) (creal (cos delta)) (creal (sin delta))).
Proof. apply pr_unitary; auto using cs_real, creal_conj. Qed.

(* periodicity: the stored value differs from the requested one by a whole number of (max-min) *)
Lemma cos_period_Z x (k : Z) : cos (x + 2 * IZR k * PI) = cos x.
Proof. destruct k as [|p|p].
  - replace (x + 2 * 0 * PI) with x by ring. reflexivity.
  - replace (IZR (Z.pos p)) with (INR (Pos.to_nat p)) by (rewrite INR_IZR_INZ, positive_nat_Z; reflexivity).
    apply cos_period.
  - rewrite <- (cos_period (x + 2 * IZR (Z.neg p) * PI) (Pos.to_nat p)). f_equal.
    replace (INR (Pos.to_nat p)) with (IZR (Z.pos p)) by (rewrite INR_IZR_INZ, positive_nat_Z; reflexivity).
    change (Z.neg p) with (- Z.pos p)%Z. rewrite opp_IZR. ring. Qed.
Lemma sin_period_Z x (k : Z) : sin (x + 2 * IZR k * PI) = sin x.
Proof. destruct k as [|p|p].
  - replace (x + 2 * 0 * PI) with x by ring. reflexivity.
  - replace (IZR (Z.pos p)) with (INR (Pos.to_nat p)) by (rewrite INR_IZR_INZ, positive_nat_Z; reflexivity).
    apply sin_period.
  - rewrite <- (sin_period (x + 2 * IZR (Z.neg p) * PI) (Pos.to_nat p)). f_equal.
    replace (INR (Pos.to_nat p)) with (IZR (Z.pos p)) by (rewrite INR_IZR_INZ, positive_nat_Z; reflexivity).
    change (Z.neg p) with (- Z.pos p)%Z. rewrite opp_IZR. ring. Qed.
Lemma cexp_period x (k : Z) : cexp (x + IZR k * (2 * PI)) = cexp x.
Proof. unfold cexp. replace (x + IZR k * (2 * PI)) with (x + 2 * IZR k * PI) by ring.
  rewrite cos_period_Z, sin_period_Z. reflexivity. Qed.

(* theta has nominal range [0, 4 pi], the four phases [0, 2 pi]: a shift by whole ranges is invisible *)
Theorem bs_period cv theta tl bl tr br (kt k1' k2 k3 k4 : Z) :
  bs_doc cv (theta + IZR kt * (4 * PI)) (tl + IZR k1' * (2*PI)) (bl + IZR k2 * (2*PI))
            (tr + IZR k3 * (2*PI)) (br + IZR k4 * (2*PI))
  = bs_doc cv theta tl bl tr br.
Proof. unfold bs_doc.
  replace ((theta + IZR kt * (4 * PI)) / 2) with (theta / 2 + 2 * IZR kt * PI) by field.
  rewrite cos_period_Z, sin_period_Z.
  replace (tl + IZR k1' * (2 * PI) + (tr + IZR k3 * (2 * PI))) with (tl + tr + IZR (k1' + k3) * (2 * PI)) by (rewrite plus_IZR; ring).
  replace (tr + IZR k3 * (2 * PI) + (bl + IZR k2 * (2 * PI))) with (tr + bl + IZR (k3 + k2) * (2 * PI)) by (rewrite plus_IZR; ring).
  replace (tl + IZR k1' * (2 * PI) + (br + IZR k4 * (2 * PI))) with (tl + br + IZR (k1' + k4) * (2 * PI)) by (rewrite plus_IZR; ring).
  replace (bl + IZR k2 * (2 * PI) + (br + IZR k4 * (2 * PI))) with (bl + br + IZR (k2 + k4) * (2 * PI)) by (rewrite plus_IZR; ring).
  rewrite !cexp_period. reflexivity. Qed.
Theorem ps_period phi (k : Z) : ps_mat (R:=CX) (cexp (phi + IZR k * (2*PI))) = ps_mat (cexp phi).
Proof. rewrite cexp_period. reflexivity. Qed.
(* wave plates and rotators: nominal range [-pi, pi] for delta and xsi *)
Theorem wp_period delta xsi (k k' : Z) :
  wp_mat (R:=CX) cI (creal (cos (delta + IZR k * (2*PI)))) (creal (sin (delta + IZR k * (2*PI))))
         (creal (cos (2*(xsi + IZR k' * (2*PI))))) (creal (sin (2*(xsi + IZR k' * (2*PI)))))
  = wp_mat cI (creal (cos delta)) (creal (sin delta)) (creal (cos (2*xsi))) (creal (sin (2*xsi))).
Proof.
  replace (delta + IZR k * (2*PI)) with (delta + 2 * IZR k * PI) by ring.
  replace (2 * (xsi + IZR k' * (2*PI))) with (2*xsi + 2 * IZR (2*k') * PI) by (rewrite mult_IZR; ring).
  rewrite !cos_period_Z, !sin_period_Z. reflexivity. Qed.
Theorem pr_period delta (k : Z) :
  pr_mat (R:=CX) (creal (cos (delta + IZR k * (2*PI)))) (creal (sin (delta + IZR k * (2*PI))))
  = pr_mat (creal (cos delta)) (creal (sin delta)).
Proof. replace (delta + IZR k * (2*PI)) with (delta + 2 * IZR k * PI) by ring.
  rewrite cos_period_Z, sin_period_Z. reflexivity. Qed.
