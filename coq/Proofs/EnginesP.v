From PV Require Import Model.Engines.

Section EnginesP.
Variable R : cring.
Add Ring Rring : (Kth R).
Open Scope K_scope.
Variable U : mat R.
Variable m : nat.

Lemma sum_posA_map {A} (f : nat -> A) l : forall F : A -> list A -> R,
  sum_posA (map f l) F = sum_pos l (fun a r => F (f a) (map f r)).
Proof. induction l as [|a l IH]; intros F; simpl. reflexivity. rewrite IH. reflexivity. Qed.

Lemma perm_rows_permR cols : forall rows,
  perm_rows (length cols) (map (fun a => map (fun k => U a k) cols) rows) = permR U cols rows.
Proof.
  induction cols as [|k cols IH]; intros rows; simpl.
  - destruct rows; reflexivity.
  - rewrite (sum_posA_map (fun a => U a k :: map (fun k0 => U a k0) cols)).
    apply sum_pos_ext. intros a r. simpl. f_equal. rewrite map_map. simpl. apply IH.
Qed.

Lemma rows_from_length j0 t : length (rows_from j0 t) = total t.
Proof. revert j0; induction t as [|x t IH]; intros j0; simpl. reflexivity.
  rewrite app_length, repeat_length, IH. reflexivity. Qed.

(* Naive: the permanent of the explicit submatrix the code builds is the specification *)
Theorem naive_is_spec s t : length t = m -> naive_amp_num U s t = amp_num U m s t.
Proof.
  intros Hm. unfold naive_amp_num, amp_num. destruct (total s =? total t)%nat eqn:E; auto.
  apply Nat.eqb_eq in E.
  assert (Hl : length (cols_of s) = total s) by apply rows_from_length.
  destruct (total s =? 0)%nat eqn:E0.
  - apply Nat.eqb_eq in E0. unfold cols_of, rows_of in *. destruct (rows_from 0 s) eqn:Es; [|simpl in Hl; lia].
    simpl. assert (all_zero t = true) by (apply all_zero_total; lia). rewrite H. reflexivity.
  - unfold submatrix. rewrite <- Hl. rewrite perm_rows_permR. apply permR_permS. exact Hm.
Qed.

(* SLOS: coefficient times prod t! is the specification *)
Theorem slos_is_spec s t : slos_amp_num U m s t = amp_num U m s t.
Proof. unfold slos_amp_num, amp_num, slos_coef. destruct (total s =? total t)%nat; auto.
  symmetry. apply permS_slos. Qed.

Theorem amp_zero_if_n_differs s t : total s <> total t -> amp_num U m s t = k0.
Proof. intros H. unfold amp_num. apply Nat.eqb_neq in H. rewrite H. reflexivity. Qed.

(* pruning: if the kept set is closed under removing a photon, kept outputs get the unpruned value *)
Theorem slosK_sound keep : (forall t j, keep t = true -> (0 < nth j t 0)%nat -> keep (dec t j) = true) ->
  forall cols t, keep t = true -> slosK U m keep cols t = slos U m cols t.
Proof. intros Hk. induction cols as [|k cols IH]; intros t Ht; simpl; rewrite Ht. reflexivity.
  apply sumn_ext. intros j _. destruct (0 <? nth j t 0)%nat eqn:E; auto.
  apply Nat.ltb_lt in E. rewrite IH; auto. Qed.
End EnginesP.

(* the FSMask rule is closed under removing a photon *)
Lemma mask_fixed_ok_dec mk : forall u j, mask_fixed_ok mk u = true -> mask_fixed_ok mk (dec u j) = true.
Proof. induction mk as [|[d|] mk IH]; intros [|x u] [|j]; simpl; auto; intros H.
  - apply andb_prop in H as [H1 H2]. apply andb_true_intro. split; auto. apply Nat.leb_le in H1. apply Nat.leb_le. lia.
  - apply andb_prop in H as [H1 H2]. apply andb_true_intro. split; auto.
Qed.
Lemma total_dec_le u j : (total (dec u j) <= total u)%nat.
Proof. revert j; induction u as [|x u IH]; intros [|j]; unfold total in *; simpl; try lia. specialize (IH j). lia. Qed.
Lemma mask_free_total_dec mk : forall u j, (mask_free_total mk (dec u j) <= mask_free_total mk u)%nat.
Proof. induction mk as [|o mk IH]; intros u j.
  - destruct u; simpl; [lia|]. apply (total_dec_le (n :: u) j).
  - destruct o as [d|]; destruct u as [|x u]; destruct j as [|j]; simpl; try lia;
    try (specialize (IH u j); lia). Qed.
Theorem mask_keep_dec n mks u j : mask_keep n mks u = true -> mask_keep n mks (dec u j) = true.
Proof. unfold mask_keep. rewrite !existsb_exists. intros [mk [Hin H]]. exists mk. split; auto.
  unfold mask_keep1 in *. apply andb_prop in H as [H12 H3]. apply andb_prop in H12 as [H1 H2].
  rewrite H1, (mask_fixed_ok_dec mk u j H2). simpl. apply Nat.leb_le in H3. apply Nat.leb_le.
  pose proof (mask_free_total_dec mk u j). lia. Qed.

(* C02: a mask returns the same values on the states it keeps *)
Theorem masked_slos_sound (R : cring) (U : mat R) m n mks cols t : mask_keep n mks t = true ->
  slosK U m (mask_keep n mks) cols t = slos U m cols t.
Proof. apply slosK_sound. intros t' j H _. apply mask_keep_dec. exact H. Qed.
