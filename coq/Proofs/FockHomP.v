(* The Fock-space homomorphism (Cauchy-Binet for permanents): the amplitudes of a product of two
   linear-optical matrices are obtained by summing over all intermediate Fock states,

      perm((A.B)[t|s]) = sum_u  perm(A[t|u]) * perm(B[u|s]) / prod u!

   stated division-free with  perm(B[u|s]) / prod u! = slos B (cols_of s) u  (permS_slos).
   Consequences: the output distribution of a unitary sums to one; evolving component by component is
   the same as evolving through the product matrix. *)
From PV Require Import Model.Engines Proofs.PermOrderP.
From Coq Require Import Permutation Setoid Morphisms.

(* ------------------------------------------------------------------------------------------ *)
(* sums over lists *)
Section Suml.
Variable R : cring.
Add Ring Rring : (Kth R).
Open Scope K_scope.

Fixpoint suml {A : Type} (l : list A) (f : A -> R) : R :=
  match l with [] => k0 | x :: r => f x + suml r f end.

Lemma suml_ext_in {A} (l : list A) f g : (forall x, In x l -> f x = g x) -> suml l f = suml l g.
Proof. induction l as [|x l IH]; simpl; intros H. reflexivity. rewrite H, IH; auto. Qed.
Lemma suml_ext {A} (l : list A) f g : (forall x, f x = g x) -> suml l f = suml l g.
Proof. intros H. apply suml_ext_in. intros; apply H. Qed.
Lemma suml_zero {A} (l : list A) f : (forall x, In x l -> f x = k0) -> suml l f = k0.
Proof. induction l as [|x l IH]; simpl; intros H. reflexivity. rewrite H, IH; auto. ring. Qed.
Lemma suml_app {A} (l1 l2 : list A) f : suml (l1 ++ l2) f = suml l1 f + suml l2 f.
Proof. induction l1 as [|x l1 IH]; simpl. ring. rewrite IH. ring. Qed.
Lemma suml_map {A B} (h : A -> B) (l : list A) f : suml (map h l) f = suml l (fun x => f (h x)).
Proof. induction l as [|x l IH]; simpl. reflexivity. rewrite IH. reflexivity. Qed.
Lemma suml_flat_map {A B} (g : A -> list B) (l : list A) f :
  suml (flat_map g l) f = suml l (fun a => suml (g a) f).
Proof. induction l as [|x l IH]; simpl. reflexivity. rewrite suml_app, IH. reflexivity. Qed.
Lemma suml_add {A} (l : list A) f g : suml l (fun x => f x + g x) = suml l f + suml l g.
Proof. induction l as [|x l IH]; simpl. ring. rewrite IH. ring. Qed.
Lemma suml_scal {A} (l : list A) c f : suml l (fun x => c * f x) = c * suml l f.
Proof. induction l as [|x l IH]; simpl. ring. rewrite IH. ring. Qed.
Lemma suml_scal_r {A} (l : list A) c f : suml l (fun x => f x * c) = suml l f * c.
Proof. induction l as [|x l IH]; simpl. ring. rewrite IH. ring. Qed.
Lemma suml_conj {A} (l : list A) f : kconj (suml l f) = suml l (fun x => kconj (f x)).
Proof. induction l as [|x l IH]; simpl. apply conj_zero. rewrite conj_add, IH. reflexivity. Qed.
Lemma suml_sumn_swap {A} (l : list A) n (f : A -> nat -> R) :
  suml l (fun x => sumn n (fun j => f x j)) = sumn n (fun j => suml l (fun x => f x j)).
Proof. induction l as [|x l IH]; simpl. symmetry. apply sumn_zero. reflexivity.
  rewrite IH, <- sumn_add. reflexivity. Qed.
Lemma suml_swap {A B} (l : list A) (l' : list B) (f : A -> B -> R) :
  suml l (fun x => suml l' (fun y => f x y)) = suml l' (fun y => suml l (fun x => f x y)).
Proof. induction l as [|x l IH]; simpl. symmetry. apply suml_zero. reflexivity.
  rewrite IH, <- suml_add. reflexivity. Qed.

(* ---- sums over the states of m modes and N photons ---- *)
Lemma suml_allstates_S m N (f : state -> R) :
  suml (allstates (S m) N) f = suml (down_from N) (fun a => suml (allstates m (N - a)) (fun r => f (a :: r))).
Proof. cbn [allstates]. rewrite suml_flat_map. apply suml_ext. intros a. apply suml_map. Qed.

Lemma suml_down_from_shift n (g : nat -> R) :
  suml (down_from (S n)) g = suml (down_from n) (fun a => g (S a)) + g 0%nat.
Proof. induction n. simpl. ring.
  change (down_from (S (S n))) with (S (S n) :: down_from (S n)). cbn [suml]. rewrite IHn.
  cbn [down_from suml]. ring. Qed.
Lemma In_down_from n a : In a (down_from n) -> (a <= n)%nat.
Proof. induction n; simpl; intros [H|H]; try lia. apply IHn in H. lia. Qed.

Lemma allstates_sound m : forall n t, In t (allstates m n) -> length t = m /\ total t = n.
Proof. induction m as [|m IH]; intros n t H.
  - simpl in H. destruct (n =? 0)%nat eqn:E; [|destruct H]. apply Nat.eqb_eq in E.
    destruct H as [<-|[]]. subst. split; reflexivity.
  - cbn [allstates] in H. apply in_flat_map in H. destruct H as [a [Ha H]].
    apply in_map_iff in H. destruct H as [r [<- Hr]]. apply IH in Hr. destruct Hr as [L T].
    apply In_down_from in Ha. unfold total in *. simpl. split; lia. Qed.

Lemma allstates_zero m : allstates m 0 = [repeat 0%nat m].
Proof. induction m as [|m IH]. reflexivity. cbn [allstates down_from flat_map]. simpl Nat.sub.
  rewrite IH. reflexivity. Qed.

(* photon added to mode l: the states of N+1 photons holding a photon in mode l are the states of
   N photons with one more photon in l *)
Lemma suml_allstates_inc m : forall N l (G : state -> R), (l < m)%nat ->
  suml (allstates m N) (fun u => if (0 <? nth l u 0)%nat then G u else k0) =
  match N with O => k0 | S n => suml (allstates m n) (fun u' => G (inc u' l)) end.
Proof.
  induction m as [|m IH]; intros N l G Hl. lia.
  rewrite suml_allstates_S. destruct l as [|l].
  - cbn [nth]. destruct N as [|n].
    + cbn [down_from suml]. rewrite suml_zero. ring. intros; reflexivity.
    + rewrite suml_down_from_shift. rewrite (suml_zero (allstates m (S n - 0))) by (intros; reflexivity).
      rewrite suml_allstates_S. transitivity (suml (down_from n)
        (fun a => suml (allstates m (n - a)) (fun r => G (inc (a :: r) 0)))); [|reflexivity].
      transitivity (suml (down_from n) (fun a => suml (allstates m (S n - S a))
        (fun r => if (0 <? S a)%nat then G (S a :: r) else k0))). ring.
      apply suml_ext. intros a. reflexivity.
  - cbn [nth]. assert (Hl' : (l < m)%nat) by lia.
    transitivity (suml (down_from N) (fun a =>
      match (N - a)%nat with O => k0 | S n' => suml (allstates m n') (fun r' => G (a :: inc r' l)) end)).
    { apply suml_ext. intros a. apply (IH (N - a)%nat l (fun r => G (a :: r))). exact Hl'. }
    destruct N as [|n].
    + simpl. ring.
    + cbn [down_from suml]. rewrite Nat.sub_diag. rewrite suml_allstates_S.
      transitivity (suml (down_from n) (fun a => suml (allstates m (n - a)) (fun r' => G (a :: inc r' l)))).
      2:{ reflexivity. }
      transitivity (suml (down_from n) (fun a => match (S n - a)%nat with
          | O => k0 | S n' => suml (allstates m n') (fun r' => G (a :: inc r' l)) end)). ring.
      apply suml_ext_in. intros a Ha. apply In_down_from in Ha.
      replace (S n - a)%nat with (S (n - a)) by lia. reflexivity.
Qed.
End Suml.
Arguments suml {_ _}.

(* ------------------------------------------------------------------------------------------ *)
Section FockHom.
Variable R : cring.
Add Ring Rring' : (Kth R).
Open Scope K_scope.
Notation mat := (mat R).

(* ---- small facts on states ---- *)
Lemma dec_inc (u : state) : forall l, dec (inc u l) l = u.
Proof. induction u as [|x u IH]; intros [|l]; simpl; auto. rewrite IH. reflexivity. Qed.
Lemma inc_dec (t : state) : forall l, (0 < nth l t 0)%nat -> inc (dec t l) l = t.
Proof. induction t as [|x t IH]; intros [|l]; simpl; try lia.
  - intros H. destruct x; [lia|reflexivity].
  - intros H. rewrite IH by exact H. reflexivity. Qed.
Lemma inc_length (u : state) : forall l, length (inc u l) = length u.
Proof. induction u as [|x u IH]; intros [|l]; simpl; auto. Qed.
Lemma nth_inc_same (u : state) : forall l, (l < length u)%nat -> nth l (inc u l) 0%nat = S (nth l u 0%nat).
Proof. induction u as [|x u IH]; intros [|l]; simpl; try lia. intros H. apply IH. lia. Qed.
Lemma rows_len j0 (t : state) : length (rows_from j0 t) = total t.
Proof. revert j0; induction t as [|x t IH]; intros j0; simpl. reflexivity.
  rewrite app_length, repeat_length, IH. reflexivity. Qed.
Lemma cols_of_length (s : state) : length (cols_of s) = total s.
Proof. apply rows_len. Qed.
Lemma rows_from_bound (t : state) : forall j0, Forall (fun k => (j0 <= k < j0 + length t)%nat) (rows_from j0 t).
Proof. induction t as [|x t IH]; intros j0; simpl. constructor.
  apply Forall_app. split.
  - apply Forall_forall. intros k Hk. apply repeat_spec in Hk. lia.
  - eapply Forall_impl; [|apply IH]. simpl. intros; lia. Qed.
Lemma cols_of_bound (s : state) : Forall (fun k => (k < length s)%nat) (cols_of s).
Proof. eapply Forall_impl; [|apply (rows_from_bound s 0)]. simpl. intros; lia. Qed.
Lemma rows_from_zero m : forall j0, rows_from j0 (repeat 0%nat m) = [].
Proof. induction m; intros j0; simpl; auto. Qed.

Lemma rows_from_inc (u : state) : forall l j0, (l < length u)%nat ->
  Permutation (rows_from j0 (inc u l)) ((j0 + l)%nat :: rows_from j0 u).
Proof. induction u as [|x u IH]; intros [|l] j0 Hl; simpl in Hl; try lia.
  - simpl. rewrite Nat.add_0_r. apply Permutation_refl.
  - cbn [inc rows_from]. replace (j0 + S l)%nat with (S j0 + l)%nat by lia.
    eapply Permutation_trans. apply Permutation_app_head. apply IH. lia.
    symmetry. apply Permutation_middle. Qed.
Lemma cols_of_inc (u : state) l : (l < length u)%nat -> Permutation (cols_of (inc u l)) (l :: cols_of u).
Proof. intros H. apply (rows_from_inc u l 0 H). Qed.

(* ---- recursion equations with the weight written as a factor ---- *)
Definition wt (t : state) (j : nat) : R := if (0 <? nth j t 0)%nat then of_nat (nth j t 0%nat) else k0.
Lemma permS_cons (U : mat) m k cols t :
  permS U m (k :: cols) t = sumn m (fun j => wt t j * U j k * permS U m cols (dec t j)).
Proof. cbn [permS]. apply sumn_ext. intros j _. unfold wt. destruct (0 <? nth j t 0)%nat; ring. Qed.

Lemma permS_ext (U U' : mat) m cols : meq m U U' -> Forall (fun k => (k < m)%nat) cols ->
  forall t, permS U m cols t = permS U' m cols t.
Proof. intros HU. induction cols as [|k cols IH]; intros Hc t. reflexivity.
  inversion Hc; subst. rewrite !permS_cons. apply sumn_ext. intros j Hj. rewrite HU, IH; auto. Qed.

(* ---------------- (H): the Fock-space homomorphism ---------------- *)
Theorem fock_hom (A B : mat) m cols : forall t,
  permS (mmul m A B) m cols t =
  suml (allstates m (length cols)) (fun u => permS A m (cols_of u) t * slos B m cols u).
Proof.
  induction cols as [|k cols IH]; intros t.
  - cbn [length]. rewrite allstates_zero. cbn [suml permS slos]. unfold cols_of, rows_of.
    rewrite rows_from_zero. cbn [permS].
    replace (all_zero (repeat 0%nat m)) with true. ring.
    clear. induction m; simpl; auto.
  - cbn [length]. set (n := length cols) in *.
    transitivity (sumn m (fun j => sumn m (fun l => suml (allstates m n) (fun u =>
       wt t j * (A j l * B l k) * (permS A m (cols_of u) (dec t j) * slos B m cols u))))).
    + rewrite permS_cons. apply sumn_ext; intros j _. rewrite IH. unfold mmul.
      rewrite <- sumn_scal, <- sumn_scal_r. apply sumn_ext; intros l _.
      rewrite <- suml_scal. reflexivity.
    + transitivity (sumn m (fun l => suml (allstates m (S n)) (fun u =>
         if (0 <? nth l u 0)%nat then permS A m (cols_of u) t * (B l k * slos B m cols (dec u l)) else k0))).
      2:{ rewrite <- suml_sumn_swap. apply suml_ext; intros u. cbn [slos]. rewrite <- sumn_scal.
          apply sumn_ext. intros l _. destruct (0 <? nth l u 0)%nat; ring. }
      rewrite sumn_swap. apply sumn_ext; intros l Hl.
      rewrite suml_allstates_inc by exact Hl.
      rewrite <- suml_sumn_swap. apply suml_ext_in; intros u Hu.
      apply allstates_sound in Hu. destruct Hu as [Lu _].
      rewrite dec_inc. rewrite (permS_col_perm R A m _ _ (cols_of_inc u l ltac:(lia))).
      rewrite permS_cons. rewrite <- sumn_scal_r. apply sumn_ext; intros j _. ring.
Qed.
End FockHom.

(* ------------------------------------------------------------------------------------------ *)
(* the permanent of the transposed submatrix: expansion along the first row *)
Section Transpose.
Variable R : cring.
Add Ring Rring'' : (Kth R).
Open Scope K_scope.
Notation mat := (mat R).

Definition mtr (U : mat) : mat := fun i j => U j i.
Definition mconj (U : mat) : mat := fun i j => kconj (U i j).

Lemma sum_pos_zero l : forall F : nat -> list nat -> R, (forall a r, F a r = k0) -> sum_pos l F = k0.
Proof. induction l as [|a l IH]; simpl; intros F H. reflexivity. rewrite H, IH. ring. intros; apply H. Qed.
Lemma sum_pos_add l : forall F G : nat -> list nat -> R,
  sum_pos l (fun a r => F a r + G a r) = sum_pos l F + sum_pos l G.
Proof. induction l as [|a l IH]; simpl; intros F G. ring. rewrite IH. ring. Qed.
Lemma sum_pos_scal l : forall (c : R) (F : nat -> list nat -> R),
  sum_pos l (fun a r => c * F a r) = c * sum_pos l F.
Proof. induction l as [|a l IH]; simpl; intros c F. ring. rewrite IH. ring. Qed.
Lemma sum_pos_swap l1 : forall l2 (G : nat -> list nat -> nat -> list nat -> R),
  sum_pos l1 (fun a r => sum_pos l2 (fun b s => G a r b s)) =
  sum_pos l2 (fun b s => sum_pos l1 (fun a r => G a r b s)).
Proof. induction l1 as [|a l1 IH]; intros l2 G; simpl.
  - symmetry. apply sum_pos_zero. reflexivity.
  - rewrite IH. rewrite <- sum_pos_add. reflexivity. Qed.

Variable U : mat.

(* Laplace expansion along the first row *)
Lemma permR_row_expand cols : forall a rows,
  permR U cols (a :: rows) = sum_pos cols (fun k rest => U a k * permR U rest rows).
Proof. induction cols as [|k cols IH]; intros a rows. reflexivity.
  cbn [permR sum_pos]. f_equal.
  transitivity (sum_pos rows (fun a' rest => sum_pos cols (fun k' rest' =>
     U a' k * (U a k' * permR U rest' rest)))).
  { apply sum_pos_ext. intros a' rest. rewrite IH. rewrite sum_pos_scal. reflexivity. }
  rewrite sum_pos_swap. apply sum_pos_ext. intros k' rest'. cbn [permR].
  rewrite <- sum_pos_scal. apply sum_pos_ext. intros a' rest. ring. Qed.

Theorem permR_transpose rows : forall cols, permR U cols rows = permR (mtr U) rows cols.
Proof. induction rows as [|a rows IH]; intros cols.
  - destruct cols; reflexivity.
  - rewrite permR_row_expand. cbn [permR]. apply sum_pos_ext. intros k rest. rewrite IH. reflexivity. Qed.
End Transpose.
Arguments mtr {_}. Arguments mconj {_}.

Section Symmetry.
Variable R : cring.
Add Ring Rring3 : (Kth R).
Open Scope K_scope.
Notation mat := (mat R).

(* perm(U^T[s|u]) = perm(U[u|s]) *)
Theorem permS_transpose (U : mat) m s u : length s = m -> length u = m ->
  permS (mtr U) m (cols_of u) s = permS U m (cols_of s) u.
Proof. intros Hs Hu. rewrite <- (permR_permS R (mtr U) m (cols_of u) s Hs).
  rewrite <- (permR_permS R U m (cols_of s) u Hu). symmetry. apply permR_transpose. Qed.

Lemma permS_mconj (U : mat) m cols : forall t, permS (mconj U) m cols t = kconj (permS U m cols t).
Proof. induction cols as [|k cols IH]; intros t; cbn [permS].
  - destruct (all_zero t). symmetry; apply conj_one. symmetry; apply conj_zero.
  - rewrite sumn_conj. apply sumn_ext. intros j _. destruct (0 <? nth j t 0)%nat.
    + rewrite !conj_mul, conj_of_nat, IH. reflexivity.
    + symmetry; apply conj_zero. Qed.
Lemma slos_mconj (U : mat) m cols : forall t, slos (mconj U) m cols t = kconj (slos U m cols t).
Proof. induction cols as [|k cols IH]; intros t; cbn [slos].
  - destruct (all_zero t). symmetry; apply conj_one. symmetry; apply conj_zero.
  - rewrite sumn_conj. apply sumn_ext. intros j _. destruct (0 <? nth j t 0)%nat.
    + rewrite !conj_mul, IH. reflexivity.
    + symmetry; apply conj_zero. Qed.

(* <s|U^dagger|u> = conj <u|U|s> *)
Theorem permS_madj (U : mat) m s u : length s = m -> length u = m ->
  permS (madj U) m (cols_of u) s = kconj (permS U m (cols_of s) u).
Proof. intros Hs Hu. change (madj U) with (mtr (mconj U)).
  rewrite permS_transpose by assumption. apply permS_mconj. Qed.

(* ---- the identity matrix ---- *)
Fixpoint occ (m : nat) (cols : list nat) : state :=
  match cols with [] => repeat 0%nat m | k :: r => inc (occ m r) k end.
Lemma occ_length m cols : length (occ m cols) = m.
Proof. induction cols; simpl. apply repeat_length. rewrite inc_length. exact IHcols. Qed.
Lemma all_zero_eqb (t : state) : all_zero t = state_eqb t (repeat 0%nat (length t)).
Proof. induction t as [|x t IH]; simpl. reflexivity. rewrite IH. reflexivity. Qed.
Lemma state_eqb_refl (t : state) : state_eqb t t = true.
Proof. apply state_eqb_eq. reflexivity. Qed.

Lemma permS_mid_occ m cols : Forall (fun k => (k < m)%nat) cols -> forall t, length t = m ->
  permS (mid (R:=R)) m cols t = if state_eqb t (occ m cols) then of_nat (factprod t) else k0.
Proof. induction cols as [|k cols IH]; intros Hc t Ht.
  - cbn [permS occ]. rewrite all_zero_eqb, Ht. destruct (state_eqb t (repeat 0%nat m)) eqn:E; auto.
    rewrite factprod_zero. simpl. ring. rewrite all_zero_eqb, Ht. exact E.
  - inversion Hc; subst. cbn [permS occ]. rewrite (sumn_single R (length t) _ k H1).
    2:{ intros l _ Hne. unfold mid. rewrite delta_neq by exact Hne. destruct (0 <? nth l t 0)%nat; ring. }
    unfold mid. rewrite delta_refl.
    destruct (0 <? nth k t 0)%nat eqn:E.
    + apply Nat.ltb_lt in E. rewrite IH by (auto; apply dec_length).
      destruct (state_eqb (dec t k) (occ (length t) cols)) eqn:E2.
      * apply state_eqb_eq in E2. rewrite <- E2, (inc_dec t k E), state_eqb_refl.
        rewrite <- (factprod_dec t k E), of_nat_mul. ring.
      * destruct (state_eqb t (inc (occ (length t) cols) k)) eqn:E3; [|ring].
        apply state_eqb_eq in E3. rewrite E3 in E2 at 1. rewrite dec_inc, state_eqb_refl in E2. discriminate.
    + apply Nat.ltb_ge in E. destruct (state_eqb t (inc (occ (length t) cols) k)) eqn:E3; [|reflexivity].
      apply state_eqb_eq in E3. rewrite E3 in E at 1. rewrite nth_inc_same in E. lia.
      rewrite occ_length. exact H1. Qed.

Lemma inc_middle j0 : forall y (r : state), inc (repeat 0%nat j0 ++ y :: r) j0 = repeat 0%nat j0 ++ S y :: r.
Proof. induction j0; intros; simpl. reflexivity. rewrite IHj0. reflexivity. Qed.
Lemma occ_repeat m j0 x cols : forall y r, occ m cols = repeat 0%nat j0 ++ y :: r ->
  occ m (repeat j0 x ++ cols) = repeat 0%nat j0 ++ (x + y)%nat :: r.
Proof. induction x as [|x IH]; intros y r H; simpl. exact H.
  rewrite (IH y r H). apply inc_middle. Qed.
Lemma occ_rows_from (post : state) : forall j0, occ (j0 + length post) (rows_from j0 post) = repeat 0%nat j0 ++ post.
Proof. induction post as [|x post IH]; intros j0.
  - simpl. rewrite Nat.add_0_r, app_nil_r. reflexivity.
  - cbn [rows_from length]. rewrite (occ_repeat _ j0 x _ 0%nat post). rewrite Nat.add_0_r. reflexivity.
    replace (j0 + S (length post))%nat with (S j0 + length post)%nat by lia. rewrite IH.
    clear. induction j0; simpl. reflexivity. simpl in IHj0. rewrite IHj0. reflexivity. Qed.
Lemma occ_cols_of (s : state) : occ (length s) (cols_of s) = s.
Proof. apply (occ_rows_from s 0). Qed.

(* <t|1|s> * sqrt(prod s! prod t!) = prod s! if s = t, else 0 *)
Theorem permS_mid m s t : length s = m -> length t = m ->
  permS (mid (R:=R)) m (cols_of s) t = if state_eqb s t then of_nat (factprod s) else k0.
Proof. intros Hs Ht. rewrite permS_mid_occ; auto.
  2:{ rewrite <- Hs. apply cols_of_bound. }
  rewrite <- Hs, occ_cols_of. destruct (state_eqb t s) eqn:E.
  - apply state_eqb_eq in E. subst. rewrite state_eqb_refl. reflexivity.
  - destruct (state_eqb s t) eqn:E'; auto. apply state_eqb_eq in E'. subst. rewrite state_eqb_refl in E. discriminate. Qed.
End Symmetry.

(* ------------------------------------------------------------------------------------------ *)
Section Corollaries.
Variable R : cring.
Add Ring Rring4 : (Kth R).
Open Scope K_scope.
Notation mat := (mat R).

Lemma in_down_from' n a : (a <= n)%nat -> In a (down_from n).
Proof. induction n; simpl; intros H. left; lia.
  destruct (Nat.eq_dec a (S n)). left; congruence. right. apply IHn. lia. Qed.
Lemma allstates_in m : forall n t, length t = m -> total t = n -> In t (allstates m n).
Proof. induction m as [|m IH]; intros n t Hl Ht.
  - destruct t; [|discriminate]. unfold total in Ht. simpl in Ht. subst. simpl. left. reflexivity.
  - destruct t as [|a t]; [discriminate|]. cbn [allstates]. apply in_flat_map. exists a. split.
    + apply in_down_from'. unfold total in Ht. simpl in Ht. lia.
    + apply in_map. apply IH. simpl in Hl. lia. unfold total in *. simpl in Ht. lia. Qed.

Lemma amp_ext (U U' : mat) m s t : meq m U U' -> length s = m -> amp_num U m s t = amp_num U' m s t.
Proof. intros HU Hs. unfold amp_num. destruct (total s =? total t)%nat; auto.
  apply permS_ext. exact HU. rewrite <- Hs. apply cols_of_bound. Qed.

(* (H) for the amplitude numerators: zero photon-number mismatch included, any s and t *)
Theorem amp_hom (A B : mat) m s t :
  amp_num (mmul m A B) m s t = suml (allstates m (total s)) (fun u => amp_num A m u t * slos_coef B m s u).
Proof. unfold amp_num, slos_coef. destruct (total s =? total t)%nat eqn:E.
  - rewrite fock_hom, cols_of_length. apply suml_ext_in. intros u Hu. apply allstates_sound in Hu as [_ Tu].
    rewrite Tu, E. reflexivity.
  - symmetry. apply suml_zero. intros u Hu. apply allstates_sound in Hu as [_ Tu]. rewrite Tu, E. ring. Qed.

(* the same with the division by prod u! written as a multiplication by its inverse w u *)
Theorem amp_hom_w (A B : mat) m s t (w : state -> R) :
  (forall u, In u (allstates m (total s)) -> of_nat (factprod u) * w u = k1) ->
  amp_num (mmul m A B) m s t = suml (allstates m (total s)) (fun u => amp_num A m u t * amp_num B m s u * w u).
Proof. intros Hw. rewrite amp_hom. apply suml_ext_in. intros u Hu. pose proof (Hw u Hu) as E.
  apply allstates_sound in Hu as [_ Tu]. unfold slos_coef. unfold amp_num at 3. rewrite Tu, Nat.eqb_refl.
  rewrite permS_slos.
  transitivity (amp_num A m u t * slos B m (cols_of s) u * (of_nat (factprod u) * w u)). rewrite E; ring. ring. Qed.

(* the same with every term multiplied by a common multiple N of the prod u!  (c u = N / prod u!) *)
Theorem fock_hom_common_multiple (A B : mat) m cols t (N : nat) (c : state -> nat) :
  (forall u, In u (allstates m (length cols)) -> (c u * factprod u = N)%nat) ->
  of_nat N * permS (mmul m A B) m cols t =
  suml (allstates m (length cols)) (fun u => of_nat (c u) * (permS A m (cols_of u) t * permS B m cols u)).
Proof. intros Hc. rewrite fock_hom, <- suml_scal. apply suml_ext_in. intros u Hu.
  rewrite <- (Hc u Hu), of_nat_mul, (permS_slos R B m cols u). ring. Qed.

(* ---------------- (C1): the output distribution of a unitary sums to one ---------------- *)
(* |amp|^2 / prod t! = amp_num * conj(slos_coef);  the sum over all outputs is prod s! *)
Theorem dist_sums_to_one (U : mat) m s : unitary m U -> length s = m ->
  suml (allstates m (total s)) (fun t => amp_num U m s t * kconj (slos_coef U m s t)) = of_nat (factprod s).
Proof. intros [_ HU] Hs.
  pose proof (fock_hom R (madj U) U m (cols_of s) s) as H.
  rewrite (permS_ext R _ mid m (cols_of s) HU) in H by (rewrite <- Hs; apply cols_of_bound).
  rewrite (permS_mid R m s s Hs Hs), state_eqb_refl, cols_of_length in H.
  rewrite H. apply suml_ext_in. intros u Hu. apply allstates_sound in Hu as [Lu Tu].
  unfold amp_num, slos_coef. rewrite Tu, Nat.eqb_refl. rewrite permS_madj by assumption.
  rewrite permS_slos, conj_mul, conj_of_nat. ring. Qed.

(* with probabilities |amp_num|^2 / norm2 s t, the division written as multiplication by an inverse p t *)
Theorem dist_sums_to_one_prob (U : mat) m s (p : state -> R) : unitary m U -> length s = m ->
  (forall t, In t (allstates m (total s)) -> of_nat (norm2 s t) * p t = k1) ->
  suml (allstates m (total s)) (fun t => amp_num U m s t * kconj (amp_num U m s t) * p t) = k1.
Proof. intros HU Hs Hp.
  set (X := suml (allstates m (total s)) (fun t => amp_num U m s t * kconj (amp_num U m s t) * p t)).
  assert (E : of_nat (factprod s) * X = of_nat (factprod s)).
  { unfold X. rewrite <- suml_scal. etransitivity; [|exact (dist_sums_to_one U m s HU Hs)].
    apply suml_ext_in. intros t Ht. pose proof (Hp t Ht) as Et. apply allstates_sound in Ht as [_ Tt].
    unfold norm2 in Et. rewrite of_nat_mul in Et.
    unfold slos_coef. unfold amp_num at 2. rewrite Tt, Nat.eqb_refl. rewrite permS_slos, conj_mul, conj_of_nat.
    transitivity (amp_num U m s t * kconj (slos U m (cols_of s) t) * (of_nat (factprod s) * of_nat (factprod t) * p t)).
    ring. rewrite Et. ring. }
  pose proof (Hp s (allstates_in m (total s) s Hs eq_refl)) as Es. unfold norm2 in Es. rewrite of_nat_mul in Es.
  transitivity (of_nat (factprod s) * p s * (of_nat (factprod s) * X)).
  { transitivity (of_nat (factprod s) * of_nat (factprod s) * p s * X). rewrite Es. ring. ring. }
  rewrite E. rewrite <- Es. ring. Qed.

(* ---------------- (C2): evolving component by component ---------------- *)
(* one component acting on a vector of amplitude numerators indexed by the states of (m, n):
   a'(t) = sum_u <t|A|u>-numerator * a(u) / prod u!   (w u = 1 / prod u!) *)
Definition step (w : state -> R) m n (A : mat) (v : state -> R) : state -> R :=
  fun t => suml (allstates m n) (fun u => amp_num A m u t * v u * w u).
(* the components in the order the light crosses them *)
Definition run (w : state -> R) m n (l : list mat) (v : state -> R) : state -> R :=
  fold_left (fun v A => step w m n A v) l v.

Lemma step_ext w m n A v v' : (forall u, In u (allstates m n) -> v u = v' u) ->
  forall t, step w m n A v t = step w m n A v' t.
Proof. intros H t. unfold step. apply suml_ext_in. intros u Hu. rewrite (H u Hu). reflexivity. Qed.
Lemma run_ext w m n l : forall v v', (forall u, v u = v' u) -> forall t, run w m n l v t = run w m n l v' t.
Proof. induction l as [|A l IH]; intros v v' H t. apply H.
  change (run w m n (A :: l) v t) with (run w m n l (step w m n A v) t).
  change (run w m n (A :: l) v' t) with (run w m n l (step w m n A v') t).
  apply (IH (step w m n A v) (step w m n A v')). intros u. apply step_ext. intros; apply H. Qed.
Lemma run_ext_in w m n l : forall v v', (forall u, In u (allstates m n) -> v u = v' u) ->
  forall t, In t (allstates m n) -> run w m n l v t = run w m n l v' t.
Proof. destruct l as [|A l]; intros v v' H t Ht. apply H; exact Ht.
  change (run w m n (A :: l) v t) with (run w m n l (step w m n A v) t).
  change (run w m n (A :: l) v' t) with (run w m n l (step w m n A v') t).
  apply (run_ext w m n l). intros u. apply step_ext. exact H. Qed.

Section Stepper.
Variable w : state -> R.
Variable m : nat.
Variable s : state.
Hypothesis Hs : length s = m.
Hypothesis Hw : forall u, In u (allstates m (total s)) -> of_nat (factprod u) * w u = k1.

(* one step is (H) *)
Theorem step_is_spec (A B : mat) t :
  step w m (total s) A (amp_num B m s) t = amp_num (mmul m A B) m s t.
Proof. symmetry. apply amp_hom_w. exact Hw. Qed.

Lemma run_amp l : forall (B : mat) t,
  run w m (total s) l (amp_num B m s) t = amp_num (mmul m (oprod m l) B) m s t.
Proof. induction l as [|A l IH]; intros B t.
  - cbn [run fold_left oprod]. apply amp_ext; auto. symmetry. apply mmul_id_l.
  - change (run w m (total s) (A :: l) (amp_num B m s) t)
      with (run w m (total s) l (step w m (total s) A (amp_num B m s)) t).
    rewrite (run_ext w m (total s) l _ (amp_num (mmul m A B) m s)) by (intros u; apply step_is_spec).
    rewrite IH. cbn [oprod]. apply amp_ext; auto. symmetry. apply mmul_assoc. Qed.

(* starting from the input basis state (whose amplitude-numerator vector is amp_num of the identity)
   and crossing the components one after the other gives the amplitudes of the product matrix *)
Theorem stepper_is_spec l t :
  run w m (total s) l (amp_num mid m s) t = amp_num (oprod m l) m s t.
Proof. rewrite run_amp. apply amp_ext; auto. apply mmul_id_r. Qed.

(* the starting vector written out: prod s! on s, zero elsewhere *)
Theorem stepper_is_spec_basis l t : In t (allstates m (total s)) ->
  run w m (total s) l (fun u => if state_eqb s u then of_nat (factprod s) else k0) t = amp_num (oprod m l) m s t.
Proof. intros Ht. rewrite <- stepper_is_spec. apply run_ext_in; auto.
  intros u Hu. apply allstates_sound in Hu as [Lu Tu]. unfold amp_num. rewrite Tu, Nat.eqb_refl.
  symmetry. apply permS_mid; auto. Qed.
End Stepper.

(* ---------------- the list form of (H): multilinearity in the columns ---------------- *)
Fixpoint sum_lists (m n : nat) (F : list nat -> R) : R :=
  match n with O => F [] | S n' => sumn m (fun l => sum_lists m n' (fun ls => F (l :: ls))) end.
Fixpoint prodB (B : mat) (ls cols : list nat) : R :=
  match ls, cols with l :: ls', k :: cols' => B l k * prodB B ls' cols' | _, _ => k1 end.

Lemma sum_lists_ext m n : forall F G, (forall ls, F ls = G ls) -> sum_lists m n F = sum_lists m n G.
Proof. induction n as [|n IH]; intros F G H; simpl. apply H. apply sumn_ext. intros l _. apply IH. intros; apply H. Qed.
Lemma sum_lists_scal m n : forall c F, sum_lists m n (fun ls => c * F ls) = c * sum_lists m n F.
Proof. induction n as [|n IH]; intros c F; simpl. reflexivity.
  rewrite <- sumn_scal. apply sumn_ext. intros l _. apply IH. Qed.
Lemma sum_lists_sumn m n k : forall F : list nat -> nat -> R,
  sum_lists m n (fun ls => sumn k (fun j => F ls j)) = sumn k (fun j => sum_lists m n (fun ls => F ls j)).
Proof. induction n as [|n IH]; intros F; simpl. reflexivity.
  rewrite sumn_swap. apply sumn_ext. intros l _. apply IH. Qed.

(* permS (A.B) [k1..kn] t = sum over (l1..ln) in [0,m)^n of prod_i B[l_i,k_i] * permS A [l1..ln] t *)
Theorem fock_hom_lists (A B : mat) m cols : forall t,
  permS (mmul m A B) m cols t = sum_lists m (length cols) (fun ls => prodB B ls cols * permS A m ls t).
Proof. induction cols as [|k cols IH]; intros t.
  - cbn [length sum_lists prodB permS]. ring.
  - cbn [length sum_lists]. rewrite permS_cons.
    transitivity (sumn m (fun j => sumn m (fun l => sum_lists m (length cols) (fun ls =>
      wt R t j * (A j l * B l k) * (prodB B ls cols * permS A m ls (dec t j)))))).
    + apply sumn_ext; intros j _. rewrite IH. unfold mmul.
      rewrite <- sumn_scal, <- sumn_scal_r. apply sumn_ext; intros l _.
      rewrite <- sum_lists_scal. reflexivity.
    + rewrite sumn_swap. apply sumn_ext; intros l _. rewrite <- sum_lists_sumn.
      apply sum_lists_ext. intros ls. cbn [prodB]. rewrite permS_cons. rewrite <- sumn_scal.
      apply sumn_ext. intros j _. ring. Qed.
End Corollaries.
Arguments step {_}. Arguments run {_}. Arguments sum_lists {_}. Arguments prodB {_}.

(* ------------------------------------------------------------------------------------------ *)
(* the common multiple n!: each intermediate state u arises from n! / prod u! lists of modes *)
Lemma fact_binom n : forall a b, (a + b = n)%nat -> exists c, (c * (fact a * fact b) = fact n)%nat.
Proof. induction n as [|n IH]; intros a b H.
  - assert (a = 0%nat) by lia. assert (b = 0%nat) by lia. subst. exists 1%nat. reflexivity.
  - destruct a as [|a].
    { exists 1%nat. simpl in H. subst b. simpl fact at 1. lia. }
    destruct b as [|b].
    { exists 1%nat. assert (n = a) by lia. subst n. simpl fact at 2. lia. }
    destruct (IH a (S b) ltac:(lia)) as [c1 H1]. destruct (IH (S a) b ltac:(lia)) as [c2 H2].
    exists (c1 + c2)%nat.
    change (fact (S n)) with (S n * fact n)%nat.
    transitivity (S a * (c1 * (fact a * fact (S b))) + S b * (c2 * (fact (S a) * fact b)))%nat.
    + change (fact (S a)) with (S a * fact a)%nat. change (fact (S b)) with (S b * fact b)%nat. ring.
    + rewrite H1, H2. replace (S n) with (S a + S b)%nat by lia. ring. Qed.
Lemma factprod_divides (u : state) : exists c, (c * factprod u = fact (total u))%nat.
Proof. induction u as [|x u [c' IH]]. exists 1%nat. reflexivity.
  destruct (fact_binom (x + total u) x (total u) eq_refl) as [b Hb].
  exists (b * c')%nat. change (total (x :: u)) with (x + total u)%nat. cbn [factprod].
  rewrite <- Hb, <- IH. ring. Qed.
Lemma factprod_pos (u : state) : (factprod u <> 0)%nat.
Proof. induction u as [|x u IH]; simpl. lia. pose proof (fact_neq_0 x). nia. Qed.
Definition multinom (u : state) : nat := (fact (total u) / factprod u)%nat.
Lemma multinom_spec (u : state) : (multinom u * factprod u = fact (total u))%nat.
Proof. destruct (factprod_divides u) as [c H]. unfold multinom. rewrite <- H.
  rewrite Nat.div_mul by apply factprod_pos. reflexivity. Qed.

Theorem fock_hom_multinomial (R : cring) (A B : mat R) m cols t :
  kmul (of_nat (fact (length cols))) (permS (mmul m A B) m cols t) =
  suml (allstates m (length cols))
    (fun u => kmul (of_nat (multinom u)) (kmul (permS A m (cols_of u) t) (permS B m cols u))).
Proof. apply fock_hom_common_multiple. intros u Hu. apply allstates_sound in Hu as [_ Tu].
  rewrite <- Tu. apply multinom_spec. Qed.
