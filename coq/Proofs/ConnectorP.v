(* Proofs about the mode connector and the composition of experiments (C10). *)
From PV Require Import Model.Connector Proofs.ComponentsP.
From Coq Require Import ZArith List Bool Lia Permutation Setoid Morphisms.
Import ListNotations.
Local Open Scope nat_scope.

(* ------------------------------------------------------------------ permutations as lists *)
Definition permok (p : list nat) : Prop := NoDup p /\ forall x, In x p <-> x < length p.

Lemma existsb_mem i p : existsb (Nat.eqb i) p = true <-> In i p.
Proof. rewrite existsb_exists. split. intros [x [H E]]. apply Nat.eqb_eq in E. subst; auto.
  intros H. exists i. split; auto. apply Nat.eqb_refl. Qed.

Lemma is_perm_ok p : is_perm p = true <-> permok p.
Proof. unfold is_perm, permok. rewrite forallb_forall. split.
  - intros H.
    assert (Hincl : incl (seq 0 (length p)) p).
    { intros x Hx. apply existsb_mem. apply H. exact Hx. }
    assert (Hlen : length p <= length (seq 0 (length p))) by (rewrite seq_length; lia).
    split. eapply NoDup_incl_NoDup; [apply seq_NoDup | exact Hlen | exact Hincl].
    intros x. split.
    + intros Hx. pose proof (NoDup_length_incl (seq_NoDup (length p) 0) Hlen Hincl x Hx) as H1.
      apply in_seq in H1. lia.
    + intros Hx. apply Hincl. apply in_seq. lia.
  - intros [_ H] x Hx. apply in_seq in Hx. apply existsb_mem. apply H. lia. Qed.

Lemma index_of_lt v p : In v p -> index_of v p < length p.
Proof. induction p as [|x r IH]; simpl. tauto. intros [->|H]. rewrite Nat.eqb_refl. lia.
  destruct (x =? v); [lia|]. specialize (IH H). lia. Qed.
Lemma nth_index_of v p : In v p -> nth (index_of v p) p 0 = v.
Proof. induction p as [|x r IH]; simpl. tauto. intros H. destruct (x =? v) eqn:E.
  apply Nat.eqb_eq in E. auto. destruct H as [->|H]. rewrite Nat.eqb_refl in E. discriminate. auto. Qed.
Lemma index_of_nth p i : NoDup p -> i < length p -> index_of (nth i p 0) p = i.
Proof. revert i. induction p as [|x r IH]; simpl; intros i Hn Hi. lia.
  inversion Hn as [|? ? Hx Hr]; subst. destruct i as [|i]. rewrite Nat.eqb_refl. reflexivity.
  destruct (x =? nth i r 0) eqn:E.
  - apply Nat.eqb_eq in E. exfalso. apply Hx. subst. apply nth_In. lia.
  - f_equal. apply IH; auto. lia. Qed.

Lemma invert_length p : length (invert p) = length p.
Proof. unfold invert. rewrite map_length, seq_length. reflexivity. Qed.
Lemma invert_nth p i : i < length p -> nth i (invert p) 0 = index_of i p.
Proof. intros H. unfold invert.
  rewrite (nth_indep _ 0 (index_of 0 p)) by (rewrite map_length, seq_length; exact H).
  rewrite (map_nth (fun i => index_of i p)). rewrite seq_nth by exact H. reflexivity. Qed.

Lemma permok_nth_lt p i : permok p -> i < length p -> nth i p 0 < length p.
Proof. intros [_ H] Hi. apply H. apply nth_In. exact Hi. Qed.

(* pfun of the inverse vector is the inverse function, and both stay below any size containing the block *)
Lemma pfun_lt mn p n i : permok p -> mn + length p <= n -> i < n -> pfun mn p i < n.
Proof. intros Hp Hn Hi. unfold pfun. destruct (inb mn (length p) i) eqn:E; [|exact Hi].
  apply inb_true in E. pose proof (permok_nth_lt p (i - mn) Hp). lia. Qed.
Lemma pfun_inv_l mn p i : permok p -> pfun mn (invert p) (pfun mn p i) = i.
Proof. intros Hp. unfold pfun at 2. destruct (inb mn (length p) i) eqn:E.
  - apply inb_true in E. pose proof (permok_nth_lt p (i - mn) Hp ltac:(lia)) as Hl.
    unfold pfun. rewrite invert_length.
    replace (inb mn (length p) (mn + nth (i - mn) p 0)) with true by (symmetry; apply inb_true; lia).
    replace (mn + nth (i - mn) p 0 - mn) with (nth (i - mn) p 0) by lia.
    rewrite invert_nth by exact Hl. rewrite index_of_nth; [lia | exact (proj1 Hp) | lia].
  - unfold pfun. rewrite invert_length, E. reflexivity. Qed.
Lemma pfun_inv_r mn p i : permok p -> pfun mn p (pfun mn (invert p) i) = i.
Proof. intros Hp. unfold pfun at 2. rewrite invert_length. destruct (inb mn (length p) i) eqn:E.
  - apply inb_true in E. rewrite invert_nth by lia.
    assert (Hin : In (i - mn) p) by (apply Hp; lia).
    pose proof (index_of_lt _ _ Hin) as Hl. unfold pfun.
    replace (inb mn (length p) (mn + index_of (i - mn) p)) with true by (symmetry; apply inb_true; lia).
    replace (mn + index_of (i - mn) p - mn) with (index_of (i - mn) p) by lia.
    rewrite nth_index_of by exact Hin. lia.
  - unfold pfun. rewrite E. reflexivity. Qed.
Lemma invert_permok_lt mn p n i : permok p -> mn + length p <= n -> i < n -> pfun mn (invert p) i < n.
Proof. intros Hp Hn Hi. unfold pfun. rewrite invert_length. destruct (inb mn (length p) i) eqn:E; [|exact Hi].
  apply inb_true in E. rewrite invert_nth by lia.
  assert (Hin : In (i - mn) p) by (apply Hp; lia). pose proof (index_of_lt _ _ Hin). lia. Qed.

(* ------------------------------------------------------------------ the inserted segment *)
Section Seg.
Variable R : cring.
Add Ring Rring2 : (Kth R).
Open Scope K_scope.

(* the PERM component placed on modes mn.. is the permutation matrix of pfun *)
Lemma perm_block_pmat n mn p : permok p ->
  meq n (perm_block (R:=R) mn p) (pmat (pfun mn p)).
Proof. intros Hp i j _ _. unfold perm_block, embed, pmat, perm_mat, pmat, perm_fun, pfun.
  destruct (inb mn (length p) j) eqn:Ej.
  - apply inb_true in Ej. pose proof (permok_nth_lt p (j - mn) Hp ltac:(lia)) as Hl.
    destruct (inb mn (length p) i) eqn:Ei; simpl.
    + apply inb_true in Ei. rewrite (nth_indep p (j - mn)%nat 0%nat) by lia.
      unfold delta. destruct (i - mn =? nth (j - mn) p 0)%nat eqn:E1.
      * apply Nat.eqb_eq in E1. replace (i =? mn + nth (j - mn) p 0)%nat with true; auto.
        symmetry. apply Nat.eqb_eq. lia.
      * apply Nat.eqb_neq in E1. replace (i =? mn + nth (j - mn) p 0)%nat with false; auto.
        symmetry. apply Nat.eqb_neq. lia.
    + apply inb_false in Ei. rewrite !delta_neq by lia. reflexivity.
  - rewrite andb_false_r. reflexivity. Qed.

Lemma mmul_pmat_r n (A : mat R) f i j : (f j < n)%nat -> mmul n A (pmat f) i j = A i (f j).
Proof. intros H. unfold mmul, pmat. apply (sumn_delta_r R n (f j) (fun l => A i l)). exact H. Qed.
Lemma mmul_pmat_l n (A : mat R) f g i j : (g i < n)%nat -> f (g i) = i ->
  (forall l, (l < n)%nat -> f l = i -> l = g i) -> mmul n (pmat f) A i j = A (g i) j.
Proof. intros Hg Hfg Huniq. unfold mmul, pmat. rewrite (sumn_single R n _ (g i) Hg).
  rewrite Hfg, delta_refl. ring.
  intros l Hl Hne. rewrite delta_neq. ring. intros E. apply Hne. apply Huniq; auto. Qed.

(* a plain component: the light of mode j enters the block on mode pfun j and is NOT brought back *)
Theorem comp_step_entry n mn pv k (Uc : mat R) i j : permok pv -> (mn + length pv <= n)%nat ->
  (i < n)%nat -> (j < n)%nat -> comp_step n mn pv k Uc i j = embed mn k Uc i (pfun mn pv j).
Proof. intros Hp Hn Hi Hj. unfold comp_step.
  transitivity (mmul n (embed mn k Uc) (pmat (pfun mn pv)) i j).
  { unfold mmul. apply sumn_ext. intros l Hl. rewrite (perm_block_pmat n mn pv Hp l j Hl Hj). reflexivity. }
  apply mmul_pmat_r. apply pfun_lt; auto. Qed.

(* a processor: conjugation of the embedded block by the permutation *)
Theorem proc_step_entry n mn pv nR (UR : mat R) i j : permok pv -> (mn + length pv <= n)%nat ->
  (i < n)%nat -> (j < n)%nat ->
  proc_step n mn pv nR UR i j = embed mn nR UR (pfun mn pv i) (pfun mn pv j).
Proof. intros Hp Hn Hi Hj. unfold proc_step.
  assert (Hpi : permok (invert pv) -> True) by auto.
  transitivity (mmul n (pmat (pfun mn (invert pv))) (mmul n (embed mn nR UR) (pmat (pfun mn pv))) i j).
  { unfold mmul at 1 3. apply sumn_ext. intros l Hl. f_equal.
    - unfold perm_block, embed, pmat, perm_mat, pmat, perm_fun, pfun. rewrite invert_length.
      destruct (inb mn (length pv) l) eqn:El.
      + apply inb_true in El. rewrite invert_nth by lia.
        assert (Hin : In (l - mn)%nat pv) by (apply Hp; lia). pose proof (index_of_lt _ _ Hin) as Hlt.
        destruct (inb mn (length pv) i) eqn:Ei; simpl.
        * apply inb_true in Ei. rewrite (nth_indep (invert pv) (l - mn)%nat 0%nat) by (rewrite invert_length; lia).
          rewrite invert_nth by lia. unfold delta.
          destruct (i - mn =? index_of (l - mn) pv)%nat eqn:E1.
          -- apply Nat.eqb_eq in E1. replace (i =? mn + index_of (l - mn) pv)%nat with true; auto.
             symmetry. apply Nat.eqb_eq. lia.
          -- apply Nat.eqb_neq in E1. replace (i =? mn + index_of (l - mn) pv)%nat with false; auto.
             symmetry. apply Nat.eqb_neq. lia.
        * apply inb_false in Ei. rewrite !delta_neq by lia. reflexivity.
      + rewrite andb_false_r. reflexivity.
    - unfold mmul. apply sumn_ext. intros l' Hl'. rewrite (perm_block_pmat n mn pv Hp l' j Hl' Hj). reflexivity. }
  rewrite (mmul_pmat_l n _ (pfun mn (invert pv)) (pfun mn pv) i j).
  - apply mmul_pmat_r. apply pfun_lt; auto.
  - apply pfun_lt; auto.
  - apply pfun_inv_l; auto.
  - intros l Hl E. rewrite <- E. symmetry. apply pfun_inv_r; auto. Qed.
End Seg.

(* ------------------------------------------------------------------ post-selection re-expression *)
Fixpoint ps_bound (n : nat) (p : ps) : Prop :=
  match p with
  | PTrue => True
  | PCmp modes _ _ => Forall (fun i => i < n) modes
  | PAnd a b | POr a b | PXor a b => ps_bound n a /\ ps_bound n b
  | PNot a => ps_bound n a
  end.
(* the state seen through f: position r holds what the full state holds on mode f r *)
Definition pullback (f : nat -> nat) (n : nat) (s : state) : state := map (fun r => nth (f r) s 0) (seq 0 n).

Theorem ps_rename_eval f p s n : ps_bound n p -> ps_eval (ps_rename f p) s = ps_eval p (pullback f n s).
Proof. induction p as [|modes op k|a IHa b IHb|a IHa b IHb|a IHa b IHb|a IHa]; simpl; intros H; auto.
  - f_equal. induction modes as [|x r IH]; simpl; auto. inversion H; subst.
    rewrite IH by assumption. f_equal. unfold pullback.
    symmetry. apply (nth_map_seq (fun r => nth (f r) s 0) n x 0). assumption.
  - destruct H. rewrite IHa, IHb; auto.
  - destruct H. rewrite IHa, IHb; auto.
  - destruct H. rewrite IHa, IHb; auto.
  - rewrite IHa; auto. Qed.

Lemma ps_rename_comp f g p : ps_rename g (ps_rename f p) = ps_rename (fun i => g (f i)) p.
Proof. induction p; simpl; try congruence. rewrite map_map. reflexivity. Qed.
Lemma ps_rename_ext f g p : (forall i, f i = g i) -> ps_rename f p = ps_rename g p.
Proof. intros H. induction p; simpl; try congruence. f_equal. apply map_ext. exact H. Qed.

(* where the output of right mode r leaves the inserted segment *)
Definition right_mode (mn : nat) (pv : list nat) (r : nat) : nat := pfun mn (invert pv) (mn + r).

Theorem ps_right_eval mn pv p s nR : ps_bound nR p ->
  ps_eval (ps_right mn pv p) s = ps_eval p (pullback (right_mode mn pv) nR s).
Proof. intros H. unfold ps_right, ps_apply_perm, ps_shift. rewrite ps_rename_comp.
  rewrite (ps_rename_ext _ (right_mode mn pv)). apply ps_rename_eval; auto.
  intros i. unfold right_mode. f_equal. lia. Qed.

(* the code's order coincides with it when the segment starts on mode 0 *)
Theorem ps_code_old_min0 pv p : is_identity pv = false -> ps_code false 0 pv p = ps_right 0 pv p.
Proof. intros H. unfold ps_code, ps_right, ps_shift, ps_apply_perm. rewrite H. rewrite !ps_rename_comp.
  apply ps_rename_ext. intros i. rewrite !Nat.add_0_r. reflexivity. Qed.

Lemma is_identity_seq p : is_identity p = true -> p = seq 0 (length p).
Proof. unfold is_identity. generalize 0 as a. induction p as [|x r IH]; simpl; intros a H; auto.
  apply andb_prop in H as [H1 H2]. apply Nat.eqb_eq in H1. subst. f_equal. apply IH. exact H2. Qed.
Lemma index_of_seq n a i : i < n -> index_of (a + i) (seq a n) = i.
Proof. revert a i. induction n as [|n IH]; simpl; intros a i H. lia.
  destruct i as [|i]. rewrite Nat.add_0_r, Nat.eqb_refl. reflexivity.
  replace (a =? a + S i) with false by (symmetry; apply Nat.eqb_neq; lia).
  f_equal. replace (a + S i) with (S a + i) by lia. apply IH. lia. Qed.
(* ... and when no PERM was needed (the right modes already sit on min, min+1, ...) *)
Theorem ps_code_old_identity mn pv p : is_identity pv = true -> ps_code false mn pv p = ps_right mn pv p.
Proof. intros H. unfold ps_code, ps_right, ps_shift, ps_apply_perm. rewrite H. rewrite ps_rename_comp.
  apply ps_rename_ext. intros i. unfold pfun. rewrite invert_length.
  replace (inb mn (length pv) (i + mn)) with (i <? length pv).
  2:{ unfold inb. destruct (i <? length pv) eqn:E.
      apply Nat.ltb_lt in E. symmetry. apply andb_true_iff. split. apply Nat.leb_le; lia. apply Nat.ltb_lt; lia.
      apply Nat.ltb_ge in E. symmetry. apply andb_false_iff. right. apply Nat.ltb_ge; lia. }
  destruct (i <? length pv) eqn:E; auto. apply Nat.ltb_lt in E.
  replace (i + mn - mn) with i by lia. rewrite invert_nth by exact E.
  pose proof (index_of_seq (length pv) 0 i E) as Hx. rewrite <- (is_identity_seq pv H) in Hx.
  simpl in Hx. rewrite Hx. lia. Qed.

(* the general statement is false of the code: permute-then-shift moves the wrong modes when min > 0 *)
Theorem ps_code_old_refuted : exists mn pv p s,
  permok pv /\ ps_eval (ps_code false mn pv p) s <> ps_eval (ps_right mn pv p) s.
Proof. exists 1, [1; 0], (PCmp [0] CEq 1), [0; 0; 1]. split.
  - apply is_perm_ok. reflexivity.
  - vm_compute. discriminate. Qed.

(* the code as it is now (shift, then permute inside the span): the re-expression, for every mapping *)
Theorem ps_code_now mn pv p : ps_code true mn pv p = ps_right mn pv p.
Proof. unfold ps_code. destruct (is_identity pv) eqn:E; [|reflexivity].
  rewrite <- (ps_code_old_identity mn pv p E). unfold ps_code. rewrite E. reflexivity. Qed.
Theorem ps_code_now_eval mn pv p s nR : ps_bound nR p ->
  ps_eval (ps_code true mn pv p) s = ps_eval p (pullback (right_mode mn pv) nR s).
Proof. rewrite ps_code_now. apply ps_right_eval. Qed.

(* ------------------------------------------------------------------ generate_permutation *)
Lemma lmax_ge l x : In x l -> x <= lmax l.
Proof. induction l as [|y r IH]; simpl. tauto. intros [->|H]. lia. specialize (IH H). lia. Qed.
Lemma lmin_le l x : In x l -> lmin l <= x.
Proof. unfold lmin. generalize (hd 0 l) as d. induction l as [|y r IH]; simpl; intros d. tauto.
  intros [->|H]. lia. specialize (IH d H). lia. Qed.
Lemma lmax_in l : l <> [] -> In (lmax l) l.
Proof. induction l as [|y r IH]; simpl. congruence. intros _. destruct r as [|z r'].
  - simpl. left. lia.
  - destruct (Nat.max_spec y (lmax (z :: r'))) as [[_ E]|[_ E]]; rewrite E.
    right. apply IH. congruence. left. reflexivity. Qed.
Lemma permok_lmax l : permok l -> l <> [] -> S (lmax l) = length l.
Proof. intros [_ H] Hne. pose proof (lmax_in l Hne) as Hin. apply H in Hin.
  assert (In (length l - 1) l) by (apply H; destruct l; simpl in *; [congruence|lia]).
  pose proof (lmax_ge l _ H0). lia. Qed.
Lemma nodup_app {A} (l l' : list A) : NoDup l -> NoDup l' -> (forall x, In x l -> ~ In x l') -> NoDup (l ++ l').
Proof. induction l as [|a r IH]; simpl; intros H1 H2 H3; auto. inversion H1; subst. constructor.
  - rewrite in_app_iff. intros [H|H]; auto. apply (H3 a); auto.
  - apply IH; auto. Qed.
Lemma permok_snoc l : permok l -> permok (l ++ [length l]).
Proof. intros [Hn H]. split.
  - apply nodup_app; auto. constructor; [simpl; tauto|constructor].
    intros x Hx [<-|[]]. apply H in Hx. lia.
  - intros x. rewrite in_app_iff, app_length, H. simpl. lia. Qed.

Lemma keys_app a b : keys (a ++ b) = keys a ++ keys b. Proof. apply map_app. Qed.
Lemma vals_app a b : vals (a ++ b) = vals a ++ vals b. Proof. apply map_app. Qed.

Lemma fill_spec ms : forall m, permok (vals m) -> m <> [] ->
  permok (vals (fill m ms)) /\ keys (fill m ms) = keys m ++ ms /\
  (forall kv, In kv (fill m ms) -> In kv m \/ (In (fst kv) ms /\ length m <= snd kv)) /\
  (forall kv, In kv m -> In kv (fill m ms)).
Proof. induction ms as [|mm r IH]; intros m Hp Hne; simpl.
  - rewrite app_nil_r. split; [exact Hp|]. split; [reflexivity|]. split; intros kv H; auto.
  - assert (Hl : S (lmax (vals m)) = length m).
    { rewrite (permok_lmax _ Hp). apply map_length. intros E. apply Hne. destruct m; simpl in *; congruence. }
    rewrite Hl.
    assert (Hp' : permok (vals (m ++ [(mm, length m)]))).
    { rewrite vals_app. simpl. replace (length m) with (length (vals m)) by apply map_length.
      apply permok_snoc. exact Hp. }
    destruct (IH (m ++ [(mm, length m)]) Hp') as [H1 [H2 [H3 H4]]]. { destruct m; simpl; congruence. }
    split; [exact H1|]. split.
    + rewrite H2, keys_app. simpl. rewrite <- app_assoc. reflexivity.
    + split.
      * intros kv Hin. destruct (H3 kv Hin) as [Hm|[Hk Hv]].
        -- apply in_app_iff in Hm as [Hm|[<-|[]]]; [left; exact Hm|]. right. simpl. split; auto.
        -- right. split; auto. rewrite app_length in Hv. simpl in Hv. lia.
      * intros kv Hin. apply H4. apply in_app_iff. auto. Qed.

Lemma lookup_in m k v : NoDup (keys m) -> In (k, v) m -> lookup m k = v.
Proof. unfold lookup. induction m as [|[k' v'] r IH]; simpl. tauto. intros Hn H.
  inversion Hn as [|? ? Hk Hr]; subst. destruct (k' =? k) eqn:E.
  - apply Nat.eqb_eq in E. subst. destruct H as [H|H]. inversion H; subst; reflexivity.
    exfalso. apply Hk. change k with (fst (k, v)). apply in_map. exact H.
  - destruct H as [H|H]. inversion H; subst. rewrite Nat.eqb_refl in E. discriminate. auto. Qed.
Lemma map_lookup_keys m : NoDup (keys m) -> map (lookup m) (keys m) = vals m.
Proof. intros Hn. unfold keys, vals. rewrite map_map. apply map_ext_in. intros [k v] Hin. simpl.
  apply lookup_in; auto. Qed.

Definition span (m : nmap) : nat := S (lmax (keys m)) - lmin (keys m).
(* the hypotheses on a resolved mapping: distinct left modes, onto exactly the right modes 0..c-1 *)
Definition injective_onto (m : nmap) : Prop := m <> [] /\ NoDup (keys m) /\ permok (vals m).

Lemma filled_keys_perm m : NoDup (keys m) -> permok (vals m) -> m <> [] ->
  Permutation (keys (filled m)) (seq (lmin (keys m)) (span m)) /\ NoDup (keys (filled m)).
Proof. intros Hn Hp Hne. unfold filled. destruct (fill_spec (missing_modes m) m Hp Hne) as [_ [Hk _]]. rewrite Hk.
  assert (Hnd : NoDup (keys m ++ missing_modes m)).
  { apply nodup_app; auto.
    - unfold missing_modes. apply NoDup_filter. apply seq_NoDup.
    - intros x Hx Hm. unfold missing_modes in Hm. apply filter_In in Hm as [_ Hm].
      apply negb_true_iff in Hm. apply existsb_mem in Hx. congruence. }
  split; [|exact Hnd].
  apply NoDup_Permutation. exact Hnd. apply seq_NoDup.
  intros x. rewrite in_app_iff. unfold missing_modes, span. rewrite filter_In, in_seq, negb_true_iff.
  split.
  - intros [H|[H _]]; [|lia]. pose proof (lmin_le _ _ H). pose proof (lmax_ge _ _ H). lia.
  - intros H. destruct (existsb (Nat.eqb x) (keys m)) eqn:E.
    + left. apply existsb_mem. exact E.
    + right. split; auto. Qed.

Lemma permok_Permutation a b : Permutation a b -> permok a -> permok b.
Proof. intros HP [Hn H]. split. eapply Permutation_NoDup; eauto.
  intros x. rewrite <- (Permutation_length HP). rewrite <- H. split; apply Permutation_in; auto.
  apply Permutation_sym; auto. Qed.

(* T-core 1: the generated vector is a permutation of its span *)
Theorem genperm_is_perm m : injective_onto m ->
  permok (perm_vect m) /\ length (perm_vect m) = span m.
Proof. intros [Hne [Hn Hp]]. destruct (filled_keys_perm m Hn Hp Hne) as [HP Hnd].
  assert (Hlen : length (filled m) = span m).
  { rewrite <- (map_length fst (filled m)). fold (keys (filled m)).
    rewrite (Permutation_length HP). apply seq_length. }
  unfold perm_vect. rewrite Hlen. split; [|rewrite map_length; apply seq_length].
  apply (permok_Permutation (vals (filled m))).
  - rewrite <- (map_lookup_keys _ Hnd). apply Permutation_map. exact HP.
  - unfold filled. apply (fill_spec (missing_modes m) m Hp Hne). Qed.

(* T-core 2: every mapped mode is wired: perm_vect[k - min] = v *)
Theorem genperm_wires m k v : injective_onto m -> In (k, v) (filled m) ->
  nth (k - lmin (keys m)) (perm_vect m) 0 = v /\ lmin (keys m) <= k < lmin (keys m) + span m.
Proof. intros [Hne [Hn Hp]] Hin. destruct (filled_keys_perm m Hn Hp Hne) as [HP Hnd].
  assert (Hlen : length (filled m) = span m).
  { rewrite <- (map_length fst (filled m)). fold (keys (filled m)).
    rewrite (Permutation_length HP). apply seq_length. }
  assert (Hk : In k (seq (lmin (keys m)) (span m))).
  { eapply Permutation_in. exact HP. change k with (fst (k, v)). apply in_map. exact Hin. }
  apply in_seq in Hk. split; [|exact Hk].
  unfold perm_vect. rewrite Hlen.
  rewrite (nth_indep _ 0 (lookup (filled m) 0)) by (rewrite map_length, seq_length; lia).
  rewrite (map_nth (lookup (filled m))). rewrite seq_nth by lia.
  replace (lmin (keys m) + (k - lmin (keys m))) with k by lia. apply lookup_in; auto. Qed.

Lemma pfun_mapped m k v : injective_onto m -> In (k, v) (filled m) ->
  pfun (lmin (keys m)) (perm_vect m) k = lmin (keys m) + v.
Proof. intros Hi Hin. destruct (genperm_wires m k v Hi Hin) as [Hw Hr].
  destruct (genperm_is_perm m Hi) as [_ Hl]. unfold pfun. rewrite Hl.
  replace (inb (lmin (keys m)) (span m) k) with true by (symmetry; apply inb_true; lia).
  rewrite Hw. reflexivity. Qed.

(* a left mode that is not a key of the mapping is sent beyond the right-hand modes (or left alone) *)
Lemma pfun_untouched m u : injective_onto m -> ~ In u (keys m) ->
  let mn := lmin (keys m) in ~ (mn <= pfun mn (perm_vect m) u < mn + length m).
Proof. intros Hi Hu mn. destruct Hi as [Hne [Hn Hp]]. destruct (genperm_is_perm m (conj Hne (conj Hn Hp))) as [Hpk Hl].
  destruct (filled_keys_perm m Hn Hp Hne) as [HP Hnd].
  unfold pfun. fold mn. rewrite Hl. destruct (inb mn (span m) u) eqn:E.
  - apply inb_true in E.
    assert (Hin : In u (keys (filled m))).
    { eapply Permutation_in. apply Permutation_sym. exact HP. apply in_seq. exact E. }
    apply in_map_iff in Hin as [[k v] [Hk Hin]]. simpl in Hk. subst k.
    destruct (genperm_wires m u v (conj Hne (conj Hn Hp)) Hin) as [Hw _]. fold mn in Hw. rewrite Hw.
    destruct (fill_spec (missing_modes m) m Hp Hne) as [_ [_ [H3 _]]].
    destruct (H3 (u, v) Hin) as [Hm|[_ Hv]].
    + exfalso. apply Hu. change u with (fst (u, v)). apply in_map. exact Hm.
    + simpl in Hv. lia.
  - apply inb_false in E. unfold span in E. fold mn in E.
    assert (length m <= span m).
    { rewrite <- Hl. unfold perm_vect. rewrite map_length, seq_length.
      unfold filled. destruct (fill_spec (missing_modes m) m Hp Hne) as [_ [Hk _]].
      rewrite <- (map_length fst (fill m (missing_modes m))). fold (keys (fill m (missing_modes m))).
      rewrite Hk, app_length. unfold keys. rewrite map_length. lia. }
    unfold span in H. fold mn in H. lia. Qed.

(* ------------------------------------------------------------------ wiring of the inserted segment *)
Section Wiring.
Variable R : cring.

Lemma delta_pfun mn p a b : permok p -> delta (R:=R) (pfun mn p a) (pfun mn p b) = delta a b.
Proof. intros Hp. unfold delta. destruct (a =? b)%nat eqn:E.
  - apply Nat.eqb_eq in E. subst. rewrite Nat.eqb_refl. reflexivity.
  - apply Nat.eqb_neq in E. replace (pfun mn p a =? pfun mn p b)%nat with false; auto.
    symmetry. apply Nat.eqb_neq. intros H. apply E.
    rewrite <- (pfun_inv_l mn p a Hp), <- (pfun_inv_l mn p b Hp). congruence. Qed.

(* added processor: light leaving left mode k enters right input v = mapping k, and what the right-hand side
   sends from input v to output v' comes back on the left mode k' mapped to v' *)
Theorem proc_wiring n m nR (UR : mat R) k v k' v' :
  injective_onto m -> (lmin (keys m) + span m <= n)%nat -> (v < nR)%nat -> (v' < nR)%nat ->
  In (k, v) (filled m) -> In (k', v') (filled m) ->
  proc_step n (lmin (keys m)) (perm_vect m) nR UR k' k = UR v' v.
Proof. intros Hi Hn Hv Hv' Hk Hk'.
  destruct (genperm_is_perm m Hi) as [Hp Hl].
  destruct (genperm_wires m k v Hi Hk) as [_ Hr]. destruct (genperm_wires m k' v' Hi Hk') as [_ Hr'].
  rewrite proc_step_entry by (auto; lia).
  rewrite (pfun_mapped m k v Hi Hk), (pfun_mapped m k' v' Hi Hk'). unfold embed.
  replace (inb (lmin (keys m)) nR (lmin (keys m) + v')) with true by (symmetry; apply inb_true; lia).
  replace (inb (lmin (keys m)) nR (lmin (keys m) + v)) with true by (symmetry; apply inb_true; lia).
  simpl. f_equal; lia. Qed.

(* added processor: a mode that is not a key of the mapping is fixed, nothing leaves it, nothing reaches it *)
Theorem proc_untouched n m nR (UR : mat R) u j :
  injective_onto m -> (lmin (keys m) + span m <= n)%nat -> (nR <= length m)%nat ->
  (u < n)%nat -> (j < n)%nat -> ~ In u (keys m) ->
  proc_step n (lmin (keys m)) (perm_vect m) nR UR u j = delta u j /\
  proc_step n (lmin (keys m)) (perm_vect m) nR UR j u = delta j u.
Proof. intros Hi Hn HnR Hu Hj Hnk.
  destruct (genperm_is_perm m Hi) as [Hp Hl]. pose proof (pfun_untouched m u Hi Hnk) as Hout. simpl in Hout.
  rewrite !proc_step_entry by (auto; lia). unfold embed.
  replace (inb (lmin (keys m)) nR (pfun (lmin (keys m)) (perm_vect m) u)) with false
    by (symmetry; apply inb_false; lia).
  rewrite andb_false_r. simpl. split; apply delta_pfun; auto. Qed.

(* plain component, code as it is now ([PERM; component; PERM^-1], 7bb2f795): wired there and back, and every mode
   that is not a key of the mapping is fixed, for ALL injective mappings *)
Theorem comp_wiring_now n m kw (Uc : mat R) k v k' v' :
  injective_onto m -> (lmin (keys m) + span m <= n)%nat -> (v < kw)%nat -> (v' < kw)%nat ->
  In (k, v) (filled m) -> In (k', v') (filled m) ->
  comp_seg true n (lmin (keys m)) (perm_vect m) kw Uc k' k = Uc v' v.
Proof. apply proc_wiring. Qed.
Theorem comp_untouched_now n m kw (Uc : mat R) u j :
  injective_onto m -> (lmin (keys m) + span m <= n)%nat -> (kw <= length m)%nat ->
  (u < n)%nat -> (j < n)%nat -> ~ In u (keys m) ->
  comp_seg true n (lmin (keys m)) (perm_vect m) kw Uc u j = delta u j /\
  comp_seg true n (lmin (keys m)) (perm_vect m) kw Uc j u = delta j u.
Proof. apply proc_untouched. Qed.

(* ---- the code before 7bb2f795: [PERM; component] ---- *)
(* plain component: light leaving left mode k enters input v = mapping k (it is not brought back) *)
Theorem comp_enters n m kw (Uc : mat R) k v i :
  injective_onto m -> (lmin (keys m) + span m <= n)%nat -> (i < n)%nat -> In (k, v) (filled m) ->
  comp_step n (lmin (keys m)) (perm_vect m) kw Uc i k = embed (lmin (keys m)) kw Uc i (lmin (keys m) + v).
Proof. intros Hi Hn Hlt Hk. destruct (genperm_is_perm m Hi) as [Hp Hl].
  destruct (genperm_wires m k v Hi Hk) as [_ Hr].
  rewrite comp_step_entry by (auto; lia). rewrite (pfun_mapped m k v Hi Hk). reflexivity. Qed.

(* plain component through a mapping without gaps (any order): untouched modes are fixed *)
Theorem comp_untouched_contiguous n m (Uc : mat R) u j :
  injective_onto m -> span m = length m -> (lmin (keys m) + span m <= n)%nat ->
  (u < n)%nat -> (j < n)%nat -> ~ In u (keys m) ->
  comp_step n (lmin (keys m)) (perm_vect m) (length m) Uc j u = delta j u /\
  comp_step n (lmin (keys m)) (perm_vect m) (length m) Uc u j = delta u j.
Proof. intros Hi Hs Hn Hu Hj Hnk.
  destruct (genperm_is_perm m Hi) as [Hp Hl]. pose proof (pfun_untouched m u Hi Hnk) as Hout. simpl in Hout.
  assert (Hfix : pfun (lmin (keys m)) (perm_vect m) u = u /\ ~ (lmin (keys m) <= u < lmin (keys m) + length m)%nat).
  { unfold pfun in *. rewrite Hl in *. destruct (inb (lmin (keys m)) (span m) u) eqn:E.
    - apply inb_true in E. pose proof (permok_nth_lt (perm_vect m) (u - lmin (keys m)) Hp). lia.
    - apply inb_false in E. split; [reflexivity | lia]. }
  destruct Hfix as [Hfix Hu'].
  rewrite !comp_step_entry by (auto; lia). rewrite Hfix. unfold embed.
  replace (inb (lmin (keys m)) (length m) u) with false by (symmetry; apply inb_false; lia).
  rewrite andb_false_r. simpl. split; [reflexivity|].
  rewrite <- Hfix at 1. apply delta_pfun; auto. Qed.

(* ... but with a gap it is false of the code (DESIGN section 9 row 13): Processor(3).add([0,2], X) sends the light
   of the untouched mode 1 to mode 2, because the PERM realising the mapping is never undone.
   Full statement (false): forall m u, injective_onto m -> ~ In u (keys m) -> comp_step ... j u = delta j u *)
Theorem comp_untouched_refuted : exists (m : nmap) (n u i : nat),
  injective_onto m /\ ~ In u (keys m) /\ (u < n)%nat /\ (i < n)%nat /\ i <> u /\
  comp_step (R:=R) n (lmin (keys m)) (perm_vect m) (length m) mid i u = k1.
Proof. exists [(0, 0); (2, 1)]%nat, 3%nat, 1%nat, 2%nat.
  assert (Hi : injective_onto [(0, 0); (2, 1)]%nat).
  { split. discriminate. split. simpl. repeat constructor; simpl; intuition lia.
    apply is_perm_ok. reflexivity. }
  split; [exact Hi|]. split. simpl. intuition lia. split. lia. split. lia. split. lia.
  rewrite comp_step_entry; try lia.
  - replace (pfun (lmin (keys [(0, 0); (2, 1)])) (perm_vect [(0, 0); (2, 1)]) 1)%nat with 2%nat by reflexivity.
    unfold embed. simpl. apply delta_refl.
  - apply (genperm_is_perm _ Hi).
  - simpl. lia. Qed.
End Wiring.

(* ------------------------------------------------------------------ rejection *)
Lemma nodup_length_le (l : list nat) : length (nodup Nat.eq_dec l) <= length l.
Proof. induction l as [|x r IH]; simpl. lia. destruct (in_dec Nat.eq_dec x r); simpl; lia. Qed.
Lemma has_dup_false l : has_dup l = false <-> NoDup l.
Proof. unfold has_dup. rewrite negb_false_iff, Nat.eqb_eq. split.
  - induction l as [|x r IH]; simpl; intros H. constructor.
    destruct (in_dec Nat.eq_dec x r).
    + pose proof (nodup_length_le r). lia.
    + simpl in H. constructor; auto.
  - intros H. rewrite nodup_fixed_point; auto. Qed.

(* _check_consistency accepts exactly: right size, no negative / unavailable left mode, no duplicate right mode *)
Theorem check_consistency_iff n conn m :
  check_consistency n conn m = true <->
  length m = n /\ (forall k v, In (k, v) m -> (0 <= k)%Z /\ conn k = true) /\ NoDup (map snd m).
Proof. unfold check_consistency. rewrite !andb_true_iff, Nat.eqb_eq, !forallb_forall, negb_true_iff, has_dup_false.
  split.
  - intros [[[H1 H2] H3] H4]. split; auto. split; auto. intros k v Hin. split.
    apply Z.leb_le. apply (H2 (k, v) Hin). apply (H3 (k, v) Hin).
  - intros [H1 [H2 H3]]. repeat split; auto.
    intros [k v] Hin. apply Z.leb_le. apply (H2 k v Hin).
    intros [k v] Hin. apply (H2 k v Hin). Qed.

(* a resolved mapping that is injective onto the right-hand modes never fails in PERM's constructor *)
Theorem genperm_accepts m : injective_onto m -> is_perm (perm_vect m) = true.
Proof. intros H. apply is_perm_ok. apply (genperm_is_perm m H). Qed.
(* and a vector that is not a permutation is refused *)
Theorem genperm_rejects m : ~ permok (perm_vect m) -> is_perm (perm_vect m) = false.
Proof. intros H. destruct (is_perm (perm_vect m)) eqn:E; auto. exfalso. apply H. apply is_perm_ok. exact E. Qed.

(* ------------------------------------------------------------------ heralds, detectors of the added processor *)
Lemma heralds_of_app a b : heralds_of (a ++ b) = heralds_of a ++ heralds_of b.
Proof. unfold heralds_of. rewrite filter_app, map_app. reflexivity. Qed.

Lemma key_of_in m k v : NoDup (vals m) -> In (k, v) m -> key_of m v = k.
Proof. unfold key_of. induction m as [|[k' v'] r IH]; simpl. tauto. intros Hn H.
  inversion Hn as [|? ? Hv Hr]; subst. destruct (v' =? v) eqn:E.
  - apply Nat.eqb_eq in E. subst. destruct H as [H|H]. inversion H; subst; reflexivity.
    exfalso. apply Hv. change v with (snd (k, v)). apply in_map. exact H.
  - destruct H as [H|H]. inversion H; subst. rewrite Nat.eqb_refl in E. discriminate. auto. Qed.

(* the new heralded modes are nL, nL+1, ... in the order of the added processor's heralds *)
Theorem herald_positions m0 nL hpos i :
  injective_onto (with_heralds nL m0 hpos) -> i < length hpos ->
  key_of (filled (with_heralds nL m0 hpos)) (nth i hpos 0) = nL + i.
Proof. intros [Hne [Hn Hp]] Hi. apply key_of_in.
  - apply (fill_spec (missing_modes _) _ Hp Hne).
  - apply (fill_spec (missing_modes _) _ Hp Hne). unfold with_heralds. apply in_app_iff. right.
    replace (nL + i, nth i hpos 0) with (nth i (combine (seq nL (length hpos)) hpos) (0, 0)).
    apply nth_In. rewrite combine_length, seq_length. lia.
    rewrite combine_nth by apply seq_length. rewrite seq_nth by exact Hi. reflexivity. Qed.

Section Transfer.
Variable R : cring.
Variable cons : bool.

Lemma transfer_out_stuck m' ports : forall (e : exp R), fold_left (transfer_out cons m') ports (e, false) = (e, false).
Proof. induction ports as [|p r IH]; simpl; auto. Qed.

(* the transfer of the output ports appends one herald per herald of the added processor, in order, with the
   same expected value, and touches neither detectors nor mode counts *)
Lemma transfer_out_heralds m' ports : forall (e e' : exp R),
  fold_left (transfer_out cons m') ports (e, true) = (e', true) ->
  heralds_of (e_out e') = heralds_of (e_out e) ++
     map (fun p => (key_of m' (hd 0 (p_range p)), expected_of p)) (filter is_herald_port ports)
  /\ e_dets e' = e_dets e /\ e_nher e' = e_nher e /\ e_moi e' = e_moi e.
Proof. induction ports as [|p r IH]; simpl; intros e e' H.
  - inversion H; subst. rewrite app_nil_r. auto.
  - unfold is_herald_port at 1, expected_of at 1. destruct (p_kind p) as [ex|enc] eqn:Ek.
    + unfold add_herald_int in H.
      destruct (free (e_in e) [key_of m' (hd 0 (p_range p))] && free (e_out e) [key_of m' (hd 0 (p_range p))]).
      * destruct (IH _ _ H) as [H1 [H2 [H3 H4]]]. simpl in *. rewrite H1, heralds_of_app. simpl.
        rewrite <- app_assoc. unfold expected_of. simpl. rewrite Ek. auto.
      * rewrite transfer_out_stuck in H. discriminate.
    + destruct (port_kept cons m' p _ && free (e_out e) (seq (key_of m' (hd 0 (p_range p))) (length (p_range p)))).
      * destruct (IH _ _ H) as [H1 [H2 [H3 H4]]]. simpl in *. rewrite H1, heralds_of_app.
        unfold heralds_of at 2. simpl. unfold is_herald_port at 1. simpl. rewrite app_nil_r. auto.
      * apply IH. exact H. Qed.

Lemma transfer_in_step m' (e : exp R) p :
  let e' := transfer_in cons m' e p in
  e_out e' = e_out e /\ e_dets e' = e_dets e /\ e_nher e' = e_nher e /\ e_moi e' = e_moi e /\ e_ps e' = e_ps e.
Proof. unfold transfer_in. destruct (port_kept cons m' p _ && free (e_in e) _); simpl; auto. Qed.
Lemma transfer_in_keeps m' ports : forall (e : exp R),
  let e' := fold_left (transfer_in cons m') ports e in
  e_out e' = e_out e /\ e_dets e' = e_dets e /\ e_nher e' = e_nher e /\ e_moi e' = e_moi e /\ e_ps e' = e_ps e.
Proof. induction ports as [|p r IH]; simpl; intros e. auto.
  destruct (IH (transfer_in cons m' e p)) as [H1 [H2 [H3 [H4 H5]]]].
  destruct (transfer_in_step m' e p) as [G1 [G2 [G3 [G4 G5]]]].
  rewrite H1, H2, H3, H4, H5. auto. Qed.

End Transfer.

Section AddProc.
Variable R : cring.
Variable tb : nat -> mat R -> mat R.
Variable cf : cfg.

(* Experiment.add(mapping, processor), when it succeeds: the heralds of the result are those of the left-hand
   side followed by one new herald per herald of the added processor, in order, with the same expected value;
   their detectors are appended in the same order; the modes of interest are unchanged *)
Theorem add_proc_heralds e mp r keep e' seg : add_proc tb cf e mp r keep = (e', true, seg) ->
  exists m0 m',
    heralds_of (e_out e') = heralds_of (drop_ports keep e m0) ++
      map (fun p => (key_of m' (hd 0 (p_range p)), expected_of p)) (filter is_herald_port (e_out r)) /\
    m' = filled (with_heralds (csize e) m0 (herald_modes r)) /\
    is_perm (perm_vect (with_heralds (csize e) m0 (herald_modes r))) = true /\
    e_dets e' = e_dets e ++ map (fun h => nth h (e_dets r) 0) (herald_modes r) /\
    e_nher e' = e_nher e + length (herald_modes r) /\ e_moi e' = e_moi e.
Proof. unfold add_proc. intros H.
  destruct (resolve_map _ _ _ _ _ _ mp) as [am|]; [|inversion H].
  destruct (check_consistency _ _ am && ps_allows e am); [|inversion H].
  set (m0 := to_nmap am) in *. set (m := with_heralds (csize e) m0 (herald_modes r)) in *.
  destruct (is_perm (perm_vect m)) eqn:Ep; [|inversion H].
  exists m0, (filled m). 
  match type of H with context [fold_left (transfer_out _ (filled m)) (e_out r) (?e2, true)] => set (E2 := e2) in * end.
  destruct (fold_left (transfer_out _ (filled m)) (e_out r) (E2, true)) as [e3 [|]] eqn:Ef; [|inversion H].
  destruct (transfer_out_heralds _ _ _ _ _ _ Ef) as [H1 [H2 [H3 H4]]].
  destruct (transfer_in_keeps R (c_port_consecutive cf) (filled m) (e_in r) e3) as [G1 [G2 [G3 [G4 G5]]]].
  set (e4 := fold_left (transfer_in _ (filled m)) (e_in r) e3) in *.
  assert (Hfin : heralds_of (e_out e4) = heralds_of (drop_ports keep e m0) ++
      map (fun p => (key_of (filled m) (hd 0 (p_range p)), expected_of p)) (filter is_herald_port (e_out r)) /\
    e_dets e4 = e_dets e ++ map (fun h => nth h (e_dets r) 0) (herald_modes r) /\
    e_nher e4 = e_nher e + length (herald_modes r) /\ e_moi e4 = e_moi e).
  { rewrite G1, G2, G3, G4, H1, H2, H3, H4. subst E2. simpl. auto. }
  destruct Hfin as [F1 [F2 [F3 F4]]].
  destruct (e_ps r) as [q|].
  - destruct (e_ps e4) as [a|].
    + destruct (independent a _); inversion H; subst; simpl; auto 10.
    + inversion H; subst; simpl; auto 10.
  - inversion H; subst. auto 10. Qed.
End AddProc.

(* ------------------------------------------------------------------ ports of the added processor (rule of 6d353ebc) *)
Definition ports_within (n : nat) (ports : list pent) : Prop :=
  forall p x, In p ports -> In x (p_range p) -> x < n.
(* q sits exactly on the images of the modes of a port of the added processor (for a herald: of its mode) *)
Definition on_image_of (m' : nmap) (p q : pent) : Prop :=
  p_range q = map (key_of m') (p_range p) \/ p_range q = [key_of m' (hd 0 (p_range p))].
Definition on_images (m' : nmap) (src : list pent) (q : pent) : Prop := exists p, In p src /\ on_image_of m' p q.

Lemma key_of_bound m' n v : 0 < n -> (forall kv, In kv m' -> fst kv < n) -> key_of m' v < n.
Proof. intros Hn H. unfold key_of. destruct (find _ m') eqn:E; [|exact Hn].
  apply find_some in E. apply H. tauto. Qed.
Lemma on_images_within m' n src q : 0 < n -> (forall kv, In kv m' -> fst kv < n) ->
  on_images m' src q -> forall x, In x (p_range q) -> x < n.
Proof. intros Hn H [p [_ [E|E]]] x Hx; rewrite E in Hx.
  - apply in_map_iff in Hx as [v [<- _]]. apply key_of_bound; auto.
  - destruct Hx as [<-|[]]. apply key_of_bound; auto. Qed.
Lemma within_free n ports x : ports_within n ports -> n <= x -> free ports [x] = true.
Proof. intros H Hx. unfold free. simpl. rewrite andb_true_r. unfold port_at.
  destruct (find _ ports) eqn:E; auto. apply find_some in E as [Hin Hm].
  unfold mem in Hm. apply existsb_mem in Hm. specialize (H _ _ Hin Hm). lia. Qed.

Section Ports.
Variable R : cring.

Lemma transfer_out_step m' (e : exp R) ok p :
  (forall q, In q (e_out (fst (transfer_out true m' (e, ok) p))) -> In q (e_out e) \/ on_image_of m' p q) /\
  (forall q, In q (e_in (fst (transfer_out true m' (e, ok) p))) -> In q (e_in e) \/ on_image_of m' p q).
Proof. unfold transfer_out. destruct ok; [|simpl; auto].
  destruct (p_kind p).
  - unfold add_herald_int. destruct (free (e_in e) _ && free (e_out e) _); simpl; [|auto].
    split; intros q Hq; apply in_app_iff in Hq as [Hq|[<-|[]]]; auto; right; right; reflexivity.
  - unfold port_kept. simpl negb. rewrite orb_false_l.
    destruct (list_eq_dec Nat.eq_dec _ _) as [E|E]; simpl; [|auto].
    destruct (free (e_out e) _); simpl; [|auto].
    split; intros q Hq; auto. apply in_app_iff in Hq as [Hq|[<-|[]]]; auto. right. left. simpl. symmetry. exact E. Qed.

Lemma transfer_out_on_images m' ports : forall (st : exp R * bool),
  (forall q, In q (e_out (fst (fold_left (transfer_out true m') ports st))) ->
             In q (e_out (fst st)) \/ on_images m' ports q) /\
  (forall q, In q (e_in (fst (fold_left (transfer_out true m') ports st))) ->
             In q (e_in (fst st)) \/ on_images m' ports q).
Proof. induction ports as [|p r IH]; simpl; intros st. auto.
  destruct st as [e ok]. destruct (IH (transfer_out true m' (e, ok) p)) as [I1 I2].
  destruct (transfer_out_step m' e ok p) as [S1 S2].
  split; intros q Hq.
  - destruct (I1 q Hq) as [H|[p' [Hp' Ho]]].
    + destruct (S1 q H) as [H'|H']; auto. right. exists p. split; [left; reflexivity | exact H'].
    + right. exists p'. split; [right; exact Hp' | exact Ho].
  - destruct (I2 q Hq) as [H|[p' [Hp' Ho]]].
    + destruct (S2 q H) as [H'|H']; auto. right. exists p. split; [left; reflexivity | exact H'].
    + right. exists p'. split; [right; exact Hp' | exact Ho]. Qed.

Lemma transfer_in_on_images m' ports : forall (e : exp R),
  (forall q, In q (e_in (fold_left (transfer_in true m') ports e)) -> In q (e_in e) \/ on_images m' ports q) /\
  e_out (fold_left (transfer_in true m') ports e) = e_out e.
Proof. induction ports as [|p r IH]; simpl; intros e. auto.
  destruct (IH (transfer_in true m' e p)) as [I1 I2].
  assert (S : (forall q, In q (e_in (transfer_in true m' e p)) -> In q (e_in e) \/ on_image_of m' p q) /\
              e_out (transfer_in true m' e p) = e_out e).
  { unfold transfer_in, port_kept. simpl negb. rewrite orb_false_l.
    destruct (list_eq_dec Nat.eq_dec _ _) as [E|E]; simpl; [|auto].
    destruct (free (e_in e) _); simpl; [|auto]. split; auto.
    intros q Hq. apply in_app_iff in Hq as [Hq|[<-|[]]]; auto. right. left. simpl. symmetry. exact E. }
  destruct S as [S1 S2]. split; [|congruence].
  intros q Hq. destruct (I1 q Hq) as [H|[p' [Hp' Ho]]].
  - destruct (S1 q H) as [H'|H']; auto. right. exists p. split; [left; reflexivity | exact H'].
  - right. exists p'. split; [right; exact Hp' | exact Ho]. Qed.

Lemma lmax_lt l n : 0 < n -> (forall x, In x l -> x < n) -> lmax l < n.
Proof. intros Hn. induction l as [|x r IH]; simpl; intros H. exact Hn.
  assert (x < n) by (apply H; auto). assert (lmax r < n) by (apply IH; intros; apply H; auto). lia. Qed.
Lemma fill_keys ms : forall m, keys (fill m ms) = keys m ++ ms.
Proof. induction ms as [|mm r IH]; intros m; simpl. rewrite app_nil_r. reflexivity.
  rewrite IH, keys_app. simpl. rewrite <- app_assoc. reflexivity. Qed.
Lemma filled_keys_bound m n : 0 < n -> (forall kv, In kv m -> fst kv < n) -> forall kv, In kv (filled m) -> fst kv < n.
Proof. intros Hn H kv Hin. assert (Hk : In (fst kv) (keys (filled m))) by (apply in_map; exact Hin).
  unfold filled in Hk. rewrite fill_keys in Hk. apply in_app_iff in Hk as [Hk|Hk].
  - apply in_map_iff in Hk as [kv' [E Hin']]. rewrite <- E. apply H. exact Hin'.
  - unfold missing_modes in Hk. apply filter_In in Hk as [Hk _]. apply in_seq in Hk.
    assert (lmax (keys m) < n). { apply lmax_lt; auto. intros x Hx. apply in_map_iff in Hx as [kv' [<- Hin']]. auto. }
    lia. Qed.

Variable tb : nat -> mat R -> mat R.
Variable cf : cfg.
Hypothesis Hcons : c_port_consecutive cf = true.

(* Experiment.add(mapping, processor) under the current rule, when it succeeds: every port of the result is a port
   the left-hand side already had, or sits exactly on the images of the modes of a port of the added processor;
   all of them lie inside the circuit, so that in/out_port_names are total and the next new herald mode is free *)
Theorem add_proc_ports e mp r keep e' seg : add_proc tb cf e mp r keep = (e', true, seg) ->
  exists m',
    (forall q, In q (e_out e') -> In q (e_out e) \/ on_images m' (e_out r) q) /\
    (forall q, In q (e_in e') -> In q (e_in e) \/ on_images m' (e_out r ++ e_in r) q) /\
    (0 < csize e -> ports_within (csize e) (e_in e) -> ports_within (csize e) (e_out e) ->
     ports_within (csize e') (e_in e') /\ ports_within (csize e') (e_out e')).
Proof. unfold add_proc. rewrite Hcons. intros H.
  destruct (resolve_map _ _ _ _ _ _ mp) as [am|]; [|inversion H].
  destruct (check_consistency _ _ am && ps_allows e am) eqn:Ec; [|inversion H].
  apply andb_prop in Ec as [Ec _]. apply check_consistency_iff in Ec as [_ [Ec _]].
  set (m0 := to_nmap am) in *. set (m := with_heralds (csize e) m0 (herald_modes r)) in *.
  destruct (is_perm (perm_vect m)) eqn:Ep; [|inversion H].
  exists (filled m).
  match type of H with context [fold_left (transfer_out _ (filled m)) (e_out r) (?e2, true)] => set (E2 := e2) in * end.
  destruct (transfer_out_on_images (filled m) (e_out r) (E2, true)) as [O1 O2].
  destruct (fold_left (transfer_out true (filled m)) (e_out r) (E2, true)) as [e3 [|]] eqn:Ef; [|inversion H].
  destruct (transfer_out_heralds R true (filled m) (e_out r) E2 e3 Ef) as [_ [_ [K3 K4]]].
  destruct (transfer_in_on_images (filled m) (e_in r) e3) as [N1 N2].
  destruct (transfer_in_keeps R true (filled m) (e_in r) e3) as [_ [_ [G3 [G4 _]]]].
  set (e4 := fold_left (transfer_in true (filled m)) (e_in r) e3) in *.
  simpl in O1, O2.
  assert (Hdrop : forall q, In q (drop_ports keep e m0) -> In q (e_out e)).
  { unfold drop_ports. destruct keep; auto. intros q Hq. apply filter_In in Hq. tauto. }
  assert (Hout : forall q, In q (e_out e4) -> In q (e_out e) \/ on_images (filled m) (e_out r) q).
  { intros q Hq. rewrite N2 in Hq. destruct (O1 q Hq) as [Hq'|Hq']; auto. }
  assert (Hin : forall q, In q (e_in e4) -> In q (e_in e) \/ on_images (filled m) (e_out r ++ e_in r) q).
  { intros q Hq. destruct (N1 q Hq) as [Hq'|[p [Hp Ho]]].
    - destruct (O2 q Hq') as [Hq''|[p [Hp Ho]]]; auto. right. exists p. split; auto. apply in_app_iff; auto.
    - right. exists p. split; auto. apply in_app_iff; auto. }
  assert (Hsz : csize e4 = csize e + length (herald_modes r)).
  { unfold csize. rewrite G3, G4, K3, K4. subst E2. simpl. lia. }
  assert (Hwithin : 0 < csize e -> ports_within (csize e) (e_in e) -> ports_within (csize e) (e_out e) ->
     ports_within (csize e4) (e_in e4) /\ ports_within (csize e4) (e_out e4)).
  { intros Hpos Wi Wo. rewrite Hsz.
    assert (Hb : forall kv, In kv (filled m) -> fst kv < csize e + length (herald_modes r)).
    { apply filled_keys_bound. lia. intros kv Hkv. unfold m, with_heralds in Hkv.
      apply in_app_iff in Hkv as [Hkv|Hkv].
      - unfold m0, to_nmap in Hkv. apply in_map_iff in Hkv as [[k v] [<- Hkv]]. simpl.
        destruct (Ec k v Hkv) as [_ Hc]. unfold connectible in Hc.
        apply andb_prop in Hc as [Hc _]. apply andb_prop in Hc as [_ Hc]. apply Nat.ltb_lt in Hc. lia.
      - destruct kv as [k v]. apply in_combine_l in Hkv. apply in_seq in Hkv. simpl. lia. }
    split; intros p x Hp Hx.
    - destruct (Hin p Hp) as [Hp'|Hp']. specialize (Wi _ _ Hp' Hx). lia.
      eapply on_images_within; eauto. lia.
    - destruct (Hout p Hp) as [Hp'|Hp']. specialize (Wo _ _ Hp' Hx). lia.
      eapply on_images_within; eauto. lia. }
  destruct (e_ps r) as [q|].
  - destruct (e_ps e4) as [a|].
    + destruct (independent a _); inversion H; subst; simpl; auto.
    + inversion H; subst; simpl; auto.
  - inversion H; subst. auto. Qed.
End Ports.

(* the code before 6d353ebc: a port could be re-attached beyond the last mode.
   Processor(2).add([1,0], q) with a two-mode port on q's modes (0,1): the port lands on modes [1,2] *)
Definition within_b (n : nat) (ports : list pent) : bool := forallb (fun p => forallb (fun x => x <? n) (p_range p)) ports.
Lemma within_b_of n ports : ports_within n ports -> within_b n ports = true.
Proof. intros H. unfold within_b. apply forallb_forall. intros p Hp. apply forallb_forall. intros x Hx.
  apply Nat.ltb_lt. eapply H; eauto. Qed.
Definition stick_right (R : cring) : exp R := fst (add_port (new_exp 2) 0 3 1 2 2).
Theorem port_beyond_circuit_old_code (R : cring) :
  let res := add_proc (fun _ A => A) cfg_old (new_exp (R:=R) 2) (MList [1%Z; 0%Z]) (stick_right R) true in
  snd (fst res) = true /\ ports_within 2 (e_out (stick_right R)) /\
  ~ ports_within (csize (fst (fst res))) (e_out (fst (fst res))).
Proof. split; [vm_compute; reflexivity|]. split.
  - intros p x Hp Hx. vm_compute in Hp. destruct Hp as [<-|[]]. simpl in Hx. intuition lia.
  - intros H. apply within_b_of in H. vm_compute in H. discriminate. Qed.

(* ------------------------------------------------------------------ unavailable modes: every cause x every mapping form *)
(* why a mode of the left-hand processor cannot take a plug *)
Inductive unavailable {R : cring} (e : exp R) (k : Z) : Prop :=
| UNegative : (k < 0)%Z -> unavailable e k
| UBeyond : (0 <= k)%Z -> csize e <= Z.to_nat k -> unavailable e k
| UHeralded : (0 <= k)%Z -> nth (Z.to_nat k) (e_types e) Classical = HeraldT -> unavailable e k
| UClosed : (0 <= k)%Z -> nth (Z.to_nat k) (e_types e) Classical = Classical -> unavailable e k.

Lemma unavailable_iff {R : cring} (e : exp R) k : connectible e k = false <-> unavailable e k.
Proof. unfold connectible. split.
  - intros H. destruct (0 <=? k)%Z eqn:E0.
    + apply Z.leb_le in E0. destruct (Z.to_nat k <? csize e) eqn:E1.
      * simpl in H. destruct (nth (Z.to_nat k) (e_types e) Classical) eqn:Et; try discriminate.
        apply UHeralded; auto. apply UClosed; auto.
      * apply Nat.ltb_ge in E1. apply UBeyond; auto.
    + apply Z.leb_gt in E0. apply UNegative; auto.
  - intros [H|H0 H|H0 H|H0 H].
    + replace (0 <=? k)%Z with false by (symmetry; apply Z.leb_gt; exact H). reflexivity.
    + replace (Z.to_nat k <? csize e) with false by (symmetry; apply Nat.ltb_ge; exact H).
      rewrite andb_false_r. reflexivity.
    + rewrite H. apply andb_false_r.
    + rewrite H. apply andb_false_r. Qed.

Lemma consistency_rejects_unavailable {R : cring} (e : exp R) n am k v :
  In (k, v) am -> unavailable e k -> check_consistency n (connectible e) am = false.
Proof. intros Hin Hu. destruct (check_consistency n (connectible e) am) eqn:E; auto.
  apply check_consistency_iff in E as [_ [E _]]. destruct (E k v Hin) as [_ Hc].
  apply unavailable_iff in Hu. congruence. Qed.

(* keys of the resolved dictionary, per mapping form *)
Lemma dset_keys d k v k' : In k' (map fst (dset d k v)) <-> k' = k \/ In k' (map fst d).
Proof. induction d as [|[a b] r IH]; simpl. intuition.
  destruct (a =? k)%Z eqn:E; simpl.
  - apply Z.eqb_eq in E. subst. intuition.
  - rewrite IH. intuition. Qed.
Lemma fold_dset_keys (l : list (Z * nat)) : forall acc k',
  In k' (map fst (fold_left (fun acc kv => dset acc (fst kv) (snd kv)) l acc)) <->
  In k' (map fst l) \/ In k' (map fst acc).
Proof. induction l as [|[a b] r IH]; intros acc k'; simpl. intuition.
  rewrite IH, dset_keys. simpl. intuition. Qed.
Lemma in_keys_pair {A B} (m : list (A * B)) k : In k (map fst m) -> exists v, In (k, v) m.
Proof. intros H. apply in_map_iff in H as [[a b] [E Hin]]. simpl in E. subst. eauto. Qed.

Lemma resolve_list_keys cf rc n rmodes ln rn l am x :
  resolve_map cf rc n rmodes ln rn (MList l) = Some am -> In x l -> exists v, In (x, v) am.
Proof. simpl. destruct (length l =? length rmodes) eqn:E; [|discriminate]. intros H Hx. inversion H; subst.
  apply in_keys_pair. apply fold_dset_keys. left.
  apply Nat.eqb_eq in E. clear H. revert rmodes E. induction l as [|a r IH]; intros [|b rm] E; simpl in *; try lia; try tauto.
  destruct Hx as [->|Hx]; [left; reflexivity | right; apply IH; auto]. Qed.

Lemma resolve_int_keys cf rc n rmodes ln rn b am i :
  resolve_map cf rc n rmodes ln rn (MInt b) = Some am -> i < n -> exists v, In ((b + Z.of_nat i)%Z, v) am.
Proof. simpl. intros H Hi. inversion H; subst. clear H. apply in_keys_pair.
  assert (G : forall l acc, In i l ->
    In (b + Z.of_nat i)%Z (map fst (fold_left (fun acc i => dset acc (b + Z.of_nat i)%Z (nth i rmodes 0)) l acc)) /\ True).
  { induction l as [|a r IH]; simpl; intros acc Hin. tauto. split; auto. destruct Hin as [->|Hin].
    - assert (K : forall l acc, In (b + Z.of_nat i)%Z (map fst acc) ->
        In (b + Z.of_nat i)%Z (map fst (fold_left (fun acc i => dset acc (b + Z.of_nat i)%Z (nth i rmodes 0)) l acc))).
      { induction l as [|a' r' IH']; simpl; intros acc' H'; auto. apply IH'. apply dset_keys. auto. }
      apply K. apply dset_keys. auto.
    - apply IH. exact Hin. }
  apply G. apply in_seq. lia. Qed.

Lemma dset_all_keys ks : forall vs acc k',
  In k' (map fst (dset_all acc ks vs)) -> In k' (map fst acc) \/ In k' (map Z.of_nat ks).
Proof. induction ks as [|a r IH]; intros [|b vs] acc k'; simpl; auto.
  intros H. apply IH in H as [H|H]; auto. apply dset_keys in H as [->|H]; auto. Qed.
Lemma dset_all_keeps ks : forall vs acc k', In k' (map fst acc) -> In k' (map fst (dset_all acc ks vs)).
Proof. induction ks as [|a r IH]; intros [|b vs] acc k' H; simpl; auto. apply IH. apply dset_keys. auto. Qed.
Lemma dset_all_adds ks : forall vs acc x, length ks = length vs -> In x ks ->
  In (Z.of_nat x) (map fst (dset_all acc ks vs)).
Proof. induction ks as [|a r IH]; intros [|b vs] acc x E Hx; simpl in *; try lia; try tauto.
  destruct Hx as [->|Hx].
  - apply dset_all_keeps. apply dset_keys. auto.
  - apply IH; auto. Qed.

Lemma resolve_dict_keeps n2i rc ln rn items : forall acc am k,
  resolve_dict n2i rc ln rn items acc = Some am -> In k (map fst acc) -> In k (map fst am).
Proof. induction items as [|[mk mv] r IH]; simpl; intros acc am k H Hk.
  - inversion H; subst; auto.
  - destruct mk as [z|s].
    + destruct mv; try (eapply IH; eauto; fail). eapply IH; eauto. apply dset_keys. auto.
    + destruct (port_idx ln s) as [l_idx|]; [|discriminate].
      destruct (match mv with VInt x => _ | VName t => _ | VList l => _ end) as [r_idx|]; [|discriminate].
      destruct (length l_idx =? length r_idx); [|discriminate].
      eapply IH; eauto. apply dset_all_keeps. exact Hk. Qed.

(* an entry int -> int puts its key in the resolved dictionary; an entry by port name puts every mode of the port *)
Lemma resolve_dict_int_key n2i rc ln rn items : forall acc am x v,
  resolve_dict n2i rc ln rn items acc = Some am -> In (KInt x, VInt v) items -> In x (map fst am).
Proof. induction items as [|[mk mv] r IH]; simpl; intros acc am x v H Hin. tauto.
  destruct Hin as [E|Hin].
  - inversion E; subst. eapply resolve_dict_keeps; eauto. apply dset_keys. auto.
  - destruct mk as [z|s].
    + destruct mv; eapply IH; eauto.
    + destruct (port_idx ln s) as [l_idx|]; [|discriminate].
      destruct (match mv with VInt x => _ | VName t => _ | VList l => _ end) as [r_idx|]; [|discriminate].
      destruct (length l_idx =? length r_idx); [|discriminate]. eapply IH; eauto. Qed.
Lemma resolve_dict_name_key n2i rc ln rn items : forall acc am s mv l_idx x,
  resolve_dict n2i rc ln rn items acc = Some am -> In (KName s, mv) items -> port_idx ln s = Some l_idx ->
  In x l_idx -> In (Z.of_nat x) (map fst am).
Proof. induction items as [|[mk mv'] r IH]; simpl; intros acc am s mv l_idx x H Hin Hp Hx. tauto.
  destruct Hin as [E|Hin].
  - inversion E; subst. rewrite Hp in H.
    destruct (match mv with VInt x => _ | VName t => _ | VList l => _ end) as [r_idx|]; [|discriminate].
    destruct (length l_idx =? length r_idx) eqn:El; [|discriminate]. apply Nat.eqb_eq in El.
    eapply resolve_dict_keeps; eauto. apply dset_all_adds; auto.
  - destruct mk as [z|s'].
    + destruct mv'; eapply IH; eauto.
    + destruct (port_idx ln s') as [l_idx'|]; [|discriminate].
      destruct (match mv' with VInt x => _ | VName t => _ | VList l => _ end) as [r_idx|]; [|discriminate].
      destruct (length l_idx' =? length r_idx); [|discriminate]. eapply IH; eauto. Qed.

(* which left modes a mapping names (before resolution), per form; [lnames] = the left output port names *)
Definition names_mode (lnames : list nat) (n : nat) (mp : mapping) (k : Z) : Prop :=
  match mp with
  | MInt b => exists i, i < n /\ k = (b + Z.of_nat i)%Z
  | MList l => In k l
  | MDict d => (exists v, In (KInt k, VInt v) d) \/
               (exists s mv l_idx x, In (KName s, mv) d /\ port_idx lnames s = Some l_idx /\ In x l_idx /\ k = Z.of_nat x)
  end.
Lemma resolve_names_mode cf rc n rmodes ln rn mp am k :
  resolve_map cf rc n rmodes ln rn mp = Some am -> names_mode ln n mp k -> exists v, In (k, v) am.
Proof. destruct mp as [b|l|d]; simpl names_mode.
  - intros H [i [Hi ->]]. eapply resolve_int_keys; eauto.
  - intros H Hk. eapply resolve_list_keys; eauto.
  - simpl. destruct (type_ok rc d); [|discriminate]. intros H [[v Hin]|[s [mv [l_idx [x [Hin [Hp [Hx ->]]]]]]]].
    + apply in_keys_pair. eapply resolve_dict_int_key; eauto.
    + apply in_keys_pair. eapply resolve_dict_name_key; eauto. Qed.

Section Reject.
Variable R : cring.
Variable tb : nat -> mat R -> mat R.
Variable cf : cfg.
Definition left_names (e : exp R) : list nat :=
  map (fun o => match o with Some (NUser id) => id | _ => 0 end) (names_of (csize e) (e_out e)).

(* Experiment.add(mapping, component): a mapping of ANY form (offset, list, dict by index or by port / herald name)
   that names a mode of the left processor which is negative, beyond the circuit, heralded (declared by add_herald or
   appended by an earlier plug) or closed by a detector is rejected and the processor is left unchanged *)
Theorem add_comp_rejects_unavailable e mp k Uc keep x :
  names_mode (left_names e) k mp x -> unavailable e x -> add_comp tb cf e mp k Uc keep = (e, false, None).
Proof. intros Hn Hu. unfold add_comp. fold (left_names e).
  destruct (resolve_map cf true k (seq 0 k) (left_names e) [] mp) as [am|] eqn:Er; auto.
  destruct (resolve_names_mode _ _ _ _ _ _ _ _ _ Er Hn) as [v Hin].
  rewrite (consistency_rejects_unavailable e k am x v Hin Hu). reflexivity. Qed.

Theorem add_proc_rejects_unavailable e mp r keep x :
  names_mode (left_names e) (e_moi r) mp x -> unavailable e x -> add_proc tb cf e mp r keep = (e, false, None).
Proof. intros Hn Hu. unfold add_proc. fold (left_names e).
  match goal with |- context [resolve_map cf false ?n ?rm ?ln ?rn mp] =>
    destruct (resolve_map cf false n rm ln rn mp) as [am|] eqn:Er; auto end.
  destruct (resolve_names_mode _ _ _ _ _ _ _ _ _ Er Hn) as [v Hin].
  rewrite (consistency_rejects_unavailable e _ am x v Hin Hu). reflexivity. Qed.

(* where heralded modes come from: add_herald marks its mode ... *)
Lemma set_nth_same {A} (l : list A) i x d : i < length l -> nth i (set_nth l i x) d = x.
Proof. revert i. induction l as [|a r IH]; intros [|i] H; simpl in *; try lia; auto. apply IH. lia. Qed.
Lemma set_nth_keeps {A} (l : list A) i j x d : nth j l d = x -> nth j (set_nth l i x) d = x.
Proof. revert i j. induction l as [|a r IH]; intros [|i] [|j] H; simpl in *; auto. Qed.
Lemma nth_repeat_in {A} (x d : A) n i : i < n -> nth i (repeat x n) d = x.
Proof. revert i. induction n as [|n IH]; intros [|i] H; simpl; try lia; auto. apply IH. lia. Qed.
Theorem add_herald_marks (e e' : exp R) mode ex nm : add_herald e mode ex nm = (e', true) -> mode < length (e_types e) ->
  nth mode (e_types e') Classical = HeraldT.
Proof. unfold add_herald, add_herald_int. intros H Hl.
  destruct ((ex <=? 1) && (mode <? csize e)); [|inversion H].
  destruct (free (e_in e) [mode] && free (e_out e) [mode]); inversion H; subst. simpl.
  apply set_nth_same. exact Hl. Qed.

(* ... and every mode appended by the plug of a heralded processor is heralded *)
Lemma transfer_out_keeps_heralded cons m' ports : forall (st : exp R * bool) j,
  nth j (e_types (fst st)) Classical = HeraldT ->
  nth j (e_types (fst (fold_left (transfer_out cons m') ports st))) Classical = HeraldT.
Proof. induction ports as [|p r IH]; simpl; intros st j H; auto. apply IH.
  destruct st as [e ok]. unfold transfer_out. destruct ok; auto. destruct (p_kind p).
  - unfold add_herald_int. destruct (free (e_in e) _ && free (e_out e) _); simpl; auto.
    apply set_nth_keeps. exact H.
  - destruct (port_kept cons m' p _ && free (e_out e) _); simpl; auto. Qed.
Lemma transfer_in_types cons m' ports : forall (e : exp R),
  e_types (fold_left (transfer_in cons m') ports e) = e_types e.
Proof. induction ports as [|p r IH]; simpl; intros e; auto. rewrite IH. unfold transfer_in.
  destruct (port_kept cons m' p _ && free (e_in e) _); reflexivity. Qed.

Theorem add_proc_new_modes_heralded e mp r keep e' seg j :
  add_proc tb cf e mp r keep = (e', true, seg) -> length (e_types e) = csize e ->
  csize e <= j < csize e + length (herald_modes r) -> nth j (e_types e') Classical = HeraldT.
Proof. unfold add_proc. intros H Hl Hj.
  destruct (resolve_map _ _ _ _ _ _ mp) as [am|]; [|inversion H].
  destruct (check_consistency _ _ am && ps_allows e am); [|inversion H].
  set (m := with_heralds (csize e) (to_nmap am) (herald_modes r)) in *.
  destruct (is_perm (perm_vect m)); [|inversion H].
  match type of H with context [fold_left (transfer_out _ (filled m)) (e_out r) (?e2, true)] => set (E2 := e2) in * end.
  assert (H0 : nth j (e_types (fst (E2, true))) Classical = HeraldT).
  { subst E2. simpl. rewrite app_nth2 by lia. apply nth_repeat_in. lia. }
  pose proof (transfer_out_keeps_heralded (c_port_consecutive cf) (filled m) (e_out r) (E2, true) j H0) as H1.
  destruct (fold_left (transfer_out _ (filled m)) (e_out r) (E2, true)) as [e3 [|]]; [|inversion H]. simpl in H1.
  pose proof (transfer_in_types (c_port_consecutive cf) (filled m) (e_in r) e3) as H2.
  set (e4 := fold_left (transfer_in _ (filled m)) (e_in r) e3) in *.
  destruct (e_ps r) as [q|].
  - destruct (e_ps e4) as [a|].
    + destruct (independent a _); inversion H; subst; simpl; congruence.
    + inversion H; subst; simpl; congruence.
  - inversion H; subst. congruence. Qed.
End Reject.
