(* C20, every size: for EVERY n >= 2 and every ring element a, the data-mode block blockdiag(I, I + a J_n)
   of the n-qubit controlled rotation (controlled_rotation_gates.py: build_control_gate_unitary), in the
   dual-rail mode order, acts on the logical basis as diag(1, ..., 1, 1 + a^n).
   Proof: the amplitude is the permanent of the n x n matrix A[j][i] = U[2j+y_j][2i+x_i]
          = [j = i][x_i = y_i] + [y_j = 1][x_i = 1][(j+1) mod n = i] a
   (x, y the bit strings of the input / output basis state).  Laplace expansion along the column of
   qubit 0: only row 0 (diagonal entry) and row n-1 (the a-edge n-1 -> 0) have a non-zero entry there.
   The minor of row 0 is upper triangular with diagonal [x_i = y_i]; the minor of row n-1 is lower
   triangular with diagonal a [y_(i-1) = 1][x_i = 1].  Hence perm = [x = y] + [x = y = 1...1] a^n. *)
From PV Require Import Lib.Permanent Model.Engines Model.Catalog.

(* ------------------------------------------------------------------ generic permanent lemmas *)
Section PermGen.
Variable R : cring.
Add Ring RpG : (Kth R).
Open Scope K_scope.
Variable U : mat R.

(* the terms of [sum_pos l F] are F a (l1 ++ l2) for the decompositions l = l1 ++ a :: l2 *)
Lemma sum_pos_split_ext l : forall F G : nat -> list nat -> R,
  (forall l1 a l2, l = l1 ++ a :: l2 -> F a (l1 ++ l2) = G a (l1 ++ l2)) -> sum_pos l F = sum_pos l G.
Proof.
  induction l as [|x l IH]; intros F G H; cbn [sum_pos]. reflexivity.
  f_equal. exact (H [] x l eq_refl).
  apply IH. intros l1 a l2 E. apply (H (x :: l1) a l2). rewrite E. reflexivity.
Qed.
Lemma sum_pos_const_zero l : sum_pos (R:=R) l (fun _ _ => k0) = k0.
Proof. induction l as [|x l IH]; cbn [sum_pos]. reflexivity. rewrite IH. ring. Qed.
(* (L1) *)
Lemma sum_pos_all_zero l (F : nat -> list nat -> R) :
  (forall l1 a l2, l = l1 ++ a :: l2 -> F a (l1 ++ l2) = k0) -> sum_pos l F = k0.
Proof. intros H. rewrite (sum_pos_split_ext l F (fun _ _ => k0)). apply sum_pos_const_zero. exact H. Qed.

(* (L3) a row that is zero on all the selected columns *)
Lemma permR_zero_row r : forall cols rows,
  In r rows -> (forall c, In c cols -> U r c = k0) -> permR U cols rows = k0.
Proof.
  induction cols as [|c cols IH]; intros rows Hin Hz.
  - destruct rows. destruct Hin. reflexivity.
  - cbn [permR]. apply sum_pos_all_zero. intros l1 a l2 E. subst rows.
    apply in_app_or in Hin. destruct Hin as [Hin | [-> | Hin]].
    + rewrite (IH (l1 ++ l2)). ring. apply in_or_app; left; exact Hin. intros c' Hc'. apply Hz. right. exact Hc'.
    + rewrite Hz by (left; reflexivity). ring.
    + rewrite (IH (l1 ++ l2)). ring. apply in_or_app; right; exact Hin. intros c' Hc'. apply Hz. right. exact Hc'.
Qed.

(* (L2) triangular matrices, in list order *)
Fixpoint uptri (cols rows : list nat) : Prop :=
  match cols, rows with
  | [], [] => True
  | c :: cols', r :: rows' => (forall r', In r' rows' -> U r' c = k0) /\ uptri cols' rows'
  | _, _ => False
  end.
Fixpoint lowtri (cols rows : list nat) : Prop :=
  match cols, rows with
  | [], [] => True
  | c :: cols', r :: rows' => (forall c', In c' cols' -> U r c' = k0) /\ lowtri cols' rows'
  | _, _ => False
  end.
Fixpoint diagprod (cols rows : list nat) : R :=
  match cols, rows with
  | c :: cols', r :: rows' => U r c * diagprod cols' rows'
  | _, _ => k1
  end.

Lemma permR_uptri : forall cols rows, uptri cols rows -> permR U cols rows = diagprod cols rows.
Proof.
  induction cols as [|c cols IH]; intros [|r rows] H; cbn [uptri] in H; try contradiction. reflexivity.
  destruct H as [Hz Ht]. cbn [permR sum_pos diagprod]. rewrite (IH rows Ht).
  rewrite sum_pos_all_zero. ring.
  intros l1 a l2 E. rewrite Hz. ring. rewrite E. apply in_or_app; right; left; reflexivity.
Qed.
Lemma permR_lowtri : forall cols rows, lowtri cols rows -> permR U cols rows = diagprod cols rows.
Proof.
  induction cols as [|c cols IH]; intros [|r rows] H; cbn [lowtri] in H; try contradiction. reflexivity.
  destruct H as [Hz Ht]. cbn [permR sum_pos diagprod]. rewrite (IH rows Ht).
  rewrite sum_pos_all_zero. ring.
  intros l1 a l2 E. rewrite (permR_zero_row r). ring. left; reflexivity. exact Hz.
Qed.

(* one scalar on every entry *)
Lemma sum_pos_scal l : forall (c : R) (F : nat -> list nat -> R),
  sum_pos l (fun a r => c * F a r) = c * sum_pos l F.
Proof. induction l as [|x l IH]; intros c F; cbn [sum_pos]. ring. rewrite IH. ring. Qed.
Lemma permR_scal (s : R) : forall cols rows,
  permR (fun j k => s * U j k) cols rows = kpow s (length cols) * permR U cols rows.
Proof.
  induction cols as [|c cols IH]; intros rows; cbn [permR length kpow].
  - destruct rows; ring.
  - rewrite <- sum_pos_scal. apply sum_pos_ext. intros r rest. rewrite IH. ring.
Qed.
End PermGen.
Arguments uptri {_}. Arguments lowtri {_}. Arguments diagprod {_}.

(* ------------------------------------------------------------------ dual-rail states from bit lists *)
(* bit x of qubit k = one photon in mode 2k + x *)
Definition dr (xs : list bool) : state := flat_map (fun x : bool => if x then [0; 1] else [1; 0])%nat xs.
Fixpoint pos (k : nat) (xs : list bool) : list nat :=
  match xs with [] => [] | x :: r => (2 * k + Nat.b2n x)%nat :: pos (S k) r end.
Fixpoint leqb (xs ys : list bool) : bool :=
  match xs, ys with
  | [], [] => true
  | x :: xs', y :: ys' => Bool.eqb x y && leqb xs' ys'
  | _, _ => false
  end.
Definition alltrue (xs : list bool) : bool := forallb (fun x => x) xs.
Definition bits (n b : nat) : list bool := map (fun i => negb (qbit n i b =? 0)%nat) (seq 0 n).

Lemma leqb_eq xs : forall ys, leqb xs ys = true <-> xs = ys.
Proof.
  induction xs as [|x xs IH]; intros [|y ys]; cbn [leqb]; split; intros H; try discriminate; auto.
  - apply andb_prop in H as [H1 H2]. apply Bool.eqb_prop in H1. apply IH in H2. subst. reflexivity.
  - injection H as -> ->. rewrite Bool.eqb_reflx. apply IH. reflexivity.
Qed.
Lemma dr_length xs : length (dr xs) = (2 * length xs)%nat.
Proof. induction xs as [|x xs IH]. reflexivity. unfold dr in *. cbn [flat_map]. rewrite app_length, IH.
  destruct x; cbn [length]; lia. Qed.
Lemma dr_total xs : total (dr xs) = length xs.
Proof. induction xs as [|x xs IH]. reflexivity. unfold dr, total in *. cbn [flat_map].
  destruct x; cbn [app fold_right length]; rewrite IH; reflexivity. Qed.
Lemma dr_rows xs : forall k, rows_from (2 * k) (dr xs) = pos k xs.
Proof.
  induction xs as [|x xs IH]; intros k. reflexivity.
  unfold dr in *. cbn [flat_map pos].
  replace (pos (S k) xs) with (rows_from (S (S (2 * k))) (flat_map (fun x : bool => if x then [0; 1] else [1; 0])%nat xs)).
  - destruct x; cbn [app rows_from repeat Nat.b2n]; f_equal; lia.
  - rewrite <- IH. f_equal. lia.
Qed.
Lemma pos_app l1 : forall k l2, pos k (l1 ++ l2) = pos k l1 ++ pos (k + length l1) l2.
Proof. induction l1 as [|x l1 IH]; intros k l2; cbn [app pos length]. rewrite Nat.add_0_r. reflexivity.
  rewrite IH. do 3 f_equal. lia. Qed.
Lemma pos_length xs : forall k, length (pos k xs) = length xs.
Proof. induction xs as [|x xs IH]; intros k; cbn [pos length]. reflexivity. rewrite IH. reflexivity. Qed.
Lemma in_pos xs : forall k c, In c (pos k xs) ->
  exists i x, c = (2 * i + Nat.b2n x)%nat /\ (k <= i < k + length xs)%nat.
Proof.
  induction xs as [|x0 xs IH]; intros k c H; cbn [pos] in H. destruct H.
  destruct H as [<- | H]. exists k, x0. cbn [length]. lia.
  apply IH in H as (i & x & -> & Hi). exists i, x. cbn [length]. lia.
Qed.
Lemma nth_seq_id (l : list nat) : map (fun i => nth i l 0%nat) (seq 0 (length l)) = l.
Proof.
  induction l as [|x l IH]. reflexivity.
  cbn [length seq map nth]. f_equal. rewrite <- seq_shift, map_map. exact IH.
Qed.
Lemma basis_data_bits n b : basis_data n b = dr (bits n b).
Proof.
  unfold basis_data, dr, bits. generalize (seq 0 n). intros l.
  induction l as [|i l IH]. reflexivity. cbn [flat_map map]. rewrite IH.
  destruct (qbit n i b =? 0)%nat; reflexivity.
Qed.
Lemma bits_length n b : length (bits n b) = n.
Proof. unfold bits. rewrite map_length, seq_length. reflexivity. Qed.
Lemma basis_no_herald n b : basis (2 * n) n [] b = dr (bits n b).
Proof.
  unfold basis. cbn [find]. rewrite basis_data_bits.
  rewrite <- (bits_length n b) at 1. rewrite <- dr_length. apply nth_seq_id.
Qed.

(* the logical amplitude without heralds is the permanent of the n x n matrix of the occupied modes *)
Lemma lamp_perm_bits (R : cring) (V : mat R) n b b' :
  lamp V (2 * n) n [] b b' = permR V (pos 0 (bits n b)) (pos 0 (bits n b')).
Proof.
  unfold lamp. rewrite !basis_no_herald. unfold amp_num. rewrite !dr_total, !bits_length, Nat.eqb_refl.
  rewrite <- permR_permS by (rewrite dr_length, bits_length; reflexivity).
  unfold cols_of, rows_of. change 0%nat with (2 * 0)%nat. rewrite !dr_rows. reflexivity.
Qed.

(* ------------------------------------------------------------------ bits and numbers *)
Lemma qbit_testbit n i b : negb (qbit n i b =? 0)%nat = Nat.testbit b (n - 1 - i).
Proof. unfold qbit. rewrite <- Nat.testbit_spec'. destruct (Nat.testbit b (n - 1 - i)); reflexivity. Qed.
Lemma bits_testbit n b : bits n b = map (fun i => Nat.testbit b (n - 1 - i)) (seq 0 n).
Proof. unfold bits. apply map_ext. intros i. apply qbit_testbit. Qed.
Lemma testbit_high n b k : (b < 2 ^ n)%nat -> (n <= k)%nat -> Nat.testbit b k = false.
Proof. intros Hb Hk. rewrite <- (Nat.mod_small b (2 ^ n) Hb). apply Nat.mod_pow2_bits_high. exact Hk. Qed.
Lemma bits_pointwise n b (P : bool -> Prop) :
  (forall x, In x (bits n b) -> P x) <-> (forall k, (k < n)%nat -> P (Nat.testbit b k)).
Proof.
  rewrite bits_testbit. split.
  - intros H k Hk. replace k with (n - 1 - (n - 1 - k))%nat by lia. apply H. apply in_map_iff.
    exists (n - 1 - k)%nat. split. reflexivity. apply in_seq. lia.
  - intros H x Hx. apply in_map_iff in Hx as (i & <- & Hi). apply in_seq in Hi. apply H. lia.
Qed.
Lemma bits_inj n b b' : (b < 2 ^ n)%nat -> (b' < 2 ^ n)%nat -> bits n b = bits n b' -> b = b'.
Proof.
  intros Hb Hb' E. apply Nat.bits_inj. intros k.
  destruct (Nat.lt_ge_cases k n) as [Hk|Hk].
  - rewrite !bits_testbit in E.
    assert (H := proj1 (@map_ext_in_iff _ _ _ _ _) E (n - 1 - k)%nat).
    cbv beta in H. replace (n - 1 - (n - 1 - k))%nat with k in H by lia. apply H. apply in_seq. lia.
  - rewrite (testbit_high n b k), (testbit_high n b' k); auto.
Qed.
Lemma bits_alltrue n b : (b < 2 ^ n)%nat -> (alltrue (bits n b) = true <-> b = (2 ^ n - 1)%nat).
Proof.
  intros Hb. unfold alltrue. rewrite forallb_forall.
  rewrite (bits_pointwise n b (fun x => x = true)).
  rewrite Nat.sub_1_r, <- Nat.ones_equiv. split.
  - intros H. apply Nat.bits_inj. intros k. destruct (Nat.lt_ge_cases k n) as [Hk|Hk].
    + rewrite H, Nat.ones_spec_low; auto.
    + rewrite (testbit_high n b k), Nat.ones_spec_high; auto.
  - intros -> k Hk. apply Nat.ones_spec_low. exact Hk.
Qed.

(* ------------------------------------------------------------------ entries of the block *)
Section Crot.
Variable R : cring.
Add Ring RpC : (Kth R).
Open Scope K_scope.
Variable a : R.
Variable n : nat.
Hypothesis Hn : (2 <= n)%nat.
Notation U := (crot_block n a).

Lemma mode_mod2 i x : ((2 * i + Nat.b2n x) mod 2 = Nat.b2n x)%nat.
Proof. rewrite Nat.add_comm, Nat.mul_comm, Nat.mod_add by lia. destruct x; reflexivity. Qed.
Lemma mode_div2 i x : ((2 * i + Nat.b2n x) / 2 = i)%nat.
Proof. rewrite Nat.add_comm, Nat.mul_comm, Nat.div_add by lia. destruct x; reflexivity. Qed.

Lemma ent_all j y i x :
  U (2 * j + Nat.b2n y)%nat (2 * i + Nat.b2n x)%nat
  = (if (j =? i)%nat && Bool.eqb x y then k1 else k0)
    + (if y && x && ((j + 1) mod n =? i)%nat then a else k0).
Proof.
  unfold crot_block. rewrite !mode_mod2, !mode_div2. unfold delta.
  destruct (Nat.eqb_spec j i) as [E|E].
  - subst j. destruct y, x; cbn [Nat.b2n Nat.eqb andb Bool.eqb];
      rewrite ?Nat.eqb_refl; try ring.
    all: match goal with |- context [(?p =? ?q)%nat] => destruct (Nat.eqb_spec p q); [lia | ring] end.
  - assert (E' : forall p q, ((2 * j + p =? 2 * i + q) = false)%nat \/ (p <> q)).
    { intros p q. destruct (Nat.eq_dec p q). left. apply Nat.eqb_neq. lia. right; auto. }
    destruct y, x; cbn [Nat.b2n Nat.eqb andb Bool.eqb].
    + destruct (E' 1 1)%nat as [->|]; [|lia]. reflexivity.
    + ring.
    + destruct (Nat.eqb_spec (2 * j + 0) (2 * i + 1)). lia. ring.
    + destruct (E' 0 0)%nat as [->|]; [|lia]. ring.
Qed.

Lemma ent_zero j y i x : j <> i -> ((j + 1) mod n)%nat <> i ->
  U (2 * j + Nat.b2n y)%nat (2 * i + Nat.b2n x)%nat = k0.
Proof.
  intros H1 H2. rewrite ent_all. apply Nat.eqb_neq in H1, H2. rewrite H1, H2, Bool.andb_false_r.
  cbn [andb]. ring.
Qed.
Lemma ent_diag i y x : ((i + 1) mod n)%nat <> i ->
  U (2 * i + Nat.b2n y)%nat (2 * i + Nat.b2n x)%nat = if Bool.eqb x y then k1 else k0.
Proof.
  intros H. rewrite ent_all. apply Nat.eqb_neq in H. rewrite H, Nat.eqb_refl, Bool.andb_false_r.
  cbn [andb]. ring.
Qed.
Lemma ent_edge j y i x : j <> i -> ((j + 1) mod n)%nat = i ->
  U (2 * j + Nat.b2n y)%nat (2 * i + Nat.b2n x)%nat = if y && x then a else k0.
Proof.
  intros H1 H2. rewrite ent_all. apply Nat.eqb_neq in H1. apply Nat.eqb_eq in H2.
  rewrite H1, H2, Bool.andb_true_r. cbn [andb]. ring.
Qed.

Lemma succ_mod_small j : (j + 1 < n)%nat -> ((j + 1) mod n = j + 1)%nat.
Proof. intros H. apply Nat.mod_small. exact H. Qed.
Lemma succ_mod_last j : (j + 1 = n)%nat -> ((j + 1) mod n = 0)%nat.
Proof. intros ->. apply Nat.mod_same. lia. Qed.
Lemma succ_mod_neq j : (j < n)%nat -> ((j + 1) mod n)%nat <> j.
Proof. intros H. destruct (Nat.eq_dec (j + 1) n) as [E|E].
  rewrite succ_mod_last by exact E. lia. rewrite succ_mod_small by lia. lia. Qed.

(* ---- the minor of row 0: upper triangular ---- *)
Lemma up_tri xs : forall ys k, length xs = length ys -> (1 <= k)%nat -> (k + length xs <= n)%nat ->
  uptri U (pos k xs) (pos k ys).
Proof.
  induction xs as [|x xs IH]; intros [|y ys] k Hl Hk Hk'; try discriminate. exact Logic.I.
  cbn [length] in *. cbn [pos uptri]. split.
  - intros r' Hin. apply in_pos in Hin as (j & y' & -> & Hj). apply ent_zero. lia.
    destruct (Nat.eq_dec (j + 1) n) as [E|E].
    rewrite succ_mod_last by exact E. lia. rewrite succ_mod_small by lia. lia.
  - apply IH; lia.
Qed.
Lemma up_diag xs : forall ys k, length xs = length ys -> (k + length xs <= n)%nat ->
  diagprod U (pos k xs) (pos k ys) = if leqb xs ys then k1 else k0.
Proof.
  induction xs as [|x xs IH]; intros [|y ys] k Hl Hk; try discriminate. reflexivity.
  cbn [length] in *. cbn [pos diagprod leqb]. rewrite ent_diag by (apply succ_mod_neq; lia).
  rewrite IH by lia. destruct (Bool.eqb x y), (leqb xs ys); cbn [andb]; ring.
Qed.

(* ---- the minor of row n-1: lower triangular ---- *)
Lemma low_tri xs : forall ys k, length xs = length ys -> (S k + length xs <= n)%nat ->
  lowtri U (pos (S k) xs) (pos k ys).
Proof.
  induction xs as [|x xs IH]; intros [|y ys] k Hl Hk; try discriminate. exact Logic.I.
  cbn [length] in *. cbn [pos lowtri]. split.
  - intros c' Hin. apply in_pos in Hin as (i & x' & -> & Hi). apply ent_zero. lia.
    rewrite succ_mod_small by lia. lia.
  - apply IH; lia.
Qed.
Lemma low_diag xs : forall ys k, length xs = length ys -> (S k + length xs <= n)%nat ->
  diagprod U (pos (S k) xs) (pos k ys) = if alltrue xs && alltrue ys then kpow a (length xs) else k0.
Proof.
  induction xs as [|x xs IH]; intros [|y ys] k Hl Hk; try discriminate. reflexivity.
  cbn [length] in *. cbn [pos diagprod]. rewrite ent_edge; [| lia | rewrite succ_mod_small by lia; lia].
  rewrite IH by lia. unfold alltrue. cbn [forallb kpow].
  destruct x, y, (forallb (fun x => x) xs), (forallb (fun x => x) ys); cbn [andb]; ring.
Qed.

(* ---- the permanent, on bit lists ---- *)
Lemma crot_perm_split x0 xs y0 ym yl : n = S (length xs) -> length xs = S (length ym) ->
  permR U (pos 0 (x0 :: xs)) (pos 0 (y0 :: ym ++ [yl]))
  = (if leqb (x0 :: xs) (y0 :: ym ++ [yl]) then k1 else k0)
    + (if alltrue (x0 :: xs) && alltrue (y0 :: ym ++ [yl]) then kpow a n else k0).
Proof.
  intros En El.
  assert (Ely : length xs = length (ym ++ [yl])) by (rewrite app_length; cbn [length]; lia).
  cbn [pos permR sum_pos].
  rewrite (permR_uptri R U) by (apply up_tri; lia).
  rewrite up_diag by lia.
  rewrite ent_diag by (apply succ_mod_neq; lia).
  rewrite pos_app, sum_pos_app.
  rewrite (sum_pos_all_zero R (pos 1 ym)).
  2:{ intros l1 r l2 E. assert (Hin : In r (pos 1 ym)) by (rewrite E; apply in_or_app; right; left; reflexivity).
      apply in_pos in Hin as (j & y' & -> & Hj). rewrite ent_zero. ring. lia.
      rewrite succ_mod_small by lia. lia. }
  cbn [pos sum_pos]. rewrite app_nil_r.
  change ((2 * 0 + Nat.b2n y0)%nat :: pos 1 ym) with (pos 0 (y0 :: ym)).
  rewrite (permR_lowtri R U) by (apply low_tri; cbn [length]; lia).
  rewrite low_diag by (cbn [length]; lia).
  rewrite ent_edge; [| lia | apply succ_mod_last; lia].
  subst n. unfold alltrue. cbn [forallb leqb kpow]. rewrite forallb_app. cbn [forallb].
  destruct (Bool.eqb x0 y0) eqn:E0; [apply Bool.eqb_prop in E0; subst y0|];
  destruct (leqb xs (ym ++ [yl])), x0, yl, (forallb (fun x => x) xs), (forallb (fun x => x) ym);
    try destruct y0; try discriminate E0; cbn [andb]; ring.
Qed.

Lemma crot_perm_bits xs ys : length xs = n -> length ys = n ->
  permR U (pos 0 xs) (pos 0 ys)
  = (if leqb xs ys then k1 else k0) + (if alltrue xs && alltrue ys then kpow a n else k0).
Proof.
  intros Hx Hy. destruct xs as [|x0 xs]; [cbn [length] in Hx; lia|].
  destruct ys as [|y0 ys]; [cbn [length] in Hy; lia|].
  cbn [length] in Hx, Hy.
  assert (Hne : ys <> []) by (intros ->; cbn [length] in Hy; lia).
  destruct (exists_last Hne) as (ym & yl & ->). rewrite app_length in Hy. cbn [length] in Hy.
  apply crot_perm_split; lia.
Qed.

Theorem crot_logical_n b b' : (b < 2 ^ n)%nat -> (b' < 2 ^ n)%nat ->
  lamp U (2 * n) n [] b b' = M_crot n a b' b.
Proof.
  intros Hb Hb'. rewrite lamp_perm_bits, crot_perm_bits by apply bits_length.
  unfold M_crot. destruct (Nat.eqb_spec b' b) as [E|E].
  - subst b'. rewrite (proj2 (leqb_eq _ _) eq_refl).
    destruct (Nat.eqb_spec b (2 ^ n - 1)) as [E1|E1].
    + rewrite (proj2 (bits_alltrue n b Hb) E1). reflexivity.
    + destruct (alltrue (bits n b)) eqn:Ea. apply (bits_alltrue n b Hb) in Ea. contradiction.
      cbn [andb]. ring.
  - destruct (leqb (bits n b) (bits n b')) eqn:El.
    + apply leqb_eq in El. apply bits_inj in El; auto. congruence.
    + destruct (alltrue (bits n b)) eqn:Ea, (alltrue (bits n b')) eqn:Ea'; cbn [andb]; try ring.
      apply (bits_alltrue n b Hb) in Ea. apply (bits_alltrue n b' Hb') in Ea'. congruence.
Qed.
End Crot.

Theorem crot_logical_all_n : forall (R : cring) (a : R) n b b', (2 <= n)%nat -> (b < 2 ^ n)%nat -> (b' < 2 ^ n)%nat ->
  lamp (crot_block n a) (2 * n) n [] b b' = M_crot n a b' b.
Proof. intros R a n b b' Hn. apply crot_logical_n. exact Hn. Qed.

(* the block the implementation uses is M / sigma_max (Matrix.get_unitary_extension normalises by the largest
   singular value): one scalar s on every entry multiplies every logical amplitude by s^n *)
Theorem crot_logical_scaled_all_n : forall (R : cring) (s a : R) n b b', (2 <= n)%nat -> (b < 2 ^ n)%nat -> (b' < 2 ^ n)%nat ->
  lamp (fun j k => kmul s (crot_block n a j k)) (2 * n) n [] b b' = kmul (kpow s n) (M_crot n a b' b).
Proof.
  intros R s a n b b' Hn Hb Hb'. rewrite lamp_perm_bits, permR_scal, pos_length, bits_length.
  rewrite <- lamp_perm_bits, crot_logical_all_n by assumption. reflexivity.
Qed.

(* the rotation, every size: a^n = e - 1  ->  the all-ones state picks up exactly e *)
Corollary crot_rotation_all_n : forall (R : cring) (a e : R) n, (2 <= n)%nat -> kpow a n = ksub e k1 ->
  lamp (crot_block n a) (2 * n) n [] (2 ^ n - 1) (2 ^ n - 1) = e.
Proof.
  intros R a e n Hn He. assert (H : (2 ^ n - 1 < 2 ^ n)%nat) by (pose proof (Nat.pow_nonzero 2 n); lia).
  rewrite crot_logical_all_n by assumption. unfold M_crot. rewrite !Nat.eqb_refl, He.
  pose proof (Kth R) as T. destruct T. rewrite Radd_comm, Rsub_def, <- Radd_assoc, (Radd_comm (kopp k1)), Ropp_def.
  rewrite Radd_comm. apply Radd_0_l.
Qed.

(* not vacuous: five qubits, the all-ones state picks up 1 + a^5 (from the theorem, nothing is computed) *)
Example crot5_all_ones (R : cring) (a : R) :
  lamp (crot_block 5 a) 10 5 [] 31 31 = kadd k1 (kpow a 5).
Proof. exact (crot_logical_all_n R a 5 31 31 ltac:(lia) ltac:(cbn; lia) ltac:(cbn; lia)). Qed.
Example crot5_off_diagonal (R : cring) (a : R) :
  lamp (crot_block 5 a) 10 5 [] 31 30 = k0.
Proof. exact (crot_logical_all_n R a 5 31 30 ltac:(lia) ltac:(cbn; lia) ltac:(cbn; lia)). Qed.
