(* A loss channel anywhere in a circuit, as a Kraus-operator identity on amplitude numerators.

   Circuit on m modes:  A (before),  loss channel on mode j,  C (after).  Specification (Model/Loss.v,
   [enlarged]): the channel is a two-mode gate between mode j and its own fresh vacuum mode m,
        W = (embed 0 m C) . gate2 j m B . (embed 0 m A)        on m+1 modes,   B = loss_bs c s.
   Result ([loss_kraus]): for every input s, output t (m modes) and number k of photons found in the
   fresh mode,
        <t,k| W |s,0>-numerator
          = sum over u (m modes, total s photons, u_j >= k) of
              <u|A|s>-numerator / prod u!                       (= slos_coef A m s u, division-free)
            * u_j (u_j - 1) ... (u_j - k + 1) * c^(u_j - k) * s^k
            * <t|C|u - k e_j>-numerator,
   i.e. with normalised amplitudes   <t,k|W|s,0> = sum_u <t|C|u - k e_j> sqrt(binom(u_j,k)) c^(u_j-k) s^k <u|A|s>:
   the k-th Kraus operator of independent photon loss, acting where the channel is placed.

   On the way:
     (L1) [amp_embed_last]      a block acting on the first m modes leaves the photons of mode m in place;
     (L2) [amp_gate2_vacuum]    the two-mode gate on the distant modes j < m and m, vacuum in mode m, moves
                                b photons from j to m with numerator  (prod u!) c^(u_j-b) s^b  and does
                                nothing else (any j < m, not only the adjacent one);
     (L3) [loss_kraus]          both combined with the Fock-space homomorphism [amp_hom] (twice).
   Any commutative ring, any m, any photon numbers. *)
From PV Require Import Model.Loss Proofs.LossP Proofs.PermOrderP Proofs.FockHomP.
From Coq Require Import Setoid Morphisms.

(* ------------------------------------------------------------------------------------------ *)
(* states: k photons removed from / added to mode j; binomial coefficients *)
Fixpoint subk (t : state) (j k : nat) : state :=
  match t, j with
  | [], _ => []
  | x :: r, O => (x - k)%nat :: r
  | x :: r, S j' => x :: subk r j' k
  end.
Fixpoint addk (t : state) (j k : nat) : state :=
  match t, j with
  | [], _ => []
  | x :: r, O => (x + k)%nat :: r
  | x :: r, S j' => x :: addk r j' k
  end.
Fixpoint binom (n k : nat) : nat :=
  match n, k with
  | _, O => 1%nat
  | O, S _ => 0%nat
  | S n', S k' => (binom n' k' + binom n' (S k'))%nat
  end.

Lemma binom_gt n : forall k, (n < k)%nat -> binom n k = 0%nat.
Proof. induction n as [|n IH]; intros [|k] H; simpl; try lia. rewrite !IH by lia. reflexivity. Qed.
Lemma binom_diag n : binom n n = 1%nat.
Proof. induction n as [|n IH]; simpl. reflexivity. rewrite IH, binom_gt by lia. reflexivity. Qed.
Lemma binom_0_r n : binom n 0 = 1%nat. Proof. destruct n; reflexivity. Qed.
(* binom n k * k! * (n-k)! = n! *)
Lemma binom_fact n : forall k, (k <= n)%nat -> (binom n k * (fact k * fact (n - k)) = fact n)%nat.
Proof. induction n as [|n IH]; intros [|k] H; try lia.
  - reflexivity.
  - rewrite binom_0_r, Nat.sub_0_r. change (fact 0) with 1%nat. lia.
  - cbn [binom]. destruct (Nat.eq_dec k n) as [->|Hne].
    + rewrite (binom_gt n (S n)) by lia. pose proof (IH n (le_n n)) as E. rewrite Nat.sub_diag in *.
      change (fact (S n)) with (S n * fact n)%nat. rewrite <- E at 2. simpl fact. ring.
    + pose proof (IH k ltac:(lia)) as E1. pose proof (IH (S k) ltac:(lia)) as E2.
      replace (S n - S k)%nat with (n - k)%nat by lia.
      replace (n - k)%nat with (S (n - S k)) in * by lia.
      change (fact (S n)) with (S n * fact n)%nat.
      transitivity (S k * (binom n k * (fact k * fact (S (n - S k)))) +
                    S (n - S k) * (binom n (S k) * (fact (S k) * fact (n - S k))))%nat.
      * change (fact (S k)) with (S k * fact k)%nat.
        change (fact (S (n - S k))) with (S (n - S k) * fact (n - S k))%nat. ring.
      * rewrite E1, E2. rewrite <- Nat.mul_add_distr_r. f_equal. lia.
Qed.

Lemma subk_length (t : state) : forall j k, length (subk t j k) = length t.
Proof. induction t; intros [|j] k; simpl; auto. Qed.
Lemma addk_length (t : state) : forall j k, length (addk t j k) = length t.
Proof. induction t; intros [|j] k; simpl; auto. Qed.
Lemma addk_0 (t : state) : forall j, addk t j 0 = t.
Proof. induction t as [|x t IH]; intros [|j]; simpl; auto. rewrite Nat.add_0_r; reflexivity. rewrite IH; reflexivity. Qed.
Lemma nth_addk_same (t : state) : forall j k, (j < length t)%nat -> nth j (addk t j k) 0%nat = (nth j t 0 + k)%nat.
Proof. induction t as [|x t IH]; intros [|j] k H; simpl in *; try lia. apply IH. lia. Qed.
Lemma nth_addk_other (t : state) : forall j k i, i <> j -> nth i (addk t j k) 0%nat = nth i t 0%nat.
Proof. induction t as [|x t IH]; intros [|j] k [|i] H; simpl; auto; try lia. Qed.
Lemma nth_subk_same (t : state) : forall j k, nth j (subk t j k) 0%nat = (nth j t 0 - k)%nat.
Proof. induction t as [|x t IH]; intros [|j] k; simpl; auto. Qed.
Lemma nth_inc_other (t : state) : forall j i, i <> j -> nth i (inc t j) 0%nat = nth i t 0%nat.
Proof. induction t as [|x t IH]; intros [|j] [|i] H; simpl; auto; try lia. Qed.
Lemma nth_dec_other (t : state) : forall j i, i <> j -> nth i (dec t j) 0%nat = nth i t 0%nat.
Proof. induction t as [|x t IH]; intros [|j] [|i] H; simpl; auto; try lia. Qed.
Lemma nth_dec_same (t : state) : forall j, nth j (dec t j) 0%nat = pred (nth j t 0%nat).
Proof. induction t as [|x t IH]; intros [|j]; simpl; auto. Qed.
Lemma subk_addk (t : state) : forall j k, subk (addk t j k) j k = t.
Proof. induction t as [|x t IH]; intros [|j] k; simpl; auto. f_equal; lia. rewrite IH; reflexivity. Qed.
Lemma addk_subk (t : state) : forall j k, (k <= nth j t 0)%nat -> addk (subk t j k) j k = t.
Proof. induction t as [|x t IH]; intros [|j] k H; simpl in *; auto. f_equal; lia. rewrite IH; auto. Qed.
Lemma dec_addk_other (t : state) : forall j b i, i <> j -> dec (addk t j b) i = addk (dec t i) j b.
Proof. induction t as [|x t IH]; intros [|j] b [|i] H; simpl; auto; try lia. rewrite IH by lia. reflexivity. Qed.
Lemma dec_addk_S (t : state) : forall j b, dec (addk t j (S b)) j = addk t j b.
Proof. induction t as [|x t IH]; intros [|j] b; simpl; auto. f_equal; lia. rewrite IH. reflexivity. Qed.
Lemma dec_addk_same (t : state) : forall j b, (0 < nth j t 0)%nat -> dec (addk t j b) j = addk (dec t j) j b.
Proof. induction t as [|x t IH]; intros [|j] b H; simpl in *; auto. f_equal; lia. rewrite IH by exact H. reflexivity. Qed.
Lemma total_snoc (u : state) a : total (u ++ [a]) = (total u + a)%nat.
Proof. unfold total. induction u as [|x u IH]; simpl. lia. rewrite IH. lia. Qed.
Lemma total_subk (t : state) : forall j k, (k <= nth j t 0)%nat -> (total (subk t j k) + k = total t)%nat.
Proof. unfold total. induction t as [|x t IH]; intros [|j] k H; simpl in *; try lia. specialize (IH j k H). lia. Qed.
Lemma factprod_snoc (u : state) a : factprod (u ++ [a]) = (factprod u * fact a)%nat.
Proof. induction u as [|x u IH]; simpl. lia. rewrite IH. ring. Qed.
(* (prod (u - b e_j)!) * b! * binom(u_j, b) = prod u! *)
Lemma factprod_subk (u : state) : forall j b, (b <= nth j u 0)%nat -> (j < length u)%nat ->
  (factprod (subk u j b) * fact b * binom (nth j u 0) b = factprod u)%nat.
Proof. induction u as [|x u IH]; intros [|j] b H Hj; simpl in *; try lia.
  - rewrite <- (binom_fact x b H). ring.
  - rewrite <- (IH j b H ltac:(lia)). ring. Qed.

Lemma nth_snoc_lt (u : state) a i : (i < length u)%nat -> nth i (u ++ [a]) 0%nat = nth i u 0%nat.
Proof. intros H. apply app_nth1. exact H. Qed.
Lemma nth_snoc_eq (u : state) a : nth (length u) (u ++ [a]) 0%nat = a.
Proof. induction u; simpl; auto. Qed.
Lemma dec_snoc_lt (u : state) a : forall i, (i < length u)%nat -> dec (u ++ [a]) i = dec u i ++ [a].
Proof. induction u as [|x u IH]; intros [|i] H; simpl in *; try lia. reflexivity. rewrite IH by lia. reflexivity. Qed.
Lemma dec_snoc_eq (u : state) a : dec (u ++ [a]) (length u) = u ++ [pred a].
Proof. induction u as [|x u IH]; simpl. reflexivity. rewrite IH. reflexivity. Qed.
Lemma all_zero_snoc (u : state) a : all_zero (u ++ [a]) = all_zero u && (a =? 0)%nat.
Proof. induction u as [|x u IH]; simpl. rewrite andb_true_r. reflexivity. rewrite IH, andb_assoc. reflexivity. Qed.
Lemma cols_of_snoc (u : state) a : cols_of (u ++ [a]) = cols_of u ++ repeat (length u) a.
Proof. unfold cols_of, rows_of. rewrite rows_from_app. simpl. rewrite app_nil_r. reflexivity. Qed.
Lemma snoc_cases (v : state) n : length v = S n -> exists v0 b, v = v0 ++ [b] /\ length v0 = n.
Proof. intros H. destruct (exists_last (l:=v)) as [v0 [b E]]. { intros ->. discriminate. }
  exists v0, b. split. exact E. subst v. rewrite app_length in H. simpl in H. lia. Qed.
Lemma snoc_inj (u v : state) a b : u ++ [a] = v ++ [b] -> u = v /\ a = b.
Proof. intros H. apply app_inj_tail in H. exact H. Qed.

(* X = inc o k  iff  X holds a photon in k and X - e_k = o *)
Lemma state_eqb_inc (X : state) : forall o k, (k < length o)%nat ->
  state_eqb X (inc o k) = (0 <? nth k X 0)%nat && state_eqb (dec X k) o.
Proof. induction X as [|x X IH]; intros [|y o] [|k] H; simpl in *; try lia; try reflexivity.
  - destruct x as [|x]; simpl; reflexivity.
  - rewrite IH by lia. destruct (x =? y)%nat, (0 <? nth k X 0)%nat; reflexivity. Qed.

(* ------------------------------------------------------------------------------------------ *)
Section LossKraus.
Variable R : cring.
Add Ring RringLK : (Kth R).
Open Scope K_scope.
Notation mat := (mat R).

(* ---- sums over the states of m+1 modes whose last mode is constrained ---- *)
Lemma suml_down_from_single n a (g : nat -> R) : (a <= n)%nat ->
  (forall a', (a' <= n)%nat -> a' <> a -> g a' = k0) -> suml (down_from n) g = g a.
Proof. induction n as [|n IH]; intros Ha H.
  - assert (a = 0%nat) by lia. subst. simpl. ring.
  - cbn [down_from suml]. destruct (Nat.eq_dec a (S n)) as [->|Hne].
    + rewrite suml_zero. ring. intros a' Ha'. apply In_down_from in Ha'. apply H; lia.
    + rewrite IH by (try lia; intros; apply H; lia). rewrite (H (S n)) by lia. ring. Qed.

(* a sum over all states with one possibly non-zero term *)
Lemma suml_allstates_single m : forall N (x : state) (F : state -> R), length x = m -> total x = N ->
  suml (allstates m N) (fun v => if state_eqb v x then F v else k0) = F x.
Proof. induction m as [|m IH]; intros N x F Hl Ht.
  - destruct x; [|discriminate]. unfold total in Ht. simpl in Ht. subst N. simpl. ring.
  - destruct x as [|a x]; [discriminate|]. rewrite suml_allstates_S.
    assert (Ha : (a <= N)%nat) by (unfold total in Ht; simpl in Ht; lia).
    rewrite (suml_down_from_single N a _ Ha).
    + cbn [state_eqb]. rewrite Nat.eqb_refl. cbn [andb].
      apply (IH (N - a)%nat x (fun r => F (a :: r))). simpl in Hl; lia.
      unfold total in *. simpl in Ht. lia.
    + intros a' _ Hne. apply suml_zero. intros r _. cbn [state_eqb].
      apply Nat.eqb_neq in Hne. rewrite Hne. reflexivity. Qed.

(* if only the states with an empty last mode contribute, the last mode can be dropped *)
Lemma suml_allstates_last0 m : forall N (F : state -> R),
  (forall (u : state) a, length u = m -> a <> 0%nat -> F (u ++ [a]) = k0) ->
  suml (allstates (S m) N) F = suml (allstates m N) (fun u => F (u ++ [0%nat])).
Proof. induction m as [|m IH]; intros N F H.
  - rewrite suml_allstates_S.
    rewrite (suml_down_from_single N N) by (try lia; intros a' Ha' Hne; cbn [allstates];
      replace (N - a' =? 0)%nat with false by (symmetry; apply Nat.eqb_neq; lia); reflexivity).
    rewrite Nat.sub_diag. cbn [allstates Nat.eqb suml]. destruct N as [|N].
    + simpl. ring.
    + pose proof (H [] (S N) eq_refl ltac:(lia)) as E. simpl in E. simpl. rewrite E. ring.
  - rewrite (suml_allstates_S R (S m)), (suml_allstates_S R m). apply suml_ext. intros a.
    apply (IH (N - a)%nat (fun r => F (a :: r))). intros u b Hu Hb. apply (H (a :: u) b); simpl; auto. Qed.

(* ---- entries of the enlarged matrices ---- *)
Lemma embed0_in (U : mat) m i k : (i < m)%nat -> (k < m)%nat -> embed 0 m U i k = U i k.
Proof. intros Hi Hk. unfold embed.
  replace (inb 0 m i) with true by (symmetry; apply inb_true; lia).
  replace (inb 0 m k) with true by (symmetry; apply inb_true; lia). simpl. rewrite !Nat.sub_0_r. reflexivity. Qed.
Lemma embed0_last_row (U : mat) m k : (k < m)%nat -> embed 0 m U m k = k0.
Proof. intros Hk. unfold embed. replace (inb 0 m m) with false by (symmetry; apply inb_false; lia).
  simpl. apply delta_neq. lia. Qed.
Lemma embed0_last_col (U : mat) m i : (i < m)%nat -> embed 0 m U i m = k0.
Proof. intros Hi. unfold embed. replace (inb 0 m m) with false by (symmetry; apply inb_false; lia).
  rewrite andb_false_r. apply delta_neq. lia. Qed.
Lemma embed0_corner (U : mat) m : embed 0 m U m m = k1.
Proof. unfold embed. replace (inb 0 m m) with false by (symmetry; apply inb_false; lia).
  simpl. apply delta_refl. Qed.

Lemma gate2_other_col (B : mat) j m i k : k <> j -> k <> m -> gate2 j m B i k = delta i k.
Proof. intros H1 H2. unfold gate2. apply Nat.eqb_neq in H1, H2. rewrite H1, H2.
  destruct (i =? j)%nat; [reflexivity|]. destruct (i =? m)%nat; reflexivity. Qed.
Lemma gate2_jj (B : mat) j m : gate2 j m B j j = B 0%nat 0%nat.
Proof. unfold gate2. rewrite Nat.eqb_refl. reflexivity. Qed.
Lemma gate2_mj (B : mat) j m : j <> m -> gate2 j m B m j = B 1%nat 0%nat.
Proof. intros H. unfold gate2. apply Nat.eqb_neq in H. rewrite (Nat.eqb_sym m j), H, !Nat.eqb_refl. reflexivity. Qed.
Lemma gate2_ij (B : mat) j m i : i <> j -> i <> m -> gate2 j m B i j = k0.
Proof. intros H1 H2. unfold gate2. rewrite Nat.eqb_refl. pose proof H1 as H1'.
  apply Nat.eqb_neq in H1, H2. rewrite H1, H2. apply delta_neq. exact H1'. Qed.

(* ---- the SLOS recursion on m+1 modes, last mode split off ---- *)
Lemma slos_snoc_step (U : mat) m k cols (u : state) a : length u = m ->
  slos U (S m) (k :: cols) (u ++ [a]) =
  sumn m (fun i => if (0 <? nth i u 0%nat)%nat then U i k * slos U (S m) cols (dec u i ++ [a]) else k0)
  + (if (0 <? a)%nat then U m k * slos U (S m) cols (u ++ [pred a]) else k0).
Proof. intros Hu. cbn [slos sumn]. f_equal.
  - apply sumn_ext. intros i Hi. rewrite nth_snoc_lt, dec_snoc_lt by lia. reflexivity.
  - subst m. rewrite nth_snoc_eq, dec_snoc_eq. reflexivity. Qed.

(* ---------------- (L1): a block on the first m modes, one spectator mode ---------------- *)
Lemma slos_embed_last_base (U : mat) m : forall b (u : state) a, length u = m ->
  slos (embed 0 m U) (S m) (repeat m b) (u ++ [a]) = if (a =? b)%nat then slos U m [] u else k0.
Proof. induction b as [|b IH]; intros u a Hu.
  - cbn [repeat slos]. rewrite all_zero_snoc. destruct (all_zero u), (a =? 0)%nat; reflexivity.
  - cbn [repeat]. rewrite slos_snoc_step by exact Hu. rewrite sumn_zero.
    2:{ intros i Hi. rewrite embed0_last_col by exact Hi. destruct (0 <? nth i u 0%nat)%nat; ring. }
    rewrite embed0_corner. destruct a as [|a]; cbn [Nat.ltb Nat.leb Nat.eqb pred].
    + ring.
    + rewrite IH by exact Hu. destruct (a =? b)%nat; ring. Qed.

Theorem slos_embed_last (U : mat) m cols : Forall (fun k => (k < m)%nat) cols -> forall b (u : state) a, length u = m ->
  slos (embed 0 m U) (S m) (cols ++ repeat m b) (u ++ [a]) = if (a =? b)%nat then slos U m cols u else k0.
Proof. induction cols as [|k cols IH]; intros Hc b u a Hu.
  - apply slos_embed_last_base. exact Hu.
  - inversion Hc as [|k' cols' Hk Hc']; subst k' cols'. cbn [app]. rewrite slos_snoc_step by exact Hu.
    rewrite embed0_last_row by exact Hk.
    transitivity (sumn m (fun i => if (a =? b)%nat then
        (if (0 <? nth i u 0%nat)%nat then U i k * slos U m cols (dec u i) else k0) else k0)).
    + transitivity (sumn m (fun i => if (a =? b)%nat then
        (if (0 <? nth i u 0%nat)%nat then U i k * slos U m cols (dec u i) else k0) else k0) + k0).
      2:{ ring. }
      f_equal.
      * apply sumn_ext. intros i Hi. rewrite embed0_in by assumption.
        rewrite IH by (auto; rewrite dec_length; exact Hu). destruct (a =? b)%nat, (0 <? nth i u 0%nat)%nat; ring.
      * destruct (0 <? a)%nat; ring.
    + cbn [slos]. destruct (a =? b)%nat. reflexivity. apply sumn_zero. reflexivity. Qed.

(* (L1) for amplitude numerators: photons in the untouched last mode stay there *)
Theorem amp_embed_last (U : mat) m (u t : state) a b : length u = m -> length t = m ->
  amp_num (embed 0 m U) (S m) (u ++ [a]) (t ++ [b]) =
  if (a =? b)%nat then of_nat (fact a) * amp_num U m u t else k0.
Proof. intros Hu Ht. unfold amp_num. rewrite cols_of_snoc, Hu, permS_slos.
  rewrite slos_embed_last by (auto; rewrite <- Hu; apply cols_of_bound).
  rewrite !total_snoc, factprod_snoc, (Nat.eqb_sym b a).
  destruct (a =? b)%nat eqn:E.
  - apply Nat.eqb_eq in E. subst b.
    replace (total u + a =? total t + a)%nat with (total u =? total t)%nat.
    2:{ destruct (Nat.eqb_spec (total u) (total t)), (Nat.eqb_spec (total u + a) (total t + a)); auto; lia. }
    destruct (total u =? total t)%nat; [|ring]. rewrite permS_slos, of_nat_mul. ring.
  - destruct (total u + a =? total t + b)%nat; ring. Qed.

(* ---------------- (L2): the two-mode gate on modes j < m and m, vacuum in mode m ---------------- *)
Lemma nth_repeat0 m j : nth j (repeat 0%nat m) 0%nat = 0%nat.
Proof. revert j; induction m; intros [|j]; simpl; auto. Qed.

Theorem slos_gate2_vacuum (B : mat) m j cols : (j < m)%nat -> Forall (fun k => (k < m)%nat) cols ->
  forall (v : state) b, length v = m ->
  slos (gate2 j m B) (S m) cols (v ++ [b]) =
  if state_eqb (addk v j b) (occ m cols)
  then of_nat (binom (nth j (occ m cols) 0%nat) b) * (kpow R (B 0%nat 0%nat) (nth j v 0%nat) * kpow R (B 1%nat 0%nat) b)
  else k0.
Proof.
  intros Hj. induction cols as [|k cols IH]; intros Hc v b Hv.
  - cbn [slos occ]. rewrite all_zero_snoc, nth_repeat0.
    destruct b as [|b].
    + rewrite addk_0, andb_true_r. rewrite all_zero_eqb, Hv.
      destruct (state_eqb v (repeat 0%nat m)) eqn:E; [|reflexivity].
      apply state_eqb_eq in E. rewrite E, nth_repeat0. simpl. ring.
    + rewrite andb_false_r. destruct (state_eqb _ _); simpl; ring.
  - inversion Hc as [|k' cols' Hk Hc']; subst k' cols'. specialize (IH Hc').
    cbn [occ]. set (o := occ m cols) in *.
    assert (Lo : length o = m) by apply occ_length.
    rewrite slos_snoc_step by exact Hv.
    rewrite state_eqb_inc by lia.
    destruct (Nat.eq_dec k j) as [->|Hne].
    + (* a photon of the lossy mode: stays (B00) or goes to the fresh mode (B10) *)
      rewrite (sumn_single R m _ j Hj).
      2:{ intros i Hi Hij. rewrite gate2_ij by lia. destruct (0 <? nth i v 0%nat)%nat; ring. }
      rewrite gate2_jj, gate2_mj by lia.
      rewrite nth_inc_same by lia. rewrite nth_addk_same by lia.
      destruct (nth j v 0%nat) as [|x] eqn:Ex; destruct b as [|b]; cbn [Nat.ltb Nat.leb pred Nat.add andb].
      * ring.
      * rewrite IH by exact Hv. rewrite dec_addk_S, Ex.
        destruct (state_eqb (addk v j b) o) eqn:E; [|ring].
        apply state_eqb_eq in E. assert (En : nth j o 0%nat = b).
        { rewrite <- E, nth_addk_same by lia. rewrite Ex. reflexivity. }
        rewrite En. cbn [binom]. rewrite (binom_gt b (S b)) by lia. rewrite Nat.add_0_r. cbn [kpow]. ring.
      * replace (x + 0)%nat with x by lia. cbn [Nat.ltb Nat.leb andb].
        rewrite IH by (rewrite dec_length; exact Hv).
        rewrite dec_addk_same by lia. rewrite nth_dec_same, Ex. cbn [pred].
        destruct (state_eqb (addk (dec v j) j 0) o); [|ring].
        rewrite !binom_0_r. cbn [kpow]. ring.
      * replace (0 <? S (x + S b))%nat with true by reflexivity. cbn [andb].
        rewrite !IH by (try rewrite dec_length; exact Hv).
        rewrite dec_addk_S. rewrite <- dec_addk_same by lia. rewrite dec_addk_S.
        rewrite nth_dec_same, Ex. cbn [pred].
        destruct (state_eqb (addk v j b) o); [|ring].
        cbn [binom kpow]. rewrite of_nat_add. ring.
    + (* a photon of another mode is not touched *)
      rewrite (sumn_single R m _ k Hk).
      2:{ intros i Hi Hik. rewrite gate2_other_col by lia. rewrite delta_neq by exact Hik.
          destruct (0 <? nth i v 0%nat)%nat; ring. }
      rewrite !gate2_other_col by lia. rewrite delta_refl, (delta_neq R m k) by lia.
      rewrite nth_addk_other by exact Hne. rewrite dec_addk_other by exact Hne.
      rewrite nth_inc_other by auto.
      destruct (0 <? nth k v 0%nat)%nat; cbn [andb].
      * rewrite IH by (rewrite dec_length; exact Hv). rewrite nth_dec_other by auto.
        destruct (state_eqb (addk (dec v k) j b) o); destruct (0 <? b)%nat; ring.
      * destruct (0 <? b)%nat; ring.
Qed.

(* the SLOS coefficient of the gate between Fock states: b photons go from mode j to the fresh mode *)
Corollary slos_coef_gate2_vacuum (B : mat) m j (u v : state) b : (j < m)%nat -> length u = m -> length v = m ->
  slos_coef (gate2 j m B) (S m) (u ++ [0%nat]) (v ++ [b]) =
  if state_eqb (addk v j b) u
  then of_nat (binom (nth j u 0%nat) b) * (kpow R (B 0%nat 0%nat) (nth j v 0%nat) * kpow R (B 1%nat 0%nat) b)
  else k0.
Proof. intros Hj Hu Hv. unfold slos_coef. rewrite cols_of_snoc. cbn [repeat]. rewrite app_nil_r.
  rewrite slos_gate2_vacuum by (auto; rewrite <- Hu; apply cols_of_bound).
  rewrite <- Hu, occ_cols_of. reflexivity. Qed.

(* (L2) for amplitude numerators: nothing happens outside modes j and m; b photons of mode j are found in
   mode m with numerator (prod of the factorials of the untouched modes) * u_j! * B00^(u_j-b) * B10^b,
   the second factor being the two-mode numerator of [bs_vacuum_binomial] *)
Theorem amp_gate2_vacuum (B : mat) m j (u v : state) b : (j < m)%nat -> length u = m -> length v = m ->
  amp_num (gate2 j m B) (S m) (u ++ [0%nat]) (v ++ [b]) =
  if state_eqb v (subk u j b) && (b <=? nth j u 0%nat)%nat
  then of_nat (factprod u) * (kpow R (B 0%nat 0%nat) (nth j u 0%nat - b) * kpow R (B 1%nat 0%nat) b)
  else k0.
Proof. intros Hj Hu Hv. unfold amp_num. rewrite !total_snoc.
  rewrite permS_slos. fold (slos_coef (gate2 j m B) (S m) (u ++ [0%nat]) (v ++ [b])).
  rewrite slos_coef_gate2_vacuum by assumption.
  destruct (state_eqb (addk v j b) u) eqn:E.
  - apply state_eqb_eq in E. subst u.
    rewrite subk_addk, state_eqb_refl, nth_addk_same by lia.
    replace (b <=? nth j v 0%nat + b)%nat with true by (symmetry; apply Nat.leb_le; lia). cbn [andb].
    replace (nth j v 0%nat + b - b)%nat with (nth j v 0%nat) by lia.
    replace (total (addk v j b) + 0 =? total v + b)%nat with true.
    2:{ symmetry. apply Nat.eqb_eq. pose proof (total_subk (addk v j b) j b) as T.
        rewrite subk_addk, nth_addk_same in T by lia. lia. }
    pose proof (factprod_subk (addk v j b) j b) as F. rewrite subk_addk, nth_addk_same, addk_length in F by lia.
    rewrite <- F by lia. rewrite factprod_snoc, !of_nat_mul. ring.
  - replace (state_eqb v (subk u j b) && (b <=? nth j u 0%nat)%nat) with false.
    { destruct (_ =? _)%nat; ring. }
    symmetry. apply andb_false_iff. destruct (state_eqb v (subk u j b)) eqn:E1; [right|left; reflexivity].
    apply Nat.leb_gt. apply state_eqb_eq in E1. subst v.
    destruct (Nat.le_gt_cases b (nth j u 0%nat)) as [Hle|Hgt]; [|exact Hgt].
    rewrite addk_subk, state_eqb_refl in E by exact Hle. discriminate. Qed.

(* ---------------- (L3): the Kraus identity ---------------- *)
(* k-th Kraus coefficient on n photons, un-normalised: n (n-1) ... (n-k+1) c^(n-k) s^k *)
Definition kraus (c s : R) (n k : nat) : R :=
  of_nat (binom n k * fact k) * (kpow R c (n - k) * kpow R s k).

Theorem loss_kraus_gate (A C B : mat) m j (sI t : state) k : (j < m)%nat -> length sI = m -> length t = m ->
  amp_num (mmul (S m) (embed 0 m C) (mmul (S m) (gate2 j m B) (embed 0 m A))) (S m) (sI ++ [0%nat]) (t ++ [k]) =
  suml (allstates m (total sI)) (fun u =>
    if (k <=? nth j u 0%nat)%nat
    then slos_coef A m sI u * kraus (B 0%nat 0%nat) (B 1%nat 0%nat) (nth j u 0%nat) k * amp_num C m (subk u j k) t
    else k0).
Proof.
  intros Hj Hs Ht.
  set (X := embed 0 m C). set (G := gate2 j m B). set (A' := embed 0 m A).
  rewrite (amp_ext R _ (mmul (S m) (mmul (S m) X G) A') (S m)).
  2:{ symmetry. apply mmul_assoc. }
  2:{ rewrite app_length, Hs. simpl. lia. }
  rewrite amp_hom. rewrite total_snoc, Nat.add_0_r.
  assert (EA : forall (u : state) a, length u = m ->
     slos_coef A' (S m) (sI ++ [0%nat]) (u ++ [a]) = if (a =? 0)%nat then slos_coef A m sI u else k0).
  { intros u a Hu. unfold slos_coef, A'. rewrite cols_of_snoc, Hs.
    apply slos_embed_last; auto. rewrite <- Hs. apply cols_of_bound. }
  rewrite suml_allstates_last0.
  2:{ intros u a Hu Ha. rewrite EA by exact Hu. apply Nat.eqb_neq in Ha. rewrite Ha. ring. }
  apply suml_ext_in. intros u Hu. apply allstates_sound in Hu as [Lu Tu].
  rewrite EA by exact Lu. cbn [Nat.eqb].
  rewrite amp_hom. rewrite total_snoc, Nat.add_0_r, Tu.
  (* the summand over the states v0 ++ [b] of m+1 modes *)
  assert (ET : forall (v0 : state) b, length v0 = m ->
     amp_num X (S m) (v0 ++ [b]) (t ++ [k]) * slos_coef G (S m) (u ++ [0%nat]) (v0 ++ [b]) =
     if (b =? k)%nat && state_eqb (addk v0 j k) u
     then of_nat (fact k) * amp_num C m v0 t *
          (of_nat (binom (nth j u 0%nat) k) * (kpow R (B 0%nat 0%nat) (nth j v0 0%nat) * kpow R (B 1%nat 0%nat) k))
     else k0).
  { intros v0 b Hv. unfold X, G. rewrite amp_embed_last by assumption.
    destruct (b =? k)%nat eqn:E; cbn [andb]; [|ring].
    apply Nat.eqb_eq in E. subst b. rewrite slos_coef_gate2_vacuum by assumption.
    destruct (state_eqb (addk v0 j k) u); ring. }
  destruct (k <=? nth j u 0%nat)%nat eqn:Ek.
  - apply Nat.leb_le in Ek.
    set (x := subk u j k ++ [k]).
    assert (Lx : length x = S m) by (unfold x; rewrite app_length, subk_length, Lu; simpl; lia).
    assert (Tx : total x = total sI) by (unfold x; rewrite total_snoc, total_subk by exact Ek; exact Tu).
    rewrite (suml_ext_in R _ _ (fun v' => if state_eqb v' x
        then amp_num X (S m) v' (t ++ [k]) * slos_coef G (S m) (u ++ [0%nat]) v' else k0)).
    + rewrite (suml_allstates_single (S m) (total sI) x _ Lx Tx). unfold x.
      rewrite ET by (rewrite subk_length; exact Lu).
      rewrite Nat.eqb_refl, addk_subk, state_eqb_refl by exact Ek. cbn [andb].
      rewrite nth_subk_same. unfold kraus. rewrite of_nat_mul. ring.
    + intros v' Hv'. apply allstates_sound in Hv' as [Lv' _].
      destruct (state_eqb v' x) eqn:E; [reflexivity|].
      destruct (snoc_cases v' m Lv') as [v0 [b [-> Lv0]]]. rewrite ET by exact Lv0.
      destruct (b =? k)%nat eqn:Eb; cbn [andb]; [|reflexivity].
      destruct (state_eqb (addk v0 j k) u) eqn:Eu; [|reflexivity].
      apply Nat.eqb_eq in Eb. apply state_eqb_eq in Eu. subst b u.
      unfold x in E. rewrite subk_addk, state_eqb_refl in E. discriminate.
  - apply Nat.leb_gt in Ek. rewrite suml_zero. ring. intros v' Hv'. apply allstates_sound in Hv' as [Lv' _].
    destruct (snoc_cases v' m Lv') as [v0 [b [-> Lv0]]]. rewrite ET by exact Lv0.
    destruct (b =? k)%nat; cbn [andb]; [|reflexivity].
    destruct (state_eqb (addk v0 j k) u) eqn:Eu; [|reflexivity].
    apply state_eqb_eq in Eu. subst u. rewrite nth_addk_same in Ek by lia. lia.
Qed.

(* the loss channel of the specification: B = loss_bs c s (transmission amplitude c, loss amplitude s) *)
Theorem loss_kraus (A C : mat) m j (c s : R) (sI t : state) k : (j < m)%nat -> length sI = m -> length t = m ->
  amp_num (mmul (S m) (embed 0 m C) (mmul (S m) (gate2 j m (loss_bs c s)) (embed 0 m A))) (S m) (sI ++ [0%nat]) (t ++ [k]) =
  suml (allstates m (total sI)) (fun u =>
    if (k <=? nth j u 0%nat)%nat
    then slos_coef A m sI u * kraus c s (nth j u 0%nat) k * amp_num C m (subk u j k) t
    else k0).
Proof. intros Hj Hs Ht. apply (loss_kraus_gate A C (loss_bs c s) m j sI t k Hj Hs Ht). Qed.

(* the same with the division by prod u! written as a multiplication by an inverse w u (as amp_hom_w) *)
Theorem loss_kraus_w (A C : mat) m j (c s : R) (sI t : state) k (w : state -> R) :
  (j < m)%nat -> length sI = m -> length t = m ->
  (forall u, In u (allstates m (total sI)) -> of_nat (factprod u) * w u = k1) ->
  amp_num (mmul (S m) (embed 0 m C) (mmul (S m) (gate2 j m (loss_bs c s)) (embed 0 m A))) (S m) (sI ++ [0%nat]) (t ++ [k]) =
  suml (allstates m (total sI)) (fun u =>
    if (k <=? nth j u 0%nat)%nat
    then amp_num A m sI u * kraus c s (nth j u 0%nat) k * amp_num C m (subk u j k) t * w u
    else k0).
Proof. intros Hj Hs Ht Hw. rewrite loss_kraus by assumption. apply suml_ext_in. intros u Hu.
  pose proof (Hw u Hu) as E. apply allstates_sound in Hu as [_ Tu].
  destruct (k <=? nth j u 0%nat)%nat; [|reflexivity].
  unfold slos_coef. unfold amp_num at 2. rewrite Tu, Nat.eqb_refl, permS_slos.
  transitivity (slos A m (cols_of sI) u * kraus c s (nth j u 0%nat) k * amp_num C m (subk u j k) t
                * (of_nat (factprod u) * w u)). rewrite E; ring. ring. Qed.

(* the circuit of the specification: [enlarged] of  A ; LC(mode j) ; C  with fresh mode m *)
Theorem loss_kraus_enlarged (A C : mat) m j (c s : R) (sI t : state) k : (j < m)%nat -> length sI = m -> length t = m ->
  amp_num (oprod (S m) (enlarged (S m) m [LU 0 m A; LLC j c s; LU 0 m C])) (S m) (sI ++ [0%nat]) (t ++ [k]) =
  suml (allstates m (total sI)) (fun u =>
    if (k <=? nth j u 0%nat)%nat
    then slos_coef A m sI u * kraus c s (nth j u 0%nat) k * amp_num C m (subk u j k) t
    else k0).
Proof. intros Hj Hs Ht. rewrite <- loss_kraus by assumption. apply amp_ext.
  - cbn [enlarged oprod]. rewrite mmul_id_l. apply mmul_assoc.
  - rewrite app_length, Hs. simpl. lia. Qed.

(* ---------------- special cases ---------------- *)
(* channel at the very end of the circuit (C = identity): binomial thinning of output mode j *)
Theorem loss_kraus_at_end (A : mat) m j (c s : R) (sI t : state) k : (j < m)%nat -> length sI = m -> length t = m ->
  amp_num (mmul (S m) (gate2 j m (loss_bs c s)) (embed 0 m A)) (S m) (sI ++ [0%nat]) (t ++ [k]) =
  if (total sI =? total t + k)%nat
  then of_nat (factprod t) * (slos_coef A m sI (addk t j k) * kraus c s (nth j t 0%nat + k) k)
  else k0.
Proof.
  intros Hj Hs Ht.
  rewrite (amp_ext R _ (mmul (S m) (embed 0 m mid) (mmul (S m) (gate2 j m (loss_bs c s)) (embed 0 m A))) (S m)).
  2:{ rewrite (embed_id R (S m) 0 m), mmul_id_l. reflexivity. }
  2:{ rewrite app_length, Hs. simpl. lia. }
  rewrite loss_kraus by assumption.
  assert (EC : forall u, In u (allstates m (total sI)) ->
    (if (k <=? nth j u 0%nat)%nat then slos_coef A m sI u * kraus c s (nth j u 0%nat) k * amp_num mid m (subk u j k) t else k0)
    = if state_eqb u (addk t j k) then of_nat (factprod t) * (slos_coef A m sI u * kraus c s (nth j u 0%nat) k) else k0).
  { intros u Hu. apply allstates_sound in Hu as [Lu Tu].
    destruct (k <=? nth j u 0%nat)%nat eqn:Ek.
    - apply Nat.leb_le in Ek. unfold amp_num. pose proof (total_subk u j k Ek) as T.
      rewrite (permS_mid R m) by (try rewrite subk_length; assumption).
      destruct (state_eqb (subk u j k) t) eqn:E.
      + apply state_eqb_eq in E. subst t. rewrite Nat.eqb_refl, addk_subk, state_eqb_refl by exact Ek. ring.
      + destruct (state_eqb u (addk t j k)) eqn:E'.
        * apply state_eqb_eq in E'. subst u. rewrite subk_addk, state_eqb_refl in E. discriminate.
        * destruct (_ =? _)%nat; ring.
    - apply Nat.leb_gt in Ek. destruct (state_eqb u (addk t j k)) eqn:E'; [|reflexivity].
      apply state_eqb_eq in E'. subst u. rewrite nth_addk_same in Ek by lia. lia. }
  rewrite (suml_ext_in R _ _ _ EC).
  destruct (total sI =? total t + k)%nat eqn:En.
  - apply Nat.eqb_eq in En.
    assert (Tt : total (addk t j k) = total sI).
    { pose proof (total_subk (addk t j k) j k) as T. rewrite subk_addk, nth_addk_same in T by lia. lia. }
    rewrite (suml_allstates_single m (total sI) (addk t j k)
      (fun u => of_nat (factprod t) * (slos_coef A m sI u * kraus c s (nth j u 0%nat) k))).
    + rewrite nth_addk_same by lia. reflexivity.
    + rewrite addk_length. exact Ht.
    + exact Tt.
  - apply suml_zero. intros u Hu. apply allstates_sound in Hu as [Lu Tu].
    destruct (state_eqb u (addk t j k)) eqn:E'; [|reflexivity].
    apply state_eqb_eq in E'. subst u. apply Nat.eqb_neq in En. exfalso. apply En.
    pose proof (total_subk (addk t j k) j k) as T. rewrite subk_addk, nth_addk_same in T by lia. lia. Qed.

(* the SLOS coefficients of the identity *)
Lemma slos_mid_occ m cols : Forall (fun k => (k < m)%nat) cols -> forall t : state, length t = m ->
  slos (mid (R:=R)) m cols t = if state_eqb t (occ m cols) then k1 else k0.
Proof. induction cols as [|k cols IH]; intros Hc t Ht.
  - cbn [slos occ]. rewrite all_zero_eqb, Ht. reflexivity.
  - inversion Hc as [|k' cols' Hk Hc']; subst k' cols'. cbn [slos occ].
    rewrite state_eqb_inc by (rewrite occ_length; exact Hk).
    rewrite (sumn_single R m _ k Hk).
    2:{ intros i _ Hik. unfold mid. rewrite delta_neq by exact Hik. destruct (0 <? nth i t 0%nat)%nat; ring. }
    unfold mid. rewrite delta_refl. destruct (0 <? nth k t 0%nat)%nat; cbn [andb]; [|reflexivity].
    rewrite IH by (auto; rewrite dec_length; exact Ht). ring. Qed.
Lemma slos_coef_mid m (s t : state) : length s = m -> length t = m ->
  slos_coef (mid (R:=R)) m s t = if state_eqb t s then k1 else k0.
Proof. intros Hs Ht. unfold slos_coef. rewrite slos_mid_occ by (auto; rewrite <- Hs; apply cols_of_bound).
  rewrite <- Hs, occ_cols_of. reflexivity. Qed.

(* channel at the very start (A = identity): a Fock state arrives at the channel; k of the n photons of
   mode j are lost with the binomial numerator, the others go on through C *)
Theorem loss_kraus_at_start (C : mat) m j (c s : R) (sI t : state) k : (j < m)%nat -> length sI = m -> length t = m ->
  amp_num (mmul (S m) (embed 0 m C) (gate2 j m (loss_bs c s))) (S m) (sI ++ [0%nat]) (t ++ [k]) =
  if (k <=? nth j sI 0%nat)%nat
  then kraus c s (nth j sI 0%nat) k * amp_num C m (subk sI j k) t
  else k0.
Proof.
  intros Hj Hs Ht.
  rewrite (amp_ext R _ (mmul (S m) (embed 0 m C) (mmul (S m) (gate2 j m (loss_bs c s)) (embed 0 m mid))) (S m)).
  2:{ rewrite (embed_id R (S m) 0 m), mmul_id_r. reflexivity. }
  2:{ rewrite app_length, Hs. simpl. lia. }
  rewrite loss_kraus by assumption.
  rewrite (suml_ext_in R _ _ (fun u => if state_eqb u sI then
     (if (k <=? nth j u 0%nat)%nat then kraus c s (nth j u 0%nat) k * amp_num C m (subk u j k) t else k0) else k0)).
  - apply (suml_allstates_single m (total sI) sI); auto.
  - intros u Hu. apply allstates_sound in Hu as [Lu _]. rewrite slos_coef_mid by assumption.
    destruct (state_eqb u sI), (k <=? nth j u 0%nat)%nat; ring. Qed.

(* ---------------- the binomial law on m modes ---------------- *)
Lemma kpow_mul (x y : R) n : kpow R (x * y) n = kpow R x n * kpow R y n.
Proof. induction n; simpl. ring. rewrite IHn. ring. Qed.
Lemma kpow_conj (x : R) n : kconj (kpow R x n) = kpow R (kconj x) n.
Proof. induction n; simpl. apply conj_one. rewrite conj_mul, IHn. reflexivity. Qed.

(* |numerator|^2 = norm * binom(n,k) * T^(n-k) * L^k  with  T = c c*, L = s s*:  each of the n photons of
   mode j is lost independently with probability L, whatever the other modes hold *)
Theorem loss_binomial_law (m j : nat) (c s : R) (u : state) k : (j < m)%nat -> length u = m -> (k <= nth j u 0%nat)%nat ->
  amp_num (gate2 j m (loss_bs c s)) (S m) (u ++ [0%nat]) (subk u j k ++ [k]) *
  kconj (amp_num (gate2 j m (loss_bs c s)) (S m) (u ++ [0%nat]) (subk u j k ++ [k])) =
  of_nat (norm2 (u ++ [0%nat]) (subk u j k ++ [k])) *
  (of_nat (binom (nth j u 0%nat) k) * (kpow R (c * kconj c) (nth j u 0%nat - k) * kpow R (s * kconj s) k)).
Proof. intros Hj Hu Hk. rewrite amp_gate2_vacuum by (try rewrite subk_length; assumption).
  rewrite state_eqb_refl. replace (k <=? nth j u 0%nat)%nat with true by (symmetry; apply Nat.leb_le; exact Hk).
  cbn [andb]. change (loss_bs c s 0%nat 0%nat) with c. change (loss_bs c s 1%nat 0%nat) with s.
  rewrite !conj_mul, conj_of_nat, !kpow_conj, !kpow_mul.
  unfold norm2. rewrite !factprod_snoc. change (fact 0) with 1%nat.
  pose proof (factprod_subk u j k Hk ltac:(lia)) as F.
  replace (factprod u * 1 * (factprod (subk u j k) * fact k))%nat
    with (factprod u * (factprod (subk u j k) * fact k))%nat by ring.
  rewrite !of_nat_mul.
  transitivity (of_nat (factprod u) * of_nat (factprod (subk u j k) * fact k * binom (nth j u 0%nat) k) *
    (kpow R c (nth j u 0%nat - k) * kpow R (kconj c) (nth j u 0%nat - k) * (kpow R s k * kpow R (kconj s) k))).
  - rewrite F. ring.
  - rewrite !of_nat_mul. ring. Qed.

(* the statements with the mode count written m + 1 *)
Theorem loss_kraus_plus1 (A C : mat) m j (c s : R) (sI t : state) k : (j < m)%nat -> length sI = m -> length t = m ->
  amp_num (mmul (m + 1) (embed 0 m C) (mmul (m + 1) (gate2 j m (loss_bs c s)) (embed 0 m A))) (m + 1) (sI ++ [0%nat]) (t ++ [k]) =
  suml (allstates m (total sI)) (fun u =>
    if (k <=? nth j u 0%nat)%nat
    then slos_coef A m sI u * kraus c s (nth j u 0%nat) k * amp_num C m (subk u j k) t
    else k0).
Proof. rewrite Nat.add_1_r. apply loss_kraus. Qed.

End LossKraus.
Arguments kraus {_}.
