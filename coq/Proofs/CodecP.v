(* C15 - proofs about the codec model. *)
From PV Require Import Model.CodecV.
From Coq Require Import Qround Qabs Lqa Lia Permutation.
Import ListNotations.
Local Open Scope Z_scope.

(* ------------------------------------------------------------------ simple_float: the text grid *)
Lemma round_he_close q : (Qabs (inject_Z (round_he q) - q) <= 1 # 2)%Q.
Proof.
  unfold round_he. pose proof (Qfloor_le q) as H1. pose proof (Qlt_floor q) as H2.
  rewrite inject_Z_plus in H2. set (f := Qfloor q) in *. clearbody f.
  change (inject_Z 1) with 1%Q in H2.
  apply Qabs_Qle_condition.
  destruct (Qcompare_spec (q - inject_Z f) (1 # 2)) as [E|E|E].
  - destruct (Z.even f); [|rewrite inject_Z_plus; change (inject_Z 1) with 1%Q]; split; lra.
  - split; lra.
  - rewrite inject_Z_plus. change (inject_Z 1) with 1%Q. split; lra.
Qed.

Lemma pow10_ge k : (inject_Z 1000000 <= pow10 (6 + k))%Q.
Proof.
  unfold pow10. rewrite <- Zle_Qle. rewrite Nat2Z.inj_add. rewrite Z.pow_add_r by lia.
  change (10 ^ Z.of_nat 6) with 1000000.
  assert (1 <= 10 ^ Z.of_nat k) by (apply Z.pow_le_mono_r with (a := 10) (b := 0) (c := Z.of_nat k); lia). nia.
Qed.

Lemma sfQ_close q : (Qabs (sfQ q - q) <= 1 # 2000000)%Q.
Proof.
  unfold sfQ. destruct (Qeq_bool (Qabs q) 0) eqn:E0.
  - apply Qeq_bool_eq in E0. apply Qabs_Qle_condition.
    pose proof (Qle_Qabs q). pose proof (Qle_Qabs (- q)). rewrite Qabs_opp in H0. split; lra.
  - set (k' := if (_ <=? 3)%nat then O else _). clearbody k'.
    pose proof (pow10_ge k') as Hg. set (g := pow10 (6 + k')) in *. clearbody g.
    change (inject_Z 1000000) with (1000000 # 1)%Q in Hg.
    assert (Hg0 : (0 < g)%Q) by lra.
    set (a := Qabs q). pose proof (round_he_close (a * g)) as Hr. apply Qabs_Qle_condition in Hr.
    set (z := inject_Z (round_he (a * g))) in *. clearbody z.
    assert (Hd : (Qabs (z / g - a) <= 1 # 2000000)%Q).
    { apply Qabs_Qle_condition. split.
      - apply Qle_minus_iff. setoid_replace (z / g - a + - - (1 # 2000000))%Q with ((z - a * g + (1 # 2000000) * g) / g)%Q
          by (field; lra). apply Qle_shift_div_l; lra.
      - apply Qle_minus_iff. setoid_replace ((1 # 2000000) + - (z / g - a))%Q with (((1 # 2000000) * g - (z - a * g)) / g)%Q
          by (field; lra). apply Qle_shift_div_l; lra. }
    apply Qabs_Qle_condition in Hd. apply Qabs_Qle_condition.
    destruct (Qle_bool 0 q) eqn:Es.
    + apply Qle_bool_iff in Es. assert (a == q)%Q by (unfold a; apply Qabs_pos; exact Es). split; lra.
    + assert (q < 0)%Q. { destruct (Qlt_le_dec q 0); auto. apply Qle_bool_iff in q0. congruence. }
      assert (a == - q)%Q by (unfold a; apply Qabs_neg; lra). split; lra.
Qed.

Theorem sf_close (q : Qc) : (Qabs (this (sf q) - this q) <= 1 # 2000000)%Q.
Proof.
  unfold sf, Q2Qc. cbn [this]. pose proof (sfQ_close q) as H. pose proof (Qred_correct (sfQ q)) as E.
  apply Qabs_Qle_condition in H. apply Qabs_Qle_condition. split; lra.
Qed.

(* ------------------------------------------------------------------ matrices *)
Lemma len_app {A} (a b : list A) : len (a ++ b) = len a + len b.
Proof. unfold len. rewrite app_length. lia. Qed.
Lemma len_nonneg {A} (a : list A) : 0 <= len a. Proof. unfold len. lia. Qed.

Lemma chunk_row {A} nc (d : list A) : forall (r row : list A), r <> [] -> len (row ++ r) = nc ->
  chunk nc row (r ++ d) = (row ++ r) :: chunk nc [] d.
Proof.
  induction r as [|x r IH]; intros row Hne Hl. congruence.
  simpl. destruct r as [|y r'].
  - simpl. rewrite Hl. rewrite Z.eqb_refl. reflexivity.
  - assert (len (row ++ [x]) =? nc = false) as ->.
    { apply Z.eqb_neq. rewrite len_app in *. unfold len in *. simpl in *. lia. }
    replace (row ++ x :: y :: r') with ((row ++ [x]) ++ y :: r') by (rewrite <- app_assoc; reflexivity).
    apply IH. discriminate. rewrite <- app_assoc. exact Hl.
Qed.
Lemma chunk_concat {A} nc (M : list (list A)) : 0 < nc -> Forall (fun r => len r = nc) M -> chunk nc [] (concat M) = M.
Proof.
  intros Hnc. induction 1 as [|r M Hr HM IH]. reflexivity.
  simpl. rewrite (chunk_row nc (concat M) r []). simpl. rewrite IH. reflexivity.
  intros ->. unfold len in Hr. simpl in Hr. lia. exact Hr.
Qed.
Lemma len_concat {A} nc (M : list (list A)) : Forall (fun r => len r = nc) M -> len (concat M) = len M * nc.
Proof. induction 1; cbn [concat]. reflexivity. rewrite len_app, IHForall, H. unfold len. cbn [length]. rewrite Nat2Z.inj_succ. ring. Qed.

(* the writer is row-major: entry (i, j) of the matrix is the (i * cols + j)-th entry on the wire; the numpy memory layout
   (C order, transposed view, strided slice) is not an input of the model *)
Lemma nth_concat_rect {A} (d : A) (nc : nat) (M : list (list A)) : Forall (fun r => length r = nc) M ->
  forall i j, (i < length M)%nat -> (j < nc)%nat -> nth (i * nc + j) (concat M) d = nth j (nth i M []) d.
Proof.
  induction 1 as [|r M Hr HM IH]; intros i j Hi Hj. inversion Hi.
  destruct i as [|i]; cbn [concat nth Nat.mul Nat.add].
  - rewrite app_nth1 by lia. reflexivity.
  - rewrite app_nth2 by lia. replace (nc + i * nc + j - length r)%nat with (i * nc + j)%nat by lia.
    apply IH. cbn [length] in Hi. lia. exact Hj.
Qed.
Theorem wire_is_row_major cf (M : list (list qi)) (d : qi) (nc : nat) : Forall (fun r => length r = nc) M ->
  forall i j, (i < length M)%nat -> (j < nc)%nat ->
  match wm_data (enc_mat cf (MNum M)) with WMNum l => nth (i * nc + j) l d = nth j (nth i M []) d | WMSym _ => False end.
Proof. intros H i j Hi Hj. cbn [enc_mat wm_data]. apply nth_concat_rect; assumption. Qed.

Definition rect {A} (M : list (list A)) : Prop := 0 < ncols M /\ Forall (fun r => len r = ncols M) M.
Theorem dec_enc_mat_num cf (M : list (list qi)) : rect M -> dec_mat (enc_mat cf (MNum M)) = Some (MNum M).
Proof.
  intros [Hc HM]. unfold dec_mat, enc_mat. cbn [wm_data wm_rows wm_cols].
  rewrite (len_concat (ncols M)) by exact HM. rewrite Z.eqb_refl. rewrite chunk_concat; auto.
Qed.
(* symbolic matrices are now written in the order they are read back (fde9e721) *)
Theorem dec_enc_mat_sym (M : list (list str)) : rect M -> dec_mat (enc_mat cfg_now (MSym M)) = Some (MSym M).
Proof.
  intros [Hc HM]. unfold dec_mat, enc_mat. cbn [wm_data wm_rows wm_cols fix_symm cfg_now].
  rewrite (len_concat (ncols M)) by exact HM. rewrite Z.eqb_refl. rewrite chunk_concat; auto.
Qed.
(* before the repair the symbolic branch scrambled every matrix that is not a single row / column *)
Theorem dec_enc_mat_sym_refuted_old_code : exists M, rect M /\ dec_mat (enc_mat cfg_old (MSym M)) <> Some (MSym M).
Proof. exists [[[120]; [121]]; [[122]; [116]]]. split. split. reflexivity. repeat constructor. vm_compute. discriminate. Qed.

(* ------------------------------------------------------------------ sparse / dense maps (noise model, detectors) *)
Lemma zlookup_sparse_lt {A} (l : list (option A)) : forall i j, j < i -> zlookup j (sparse i l) = None.
Proof. induction l as [|[a|] r IH]; intros i j H; simpl; auto. replace (j =? i) with false by (symmetry; apply Z.eqb_neq; lia).
  apply IH; lia. apply IH; lia. Qed.
Lemma dense_skip {A} i (a : A) : forall n z s, i < z -> dense n z ((i, a) :: s) = dense n z s.
Proof. induction n; intros z s Hz; simpl. reflexivity. replace (z =? i) with false by (symmetry; apply Z.eqb_neq; lia).
  f_equal. apply IHn. lia. Qed.
Theorem dense_sparse {A} (l : list (option A)) : forall i, dense (length l) i (sparse i l) = l.
Proof.
  induction l as [|o r IH]; intros i. reflexivity.
  simpl. f_equal.
  - destruct o; simpl. rewrite Z.eqb_refl. reflexivity. apply zlookup_sparse_lt. lia.
  - destruct o; simpl. rewrite dense_skip by lia. apply IH. apply IH.
Qed.
Theorem dec_enc_noise (n : noise) : length n = 7%nat -> dec_noise (enc_noise n) = n.
Proof. intros H. unfold dec_noise, enc_noise. rewrite <- H. apply dense_sparse. Qed.

(* ------------------------------------------------------------------ samples *)
Lemma bs_eqb_eq a b : bs_eqb a b = true <-> a = b.
Proof.
  unfold bs_eqb, str_eqb. destruct a as [t m p], b as [t' m' p']; simpl.
  destruct (list_eq_dec Z.eq_dec t t'); simpl.
  - rewrite andb_true_iff, Z.eqb_eq, Bool.eqb_true_iff. split. intros [-> ->]. subst. reflexivity. intros E. inversion E. auto.
  - split. discriminate. intros E. inversion E. contradiction.
Qed.
Lemma index_of_nth b keys i : index_of b keys = Some i -> nth_error keys i = Some b /\ (i < length keys)%nat.
Proof.
  revert i. induction keys as [|x r IH]; intros i; simpl. discriminate.
  destruct (bs_eqb b x) eqn:E. intros [= <-]. apply bs_eqb_eq in E. subst. simpl. split. reflexivity. lia.
  destruct (index_of b r); simpl; try discriminate. intros [= <-]. destruct (IH n eq_refl). simpl. split. auto. lia.
Qed.
(* every index written so far points at the right state, also after the key table has grown *)
Definition points (keys : list bstate) (done : list bstate) (order : list Z) : Prop :=
  Forall2 (fun b i => 0 <= i /\ nth_error keys (Z.to_nat i) = Some b) done order.
Lemma points_grow keys b done order : points keys done order -> points (keys ++ [b]) done order.
Proof. unfold points. induction 1 as [|x i l l' [Ha Hb] Hr IH]; constructor; auto. split. exact Ha.
  rewrite nth_error_app1. exact Hb. apply nth_error_Some. congruence. Qed.
Lemma enc_bss_go_points l : forall keys done order, points keys done order ->
  points (fst (enc_bss_go l keys order)) (done ++ l) (snd (enc_bss_go l keys order)).
Proof.
  induction l as [|b r IH]; intros keys done order H; simpl. rewrite app_nil_r. exact H.
  replace (done ++ b :: r) with ((done ++ [b]) ++ r) by (rewrite <- app_assoc; reflexivity).
  destruct (index_of b keys) as [i|] eqn:E.
  - apply IH. apply Forall2_app. exact H. constructor; [|constructor]. destruct (index_of_nth _ _ _ E).
    split. lia. rewrite Nat2Z.id. auto.
  - apply IH. apply Forall2_app. apply points_grow. exact H. constructor; [|constructor]. split. apply len_nonneg.
    unfold len. rewrite Nat2Z.id. rewrite nth_error_app2 by lia. rewrite Nat.sub_diag. reflexivity.
Qed.
Lemma dec_bss_go_points keys : forall done order, points keys done order -> dec_bss_go keys order = Some done.
Proof.
  induction 1 as [|b i done order [H0 H1] H IH]; simpl. reflexivity.
  assert (Z.to_nat i < length keys)%nat by (apply nth_error_Some; congruence).
  replace (0 <=? i) with true by (symmetry; apply Z.leb_le; lia).
  replace (i <? len keys) with true by (symmetry; apply Z.ltb_lt; unfold len; lia).
  simpl. rewrite H1, IH. reflexivity.
Qed.
Lemma enc_bss_keys_nonempty l : forall keys order, keys <> [] -> fst (enc_bss_go l keys order) <> [].
Proof. induction l as [|b r IH]; intros keys order H; simpl. exact H. destruct (index_of b keys); apply IH; auto.
  destruct keys; simpl; discriminate. Qed.
Lemma dec_bss_points w l : fst w <> [] -> points (fst w) l (snd w) -> dec_bss w = Some l.
Proof. intros N P. unfold dec_bss. destruct (fst w) eqn:E. congruence. cbn [is_nil]. rewrite <- E in P.
  rewrite <- E. apply dec_bss_go_points. exact P. Qed.
Theorem dec_enc_bss (l : list bstate) : dec_bss (enc_bss l) = Some l.
Proof.
  destruct l as [|b r]. reflexivity. apply dec_bss_points.
  - unfold enc_bss. cbn [enc_bss_go index_of]. apply enc_bss_keys_nonempty. discriminate.
  - apply (enc_bss_go_points (b :: r) [] [] []). constructor.
Qed.

(* ------------------------------------------------------------------ detectors, ports, heralds *)
Definition wf_det (d : detector) : Prop :=
  match d_wires d, d_max d with
  | None, None => True                                   (* PNR (max_detections is ignored without wires) *)
  | Some w, Some x => 0 < w /\ 0 < x /\ x <= w
  | _, _ => False
  end.
Theorem dec_enc_det d : wf_det d -> dec_det (enc_det d) = Some d.
Proof.
  destruct d as [n [w|] [x|]]; unfold wf_det; simpl; try tauto.
  intros (Hw & Hx & Hxw). unfold dec_det, enc_det, or_none, mk_detector. simpl.
  replace (w =? 0) with false by (symmetry; apply Z.eqb_neq; lia).
    replace (x =? 0) with false by (symmetry; apply Z.eqb_neq; lia).
    replace (0 <? w) with true by (symmetry; apply Z.ltb_lt; lia).
    replace (x <=? w) with true by (symmetry; apply Z.leb_le; lia). simpl. rewrite Z.min_l by lia. reflexivity.
Qed.
(* a detector that reports at most 0 photons: the legitimate 0 is read as "unset" *)
Theorem dec_enc_det_zero_refuted : exists d, d_wires d = Some 3 /\ d_max d = Some 0 /\ dec_det (enc_det d) <> Some d.
Proof. exists (mkdet [100] (Some 3) (Some 0)). repeat split. vm_compute. discriminate. Qed.

Definition wf_aport (p : aport) : Prop :=
  match p with APort _ _ => True | AHerald _ (Some n) => n <> [] | AHerald _ None => True end.
Theorem dec_enc_aport p : wf_aport p -> dec_aport (enc_aport p) = p.
Proof. destruct p as [n e|v [n|]]; simpl; auto. intros H. destruct n. congruence. reflexivity. Qed.

(* ------------------------------------------------------------------ parameters and the name table *)
Lemma str_eqb_eq a b : str_eqb a b = true <-> a = b.
Proof. unfold str_eqb. destruct (list_eq_dec Z.eq_dec a b); split; auto; discriminate. Qed.
Lemma str_eqb_refl a : str_eqb a a = true. Proof. apply str_eqb_eq. reflexivity. Qed.
Lemma Qc_eqb_refl v : Qc_eqb v v = true. Proof. unfold Qc_eqb. destruct (Qc_eq_dec v v); congruence. Qed.
Lemma Qc_eqb_eq a b : Qc_eqb a b = true -> a = b. Proof. unfold Qc_eqb. destruct (Qc_eq_dec a b); congruence. Qed.
Lemma truthy_ne (n : str) : n <> [] -> truthy n = true. Proof. destruct n; simpl; congruence. Qed.

Ltac spl := repeat match goal with |- _ /\ _ => split end.
Definition pvar_b (p : param) : bool := match p with PFix _ => false | _ => true end.
Definition grows (k k' : table) : Prop := k <> [] -> k' <> [].
Lemma grows_refl k : grows k k. Proof. intros H; exact H. Qed.
Lemma grows_ne k k' : k' <> [] -> grows k k'. Proof. intros H _; exact H. Qed.
Local Hint Resolve grows_refl grows_ne : core.

Section Params.
Variable ev : str -> Qc.
(* the object each name denotes in the original value: the variable Parameter of that name with its current value, or the
   Expression of that text with its sub-parameters (one object per name: Circuit.add / _set_parameter enforce it) *)
Variable obj : str -> tobj.
Notation cf := cfg_now.

Definition wf_nv (nv : str * option Qc) : Prop := fst nv <> [] /\ obj (fst nv) = TParam ([], fst nv, snd nv).
Definition wf_param (p : param) : Prop :=
  match p with
  | PFix _ => True
  | PVar n v => wf_nv (n, v)
  | PExpr e subs => subs <> [] /\ obj e = TExpr [] e (map inj_obj subs) /\ Forall wf_nv subs   (* values or not *)
  end.
Definition table_ok (k : table) : Prop := forall n t, lookup n k = Some t -> t = obj n.

Lemma table_ok_nil : table_ok []. Proof. intros n o. discriminate. Qed.
Lemma table_ok_cons n k : table_ok k -> table_ok ((n, obj n) :: k).
Proof. intros H n' o. simpl. destruct (str_eqb n' n) eqn:E. apply str_eqb_eq in E. subst. intros [= <-]. reflexivity. apply H. Qed.

Lemma dec_leaf_var nv k : wf_nv nv -> table_ok k ->
  exists k', dec_leaf [] (wl_type (enc_leaf nv)) (wl_name (enc_leaf nv)) k = Some (DVar (inj_obj nv), k') /\ table_ok k'.
Proof.
  destruct nv as [n v]. intros [Hn Hv] Hk. cbn [fst snd] in *. unfold enc_leaf, inj_obj. cbn [fst snd].
  destruct v as [v|]; cbn [wl_type wl_name dec_leaf].
  - rewrite truthy_ne by exact Hn. destruct (lookup n k) as [o|] eqn:E.
    + rewrite (Hk _ _ E), Hv. rewrite Qc_eqb_refl. exists k. split; auto.
    + exists ((n, TParam ([], n, Some v)) :: k). split. reflexivity. rewrite <- Hv. apply table_ok_cons. exact Hk.
  - destruct (lookup n k) as [o|] eqn:E.
    + rewrite (Hk _ _ E), Hv. exists k. split; auto.
    + exists ((n, TParam ([], n, None)) :: k). split. reflexivity. rewrite <- Hv. apply table_ok_cons. exact Hk.
Qed.
Lemma dec_subs_ok subs : forall k, Forall wf_nv subs -> table_ok k ->
  exists k', dec_subs [] (map enc_leaf subs) k = Some (map inj_obj subs, k') /\ table_ok k'.
Proof.
  induction subs as [|nv r IH]; intros k Hs Hk. exists k. split; auto.
  inversion Hs as [|? ? Hnv Hr]; subst. destruct (dec_leaf_var nv k Hnv Hk) as (k1 & E1 & T1).
  destruct (IH k1 Hr T1) as (k2 & E2 & T2). exists k2. cbn [map dec_subs]. rewrite E1, E2. split; auto.
Qed.

Lemma dec_param_fix sc p k : pvar_b p = false -> dec_param cf sc (enc_param cf ev p) k = Some (inj_param p, k).
Proof. destruct p; try discriminate. reflexivity. Qed.
Lemma dec_param_ok p k : wf_param p -> table_ok k ->
  exists k', dec_param cf [] (enc_param cf ev p) k = Some (inj_param p, k') /\ table_ok k' /\ (pvar_b p = false -> k' = k).
Proof.
  intros Hp Hk. destruct p as [v|n v|e subs].
  - exists k. split. reflexivity. split. exact Hk. reflexivity.
  - destruct (dec_leaf_var (n, v) k Hp Hk) as (k' & E & T). exists k'.
    unfold enc_param, dec_param. cbn [wp_type wp_subs wp_name].
    assert (G : dec_leaf [] (wl_type (enc_leaf (n, v))) (wl_name (enc_leaf (n, v))) k = Some (inj_param (PVar n v), k')) by exact E.
    destruct (wl_type (enc_leaf (n, v))) eqn:Et; (split; [exact G|]); split; auto; discriminate.
  - destruct Hp as (Hne & Ho & Hs). destruct subs as [|s r]. congruence.
    unfold enc_param. cbn [fix_expr_defined cf negb andb]. unfold dec_param. cbn [wp_type wp_subs wp_name map fix_expr_shared cf].
    destruct (lookup e k) as [t|] eqn:El.
    + rewrite (Hk _ _ El), Ho. exists k. split. reflexivity. split. exact Hk. discriminate.
    + destruct (dec_subs_ok (s :: r) k Hs Hk) as (k' & E & T). cbn [map] in E. rewrite E.
      exists ((e, TExpr [] e (inj_obj s :: map inj_obj r)) :: k'). split. reflexivity. split.
      change (inj_obj s :: map inj_obj r) with (map inj_obj (s :: r)). rewrite <- Ho. apply table_ok_cons. exact T. discriminate.
Qed.

Lemma dec_params_fix sc ps : forall k, existsb pvar_b ps = false ->
  dec_params cf sc (map (enc_param cf ev) ps) k = Some (map inj_param ps, k).
Proof. induction ps as [|p r IH]; intros k H. reflexivity. cbn [existsb] in H. apply orb_false_iff in H. destruct H as [H1 H2].
  cbn [map dec_params]. rewrite dec_param_fix by exact H1. rewrite IH by exact H2. reflexivity. Qed.
Lemma dec_params_ok ps : forall k, Forall wf_param ps -> table_ok k ->
  exists k', dec_params cf [] (map (enc_param cf ev) ps) k = Some (map inj_param ps, k') /\ table_ok k'
             /\ (existsb pvar_b ps = false -> k' = k).
Proof.
  induction ps as [|p r IH]; intros k Hs Hk. exists k. split; auto.
  inversion Hs as [|? ? Hp Hr]; subst. destruct (dec_param_ok p k Hp Hk) as (k1 & E1 & T1 & F1).
  destruct (IH k1 Hr T1) as (k2 & E2 & T2 & F2). exists k2. cbn [map dec_params existsb]. rewrite E1, E2.
  split. reflexivity. split. exact T2. intros H. apply orb_false_iff in H. destruct H as [H1 H2]. rewrite F2, F1; auto.
Qed.

Lemma wkind_idem k : wkind (wkind k) = wkind k.
Proof. destruct k; try reflexivity. simpl. f_equal. unfold conv_code. destruct (conv =? 2) eqn:A. reflexivity.
  destruct (conv =? 1) eqn:B; reflexivity. Qed.

Lemma dec_me_unset sc me k : param_truthy me = false -> dec_param cf sc wp_unset k = Some (DNone, k) /\ inj_param me = DFix 0.
Proof. destruct me; try discriminate. simpl. intros H. apply negb_false_iff in H. apply Qc_eqb_eq in H. subst. split; reflexivity. Qed.

Lemma dec_kind_fix sc kd ps k : length ps = arity kd -> existsb pvar_b ps = false ->
  dec_kind cf sc (wkind kd) (enc_kind cf ev kd ps) k = Some (map inj_param ps, k).
Proof.
  intros Ha Hf. destruct kd; try (cbn [wkind enc_kind dec_kind]; apply dec_params_fix; exact Hf).
  destruct ps as [|phi [|me [|]]]; try discriminate. cbn [existsb] in Hf. apply orb_false_iff in Hf. destruct Hf as [H1 H2].
  apply orb_false_iff in H2. destruct H2 as [H2 _]. cbn [wkind enc_kind dec_kind].
  destruct (param_truthy me) eqn:Et.
  - rewrite (dec_param_fix sc me k H2). rewrite (dec_param_fix sc phi k H1). destruct me; reflexivity.
  - cbn [map]. destruct (dec_me_unset sc me k Et) as [-> ->]. rewrite (dec_param_fix sc phi k H1). reflexivity.
Qed.
Lemma dec_kind_ok kd ps k : length ps = arity kd -> Forall wf_param ps -> table_ok k ->
  exists k', dec_kind cf [] (wkind kd) (enc_kind cf ev kd ps) k = Some (map inj_param ps, k') /\ table_ok k'
             /\ (existsb pvar_b ps = false -> k' = k).
Proof.
  intros Ha Hs Hk. destruct kd; try (cbn [wkind enc_kind dec_kind]; apply dec_params_ok; assumption).
  destruct ps as [|phi [|me [|]]]; try discriminate. inversion Hs as [|? ? Hphi Hs']; subst. inversion Hs' as [|? ? Hme _]; subst.
  cbn [wkind enc_kind dec_kind]. destruct (param_truthy me) eqn:Et.
  - destruct (dec_param_ok me k Hme Hk) as (k1 & E1 & T1 & F1).
    destruct (dec_param_ok phi k1 Hphi T1) as (k2 & E2 & T2 & F2). exists k2. rewrite E1, E2.
    cbn [existsb map]. rewrite orb_false_r. split. destruct me; reflexivity. split. exact T2.
    intros H. apply orb_false_iff in H. destruct H as [H1 H2]. rewrite F2, F1; auto.
  - destruct (dec_me_unset [] me k Et) as [E0 I0]. rewrite E0.
    destruct (dec_param_ok phi k Hphi Hk) as (k2 & E2 & T2 & F2). exists k2. rewrite E2. cbn [map]. rewrite I0.
    cbn [existsb]. split. reflexivity. split. exact T2. intros H. apply orb_false_iff in H. apply F2. tauto.
Qed.

(* a repeated expression is one object: the component constructor's name check passes *)
Lemma expr_ids_root ps x : In x (expr_ids (map inj_param ps)) -> fst x = [].
Proof. unfold expr_ids. intros H. apply in_flat_map in H. destruct H as (d & Hd & Hx). apply in_map_iff in Hd.
  destruct Hd as (p & <- & _). destruct p; cbn in Hx; try tauto. destruct Hx as [<-|[]]. reflexivity. Qed.
Lemma exprs_ok_inj ps : exprs_ok cf (map inj_param ps) = true.
Proof. unfold exprs_ok. cbn [fix_expr_shared cf]. apply forallb_forall. intros x Hx. apply forallb_forall. intros y Hy.
  destruct (str_eqb (snd x) (snd y)); auto. rewrite (expr_ids_root ps x Hx), (expr_ids_root ps y Hy). reflexivity. Qed.
End Params.

(* ------------------------------------------------------------------ components and circuits, any nesting depth *)
Lemma comp_ind' (P : comp -> Prop) :
  (forall k ps, P (CLeaf k ps)) -> (forall p, P (CPerm p)) -> (forall u n pol, P (CUnit u n pol)) -> P CPBS ->
  (forall m v, P (CBarrier m v)) ->
  (forall n m items, Forall (fun oc => P (snd oc)) items -> P (CSub n m items)) -> forall c, P c.
Proof. intros H0 H1 H2 H3 H4 H5. fix IH 1. intros [k ps|p|u n pol| |m v|n m items].
  apply H0. apply H1. apply H2. apply H3. apply H4. apply H5.
  induction items as [|[o c] r IHr]; constructor. cbn [snd]. apply IH. exact IHr. Qed.

Notation hv has_var := (fun oc : Z * comp => match oc with (_, c') => has_var c' end).
Fixpoint has_var (c : comp) : bool :=
  match c with
  | CLeaf _ ps => existsb pvar_b ps
  | CSub _ _ items => existsb (hv has_var) items
  | _ => false
  end.
Definition is_sub (c : comp) : bool := match c with CSub _ _ _ => true | _ => false end.

Section Comps.
Variable ev : str -> Qc.
Variable env : str -> tobj.      (* the object each name denotes (see [wf_param]) *)
Notation cf := cfg_now.

(* well-formed components: arities, every use of a name sees the one object of that name (parameters with or without a
   value, expressions over them, used any number of times), a polarised Unitary has an even number of rows,
   every item of a circuit is unitary and fits; names are non-empty *)
Fixpoint wf_comp (c : comp) : Prop :=
  match c with
  | CLeaf k ps => length ps = arity k /\ Forall (wf_param env) ps
  | CUnit u n pol => n <> [] /\ rect u /\ (pol = true -> Z.even (len u) = true)
  | CSub n m items => n <> [] /\
      (fix all (l : list (Z * comp)) : Prop :=
         match l with
         | [] => True
         | (o, c') :: r => (wf_comp c' /\ is_circuit (inj c') = true /\ 0 <= o /\ 0 < width c' /\ o + width c' <= m) /\ all r
         end) items
  | _ => True
  end.
Fixpoint wf_items (m : Z) (l : list (Z * comp)) : Prop :=
  match l with
  | [] => True
  | (o, c') :: r => (wf_comp c' /\ is_circuit (inj c') = true /\ 0 <= o /\ 0 < width c' /\ o + width c' <= m) /\ wf_items m r
  end.
Lemma wf_Sub n m items : wf_comp (CSub n m items) <-> n <> [] /\ wf_items m items.
Proof. cbn [wf_comp]. split; intros [H1 H2]; split; auto; clear H1; induction items as [|[o c] r IH]; cbn [wf_items] in *; tauto. Qed.

Definition injitem (oc : Z * comp) : Z * dcomp := match oc with (o, c') => (o, inj c') end.
Definition encitem (oc : Z * comp) : wcomp := match oc with (o, c') => enc_comp cf ev o c' end.

Lemma dwidth_inj c : dwidth (inj c) = width c.
Proof. destruct c as [k ps|p|u n pol| |m v|n m items]; try reflexivity. destruct k; reflexivity. Qed.
Lemma start_of_enc o c : start_of (enc_comp cf ev o c) = o. Proof. destruct c; reflexivity. Qed.

Lemma pvars_root p o : In o (pvars (inj_param p)) -> o_scope o = [].
Proof. destruct p as [v|n v|e subs]; simpl. tauto. intros [<-|[]]. reflexivity.
  intros H. apply in_map_iff in H. destruct H as (nv & <- & _). reflexivity. Qed.
Lemma dvars_root c : forall o, In o (dvars (inj c)) -> o_scope o = [].
Proof.
  induction c as [k ps|p|u n pol| |m v|n m items IH] using comp_ind'; intros o; cbn [inj dvars]; try (cbn [In]; tauto).
  - intros H. apply in_flat_map in H. destruct H as (d & Hd & Ho). apply in_map_iff in Hd. destruct Hd as (p & <- & _).
    apply (pvars_root p). exact Ho.
  - intros H. apply in_flat_map in H. destruct H as ([o' d] & Hd & Ho). apply in_map_iff in Hd. destruct Hd as ([o'' c] & E & Hin).
    inversion E; subst. rewrite Forall_forall in IH. apply (IH (o', c) Hin). exact Ho.
Qed.
Lemma compat_root acc o : (forall o', In o' acc -> o_scope o' = []) -> o_scope o = [] -> compat acc o = true.
Proof. intros Ha Ho. unfold compat. apply forallb_forall. intros o' Hin. destruct (str_eqb (o_name o) (o_name o')); auto.
  rewrite Ho, (Ha o' Hin). reflexivity. Qed.
Lemma build_ok m items : forall acc, wf_items m items -> (forall o', In o' acc -> o_scope o' = []) ->
  build m (map injitem items) acc = true.
Proof.
  induction items as [|[o c] r IH]; intros acc Hw Ha. reflexivity.
  cbn [wf_items] in Hw. destruct Hw as [(Hc & Hcirc & Ho & Hwd & Hfit) Hr]. cbn [map injitem build]. rewrite dwidth_inj, Hcirc.
  replace (0 <=? o) with true by (symmetry; apply Z.leb_le; lia).
  replace (0 <? width c) with true by (symmetry; apply Z.ltb_lt; lia).
  replace (o + width c <=? m) with true by (symmetry; apply Z.leb_le; lia). cbn [andb].
  assert (forallb (compat acc) (dvars (inj c)) = true) as ->.
  { apply forallb_forall. intros x Hx. apply compat_root. exact Ha. apply (dvars_root c). exact Hx. }
  apply IH. exact Hr. intros o' Hin. apply in_app_or in Hin. destruct Hin as [H|H]. auto. apply (dvars_root c). exact H.
Qed.

Lemma dec_items_nil dec pos k : dec_items dec pos [] k = Some ([], k). Proof. reflexivity. Qed.
Lemma dec_items_cons dec pos w r k : dec_items dec pos (w :: r) k =
  match dec pos w k with
  | Some (d, k1) => match dec_items dec (S pos) r k1 with Some (ds, k2) => Some ((start_of w, d) :: ds, k2) | None => None end
  | None => None
  end.
Proof. reflexivity. Qed.
(* the repaired builder: a nested circuit always works on the caller's name table *)
Lemma dec_comp_sub path sc s nm name n_mode items k : dec_comp cf path sc (WSub s nm name n_mode items) k =
  match dec_items (fun pos w' k' => dec_comp cf (pos :: path) sc w' k') 0 items k with
  | Some (ds, k') => if build n_mode ds [] then Some (DSub (if truthy name then name else CPLX) n_mode ds, k') else None
  | None => None
  end.
Proof. reflexivity. Qed.
Lemma enc_comp_sub start n m items :
  enc_comp cf ev start (CSub n m items) = WSub start m (if str_eqb n CPLX then [] else n) m (map encitem items).
Proof. reflexivity. Qed.
Lemma name_roundtrip (d n : str) : n <> [] ->
  (if truthy (if str_eqb n d then [] else n) then (if str_eqb n d then [] else n) else d) = n.
Proof. intros H. destruct (str_eqb n d) eqn:E. apply str_eqb_eq in E. subst. reflexivity. rewrite truthy_ne by exact H. reflexivity. Qed.

Definition St (c : comp) : Prop := wf_comp c -> forall path sc start k, table_ok env k ->
  (has_var c = true -> sc = []) ->
  exists k', dec_comp cf path sc (enc_comp cf ev start c) k = Some (inj c, k') /\ table_ok env k'
             /\ (has_var c = false -> k' = k).

Lemma wf_items_weak m items : wf_items m items -> Forall (fun oc => wf_comp (snd oc)) items.
Proof. induction items as [|[o c] r IH]; cbn [wf_items]; constructor; tauto. Qed.
Lemma items_ok items : Forall (fun oc => St (snd oc)) items -> forall path sc' pos k,
  Forall (fun oc => wf_comp (snd oc)) items -> table_ok env k ->
  (existsb (hv has_var) items = true -> sc' = []) ->
  exists k', dec_items (fun pos w' k' => dec_comp cf (pos :: path) sc' w' k') pos (map encitem items) k
             = Some (map injitem items, k')
    /\ table_ok env k' /\ (existsb (hv has_var) items = false -> k' = k).
Proof.
  induction 1 as [|[o c] r Hc Hr IH]; intros path sc' pos k Hw Hk Hsc.
  - exists k. rewrite dec_items_nil. spl; auto.
  - inversion Hw as [|? ? Hwc Hwr]; subst. cbn [snd] in Hwc, Hc. cbn [existsb] in Hsc.
    destruct (Hc Hwc (pos :: path) sc' o k Hk) as (k1 & E1 & T1 & F1).
    { intros Hv. apply Hsc. rewrite Hv. reflexivity. }
    destruct (IH path sc' (S pos) k1 Hwr T1) as (k2 & E2 & T2 & F2).
    { intros H. apply Hsc. rewrite H. apply orb_true_r. }
    exists k2. cbn [map encitem injitem]. rewrite dec_items_cons, E1, E2, start_of_enc. spl; auto.
    cbn [existsb]. intros H. apply orb_false_iff in H. destruct H as [H1 H2]. rewrite F2, F1; auto.
Qed.

Lemma St_all c : St c.
Proof.
  induction c as [kd ps|p|u n pol| |m v|n m items IH] using comp_ind'; intros Hw path sc start k Hk Hv.
  - destruct Hw as (Ha & Hps). cbn [enc_comp dec_comp inj has_var] in *.
    destruct (existsb pvar_b ps) eqn:Ev.
    + rewrite (Hv eq_refl). destruct (dec_kind_ok ev env kd ps k Ha Hps Hk) as (k' & E & T & F).
      exists k'. rewrite E, (exprs_ok_inj ev env ps), wkind_idem. spl; auto. discriminate.
    + exists k. rewrite (dec_kind_fix ev sc kd ps k Ha Ev), (exprs_ok_inj ev env ps), wkind_idem. spl; auto.
  - exists k. cbn. spl; auto.
  - destruct Hw as (Hn & Hr & Hev). exists k. cbn [enc_comp dec_comp]. rewrite dec_enc_mat_num by exact Hr.
    cbn [fix_unitary cf].
    assert (Ep : pol && negb (Z.even (len u)) = false) by (destruct pol; [rewrite (Hev eq_refl)|]; reflexivity).
    rewrite Ep. cbn [inj has_var]. destruct (str_eqb n UNITARY) eqn:E.
    + apply str_eqb_eq in E. subst n. cbn [truthy]. spl; auto.
    + rewrite (truthy_ne n Hn). spl; auto.
  - exists k. cbn. spl; auto.
  - exists k. cbn. spl; auto.
  - apply wf_Sub in Hw. destruct Hw as [Hn Hwi].
    rewrite enc_comp_sub, dec_comp_sub. change (has_var (CSub n m items)) with (existsb (hv has_var) items) in *.
    change (inj (CSub n m items)) with (DSub n m (map injitem items)).
    destruct (items_ok items IH path sc 0%nat k (wf_items_weak m items Hwi) Hk Hv) as (k' & E & T & F).
    rewrite E. rewrite (build_ok m items [] Hwi) by (intros ? []). exists k'. destruct (str_eqb n CPLX) eqn:En.
    + apply str_eqb_eq in En. subst n. cbn [truthy]. spl; auto.
    + rewrite (truthy_ne n Hn). spl; auto.
Qed.

(* the round trip of a circuit (current code): deserialize_circuit(serialize_circuit(c)) is c, for every nesting depth,
   with every use of a parameter name bound to the one object of the root name table *)
Theorem dec_enc_circuit n m items : wf_comp (CSub n m items) ->
  dec_circuit cf (enc_circuit cf ev (CSub n m items)) = Some (inj (CSub n m items)).
Proof.
  intros Hw. unfold enc_circuit, dec_circuit. cbn [wrap].
  destruct (St_all (CSub n m items) Hw [] [] 0 [] (table_ok_nil env) (fun _ => eq_refl)) as (k' & E & _).
  rewrite enc_comp_sub in *. rewrite E. reflexivity.
Qed.
End Comps.

(* ------------------------------------------------------------------ experiments *)
Lemma sparse_map {A B} (f : A -> B) (l : list (option A)) : forall i,
  sparse i (map (option_map f) l) = map (fun p => (fst p, f (snd p))) (sparse i l).
Proof. induction l as [|[a|] r IH]; intros i; cbn [map option_map sparse]. reflexivity. rewrite IH. reflexivity. apply IH. Qed.
Lemma sparse_keys {A} (l : list (option A)) : forall i p, In p (sparse i l) -> i <= fst p < i + len l.
Proof. induction l as [|o r IH]; intros i p; cbn [sparse]. intros []. unfold len. cbn [length]. rewrite Nat2Z.inj_succ.
  destruct o. intros [<-|H]. simpl. lia. apply IH in H. unfold len in H. lia. intros H. apply IH in H. unfold len in H. lia. Qed.
Lemma sparse_vals {A} (P : A -> Prop) (l : list (option A)) : forall i,
  Forall (fun o => match o with Some a => P a | None => True end) l -> Forall (fun p => P (snd p)) (sparse i l).
Proof. induction l as [|o r IH]; intros i H; cbn [sparse]. constructor. inversion H; subst. destruct o. constructor; auto. auto. Qed.

Definition wf_idet (d : idetector) : Prop :=
  match d with IDet d => wf_det d | IPPNR _ l r => 0 < l /\ Qle_bool 0 r = true /\ Qle_bool r 1 = true end.
Lemma dec_enc_idet d : wf_idet d -> dec_idet (enc_idet d) = Some d.
Proof. destruct d as [d|n l r]; cbn [wf_idet enc_idet dec_idet]. intros H. rewrite dec_enc_det by exact H. reflexivity.
  intros (Hl & H0 & H1). replace (0 <? l) with true by (symmetry; apply Z.ltb_lt; lia). rewrite H0, H1. reflexivity. Qed.
Theorem dec_enc_dets (dets : list (option idetector)) n : len dets = n ->
  Forall (fun o => match o with Some d => wf_idet d | None => True end) dets ->
  dec_dets n (sparse 0 (map (option_map enc_idet) dets)) = Some dets.
Proof.
  intros Hn Hw. unfold dec_dets. rewrite sparse_map.
  assert (B : forallb (fun iw : Z * widet => (0 <=? fst iw) && (fst iw <? n))
                (map (fun p => (fst p, enc_idet (snd p))) (sparse 0 dets)) = true).
  { apply forallb_forall. intros iw H. apply in_map_iff in H. destruct H as (p & <- & Hp). apply sparse_keys in Hp. cbn [fst].
    apply andb_true_iff. split. apply Z.leb_le. lia. apply Z.ltb_lt. lia. }
  rewrite B. rewrite map_map. cbn [fst snd].
  assert (S : forall s : list (Z * idetector), Forall (fun p => wf_idet (snd p)) s ->
     seq_opt (map (fun x => option_map (fun d => (fst x, d)) (dec_idet (enc_idet (snd x)))) s) = Some s).
  { induction 1 as [|[i d] s Hd Hs IH]. reflexivity. cbn [map seq_opt fst snd]. cbn [snd] in Hd. rewrite dec_enc_idet by exact Hd.
    cbn [option_map]. rewrite IH. reflexivity. }
  rewrite S by (apply sparse_vals; exact Hw). rewrite <- Hn. unfold len. rewrite Nat2Z.id. rewrite dense_sparse. reflexivity.
Qed.

(* the filter value survives, zero included (43c33bac); only the sentinel itself is unrepresentable *)
Theorem enc_filter_roundtrip (f : option Z) : (match f with Some n => n <> VALUE_NOT_SET | None => True end) ->
  (if enc_filter cfg_now f =? VALUE_NOT_SET then None else Some (enc_filter cfg_now f)) = f.
Proof. destruct f as [n|]; cbn [enc_filter fix_filter cfg_now negb andb]. intros H1.
  replace (n =? VALUE_NOT_SET) with false by (symmetry; apply Z.eqb_neq; exact H1). reflexivity. reflexivity. Qed.

Lemma map_dec_enc_ports (l : list (Z * aport)) : Forall (fun mp => wf_aport (snd mp)) l ->
  map (fun mp => (fst mp, dec_aport (snd mp))) (map (fun mp => (fst mp, enc_aport (snd mp))) l) = l.
Proof. induction 1 as [|[m p] l Hp Hl IH]. reflexivity. cbn [map fst snd]. cbn [snd] in Hp. rewrite dec_enc_aport by exact Hp.
  rewrite IH. reflexivity. Qed.

Section Exp.
Variable ev : str -> Qc.
Variable env : str -> tobj.      (* the object each name denotes (see [wf_param]) *)

Record wf_exp (e : experiment) : Prop := mk_wf_exp {
  wx_name : e_name e <> [];
  wx_filter : match e_filter e with Some n => n <> VALUE_NOT_SET | None => True end;             (* 0 is fine now *)
  wx_noise : match e_noise e with Some n => length n = 7%nat | None => True end;
  wx_dets_len : len (e_dets e) = e_moi e + e_nher e;
  wx_dets : Forall (fun o => match o with Some d => wf_idet d | None => True end) (e_dets e);
  wx_input : match e_input e with
             | Some (InBS b) => bs_pol b = true \/ bs_m b = e_moi e + e_nher e
             | Some (InSVD d) => sv_sizes_ok (e_moi e + e_nher e) d = true
             | None => True end;
  wx_in : Forall (fun mp => wf_aport (snd mp)) (e_in e);
  wx_out : Forall (fun mp => wf_aport (snd mp)) (e_out e);
  wx_heralds : forallb herald_ok (filter (fun mp => is_herald (snd mp)) (e_in e)) = true;
  wx_nher : e_nher e = len (filter (fun mp => is_herald (snd mp)) (e_in e));   (* heralds were added with add_herald *)
  wx_hnum : e_hnum e = auto_numbers (e_in e);       (* anonymous heralds were added in increasing mode order *)
  wx_comps : Forall (fun oc => wf_comp env (snd oc)) (e_comps e);
  wx_fits : forallb (exp_fits (e_moi e + e_nher e)) (map injitem (e_comps e)) = true }.

(* what the round trip of a well-formed experiment gives: every field as it was, the distribution input on the text
   grid, and as output ports the heralds of the INPUT side followed by the non-herald output ports *)
Definition expected_exp (e : experiment) : dexp :=
  mkdexp (Some (e_name e)) (e_moi e) (e_nher e) (option_map enc_input (e_input e)) (e_noise e) (e_filter e) (e_post e)
    (e_in e)
    (filter (fun mp => is_herald (snd mp)) (e_in e) ++ filter (fun mp => negb (is_herald (snd mp))) (e_out e))
    (e_dets e) (map injitem (e_comps e)) (e_hnum e).

Lemma forallb_map' {A B} (f : A -> B) (g : B -> bool) l : forallb g (map f l) = forallb (fun x => g (f x)) l.
Proof. induction l; cbn [map forallb]; congruence. Qed.
Lemma forallb_ext' {A} (f g : A -> bool) l : (forall x, f x = g x) -> forallb f l = forallb g l.
Proof. intros H. induction l; cbn [forallb]; congruence. Qed.
Lemma sv_sizes_enc n d : sv_sizes_ok n (enc_svd d) = sv_sizes_ok n d.
Proof. unfold sv_sizes_ok, enc_svd. rewrite forallb_map'. apply forallb_ext'. intros [v p]. cbn [fst]. unfold enc_sv.
  rewrite forallb_map'. apply forallb_ext'. intros [[r i] b]. reflexivity. Qed.

Theorem dec_enc_exp e : wf_exp e -> dec_exp cfg_now (enc_exp cfg_now ev e) = Some (expected_exp e).
Proof.
  intros [Hname Hfilter Hnoise Hdl Hdets Hinput Hin Hout Hher Hnher Hhnum Hcomps Hfits].
  unfold dec_exp, enc_exp. cbn [we_nmode we_input we_dets we_comps we_in we_out we_name we_noise we_filter we_post].
  set (n := e_moi e + e_nher e) in *.
  assert (EI : match option_map enc_input (e_input e) with
               | Some i => option_map Some (dec_input n i) | None => Some None end = Some (option_map enc_input (e_input e))).
  { destruct (e_input e) as [[b|d]|]; cbn [option_map enc_input dec_input]; auto.
    - destruct Hinput as [H|H]. rewrite H. reflexivity. destruct (bs_pol b). reflexivity. rewrite H, Z.eqb_refl. reflexivity.
    - rewrite sv_sizes_enc, Hinput. reflexivity. }
  rewrite EI. rewrite (dec_enc_dets (e_dets e) n Hdl Hdets).
  destruct (items_ok ev env (e_comps e)) with (path := @nil nat) (sc' := @nil nat) (pos := 0%nat) (k := @nil (str * tobj))
    as (k' & E & T & F); auto.
  { apply Forall_forall. intros oc _. apply St_all. }
  { apply table_ok_nil. }
  replace (map (fun oc : Z * comp => enc_comp cfg_now ev (fst oc) (snd oc)) (e_comps e)) with (map (encitem ev) (e_comps e))
    by (apply map_ext; intros [o c]; reflexivity).
  rewrite E. rewrite !map_dec_enc_ports by assumption. rewrite Hher, Hfits. cbn [andb].
  rewrite truthy_ne by exact Hname. rewrite enc_filter_roundtrip by exact Hfilter.
  unfold expected_exp. f_equal. f_equal.
  - rewrite <- Hnher. unfold n. lia.
  - symmetry. exact Hnher.
  - destruct (e_noise e) as [nm|]; cbn [option_map]. rewrite dec_enc_noise by exact Hnoise. reflexivity. reflexivity.
  - symmetry. exact Hhnum.
Qed.

(* when the heralds are the same on both sides (all added with add_herald) the decoded output ports are the original ones
   up to the order of the dictionary *)
Lemma filter_partition_perm {A} (f : A -> bool) (l : list A) :
  Permutation (filter f l ++ filter (fun x => negb (f x)) l) l.
Proof. induction l as [|x r IH]; cbn [filter]. constructor. destruct (f x); cbn [negb app]. constructor. exact IH.
  apply Permutation_sym. apply Permutation_cons_app. apply Permutation_sym. exact IH. Qed.
Theorem exp_out_ports e :
  filter (fun mp => is_herald (snd mp)) (e_out e) = filter (fun mp => is_herald (snd mp)) (e_in e) ->
  Permutation (de_out (expected_exp e)) (e_out e).
Proof. intros H. cbn [expected_exp de_out]. rewrite <- H. apply filter_partition_perm. Qed.
End Exp.

(* ------------------------------------------------------------------ every supported value, lists and dictionaries to any depth *)
Definition is_container (v : value) : bool := match v with VList _ | VDict _ => true | _ => false end.
Lemma value_ind' (P : value -> Prop) :
  (forall v, is_container v = false -> P v) -> (forall l, Forall P l -> P (VList l)) ->
  (forall l, Forall (fun kv => P (fst kv) /\ P (snd kv)) l -> P (VDict l)) -> forall v, P v.
Proof.
  intros H0 H1 H2. fix IH 1. intros v. destruct v; try (apply H0; reflexivity).
  - apply H1. induction l as [|x r IHr]; constructor. apply IH. exact IHr.
  - apply H2. induction l as [|[a b] r IHr]; constructor. split; apply IH. exact IHr.
Qed.

Section Val.
Variable ev : str -> Qc.
Variable env : str -> tobj.      (* the object each name denotes (see [wf_param]) *)

(* what a round trip returns: the value itself, with text numbers on the 1e-6 grid *)
Fixpoint exp_value (v : value) : dvalue :=
  match v with
  | VCircuit c => DVCircuit (inj (wrap c)) | VComponent c => DVComponent (inj c)
  | VExperiment e => DVExperiment (expected_exp e)
  | VHerald v u => DVHerald v u | VPort n e => DVPort n e | VMatrix m => DVMatrix m | VState b => DVState b
  | VSV s => DVSV (enc_sv s) | VSVD d => DVSVD (enc_svd d) | VBSD d => DVBSD (enc_bsd d) | VBSC d => DVBSC d
  | VBSS l => DVBSS l | VNoise n => DVNoise n | VPost s => DVPost s | VDet d => DVDet d | VPPNR n l r => DVPPNR n l r
  | VOther z => DVOther z
  | VList l => DVList (map exp_value l)
  | VDict l => DVDict (map (fun kv => match kv with (a, b) => (exp_value a, exp_value b) end) l)
  end.

Fixpoint wfv (v : value) : Prop :=
  match v with
  | VCircuit c => wf_comp env (wrap c)
  | VComponent c => match c with CLeaf _ _ => wf_comp env c | _ => False end
  | VExperiment e => wf_exp env e
  | VHerald v u => wf_aport (AHerald v u)
  | VMatrix (MNum r) => rect r
  | VMatrix (MSym r) => rect r
  | VNoise n => length n = 7%nat
  | VDet d => wf_det d
  | VPPNR n l r => wf_idet (IPPNR n l r)
  | VList l => (fix all (l : list value) : Prop := match l with [] => True | x :: r => wfv x /\ all r end) l
  | VDict l => (fix all (l : list (value * value)) : Prop :=
                  match l with [] => True | (a, b) :: r => (wfv a /\ wfv b) /\ all r end) l
  | _ => True
  end.
Definition G (cm : callmode) (v : value) : Prop :=
  exists w, enc_value cfg_now ev cm v = Some w /\ dec_wire cfg_now w = Some (exp_value v).

Lemma wrap_sub c : exists n m items, wrap c = CSub n m items.
Proof. destruct c; cbn [wrap]; eauto. Qed.
Lemma wrap_idem c : wrap (wrap c) = wrap c. Proof. destruct c; reflexivity. Qed.

Lemma G_leaf v cm : is_container v = false -> wfv v -> G cm v.
Proof.
  intros Hc Hw. unfold G. destruct v; try discriminate; cbn [enc_value exp_value wfv] in *;
    try (eexists; split; [reflexivity|reflexivity]).
  - eexists. split. reflexivity. cbn [dec_wire dec_payload].
    destruct (wrap_sub c) as (n & m & items & E). unfold enc_circuit. rewrite E in *.
    change (enc_comp cfg_now ev 0 (CSub n m items)) with (enc_circuit cfg_now ev (CSub n m items)).
    rewrite (dec_enc_circuit ev env n m items Hw). reflexivity.
  - destruct c as [k ps| | | | |]; try tauto. eexists. split. reflexivity. cbn [dec_wire dec_payload]. unfold dec_component.
    destruct (St_all ev env (CLeaf k ps) Hw [] [] 0 [] (table_ok_nil env) (fun _ => eq_refl)) as (k' & E & _).
    rewrite E. reflexivity.
  - eexists. split. reflexivity. cbn [dec_wire dec_payload]. rewrite (dec_enc_exp ev env e Hw). reflexivity.
  - eexists. split. reflexivity. cbn [dec_wire dec_payload]. rewrite dec_enc_aport by exact Hw. reflexivity.
  - destruct m as [r|r]; eexists; (split; [reflexivity|]); cbn [dec_wire dec_payload].
    rewrite dec_enc_mat_num by exact Hw. reflexivity. rewrite dec_enc_mat_sym by exact Hw. reflexivity.
  - eexists. split. reflexivity. cbn [dec_wire dec_payload]. destruct (enc_bss l) as [ks o] eqn:E. cbn [fst snd].
    rewrite <- E. rewrite dec_enc_bss. reflexivity.
  - eexists. split. reflexivity. cbn [dec_wire dec_payload]. rewrite dec_enc_noise by exact Hw. reflexivity.
  - destruct cm; eexists; (split; [reflexivity|]); cbn [dec_wire dec_payload]; rewrite dec_enc_det by exact Hw; reflexivity.
  - destruct cm; eexists; (split; [reflexivity|]); cbn [dec_wire dec_payload];
      change (WIPPNR name layers r) with (enc_idet (IPPNR name layers r)); rewrite dec_enc_idet by exact Hw; reflexivity.
Qed.

Lemma G_list c l : Forall (G c) l ->
  exists ws, seq_opt (map (enc_value cfg_now ev c) l) = Some ws /\ seq_opt (map (dec_wire cfg_now) ws) = Some (map exp_value l).
Proof. induction 1 as [|x r (w & E1 & E2) Hr (ws & F1 & F2)]. exists []. split; reflexivity.
  exists (w :: ws). cbn [map seq_opt]. rewrite E1, F1. cbn [map seq_opt]. rewrite E2, F2. split; reflexivity. Qed.
Lemma G_dict c l : Forall (fun kv => G c (fst kv) /\ G c (snd kv)) l ->
  exists ws, seq_opt (map (fun kv => match kv with (a, b) => pair_opt (enc_value cfg_now ev c a) (enc_value cfg_now ev c b) end) l) = Some ws
    /\ seq_opt (map (fun kv => match kv with (a, b) => pair_opt (dec_wire cfg_now a) (dec_wire cfg_now b) end) ws)
       = Some (map (fun kv => match kv with (a, b) => (exp_value a, exp_value b) end) l).
Proof. induction 1 as [|[a b] r [(wa & A1 & A2) (wb & B1 & B2)] Hr (ws & F1 & F2)]. exists []. split; reflexivity.
  cbn [fst snd] in *. exists ((wa, wb) :: ws). cbn [map seq_opt]. rewrite A1, B1. cbn [pair_opt]. rewrite F1.
  cbn [map seq_opt]. rewrite A2, B2. cbn [pair_opt]. rewrite F2. split; reflexivity. Qed.

(* C15, model level, for the code as it is now: for every well-formed value, every nesting depth and every way of
   passing `compress`, deserialising the serialised form succeeds and gives the expected image of the value *)
Theorem roundtrip_value : forall v cm, wfv v -> roundtrip cfg_now ev cm v = Some (exp_value v).
Proof.
  assert (A : forall v cm, wfv v -> G cm v).
  { induction v as [v Hc|l IH|l IH] using value_ind'; intros cm Hw.
    - apply G_leaf; assumption.
    - assert (F : Forall (G (child cm)) l).
      { cbn [wfv] in Hw. induction l as [|x r IHr]; constructor; inversion IH; subst.
        apply H1. apply Hw. apply IHr. exact H2. apply Hw. }
      destruct (G_list _ _ F) as (ws & E1 & E2). exists (WList ws). cbn [enc_value dec_wire]. rewrite E1. cbn [option_map].
      rewrite E2. split; reflexivity.
    - assert (F : Forall (fun kv => G (child cm) (fst kv) /\ G (child cm) (snd kv)) l).
      { cbn [wfv] in Hw. induction l as [|[a b] r IHr]; constructor; inversion IH; subst.
        cbn [fst snd] in *. destruct H1 as [Ha Hb]. split; [apply Ha|apply Hb]; apply Hw. apply IHr. exact H2. apply Hw. }
      destruct (G_dict _ _ F) as (ws & E1 & E2). exists (WDict ws). cbn [enc_value dec_wire]. rewrite E1. cbn [option_map].
      rewrite E2. split; reflexivity. }
  intros v cm Hw. destruct (A v cm Hw) as (w & E1 & E2). unfold roundtrip. rewrite E1. exact E2.
Qed.

(* the text numbers of the expected image are within half a grid step of the original ones *)
Definition qclose (a b : Qc) : Prop := (Qabs (this a - this b) <= 1 # 2000000)%Q.
Theorem enc_bsd_close d : Forall2 (fun x y => fst x = fst y /\ qclose (snd x) (snd y)) (enc_bsd d) d.
Proof. induction d as [|[b p] r IH]; constructor. split. reflexivity. apply sf_close. exact IH. Qed.
Theorem enc_sv_close v : Forall2 (fun x y => snd x = snd y /\ qclose (fst (fst x)) (fst (fst y)) /\ qclose (snd (fst x)) (snd (fst y)))
                                 (enc_sv v) v.
Proof. induction v as [|[[r i] b] t IH]; constructor. repeat split; apply sf_close. exact IH. Qed.
Theorem enc_svd_close d : Forall2 (fun x y => qclose (snd x) (snd y) /\
   Forall2 (fun a b => snd a = snd b /\ qclose (fst (fst a)) (fst (fst b)) /\ qclose (snd (fst a)) (snd (fst b))) (fst x) (fst y))
   (enc_svd d) d.
Proof. induction d as [|[v p] t IH]; constructor. split. apply sf_close. apply enc_sv_close. exact IH. Qed.
End Val.

(* ------------------------------------------------------------------ where the code loses / lost information *)
Definition ev0 : str -> Qc := fun _ => 1%Qc.
Definition q (n : Z) (d : positive) : Qc := Q2Qc (n # d).
Definition one : qi := mkqi 1 0.
Definition zero : qi := mkqi 0 0.
Definition ps_a : comp := CLeaf KPS [PVar [97] None; PFix 0].

(* --- still true of the current code ([cfg_now]) *)
Theorem one_sided_herald_refuted : exists e d, e_out e = [(1, AHerald 1 (Some [104]))] /\ e_in e = [] /\
  roundtrip cfg_now ev0 CDefault (VExperiment e) = Some (DVExperiment d) /\ de_out d = [].
Proof. eexists (mkexp [69] 2 0 None None None None [] [(1, AHerald 1 (Some [104]))] [None; None] [] []), _.
  split. reflexivity. split. reflexivity. split. vm_compute. reflexivity. reflexivity. Qed.
(* two anonymous heralds added out of mode order: herald0 on mode 3, herald1 on mode 1 before; swapped after *)
Definition exp_h2 : experiment :=
  mkexp [69] 2 2 None None None None [(3, AHerald 0 None); (1, AHerald 1 None)] [(3, AHerald 0 None); (1, AHerald 1 None)]
    [None; None; None; None] [] [(3, 0); (1, 1)].
Theorem anonymous_herald_names_refuted : exists d,
  roundtrip cfg_now ev0 CDefault (VExperiment exp_h2) = Some (DVExperiment d) /\
  e_hnum exp_h2 = [(3, 0); (1, 1)] /\ de_hnum d = [(3, 1); (1, 0)] /\ de_in d = e_in exp_h2.
Proof. eexists. split. vm_compute. reflexivity. repeat split. Qed.
(* ... while heralds added in mode order keep their names: [wx_hnum] in [dec_enc_exp] *)

(* --- expressions: before a50865fb / da9c4799 and now *)
Definition ps_defined_expr : comp := CLeaf KPS [PExpr [50; 42; 97] [([97], Some (q 1 2))]; PFix 0].
Theorem defined_expression_refuted_old_code :
  roundtrip cfg_old ev0 CDefault (VCircuit ps_defined_expr)
  = Some (DVCircuit (DSub CPLX 1 [(0, DLeaf KPS [DVar ([], [50; 42; 97], Some (ev0 [50; 42; 97])); DFix 0])])).
Proof. vm_compute. reflexivity. Qed.
Theorem defined_expression_now :
  roundtrip cfg_now ev0 CDefault (VCircuit ps_defined_expr) = Some (DVCircuit (inj (wrap ps_defined_expr))).
Proof. vm_compute. reflexivity. Qed.
Definition bs_expr_twice : comp :=
  CLeaf (KBS 0) [PExpr [50; 42; 98] [([98], None)]; PExpr [50; 42; 98] [([98], None)]; PFix 0; PFix 0; PFix 0].
Theorem same_expression_twice_refuted_old_code : roundtrip cfg_old ev0 CDefault (VCircuit bs_expr_twice) = None.
Proof. vm_compute. reflexivity. Qed.
Theorem same_expression_twice_now :
  roundtrip cfg_now ev0 CDefault (VCircuit bs_expr_twice) = Some (DVCircuit (inj (wrap bs_expr_twice))).
Proof. vm_compute. reflexivity. Qed.

(* --- statements about the code BEFORE the repairs ([cfg_old]); the same inputs now round-trip (see the _now lemmas) *)
Definition exp_f0 : experiment := mkexp [69] 2 0 None None (Some 0) None [] [] [None; None] [] [].
Theorem filter_zero_refuted_old_code : exists d,
  roundtrip cfg_old ev0 CDefault (VExperiment exp_f0) = Some (DVExperiment d) /\ de_filter d = None.
Proof. eexists. split. vm_compute. reflexivity. reflexivity. Qed.
Theorem filter_zero_now : exists d,
  roundtrip cfg_now ev0 CDefault (VExperiment exp_f0) = Some (DVExperiment d) /\ de_filter d = Some 0.
Proof. eexists. split. vm_compute. reflexivity. reflexivity. Qed.

Theorem unitary_name_refuted_old_code : exists u name, name <> UNITARY /\ name <> [] /\
  roundtrip cfg_old ev0 CDefault (VCircuit (CUnit u name false)) = Some (DVCircuit (DSub CPLX 1 [(0, DUnit u UNITARY false)])).
Proof. exists [[one]], [77; 89; 85]. split. discriminate. split. discriminate. vm_compute. reflexivity. Qed.
Definition id2 : list (list qi) := [[one; zero]; [zero; one]].
Theorem polarized_unitary_refuted_old_code : rect id2 /\ roundtrip cfg_old ev0 CDefault (VCircuit (CUnit id2 UNITARY true)) = None.
Proof. split. split. reflexivity. repeat constructor. vm_compute. reflexivity. Qed.
Theorem unitary_name_polarization_now :
  roundtrip cfg_now ev0 CDefault (VCircuit (CUnit id2 [77; 89; 85] true))
  = Some (DVCircuit (DSub CPLX 1 [(0, DUnit id2 [77; 89; 85] true)])).
Proof. vm_compute. reflexivity. Qed.

Definition pnr : detector := mkdet [80; 78; 82] None None.
Theorem detector_compress_keyword_refuted_old_code :
  (forall c, roundtrip cfg_old ev0 (CKw c) (VDet pnr) = None) /\ roundtrip cfg_old ev0 CDefault (VList [VDet pnr]) = None.
Proof. split. intros c. reflexivity. reflexivity. Qed.
Theorem detector_compress_keyword_now :
  (forall c, roundtrip cfg_now ev0 (CKw c) (VDet pnr) = Some (DVDet pnr)) /\
  roundtrip cfg_now ev0 CDefault (VList [VDet pnr]) = Some (DVList [DVDet pnr]).
Proof. split. intros c. reflexivity. reflexivity. Qed.

Definition nested_first : comp := CSub CPLX 2 [(0, CSub [115] 2 [(0, ps_a)]); (0, ps_a)].
Theorem nested_first_refuted_old_code : roundtrip cfg_old ev0 CDefault (VCircuit nested_first) = None.
Proof. vm_compute. reflexivity. Qed.
Theorem nested_first_now : roundtrip cfg_now ev0 CDefault (VCircuit nested_first) = Some (DVCircuit (inj nested_first)).
Proof. vm_compute. reflexivity. Qed.
Definition exp_nf : experiment := mkexp [69] 2 0 None None None None [] [] [None; None] [(0, CSub [115] 2 [(0, ps_a)]); (0, ps_a)] [].
Theorem nested_first_experiment_refuted_old_code : exists d o1 o2,
  roundtrip cfg_old ev0 CDefault (VExperiment exp_nf) = Some (DVExperiment d) /\
  de_comps d = [(0, DSub [115] 2 [(0, DLeaf KPS [DVar o1; DFix 0])]); (0, DLeaf KPS [DVar o2; DFix 0])] /\
  o_name o1 = o_name o2 /\ o_scope o1 <> o_scope o2.
Proof. eexists _, _, _. split. vm_compute. reflexivity. split. reflexivity. split. reflexivity. discriminate. Qed.
