(* C20: the n-qubit controlled rotation (controlled_rotation_gates.py).  For EVERY ring element a, the
   data-mode block blockdiag(I, I + a J) in the dual-rail mode order acts on the logical basis as
   diag(1, ..., 1, 1 + a^n): proved for n = 2, 3, 4 by symbolic expansion of the permanents (the general
   identity perm(I + a J_n) = 1 + a^n for all n >= 2 is proved in Proofs/CatalogRotAllP.v).  With a^n = exp(i alpha) - 1 the last
   entry is exp(i alpha).  The post-selection "one photon per pair" and the heralds on 0 leave only
   logical states, so there is nothing to leak to. *)
From PV Require Import Model.Catalog.

Section Rot.
Variable R : cring.
Add Ring Rp : (Kth R).
Ltac sym_amp := cbv -[K kadd kmul kopp ksub kconj k0 k1]; ring.

Theorem crot2_logical (a : R) : forall b b', (b < 4)%nat -> (b' < 4)%nat ->
  lamp (crot_block 2 a) 4 2 [] b b' = M_crot 2 a b' b.
Proof. intros b b' Hb Hb'.
  do 4 (destruct b as [|b]; [do 4 (destruct b' as [|b']; [sym_amp|]); exfalso; simpl in Hb'; lia|]).
  exfalso; simpl in Hb; lia. Qed.
Theorem crot3_logical (a : R) : forall b b', (b < 8)%nat -> (b' < 8)%nat ->
  lamp (crot_block 3 a) 6 3 [] b b' = M_crot 3 a b' b.
Proof. intros b b' Hb Hb'.
  do 8 (destruct b as [|b]; [do 8 (destruct b' as [|b']; [sym_amp|]); exfalso; simpl in Hb'; lia|]).
  exfalso; simpl in Hb; lia. Qed.
Theorem crot4_logical (a : R) : forall b b', (b < 16)%nat -> (b' < 16)%nat ->
  lamp (crot_block 4 a) 8 4 [] b b' = M_crot 4 a b' b.
Proof. intros b b' Hb Hb'.
  do 16 (destruct b as [|b]; [do 16 (destruct b' as [|b']; [sym_amp|]); exfalso; simpl in Hb'; lia|]).
  exfalso; simpl in Hb; lia. Qed.

(* the rotation: a^n = e - 1  ->  the all-ones entry is e *)
Lemma crot_phase (a e : R) n : kpow a n = ksub e k1 -> M_crot n a (2 ^ n - 1)%nat (2 ^ n - 1)%nat = e.
Proof. intros H. unfold M_crot. rewrite !Nat.eqb_refl, H. ring. Qed.
(* any logical state passes the post-selection, any passing state with heralds on 0 is logical: checked
   for the sizes used *)
Lemma crot_ps_logical : forall n, In n [2; 3; 4]%nat ->
  forallb (fun t => Bool.eqb (ps_eval (crot_ps n) t) (is_logical (2 * n) n [] t)) (allstates (2 * n) n) = true.
Proof. intros n [<-|[<-|[<-|[]]]]; vm_compute; reflexivity. Qed.
End Rot.
