(* C11, inversion part: horizontal inversion = adjoint (= inverse of a unitary), vertical inversion = J U J,
   per leaf and lifted to every circuit tree. *)
From PV Require Import Model.Transform Proofs.CircuitP Proofs.ComponentsP.
From Coq Require Import Setoid Morphisms.

Section TransformP.
Variable R : cring.
Add Ring Rring : (Kth R).
Open Scope K_scope.
Notation mat := (mat R).

(* ------------------------------------------------------------ sums and permutation conjugation *)
Lemma sumn_S_first n (f : nat -> R) : sumn (S n) f = f 0%nat + sumn n (fun i => f (S i)).
Proof. change (S n) with (1 + n)%nat. rewrite sumn_app. simpl. ring. Qed.

Lemma sumn_rev n (f : nat -> R) : sumn n f = sumn n (fun i => f (n - 1 - i)%nat).
Proof. revert f. induction n; intros f. reflexivity.
  rewrite sumn_S_first. rewrite (IHn (fun i => f (S i))).
  transitivity (sumn n (fun i => f (S n - 1 - i)%nat) + f (S n - 1 - n)%nat); [|reflexivity].
  replace (S n - 1 - n)%nat with 0%nat by lia.
  rewrite (sumn_ext R n (fun i => f (S (n - 1 - i))) (fun i => f (S n - 1 - i)%nat)). ring.
  intros i Hi. f_equal. lia. Qed.

(* (P_tau X P_sigma)[i,j] = X[sigma i, sigma j] when tau is the inverse of sigma on [0,n) *)
Lemma conj_entry n sg tu (X : mat) : bij_on n sg tu -> forall i j, (i < n)%nat -> (j < n)%nat ->
  mmul n (pmat tu) (mmul n X (pmat sg)) i j = X (sg i) (sg j).
Proof. intros [Hs Ht] i j Hi Hj. unfold mmul at 1.
  destruct (Hs i Hi) as [Hsi Hti].
  rewrite (sumn_single R n _ (sg i) Hsi).
  - unfold pmat at 1. rewrite Hti, delta_refl. unfold mmul, pmat.
    destruct (Hs j Hj) as [Hsj _]. rewrite (sumn_delta_r R n (sg j) (fun l => X (sg i) l) Hsj). ring.
  - intros l Hl Hne. unfold pmat at 1. rewrite delta_neq. ring.
    intros E. apply Hne. subst i. destruct (Ht l Hl) as [_ E]. exact (eq_sym E). Qed.

Lemma bij_J k : bij_on k (fun j => (k - 1 - j)%nat) (fun j => (k - 1 - j)%nat).
Proof. split; intros i Hi; split; lia. Qed.

(* vertical flip = J A J *)
Theorem vflip_JUJ k (A : mat) : meq k (vflip k A) (mmul k (jmat k) (mmul k A (jmat k))).
Proof. intros i j Hi Hj. unfold jmat. rewrite (conj_entry k _ _ A (bij_J k) i j Hi Hj). reflexivity. Qed.

(* the numerical inverse of a unitary matrix is its adjoint *)
Theorem inverse_is_adjoint n (U V : mat) : unitary n U -> meq n (mmul n V U) mid -> meq n V (madj U).
Proof. intros [H1 _] HV.
  rewrite <- (mmul_id_r R n V). rewrite <- H1. rewrite <- mmul_assoc. rewrite HV. apply mmul_id_l. Qed.

(* ------------------------------------------------------------ vflip / madj through embed and products *)
Lemma vflip_ext k (A B : mat) : meq k A B -> meq k (vflip k A) (vflip k B).
Proof. intros H i j Hi Hj. unfold vflip. apply H; lia. Qed.
Lemma vflip_id k : meq (R:=R) k (vflip k mid) mid.
Proof. intros i j Hi Hj. unfold vflip, mid, delta.
  destruct (Nat.eqb_spec i j); destruct (Nat.eqb_spec (k - 1 - i) (k - 1 - j)); auto; lia. Qed.
Lemma vflip_mul k (A B : mat) : meq k (vflip k (mmul k A B)) (mmul k (vflip k A) (vflip k B)).
Proof. intros i j Hi Hj. unfold vflip, mmul. rewrite sumn_rev. reflexivity. Qed.
Lemma vflip_embed m o w (A : mat) : (o + w <= m)%nat ->
  meq m (vflip m (embed o w A)) (embed (m - (o + w)) w (vflip w A)).
Proof. intros H i j Hi Hj. unfold vflip, embed.
  destruct (inb o w (m - 1 - i)) eqn:Ei; destruct (inb o w (m - 1 - j)) eqn:Ej; simpl.
  - apply inb_true in Ei, Ej.
    replace (inb (m - (o + w)) w i) with true by (symmetry; apply inb_true; lia).
    replace (inb (m - (o + w)) w j) with true by (symmetry; apply inb_true; lia). simpl. f_equal; lia.
  - apply inb_true in Ei. apply inb_false in Ej.
    replace (inb (m - (o + w)) w j) with false by (symmetry; apply inb_false; lia). rewrite andb_false_r.
    unfold delta. destruct (Nat.eqb_spec i j); destruct (Nat.eqb_spec (m - 1 - i) (m - 1 - j)); auto; lia.
  - apply inb_false in Ei.
    replace (inb (m - (o + w)) w i) with false by (symmetry; apply inb_false; lia). simpl.
    unfold delta. destruct (Nat.eqb_spec i j); destruct (Nat.eqb_spec (m - 1 - i) (m - 1 - j)); auto; lia.
  - apply inb_false in Ei.
    replace (inb (m - (o + w)) w i) with false by (symmetry; apply inb_false; lia). simpl.
    unfold delta. destruct (Nat.eqb_spec i j); destruct (Nat.eqb_spec (m - 1 - i) (m - 1 - j)); auto; lia.
Qed.
Lemma vflip_oprod m (l : list mat) : meq m (vflip m (oprod m l)) (oprod m (map (vflip m) l)).
Proof. induction l as [|A r IH]; simpl. apply vflip_id.
  rewrite vflip_mul. rewrite IH. reflexivity. Qed.
Lemma madj_ext n (A B : mat) : meq n A B -> meq n (madj A) (madj B).
Proof. intros H. rewrite H. reflexivity. Qed.
Lemma madj_oprod m (l : list mat) : meq m (madj (oprod m l)) (oprod m (rev (map madj l))).
Proof. induction l as [|A r IH]; simpl. apply madj_id.
  rewrite madj_mul. rewrite oprod_app. simpl. rewrite mmul_id_l. rewrite IH. reflexivity. Qed.

(* ------------------------------------------------------------ [expected] through embed and products *)
Lemma expected_ext v h k (A B : mat) : meq k A B -> meq k (expected v h k A) (expected v h k B).
Proof. intros H. unfold expected. destruct h, v; try apply vflip_ext; try apply madj_ext; exact H. Qed.
Lemma expected_embed v h m o w (A : mat) : (o + w <= m)%nat ->
  meq m (expected v h m (embed o w A)) (embed (if v then m - (o + w) else o) w (expected v h w A)).
Proof. intros H. unfold expected. destruct h, v.
  - rewrite (vflip_ext m _ _ (embed_adj R m o w A)). apply vflip_embed. exact H.
  - apply embed_adj.
  - apply vflip_embed. exact H.
  - reflexivity. Qed.
Lemma Forall2_rev {A B} (P : A -> B -> Prop) l l' : Forall2 P l l' -> Forall2 P (rev l) (rev l').
Proof. induction 1; simpl. constructor. apply Forall2_app; auto. Qed.
Lemma Forall2_map_same {A} (f g : A -> mat) n l : (forall x, In x l -> meq n (f x) (g x)) ->
  Forall2 (meq n) (map f l) (map g l).
Proof. induction l; simpl; intros H; constructor; auto. Qed.
Lemma expected_oprod v h m (l : list mat) :
  meq m (expected v h m (oprod m l))
        (oprod m (if h then rev (map (expected v h m) l) else map (expected v h m) l)).
Proof. unfold expected. destruct h, v.
  - rewrite (vflip_ext m _ _ (madj_oprod m l)). rewrite vflip_oprod.
    rewrite map_rev, map_map. reflexivity.
  - apply madj_oprod.
  - apply vflip_oprod.
  - rewrite map_id. reflexivity. Qed.

(* ------------------------------------------------------------ typed trees *)
Variable ii : R.
Notation tcomp := (tcomp R).
Notation leaf := (leaf R).

Lemma tcomp_ind' (P : tcomp -> Prop) :
  (forall l, P (TLeaf l)) ->
  (forall m items, Forall (fun p => P (snd p)) items -> P (TSub m items)) -> forall t, P t.
Proof. intros HL HS. fix IH 1. intros [l | m items]. apply HL. apply HS.
  induction items as [|[o c] r IHr]; constructor. simpl. apply IH. exact IHr. Qed.

Definition D (ot : nat * tcomp) : nat * comp R := match ot with (o, t') => (o, denote ii t') end.
Lemma denote_Sub m items : denote ii (TSub m items) = Sub m (map D items).
Proof. reflexivity. Qed.
Lemma width_denote (t : tcomp) : width (denote ii t) = tw t.
Proof. destruct t; reflexivity. Qed.
Definition twf (t : tcomp) : Prop := wf (denote ii t).
Definition leaves (t : tcomp) : list leaf := map snd (tflatten 0 t).

Lemma leaves_shift : forall (t : tcomp) a b l, In l (map snd (tflatten a t)) -> In l (map snd (tflatten b t)).
Proof. induction t as [l0 | m0 items IH] using tcomp_ind'; intros a b l; simpl. auto.
  rewrite !in_map_iff. intros [x [Hx Hin]]. apply in_flat_map in Hin. destruct Hin as [[o' t'] [Hit Hin]].
  rewrite Forall_forall in IH.
  assert (H1 : In l (map snd (tflatten (b + o') t'))).
  { apply (IH (o', t') Hit (a + o')%nat (b + o')%nat l). rewrite <- Hx. apply in_map. exact Hin. }
  apply in_map_iff in H1. destruct H1 as [x' [Hx' Hin']]. exists x'. split; auto.
  apply in_flat_map. exists (o', t'). split; auto. Qed.
Lemma leaves_Sub m o t r : forall l, In l (leaves t) -> In l (leaves (TSub m ((o, t) :: r))).
Proof. intros l Hl. unfold leaves. simpl. rewrite map_app. apply in_or_app. left.
  apply (leaves_shift t 0%nat (0 + o)%nat l Hl). Qed.
Lemma leaves_Sub_tl m ot r : forall l, In l (leaves (TSub m r)) -> In l (leaves (TSub m (ot :: r))).
Proof. intros l Hl. unfold leaves in *. simpl. destruct ot. rewrite map_app. apply in_or_app. right. exact Hl. Qed.

Lemma tw_tinv li v h (t : tcomp) : (forall l, lw (li l) = lw l) -> tw (tinv li v h t) = tw t.
Proof. intros H. destruct t; simpl; auto. Qed.

Definition E' := E R.
(* the inverted item list, before the optional reversal *)
Definition inv_item li (v h : bool) (m : nat) (ot : nat * tcomp) : nat * tcomp :=
  match ot with (o, t') => ((if v then m - (o + tw t') else o)%nat, tinv li v h t') end.
Lemma tinv_Sub li v h m items :
  tinv li v h (TSub m items) =
  TSub m (if h then rev (map (inv_item li v h m) items) else map (inv_item li v h m) items).
Proof. reflexivity. Qed.

(* Circuit.inverse is right on every tree as soon as the leaf inversions are right on its leaves *)
Theorem tinv_sound li v h : (forall l, lw (li l) = lw l) -> forall t, twf t ->
  (forall l, In l (leaves t) -> meq (lw l) (leafm ii (li l)) (expected v h (lw l) (leafm ii l))) ->
  meq (tw t) (tmat ii (tinv li v h t)) (expected v h (tw t) (tmat ii t)).
Proof.
  intros Hw. induction t as [l | m items IH] using tcomp_ind'; intros Hwf Hl.
  - simpl. apply Hl. left. reflexivity.
  - unfold twf in Hwf. rewrite denote_Sub in Hwf. apply wf_Sub in Hwf. destruct Hwf as [Hm Hit].
    simpl tw. unfold tmat. rewrite tinv_Sub, !denote_Sub.
    rewrite (cmat_Sub R m). rewrite (expected_ext v h m _ _ (cmat_Sub R m (map D items))).
    rewrite expected_oprod.
    assert (F2 : Forall2 (meq m) (map (E R) (map D (map (inv_item li v h m) items)))
                                 (map (expected v h m) (map (E R) (map D items)))).
    { clear Hm. induction items as [|[o t'] r IHr]; simpl; constructor.
      - simpl in Hit. destruct Hit as [[Ho Hc'] Hr]. inversion IH as [|? ? Hhd Htl]; subst. simpl in Hhd.
        unfold E. simpl fst. simpl snd. rewrite !width_denote in *. rewrite (tw_tinv li v h t' Hw).
        rewrite (expected_embed v h m o (tw t') _ Ho).
        apply embed_ext. apply Hhd. exact Hc'. intros l Hin. apply Hl. eapply leaves_Sub. exact Hin.
      - simpl in Hit. destruct Hit as [_ Hr]. inversion IH; subst. apply IHr; auto.
        intros l Hin. apply Hl. apply leaves_Sub_tl. exact Hin. }
    destruct h.
    + rewrite !map_rev. apply oprod_ext. apply Forall2_rev. exact F2.
    + apply oprod_ext. exact F2.
Qed.

(* ------------------------------------------------------------ leaf inversions *)
Hypothesis conj_ii : kconj ii = - ii.

Lemma lw_leaf_inverse fv fh ft v h (l : leaf) : lw (leaf_inverse fv fh ft v h l) = lw l.
Proof. destruct l; simpl; auto. unfold bs_inverse.
  destruct (v && fv), v, h, cv, ft, fh; reflexivity. Qed.

Definition leaf_real (l : leaf) : Prop :=
  match l with LBS _ c s _ _ _ _ => kconj c = c /\ kconj s = s | _ => True end.
(* the phase symmetries under which the code's BS.inverse happens to be right *)
Definition leaf_sym (v h : bool) (l : leaf) : Prop :=
  match l with
  | LBS cv c s tl bl tr br =>
      (h = true -> tl * br = tr * bl) /\ (v = true -> tl * tr = bl * br /\ tr * bl = tl * br) /\
      (v && h = true -> cv <> Ry)
  | _ => True
  end.

Ltac two_by_two := let i := fresh "i" in let j := fresh "j" in let Hi := fresh in let Hj := fresh in
  intros i j Hi Hj; destruct i as [|[|i]]; try lia; destruct j as [|[|j]]; try lia.

(* the repaired BS.inverse is right for ALL parameter values, conventions and flags *)
Theorem bs_inverse_fixed_ok cv v h c s tl bl tr br : kconj c = c -> kconj s = s ->
  meq 2 (leafm ii (bs_inverse true true true cv v h c s tl bl tr br))
        (expected v h 2 (bs_mat cv ii c s tl bl tr br)).
Proof. intros cc sc. destruct cv, v, h; two_by_two; unfold expected, vflip, madj; cbn;
  rewrite ?conj_mul, ?conj_opp, ?conj_one, ?conj_ii, ?cc, ?sc; ring. Qed.

(* the code's BS.inverse is right under the phase symmetries *)
Theorem bs_inverse_partial cv v h c s tl bl tr br : kconj c = c -> kconj s = s ->
  leaf_sym v h (LBS cv c s tl bl tr br) ->
  meq 2 (leafm ii (bs_inverse false false false cv v h c s tl bl tr br))
        (expected v h 2 (bs_mat cv ii c s tl bl tr br)).
Proof. intros cc sc [Hh [Hv Hvh]].
  assert (Hh' : h = true -> kconj tl * kconj br = kconj tr * kconj bl).
  { intros E. rewrite <- !conj_mul. rewrite (Hh E). reflexivity. }
  assert (Hv1 : v = true -> kconj tl * kconj tr = kconj bl * kconj br).
  { intros E. rewrite <- !conj_mul. rewrite (proj1 (Hv E)). reflexivity. }
  assert (Hv2 : v = true -> kconj tr * kconj bl = kconj tl * kconj br).
  { intros E. rewrite <- !conj_mul. rewrite (proj2 (Hv E)). reflexivity. }
  destruct v, h.
  - destruct cv; [| exfalso; apply (Hvh eq_refl); reflexivity |];
    pose proof (Hh' eq_refl) as A; pose proof (Hv1 eq_refl) as B; pose proof (Hv2 eq_refl) as C;
    two_by_two; unfold expected, vflip, madj; cbn; rewrite ?conj_mul, ?conj_opp, ?conj_one, ?conj_ii, ?cc, ?sc; first [ring | ring [A] | ring [B] | ring [C] | ring [A B] | ring [B C]].
  - destruct (Hv eq_refl) as [A B]. destruct cv; two_by_two; unfold expected, vflip, madj; cbn; first [ring | ring [A] | ring [B] | ring [A B]].
  - pose proof (Hh' eq_refl) as A. destruct cv; two_by_two; unfold expected, vflip, madj; cbn;
    rewrite ?conj_mul, ?conj_opp, ?conj_one, ?conj_ii, ?cc, ?sc; ring [A].
  - destruct cv; two_by_two; reflexivity.
Qed.

Lemma ps_inverse_ok v h e : meq 1 (leafm ii (leaf_inverse false false false v h (LPS e))) (expected v h 1 (ps_mat e)).
Proof. intros i j Hi Hj. assert (i = 0%nat) by lia. assert (j = 0%nat) by lia. subst.
  destruct v, h; reflexivity. Qed.

Lemma leaf_inverse_partial v h (l : leaf) : leaf_real l -> leaf_sym v h l ->
  meq (lw l) (leafm ii (leaf_inverse false false false v h l)) (expected v h (lw l) (leafm ii l)).
Proof. destruct l; intros Hr Hs.
  - destruct Hr. apply bs_inverse_partial; auto.
  - apply ps_inverse_ok.
  - reflexivity.
  - reflexivity. Qed.
Lemma leaf_inverse_fixed v h (l : leaf) : leaf_real l ->
  meq (lw l) (leafm ii (leaf_inverse true true true v h l)) (expected v h (lw l) (leafm ii l)).
Proof. destruct l; intros Hr.
  - destruct Hr. apply bs_inverse_fixed_ok; auto.
  - apply ps_inverse_ok.
  - reflexivity.
  - reflexivity. Qed.

Lemma expected_ff k (A : mat) : expected false false k A = A.
Proof. reflexivity. Qed.

(* Circuit.inverse(v, h) as it is: right on every circuit whose beam splitters have symmetric phases *)
Theorem circuit_inverse_partial v h (t : tcomp) : twf t ->
  (forall l, In l (leaves t) -> leaf_real l /\ leaf_sym v h l) ->
  meq (tw t) (tmat ii (circuit_inverse false false false v h t)) (expected v h (tw t) (tmat ii t)).
Proof. intros Hwf Hl. unfold circuit_inverse. destruct (v || h) eqn:Evh.
  - apply tinv_sound; auto. intros l. apply lw_leaf_inverse.
    intros l Hin. destruct (Hl l Hin). apply leaf_inverse_partial; auto.
  - destruct v, h; try discriminate. reflexivity. Qed.

(* ... and with the repaired BS.inverse: right on every circuit *)
Theorem circuit_inverse_fixed v h (t : tcomp) : twf t -> (forall l, In l (leaves t) -> leaf_real l) ->
  meq (tw t) (tmat ii (circuit_inverse true true true v h t)) (expected v h (tw t) (tmat ii t)).
Proof. intros Hwf Hl. unfold circuit_inverse. destruct (v || h) eqn:Evh.
  - apply tinv_sound; auto. intros l. apply lw_leaf_inverse.
    intros l Hin. apply leaf_inverse_fixed; auto.
  - destruct v, h; try discriminate. reflexivity. Qed.

(* horizontal inversion yields the inverse matrix of a unitary circuit *)
Corollary inverse_h_is_inverse n (A B : mat) : unitary n A -> meq n B (expected false true n A) ->
  meq n (mmul n B A) mid /\ meq n (mmul n A B) mid.
Proof. intros [H1 H2] HB. unfold expected in HB. split; rewrite HB; assumption. Qed.

End TransformP.
