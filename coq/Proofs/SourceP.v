(* Proofs about the photon-source model (C06). *)
From PV Require Import Model.Source.
From Coq Require Import Lqa Lia Field.
Open Scope Qc_scope.

(* ------------------------------------------------------------------ Qc helpers *)
Lemma Qc_eq_Q (x y : Qc) : x = y <-> (this x == this y)%Q.
Proof. split. intros ->. reflexivity. apply Qc_is_canon. Qed.
Lemma this_add x y : (this (x + y) == this x + this y)%Q.
Proof. unfold Qcplus, Q2Qc. cbn [this]. apply Qred_correct. Qed.
Lemma this_mul x y : (this (x * y) == this x * this y)%Q.
Proof. unfold Qcmult, Q2Qc. cbn [this]. apply Qred_correct. Qed.
Lemma this_opp x : (this (- x) == - this x)%Q.
Proof. unfold Qcopp, Q2Qc. cbn [this]. apply Qred_correct. Qed.
Lemma this_sub x y : (this (x - y) == this x - this y)%Q.
Proof. unfold Qcminus. rewrite this_add, this_opp. reflexivity. Qed.

(* turn a goal about <=, <, = on Qc (ring operations only) into the same goal on Q, for lra/nra *)
Ltac qc2q :=
  unfold q2 in *; unfold Qcle, Qclt in *;
  repeat match goal with H : @eq Qc _ _ |- _ => apply Qc_eq_Q in H end;
  try apply Qc_eq_Q;
  repeat (rewrite ?this_add, ?this_mul, ?this_sub, ?this_opp in * );
  change (this (Q2Qc 0)) with 0%Q in *; change (this (Q2Qc 1)) with 1%Q in *;
  repeat match goal with x : Qc |- _ => generalize dependent (this x); clear x; intros end.

Lemma Qceqb_true x y : Qceqb x y = true <-> x = y.
Proof. unfold Qceqb. destruct (Qc_eq_dec x y); split; intros; try discriminate; auto; contradiction. Qed.
Lemma Qceqb_false x y : Qceqb x y = false <-> x <> y.
Proof. unfold Qceqb. destruct (Qc_eq_dec x y); split; intros; try discriminate; auto; contradiction. Qed.
Lemma Qcltb_true x y : Qcltb x y = true <-> x < y.
Proof. unfold Qcltb. rewrite Qclt_alt. destruct (x ?= y); split; intros; try discriminate; auto. Qed.
Lemma Qcltb_false_nonneg w : 0 <= w -> Qcltb 0 w = false -> w = 0.
Proof. intros H Hb. destruct (Qcle_lt_or_eq _ _ H) as [Hl|He]; [|auto].
  apply Qcltb_true in Hl. congruence. Qed.
Lemma mul_nonneg a b : 0 <= a -> 0 <= b -> 0 <= a * b.
Proof. intros. qc2q. nra. Qed.
Lemma add_nonneg a b : 0 <= a -> 0 <= b -> 0 <= a + b.
Proof. intros. qc2q. lra. Qed.
Lemma q2_neq0 : q2 <> 0. Proof. unfold q2. intro H. qc2q. lra. Qed.

(* ------------------------------------------------------------------ admissible parameters *)
Definition admissible (P : src) : Prop :=
  0 < px P /\ px P <= 1 /\ 0 <= g2 P /\
  0 <= rt P /\ rt P * rt P = 1 - q2 * px P * g2 P /\
  0 <= losses P /\ losses P <= 1 /\
  0 <= si P /\ si P <= 1 /\ si P * si P = ind P.

(* ------------------------------------------------------------------ the emission law *)
Lemma emission_is_brightness P : p1 P + p2 P = px P.
Proof. unfold p1. ring. Qed.

Lemma p2_spec P : g2 P <> 0 -> p2 P * g2 P = 1 - px P * g2 P - rt P.
Proof. intros H. unfold p2. apply Qceqb_false in H as Hb. rewrite Hb. field. exact H. Qed.
Lemma p2_g2_zero P : g2 P = 0 -> p2 P = 0.
Proof. intros H. unfold p2. apply Qceqb_true in H. rewrite H. reflexivity. Qed.

(* second-order autocorrelation of the emitted light (p0, p1, p2): 2 p2 / (p1 + 2 p2)^2 = g2 *)
Lemma g2_identity P : rt P * rt P = 1 - q2 * px P * g2 P -> px P <> 0 ->
  q2 * p2 P / ((p1 P + q2 * p2 P) * (p1 P + q2 * p2 P)) = g2 P.
Proof.
  intros Hr Hpx. destruct (Qc_eq_dec (g2 P) 0) as [Hg|Hg].
  - rewrite (p2_g2_zero P Hg), Hg. unfold Qcdiv. ring.
  - assert (H1 : 1 - rt P <> 0).
    { intro H. assert (Hr1 : rt P = 1) by (rewrite <- (Qcplus_0_r (rt P)), <- H; ring).
      rewrite Hr1 in Hr. assert (Hz : q2 * (px P * g2 P) = 0).
      { replace (q2 * (px P * g2 P)) with (1 - (1 - q2 * px P * g2 P)) by ring. rewrite <- Hr. ring. }
      apply Qcmult_integral in Hz. destruct Hz as [Hz|Hz]. exact (q2_neq0 Hz).
      apply Qcmult_integral in Hz. tauto. }
    assert (Hs : p1 P + q2 * p2 P = (1 - rt P) / g2 P).
    { unfold p1, q2. replace (px P - p2 P + (1 + 1) * p2 P) with (px P + p2 P) by ring.
      unfold p2. apply Qceqb_false in Hg as Hb. rewrite Hb. field. exact Hg. }
    assert (Ht : q2 * p2 P = (1 - rt P) * (1 - rt P) / g2 P).
    { replace ((1 - rt P) * (1 - rt P)) with (1 - q2 * rt P + rt P * rt P) by (unfold q2; ring).
      rewrite Hr. unfold p2, q2. apply Qceqb_false in Hg as Hb. rewrite Hb. field. exact Hg. }
    rewrite Hs, Ht. field. split; assumption.
Qed.

Section Bounds.
Variable P : src.
Hypothesis A : admissible P.

Lemma rt_le_1 : rt P <= 1.
Proof. destruct A as (H1 & H2 & H3 & H4 & H5 & _). qc2q. nra. Qed.

Lemma p2_nonneg : 0 <= p2 P.
Proof.
  destruct (Qc_eq_dec (g2 P) 0) as [Hg|Hg]. rewrite p2_g2_zero by exact Hg. apply Qcle_refl.
  pose proof (p2_spec P Hg) as Hs. pose proof rt_le_1 as Hr1.
  destruct A as (H1 & H2 & H3 & H4 & H5 & _).
  assert (Hgp : 0 < g2 P). { apply Qcle_lt_or_eq in H3. destruct H3; [assumption|congruence]. }
  clear Hg H3. generalize dependent (p2 P). intros x Hs. qc2q. nra.
Qed.

Lemma p2_le_px : p2 P <= px P.
Proof.
  destruct (Qc_eq_dec (g2 P) 0) as [Hg|Hg].
  { rewrite p2_g2_zero by exact Hg. destruct A as (H1 & _). apply Qclt_le_weak. exact H1. }
  pose proof (p2_spec P Hg) as Hs. pose proof rt_le_1 as Hr1.
  destruct A as (H1 & H2 & H3 & H4 & H5 & _).
  assert (Hgp : 0 < g2 P). { apply Qcle_lt_or_eq in H3. destruct H3; [assumption|congruence]. }
  clear Hg H3. generalize dependent (p2 P). intros x Hs. qc2q. nra.
Qed.

Lemma p1_nonneg : 0 <= p1 P.
Proof. pose proof p2_le_px as H. unfold p1. generalize dependent (p2 P). intros. qc2q. lra. Qed.

Lemma eta_bounds : 0 <= eta P /\ eta P <= 1.
Proof. destruct A as (_ & _ & _ & _ & _ & H6 & H7 & _). unfold eta. split; qc2q; lra. Qed.

Lemma p1to1_nonneg : 0 <= p1to1 P.
Proof. destruct eta_bounds. apply mul_nonneg; [assumption|apply p1_nonneg]. Qed.
Lemma p2to1_nonneg : 0 <= p2to1 P.
Proof. destruct eta_bounds. unfold p2to1. repeat apply mul_nonneg; try assumption. qc2q; lra. apply p2_nonneg. Qed.
Lemma p2to2_nonneg : 0 <= p2to2 P.
Proof. destruct eta_bounds. unfold p2to2. repeat apply mul_nonneg; try assumption. apply p2_nonneg. Qed.
Lemma pzero_nonneg : 0 <= pzero P.
Proof.
  pose proof p2_nonneg as Ha. pose proof p2_le_px as Hb. destruct eta_bounds as [Hc Hd]. destruct A as (He & Hf & _).
  unfold pzero, p1to1, p2to1, p2to2, p1.
  generalize dependent (p2 P). generalize dependent (eta P). generalize dependent (px P). intros x ? ? e ? ? y ? ?.
  assert (Hk : 0 <= e * (1 - e) * (x - y)).
  { repeat apply mul_nonneg; try assumption; qc2q; lra. }
  assert (Hl : 0 <= (1 - e) * (1 - e)).
  { repeat apply mul_nonneg; try assumption; qc2q; lra. }
  qc2q. nra.
Qed.
End Bounds.

(* ------------------------------------------------------------------ masses of association lists *)
Lemma mass_app {A} (l1 l2 : dist A) : mass (l1 ++ l2) = mass l1 + mass l2.
Proof. induction l1; simpl. ring. rewrite IHl1. ring. Qed.
Lemma mass_map_scal {A B} (w : Qc) (g : A -> B) (l : dist A) :
  mass (map (fun e => (g (fst e), w * snd e)) l) = w * mass l.
Proof. induction l; simpl. ring. rewrite IHl. ring. Qed.
Lemma mass_map_div {A} (t : Qc) (l : dist A) : mass (map (fun e => (fst e, snd e / t)) l) = mass l / t.
Proof. induction l; simpl. unfold Qcdiv. ring. rewrite IHl. unfold Qcdiv. ring. Qed.
Lemma mass_normalize {A} (l : dist A) : mass l <> 0 -> mass (normalize l) = 1.
Proof. intros H. unfold normalize. rewrite mass_map_div. field. exact H. Qed.
Lemma normalize_mass1 {A} (l : dist A) : mass l = 1 -> normalize l = l.
Proof. intros H. unfold normalize. rewrite H. rewrite <- (map_id l) at 2. apply map_ext.
  intros [a p]. simpl. f_equal. unfold Qcdiv. replace (/ 1) with 1 by (apply Qc_is_canon; reflexivity). ring. Qed.

Definition nonneg {A} (l : dist A) : Prop := Forall (fun e => 0 <= snd e) l.
Lemma mass_filter_keep_pos {A} (f : A * Qc -> bool) (l : dist A) :
  nonneg l -> mass (filter f (keep_pos l)) = mass (filter f l).
Proof.
  unfold keep_pos. induction 1 as [|e l He Hl IH]; simpl. reflexivity.
  destruct (Qcltb 0 (snd e)) eqn:Hb; simpl.
  - destruct (f e); simpl; rewrite IH; reflexivity.
  - rewrite IH. destruct (f e); simpl; [|reflexivity].
    rewrite (Qcltb_false_nonneg _ He Hb). ring.
Qed.
Lemma filter_true {A} (l : list A) : filter (fun _ => true) l = l.
Proof. induction l; simpl; congruence. Qed.
Lemma mass_keep_pos {A} (l : dist A) : nonneg l -> mass (keep_pos l) = mass l.
Proof. intros H. pose proof (mass_filter_keep_pos (fun _ => true) l H) as E. rewrite !filter_true in E. exact E. Qed.
Lemma nonneg_keep_pos {A} (l : dist A) : nonneg (keep_pos l).
Proof. unfold nonneg, keep_pos. apply Forall_forall. intros e He. apply filter_In in He. destruct He as [_ He].
  apply Qcltb_true in He. apply Qclt_le_weak. exact He. Qed.

Lemma mass_product {A B C} (g : A -> B -> C) (d : dist A) (tr : dist B) :
  mass (flat_map (fun e => map (fun e' => (g (fst e) (fst e'), snd e * snd e')) tr) d) = mass d * mass tr.
Proof. induction d as [|e d IH]; simpl. ring.
  rewrite mass_app, IH, (mass_map_scal (snd e) (g (fst e)) tr). ring. Qed.

Lemma mass_tensor_merge ds : Forall (fun d => mass d = 1) ds -> mass (tensor_merge ds) = 1.
Proof. induction 1 as [|d ds Hd _ IH]. simpl. ring. cbn [tensor_merge]. cbv zeta.
  rewrite (mass_product (@app nat) d (tensor_merge ds)), Hd, IH. ring. Qed.
Lemma mass_tensor_modes ds : Forall (fun d => mass d = 1) ds -> mass (tensor_modes ds) = 1.
Proof. induction 1 as [|d ds Hd _ IH]. simpl. ring. cbn [tensor_modes]. cbv zeta. unfold state in *.
  rewrite (mass_product (@cons (list nat)) d (tensor_modes ds)), Hd, IH. ring. Qed.

(* ------------------------------------------------------------------ the one-photon distribution *)
Lemma one_photon_entries_mass P c : mass (one_photon_entries P c) = 1.
Proof. unfold one_photon_entries, pzero, q2.
  destruct (partially_distinguishable P), (dmodel P); cbn [mass fold_right app snd]; ring. Qed.

Lemma one_photon_entries_nonneg P c : admissible P -> nonneg (one_photon_entries P c).
Proof.
  intros A. pose proof (pzero_nonneg P A). pose proof (p1to1_nonneg P A). pose proof (p2to1_nonneg P A).
  pose proof (p2to2_nonneg P A).
  assert (Hs : 0 <= si P) by apply A. assert (Hd : 0 <= 1 - si P). { destruct A as (_&_&_&_&_&_&_&_&A9&_). qc2q. lra. }
  assert (Hd' : 1 - (1 - si P) = si P) by ring.
  unfold one_photon_entries, nonneg. rewrite Hd'.
  destruct (partially_distinguishable P), (dmodel P); cbn [app];
    repeat (apply Forall_cons; [cbn [snd]; repeat first [assumption | apply add_nonneg | apply mul_nonneg | (unfold q2; qc2q; lra)]|]);
    apply Forall_nil.
Qed.

Theorem one_photon_normalised P c : admissible P -> mass (fst (one_photon P c)) = 1.
Proof. intros A. cbn [one_photon fst]. rewrite mass_keep_pos. apply one_photon_entries_mass.
  apply one_photon_entries_nonneg, A. Qed.

(* photon-number marginal of one requested photon *)
Definition nmass (k : nat) (l : dist (list nat)) : Qc := mass (filter (fun e => (length (fst e) =? k)%nat) l).

Theorem photon_number_law P c : admissible P ->
  nmass 2 (fst (one_photon P c)) = eta P * eta P * p2 P /\
  nmass 1 (fst (one_photon P c)) = eta P * p1 P + q2 * eta P * (1 - eta P) * p2 P /\
  nmass 0 (fst (one_photon P c)) = (1 - px P) + (1 - eta P) * p1 P + (1 - eta P) * (1 - eta P) * p2 P.
Proof.
  intros A. cbn [one_photon fst]. unfold nmass. rewrite !mass_filter_keep_pos by (apply one_photon_entries_nonneg, A).
  unfold one_photon_entries, pzero, p1to1, p2to1, p2to2, p1, q2.
  destruct (partially_distinguishable P), (dmodel P); cbn [mass fold_right app snd fst filter length Nat.eqb];
    repeat split; ring.
Qed.

(* ------------------------------------------------------------------ n photons in a mode, then all modes *)
Lemma photon_dists_mass P : admissible P -> forall n c, Forall (fun d => mass d = 1) (fst (photon_dists P c n)).
Proof.
  intros A. induction n as [|n IH]; intros c; cbn [photon_dists]. constructor.
  cbn [one_photon]. specialize (IH (next_tag P c)). destruct (photon_dists P (next_tag P c) n) as [ds c2].
  cbn [fst] in *. constructor; [|exact IH]. apply (one_photon_normalised P c A).
Qed.

Theorem prob_dist_normalised P c n : admissible P -> mass (fst (prob_dist P c n)) = 1.
Proof.
  intros A. unfold prob_dist. destruct ((n =? 0)%nat || is_perfect P).
  - cbn. ring.
  - pose proof (photon_dists_mass P A n c) as H. destruct (photon_dists P c n) as [ds c']. cbn [fst] in *.
    apply mass_tensor_merge, H.
Qed.

Lemma mode_dists_mass P : admissible P -> forall input c, Forall (fun d => mass d = 1) (fst (mode_dists P c input)).
Proof.
  intros A. induction input as [|n rest IH]; intros c; cbn [mode_dists]. constructor.
  pose proof (prob_dist_normalised P c n A) as H1. destruct (prob_dist P c n) as [d c1].
  specialize (IH c1). destruct (mode_dists P c1 rest) as [ds c2]. cbn [fst] in *. constructor; assumption.
Qed.

Theorem raw_distribution_normalised P c input : admissible P -> mass (fst (raw_distribution P c input)) = 1.
Proof.
  intros A. unfold raw_distribution. pose proof (mode_dists_mass P A input c) as H.
  destruct (mode_dists P c input) as [ds c']. cbn [fst] in *. apply mass_tensor_modes, H.
Qed.

(* the explicit normalize() of generate_distribution changes nothing, and the result has mass 1 *)
Theorem generate_distribution_normalised P c input : admissible P ->
  mass (fst (generate_distribution P c input)) = 1 /\
  fst (generate_distribution P c input) = fst (raw_distribution P c input).
Proof.
  intros A. pose proof (raw_distribution_normalised P c input A) as H. unfold generate_distribution.
  destruct (raw_distribution P c input) as [d c']. cbn [fst] in *. rewrite (normalize_mass1 d H). split; [exact H|reflexivity].
Qed.

(* ------------------------------------------------------------------ a perfect source *)
Lemma perfect_mode_dists P : is_perfect P = true -> forall input c,
  mode_dists P c input = (map (fun n => [(repeat O n, 1)]) input, c).
Proof.
  intros Hp. induction input as [|n rest IH]; intros c; cbn [mode_dists map]. reflexivity.
  unfold prob_dist. rewrite Hp, Bool.orb_true_r. rewrite IH. reflexivity.
Qed.
Lemma tensor_modes_singletons (l : list (list nat)) :
  tensor_modes (map (fun a => [(a, 1)]) l) = [(l, 1)].
Proof. induction l as [|a l IH]; cbn [map tensor_modes]. reflexivity.
  rewrite IH. cbn [flat_map map app fst snd]. replace (1 * 1) with 1 by ring. reflexivity. Qed.

Theorem perfect_source_identity P c input : is_perfect P = true ->
  generate_distribution P c input = ([(map (fun n => repeat O n) input, 1)], c).
Proof.
  intros Hp. unfold generate_distribution, raw_distribution. rewrite (perfect_mode_dists P Hp).
  rewrite <- (map_map (fun n => repeat O n) (fun a => [(a, 1)])), tensor_modes_singletons.
  reflexivity.
Qed.

(* ------------------------------------------------------------------ NoiseModel -> Source *)
Theorem from_noise_fields b i g gd t r s :
  let P := from_noise b i g gd t r s in
  px P = dflt b 1 /\ g2 P = dflt g 0 /\ ind P = dflt i 1 /\ eta P = dflt t 1 /\ dmodel P = dflt gd true.
Proof. cbn. repeat split. unfold eta. cbn. ring. Qed.
Theorem from_noise_default_is_perfect r s : is_perfect (from_noise None None None None None r s) = true.
Proof. reflexivity. Qed.

(* ------------------------------------------------------------------ the two implementations of the per-photon law *)
(* class of an annotation list up to renaming of the non-zero tags (lists of at most two photons):
   (photons, photons carrying tag 0, "two equal non-zero tags") *)
Definition zeros (a : list nat) : nat := length (filter (fun t => (t =? 0)%nat) a).
Definition canon1 (a : list nat) : nat * nat * bool :=
  (length a, zeros a, match a with [x; y] => negb (x =? 0)%nat && (x =? y)%nat | _ => false end).
Definition key_eqb (k1 k2 : nat * nat * bool) : bool :=
  let '(a, b, c) := k1 in let '(a', b', c') := k2 in (a =? a')%nat && (b =? b')%nat && Bool.eqb c c'.
Definition cmass (key : nat * nat * bool) (l : dist (list nat)) : Qc :=
  mass (filter (fun e => key_eqb (canon1 (fst e)) key) l).
Definition classes : list (nat * nat * bool) :=
  [(0, 0, false); (1, 1, false); (1, 0, false); (2, 2, false); (2, 1, false); (2, 0, false); (2, 0, true)]%nat.

Lemma eqb_succ c : (c =? S c)%nat = false.
Proof. apply Nat.eqb_neq. lia. Qed.

Lemma si_one P : admissible P -> ind P = 1 -> si P = 1.
Proof. intros A H. destruct A as (_&_&_&_&_&_&_&A8&A9&A10). rewrite H in A10.
  assert (Hz : (si P - 1) * (si P + 1) = 0) by (replace ((si P - 1) * (si P + 1)) with (si P * si P - 1) by ring; rewrite A10; ring).
  apply Qcmult_integral in Hz. destruct Hz as [Hz|Hz].
  - rewrite <- (Qcplus_0_r 1), <- Hz. ring.
  - exfalso. generalize dependent (si P). intros. qc2q. lra.
Qed.

Theorem event_law_matches_builder P c : admissible P -> forall key, In key classes ->
  cmass key (one_photon_entries P c) = cmass key (map forget (event_law P c)).
Proof.
  intros A key Hk.
  unfold cmass, one_photon_entries, event_law, forget, partially_distinguishable,
    p_none, p_signal, p_g2, p_duo, pzero, q2.
  destruct (Qceqb (ind P) 1) eqn:Ei.
  - apply Qceqb_true in Ei. rewrite (si_one P A Ei).
    destruct (dmodel P) eqn:Ed; [destruct (Qceqb (g2 P) 0) eqn:Eg|].
    + apply Qceqb_true in Eg. assert (H21 : p2to1 P = 0) by (unfold p2to1; rewrite p2_g2_zero by exact Eg; ring).
      assert (H22 : p2to2 P = 0) by (unfold p2to2; rewrite p2_g2_zero by exact Eg; ring).
      rewrite H21, H22.
      cbn [negb orb andb]. cbn [classes In] in Hk.
      repeat (destruct Hk as [Hk|Hk]; [subst key;
        cbn [map filter fst snd app olist canon1 zeros length key_eqb Nat.eqb andb negb Bool.eqb mass fold_right];
        rewrite ?eqb_succ; cbn [map filter fst snd app length key_eqb Nat.eqb andb negb Bool.eqb mass fold_right]; ring|]).
      contradiction.
    + cbn [negb orb andb]. cbn [classes In] in Hk.
      repeat (destruct Hk as [Hk|Hk]; [subst key;
        cbn [map filter fst snd app olist canon1 zeros length key_eqb Nat.eqb andb negb Bool.eqb mass fold_right];
        rewrite ?eqb_succ; cbn [map filter fst snd app length key_eqb Nat.eqb andb negb Bool.eqb mass fold_right]; ring|]).
      contradiction.
    + cbn [negb orb andb]. cbn [classes In] in Hk.
      repeat (destruct Hk as [Hk|Hk]; [subst key;
        cbn [map filter fst snd app olist canon1 zeros length key_eqb Nat.eqb andb negb Bool.eqb mass fold_right];
        rewrite ?eqb_succ; cbn [map filter fst snd app length key_eqb Nat.eqb andb negb Bool.eqb mass fold_right]; ring|]).
      contradiction.
  - cbn [negb orb]. cbn [classes In] in Hk.
    destruct (dmodel P) eqn:Ed;
    repeat (destruct Hk as [Hk|Hk]; [subst key;
      cbn [map filter fst snd app olist canon1 zeros length key_eqb Nat.eqb andb negb Bool.eqb mass fold_right];
      rewrite ?eqb_succ; cbn [map filter fst snd app length key_eqb Nat.eqb andb negb Bool.eqb mass fold_right]; ring|]);
    contradiction.
Qed.

(* every outcome of either law falls in one of the listed classes *)
Theorem laws_classes_complete P c :
  Forall (fun e => In (canon1 (fst e)) classes) (one_photon_entries P c) /\
  Forall (fun e => In (canon1 (fst e)) classes) (map forget (event_law P c)).
Proof.
  unfold one_photon_entries, event_law, forget, classes.
  destruct (partially_distinguishable P), (dmodel P); split;
    cbn [map app olist fst snd];
    repeat (apply Forall_cons; [cbv beta; unfold canon1, zeros; cbn [fst filter length Nat.eqb negb andb]; rewrite ?eqb_succ; cbn; auto 12|]);
    apply Forall_nil.
Qed.

(* ------------------------------------------------------------------ two signal photons share a tag with probability = indistinguishability *)
Definition sig_tag (e : lab) : option nat := fst (fst e).
Definition both_signal (a b : lab) : bool :=
  match sig_tag a, sig_tag b with Some _, Some _ => true | _, _ => false end.
Definition share_tag (a b : lab) : bool :=
  match sig_tag a, sig_tag b with Some x, Some y => (x =? y)%nat | _, _ => false end.
Definition pair_mass (f : lab -> lab -> bool) (la lb : list lab) : Qc :=
  fold_right (fun a acc => fold_right (fun b acc' => (if f a b then snd a * snd b else 0) + acc') 0 lb + acc) 0 la.

Theorem tag_sharing P c1 c2 : si P * si P = ind P -> c1 <> c2 ->
  pair_mass share_tag (event_law P c1) (event_law P c2) = ind P * pair_mass both_signal (event_law P c1) (event_law P c2).
Proof.
  intros Hs Hc. apply Nat.eqb_neq in Hc. rewrite <- Hs. unfold event_law, pair_mass, share_tag, both_signal, sig_tag.
  cbn [fold_right fst snd Nat.eqb]. rewrite Hc. ring.
Qed.

(* ------------------------------------------------------------------ the event table *)
Lemma qnat_0 : qnat 0 = 0. Proof. apply Qc_is_canon. reflexivity. Qed.
Lemma qnat_S n : qnat (S n) = qnat n + 1.
Proof. unfold qnat. apply Qc_is_canon. unfold Qcplus, Q2Qc. cbn [this]. rewrite !Qred_correct.
  rewrite Nat2Z.inj_succ. unfold Z.succ. rewrite inject_Z_plus. reflexivity. Qed.
Lemma qnat_add a b : qnat (a + b) = qnat a + qnat b.
Proof. induction a; cbn [Nat.add]. rewrite qnat_0. ring. rewrite !qnat_S, IHa. ring. Qed.
Lemma qnat_nonneg n : 0 <= qnat n.
Proof. induction n. rewrite qnat_0. apply Qcle_refl. rewrite qnat_S. generalize dependent (qnat n). intros. qc2q. lra. Qed.
Lemma qnat_S_neq0 n : qnat (S n) <> 0.
Proof. pose proof (qnat_nonneg n). rewrite qnat_S. generalize dependent (qnat n). intros q H E. qc2q. lra. Qed.
Lemma qfact_neq0 n : qfact n <> 0.
Proof. induction n; cbn [qfact]. discriminate. intro H. apply Qcmult_integral in H. destruct H.
  exact (qnat_S_neq0 n H). contradiction. Qed.

Definition wt (p : Qc) (i : nat) : Qc := p ^ i / qfact i.
Definition wpred (p : Qc) (i : nat) : Qc := match i with O => 0 | S i' => wt p i' end.
Lemma wt_step p i : qnat i * wt p i = p * wpred p i.
Proof. destruct i as [|i]; cbn [wpred]. rewrite qnat_0. ring.
  unfold wt. cbn [qfact Qcpower]. field. split. apply qfact_neq0. apply qnat_S_neq0. Qed.

Definition G (P : src) (n a b c d : nat) : Qc :=
  qfact n * wt (p_signal P) a * wt (p_g2 P) b * wt (p_duo P) c * wt (p_none P) d.
Lemma tval_G P n i j k : tval P n i j k = G P n i j k (n - i - j - k).
Proof. unfold tval, G, wt. field. repeat split; apply qfact_neq0. Qed.

(* the multinomial law, zero outside the simplex *)
Definition T (P : src) (n i j k : nat) : Qc := if (i + j + k <=? n)%nat then tval P n i j k else 0.

Lemma T_in P n i j k l : (i + j + k + l = n)%nat -> T P n i j k = G P n i j k l.
Proof. intros H. unfold T. replace (i + j + k <=? n)%nat with true by (symmetry; apply Nat.leb_le; lia).
  rewrite tval_G. f_equal. lia. Qed.
Lemma T_out P n i j k : (n < i + j + k)%nat -> T P n i j k = 0.
Proof. intros H. unfold T. replace (i + j + k <=? n)%nat with false by (symmetry; apply Nat.leb_gt; lia). reflexivity. Qed.

Definition predT (f : nat -> Qc) (i : nat) : Qc := match i with O => 0 | S i' => f i' end.

(* independent-draws recurrence: the (n+1)-th requested photon is a signal, a g2 photon, a pair, or nothing *)
Theorem table_recurrence P n i j k :
  T P (S n) i j k = p_signal P * predT (fun i' => T P n i' j k) i
                  + p_g2 P * predT (fun j' => T P n i j' k) j
                  + p_duo P * predT (fun k' => T P n i j k') k
                  + p_none P * T P n i j k.
Proof.
  destruct (le_lt_dec (i + j + k) (S n)) as [Hle|Hgt].
  - remember (S n - (i + j + k))%nat as l eqn:El.
    assert (Hsum : (i + j + k + l = S n)%nat) by lia.
    rewrite (T_in P (S n) i j k l Hsum).
    assert (Hi : p_signal P * predT (fun i' => T P n i' j k) i = qfact n * (qnat i * wt (p_signal P) i) * wt (p_g2 P) j * wt (p_duo P) k * wt (p_none P) l).
    { destruct i as [|i']; cbn [predT]. rewrite qnat_0. ring.
      rewrite (T_in P n i' j k l) by lia. rewrite wt_step. cbn [wpred]. unfold G. ring. }
    assert (Hj : p_g2 P * predT (fun j' => T P n i j' k) j = qfact n * wt (p_signal P) i * (qnat j * wt (p_g2 P) j) * wt (p_duo P) k * wt (p_none P) l).
    { destruct j as [|j']; cbn [predT]. rewrite qnat_0. ring.
      rewrite (T_in P n i j' k l) by lia. rewrite wt_step. cbn [wpred]. unfold G. ring. }
    assert (Hk : p_duo P * predT (fun k' => T P n i j k') k = qfact n * wt (p_signal P) i * wt (p_g2 P) j * (qnat k * wt (p_duo P) k) * wt (p_none P) l).
    { destruct k as [|k']; cbn [predT]. rewrite qnat_0. ring.
      rewrite (T_in P n i j k' l) by lia. rewrite wt_step. cbn [wpred]. unfold G. ring. }
    assert (Hl : p_none P * T P n i j k = qfact n * wt (p_signal P) i * wt (p_g2 P) j * wt (p_duo P) k * (qnat l * wt (p_none P) l)).
    { destruct l as [|l']. rewrite T_out by lia. rewrite qnat_0. ring.
      rewrite (T_in P n i j k l') by lia. rewrite wt_step. cbn [wpred]. unfold G. ring. }
    rewrite Hi, Hj, Hk, Hl. unfold G. cbn [qfact]. rewrite <- Hsum, !qnat_add. ring.
  - rewrite T_out by lia. rewrite (T_out P n i j k) by lia.
    assert (Hi : predT (fun i' => T P n i' j k) i = 0) by (destruct i; cbn [predT]; [reflexivity|apply T_out; lia]).
    assert (Hj : predT (fun j' => T P n i j' k) j = 0) by (destruct j; cbn [predT]; [reflexivity|apply T_out; lia]).
    assert (Hk : predT (fun k' => T P n i j k') k = 0) by (destruct k; cbn [predT]; [reflexivity|apply T_out; lia]).
    rewrite Hi, Hj, Hk. ring.
Qed.

(* ---- finite sums *)
Definition sumf {A} (g : A -> Qc) (l : list A) : Qc := fold_right (fun a acc => g a + acc) 0 l.
Lemma sumf_app {A} (g : A -> Qc) l1 l2 : sumf g (l1 ++ l2) = sumf g l1 + sumf g l2.
Proof. induction l1; simpl. ring. rewrite IHl1. ring. Qed.
Lemma sumf_ext {A} (g h : A -> Qc) l : (forall a, In a l -> g a = h a) -> sumf g l = sumf h l.
Proof. induction l; simpl; intros H. reflexivity. rewrite IHl, (H a) by auto. reflexivity. Qed.
Lemma sumf_zero {A} (g : A -> Qc) l : (forall a, In a l -> g a = 0) -> sumf g l = 0.
Proof. induction l; simpl; intros H. reflexivity. rewrite IHl, (H a) by auto. ring. Qed.
Lemma sumf_add {A} (g h : A -> Qc) l : sumf (fun a => g a + h a) l = sumf g l + sumf h l.
Proof. induction l; simpl. ring. rewrite IHl. ring. Qed.
Lemma sumf_scal {A} (c : Qc) (g : A -> Qc) l : sumf (fun a => c * g a) l = c * sumf g l.
Proof. induction l; simpl. ring. rewrite IHl. ring. Qed.
Lemma sumf_map {A B} (g : B -> Qc) (h : A -> B) l : sumf g (map h l) = sumf (fun a => g (h a)) l.
Proof. induction l; simpl; congruence. Qed.
Lemma sumf_flat_map {A B} (g : B -> Qc) (h : A -> list B) l : sumf g (flat_map h l) = sumf (fun a => sumf g (h a)) l.
Proof. induction l; simpl. reflexivity. rewrite sumf_app, IHl. reflexivity. Qed.
Lemma sumf_filter {A} (g : A -> Qc) (f : A -> bool) l : sumf g (filter f l) = sumf (fun a => if f a then g a else 0) l.
Proof. induction l; simpl. reflexivity. destruct (f a); simpl; rewrite IHl; ring. Qed.
Lemma mass_keyed {A} (g : A -> Qc) (l : list A) : mass (map (fun a => (a, g a)) l) = sumf g l.
Proof. induction l; simpl; congruence. Qed.

Lemma sumf_seq_shift (g : nat -> Qc) N : sumf (predT g) (seq 0 (S N)) = sumf g (seq 0 N).
Proof. change (seq 0 (S N)) with (0%nat :: seq 1 N). rewrite <- seq_shift.
  change (sumf (predT g) (0%nat :: map S (seq 0 N))) with (predT g 0%nat + sumf (predT g) (map S (seq 0 N))).
  rewrite sumf_map. cbn [predT]. apply Qcplus_0_l. Qed.
Lemma sumf_seq_extend (g : nat -> Qc) a b : (a <= b)%nat -> (forall i, (a <= i < b)%nat -> g i = 0) ->
  sumf g (seq 0 a) = sumf g (seq 0 b).
Proof. intros Hab Hz. replace b with (a + (b - a))%nat by lia. rewrite seq_app, sumf_app.
  rewrite (sumf_zero g (seq (0 + a) (b - a))). ring.
  intros i Hi. apply in_seq in Hi. apply Hz. lia. Qed.

Lemma sumf_seq_single (g : nat -> Qc) N : (forall i, (1 <= i < S N)%nat -> g i = 0) -> sumf g (seq 0 (S N)) = g 0%nat.
Proof. intros H. rewrite <- (sumf_seq_extend g 1 (S N)) by (try lia; exact H). cbn [seq sumf fold_right]. ring. Qed.

(* sums over the cube [0,N)^3 *)
Definition S3 (N : nat) (F : nat -> nat -> nat -> Qc) : Qc :=
  sumf (fun i => sumf (fun j => sumf (fun k => F i j k) (seq 0 N)) (seq 0 N)) (seq 0 N).
Lemma S3_ext N F F' : (forall i j k, F i j k = F' i j k) -> S3 N F = S3 N F'.
Proof. intros H. unfold S3. apply sumf_ext. intros i _. apply sumf_ext. intros j _. apply sumf_ext. intros k _. apply H. Qed.
Lemma S3_add N F F' : S3 N (fun i j k => F i j k + F' i j k) = S3 N F + S3 N F'.
Proof. unfold S3. rewrite <- sumf_add. apply sumf_ext. intros i _. rewrite <- sumf_add. apply sumf_ext. intros j _.
  apply sumf_add. Qed.
Lemma S3_scal N c F : S3 N (fun i j k => c * F i j k) = c * S3 N F.
Proof. unfold S3. rewrite <- sumf_scal. apply sumf_ext. intros i _. rewrite <- sumf_scal. apply sumf_ext. intros j _.
  apply sumf_scal. Qed.
Lemma sumf_const0 {A} (l : list A) : sumf (fun _ => 0) l = 0.
Proof. apply sumf_zero. reflexivity. Qed.

Lemma S3_shift_i N F : (forall j k, F N j k = 0) ->
  S3 (S N) (fun i j k => predT (fun i' => F i' j k) i) = S3 (S N) F.
Proof.
  intros Hz. unfold S3.
  rewrite (sumf_ext _ (predT (fun i' => sumf (fun j => sumf (fun k => F i' j k) (seq 0 (S N))) (seq 0 (S N))))).
  2:{ intros i _. destruct i; cbn [predT]; [|reflexivity]. apply sumf_zero. intros j _. apply sumf_const0. }
  rewrite sumf_seq_shift. apply sumf_seq_extend. lia.
  intros i Hi. assert (i = N) by lia. subst i. apply sumf_zero. intros j _. apply sumf_zero. intros k _. apply Hz.
Qed.
Lemma S3_shift_j N F : (forall i k, F i N k = 0) ->
  S3 (S N) (fun i j k => predT (fun j' => F i j' k) j) = S3 (S N) F.
Proof.
  intros Hz. unfold S3. apply sumf_ext. intros i _.
  rewrite (sumf_ext _ (predT (fun j' => sumf (fun k => F i j' k) (seq 0 (S N))))).
  2:{ intros j _. destruct j; cbn [predT]; [|reflexivity]. apply sumf_const0. }
  rewrite sumf_seq_shift. apply sumf_seq_extend. lia.
  intros j Hj. assert (j = N) by lia. subst j. apply sumf_zero. intros k _. apply Hz.
Qed.
Lemma S3_shift_k N F : (forall i j, F i j N = 0) ->
  S3 (S N) (fun i j k => predT (fun k' => F i j k') k) = S3 (S N) F.
Proof.
  intros Hz. unfold S3. apply sumf_ext. intros i _. apply sumf_ext. intros j _.
  rewrite sumf_seq_shift. apply sumf_seq_extend. lia.
  intros k Hk. assert (k = N) by lia. subst k. apply Hz.
Qed.

Lemma T_0 P i j k : T P 0 i j k = if ((i =? 0) && (j =? 0) && (k =? 0))%nat then 1 else 0.
Proof. destruct i, j, k; cbn [Nat.eqb andb]; try (apply T_out; lia).
  unfold T, tval. cbn [Nat.add Nat.leb Nat.sub Qcpower qfact]. field. discriminate. Qed.

Theorem multinomial_total P : forall n N, (n < N)%nat ->
  S3 N (T P n) = (p_signal P + p_g2 P + p_duo P + p_none P) ^ n.
Proof.
  induction n as [|n IH]; intros N HN.
  - destruct N as [|N]; [lia|]. cbn [Qcpower]. unfold S3.
    rewrite sumf_seq_single.
    2:{ intros i Hi. apply sumf_zero. intros j _. apply sumf_zero. intros k _. rewrite T_0.
        destruct i; [lia|reflexivity]. }
    rewrite sumf_seq_single.
    2:{ intros j Hj. apply sumf_zero. intros k _. rewrite T_0. destruct j; [lia|reflexivity]. }
    rewrite sumf_seq_single.
    2:{ intros k Hk. rewrite T_0. destruct k; [lia|reflexivity]. }
    rewrite T_0. reflexivity.
  - destruct N as [|N]; [lia|].
    rewrite (S3_ext _ _ _ (table_recurrence P n)).
    rewrite !S3_add, !S3_scal.
    rewrite (S3_shift_i N (T P n)) by (intros; apply T_out; lia).
    rewrite (S3_shift_j N (T P n)) by (intros; apply T_out; lia).
    rewrite (S3_shift_k N (T P n)) by (intros; apply T_out; lia).
    rewrite (IH (S N)) by lia. cbn [Qcpower]. ring.
Qed.

(* ---- the table the code builds *)
Definition Tk (P : src) (n : nat) (key : nat * nat * nat) : Qc := let '(i, j, k) := key in T P n i j k.

Lemma pow0 k : (0 < k)%nat -> (0 : Qc) ^ k = 0.
Proof. destruct k; [lia|]. intros _. cbn [Qcpower]. ring. Qed.
Lemma tval_g2_zero P n i j k : p_g2 P = 0 -> (0 < j)%nat -> tval P n i j k = 0.
Proof. intros H Hj. unfold tval. rewrite H, pow0 by exact Hj. unfold Qcdiv. ring. Qed.
Lemma tval_duo_zero P n i j k : p_duo P = 0 -> (0 < k)%nat -> tval P n i j k = 0.
Proof. intros H Hk. unfold tval. rewrite H, pow0 by exact Hk. unfold Qcdiv. ring. Qed.
Lemma T_g2_zero P n i j k : p_g2 P = 0 -> (0 < j)%nat -> T P n i j k = 0.
Proof. intros. unfold T. rewrite tval_g2_zero by assumption. destruct (_ <=? _)%nat; reflexivity. Qed.
Lemma T_duo_zero P n i j k : p_duo P = 0 -> (0 < k)%nat -> T P n i j k = 0.
Proof. intros. unfold T. rewrite tval_duo_zero by assumption. destruct (_ <=? _)%nat; reflexivity. Qed.

Lemma table_keys_in P n i j k : In (i, j, k) (table_keys P n) <->
  (i + j + k <= n)%nat /\ (Qceqb (p_g2 P) 0 = true -> j = 0%nat) /\ (Qceqb (p_duo P) 0 = true -> k = 0%nat).
Proof.
  unfold table_keys. rewrite in_flat_map. split.
  - intros (i' & Hi & H). apply in_flat_map in H. destruct H as (j' & Hj & H). apply in_map_iff in H.
    destruct H as (k' & E & Hk). inversion E; subst i' j' k'. apply in_seq in Hi, Hj, Hk.
    destruct (Qceqb (p_g2 P) 0), (Qceqb (p_duo P) 0); repeat split; intros; try discriminate; lia.
  - intros (Hle & Hg & Hd). exists i. split. apply in_seq. lia.
    apply in_flat_map. exists j. split. apply in_seq. destruct (Qceqb (p_g2 P) 0). rewrite Hg by reflexivity. lia. lia.
    apply in_map_iff. exists k. split. reflexivity. apply in_seq. destruct (Qceqb (p_duo P) 0). rewrite Hd by reflexivity. lia. lia.
Qed.

Lemma raw_table_eq P n f : raw_table P n f = map (fun key => (key, Tk P n key)) (filter (passes f) (table_keys P n)).
Proof. unfold raw_table. apply map_ext_in. intros [[i j] k] H. apply filter_In in H. destruct H as [H _].
  apply table_keys_in in H. cbn [Tk]. unfold T. replace (i + j + k <=? n)%nat with true. reflexivity.
  symmetry. apply Nat.leb_le. tauto. Qed.

(* every entry of the table is the multinomial probability of its event, and passes the filter *)
Theorem table_entries P n f i j k v : In ((i, j, k), v) (raw_table P n f) ->
  v = T P n i j k /\ (i + j + k <= n)%nat /\ (f <= i + j + 2 * k)%nat.
Proof. rewrite raw_table_eq. intros H. apply in_map_iff in H. destruct H as (key & E & H). inversion E; subst key v.
  apply filter_In in H. destruct H as [H1 H2]. apply table_keys_in in H1. cbn [Tk passes] in *. apply Nat.leb_le in H2. tauto. Qed.

(* every event of non-zero probability that passes the filter is in the table *)
Theorem table_complete P n f i j k : (f <= i + j + 2 * k)%nat -> T P n i j k <> 0 ->
  In ((i, j, k), T P n i j k) (raw_table P n f).
Proof.
  intros Hf Hnz. rewrite raw_table_eq. apply in_map_iff. exists (i, j, k). split. reflexivity.
  apply filter_In. split; [|cbn [passes]; apply Nat.leb_le; exact Hf]. apply table_keys_in. repeat split.
  - destruct (le_lt_dec (i + j + k) n); [assumption|]. exfalso. apply Hnz, T_out. assumption.
  - intros Hg. apply Qceqb_true in Hg. destruct j; [reflexivity|]. exfalso. apply Hnz, T_g2_zero. assumption. lia.
  - intros Hd. apply Qceqb_true in Hd. destruct k; [reflexivity|]. exfalso. apply Hnz, T_duo_zero. assumption. lia.
Qed.

Lemma table_sum_cube P n (h : nat * nat * nat -> bool) :
  sumf (fun key => if h key then Tk P n key else 0) (table_keys P n) =
  S3 (S n) (fun i j k => if h (i, j, k) then T P n i j k else 0).
Proof.
  unfold table_keys, S3. rewrite sumf_flat_map. apply sumf_ext. intros i Hi. apply in_seq in Hi.
  rewrite sumf_flat_map.
  transitivity (sumf (fun j => sumf (fun k => if h (i, j, k) then T P n i j k else 0) (seq 0 (S n)))
                     (seq 0 (if Qceqb (p_g2 P) 0 then 1 else S n - i)%nat)).
  - apply sumf_ext. intros j Hj. apply in_seq in Hj. rewrite sumf_map. cbn [Tk].
    apply sumf_seq_extend. destruct (Qceqb (p_duo P) 0); lia.
    intros k Hk. destruct (h (i, j, k)); [|reflexivity].
    destruct (Qceqb (p_duo P) 0) eqn:Ed. apply Qceqb_true in Ed. apply T_duo_zero. assumption. lia.
    apply T_out. lia.
  - apply sumf_seq_extend. destruct (Qceqb (p_g2 P) 0); lia.
    intros j Hj. apply sumf_zero. intros k _. destruct (h (i, j, k)); [|reflexivity].
    destruct (Qceqb (p_g2 P) 0) eqn:Eg. apply Qceqb_true in Eg. apply T_g2_zero. assumption. lia.
    apply T_out. lia.
Qed.

(* physical performance = mass the multinomial law puts on the events that pass the filter *)
Theorem table_kept_mass P n f :
  mass (raw_table P n f) = S3 (S n) (fun i j k => if (f <=? i + j + 2 * k)%nat then T P n i j k else 0).
Proof. rewrite raw_table_eq, mass_keyed, sumf_filter. apply (table_sum_cube P n (passes f)). Qed.

Lemma probs_total P : p_signal P + p_g2 P + p_duo P + p_none P = 1.
Proof. unfold p_none. ring. Qed.

Theorem table_sums_to_one P n : mass (raw_table P n 0) = 1.
Proof. rewrite table_kept_mass. transitivity (S3 (S n) (T P n)). apply S3_ext. intros. reflexivity.
  rewrite (multinomial_total P n (S n)) by lia. rewrite probs_total. apply Qcpower_1. Qed.

(* the returned table: unchanged without a filter; with a filter, the restriction renormalised by the kept mass,
   which is reported as physical performance; third component p0^n *)
Theorem table_conditioning P n f :
  let '(t, phys, zpp) := prob_table P n f in
  phys = mass (raw_table P n f) /\ zpp = p_none P ^ n /\
  (f = 0%nat -> t = raw_table P n 0 /\ phys = 1) /\
  (f <> 0%nat -> t = map (fun e => (fst e, snd e / phys)) (raw_table P n f) /\ (phys <> 0 -> mass t = 1)).
Proof.
  unfold prob_table. split; [reflexivity|]. split; [reflexivity|]. split.
  - intros ->. split. reflexivity. apply table_sums_to_one.
  - intros H. apply Nat.eqb_neq in H. rewrite H. split. reflexivity.
    intros Hp. rewrite mass_map_div. field. exact Hp.
Qed.

(* ------------------------------------------------------------------ conditioning a distribution on the filter *)
Theorem condition_renormalises f (d : dist state) :
  let '(k, m) := Source.condition f d in
  m = mass (filter (fun e => (f <=? nphotons (fst e))%nat) d) /\
  k = map (fun e => (fst e, snd e / m)) (filter (fun e => (f <=? nphotons (fst e))%nat) d) /\
  (m <> 0 -> mass k = 1).
Proof. unfold Source.condition. split; [reflexivity|]. split; [reflexivity|]. intros H. apply mass_normalize, H. Qed.

(* ------------------------------------------------------------------ the hypotheses are satisfiable *)
Definition qq (a : Z) (b : positive) : Qc := Q2Qc (a # b).
Definition example_source : src := mk_src (qq 4 5) (qq 9 40) (qq 81 100) (qq 1 4) true (qq 4 5) (qq 9 10).
Lemma example_admissible : admissible example_source.
Proof. unfold admissible, example_source. cbn [px g2 ind losses rt si].
  repeat split; try (apply Qc_is_canon; reflexivity); try (vm_compute; reflexivity); try (vm_compute; discriminate). Qed.

(* ------------------------------------------------------------------ the table cache never serves a stale table *)
Definition cache_ok (P : src) (c : option tcache) : Prop :=
  match c with None => True | Some k => tc_val k = prob_table P (tc_n k) (tc_f k) end.
Lemma cache_request_ok P c n f : cache_ok P c ->
  let k := cache_request P c n f in tc_n k = n /\ tc_f k = f /\ tc_val k = prob_table P n f.
Proof.
  intros H. unfold cache_request. destruct c as [k|]; [|cbn; auto].
  destruct ((tc_n k =? n)%nat && (tc_f k =? f)%nat) eqn:E; [|cbn; auto].
  apply Bool.andb_true_iff in E. destruct E as [E1 E2]. apply Nat.eqb_eq in E1, E2. cbn in H. subst. auto.
Qed.
Lemma cache_run_ok P h : forall c, cache_ok P c -> cache_ok P (cache_run P c h).
Proof. induction h as [|[n f] h IH]; intros c H; cbn [cache_run]. exact H.
  apply IH. cbn. destruct (cache_request_ok P c n f H) as (E1 & E2 & E3). rewrite E3, E1, E2. reflexivity. Qed.
(* after ANY history of calls on one Source, the table used for (n, f) is the table of (n, f) *)
Theorem cache_history_independent P h n f :
  tc_val (cache_request P (cache_run P None h) n f) = prob_table P n f.
Proof. apply cache_request_ok, cache_run_ok. exact Logic.I. Qed.
