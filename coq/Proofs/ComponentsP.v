From PV Require Import Model.Components.
From Coq Require Import Setoid Morphisms.

Section ComponentsP.
Variable R : cring.
Add Ring Rring : (Kth R).
Open Scope K_scope.

Lemma unitary1 (a : R) : a * kconj a = k1 -> unitary 1 (mat1 a).
Proof. intros H. split; intros i j Hi Hj; assert (i = 0%nat) by lia; assert (j = 0%nat) by lia; subst;
  unfold mmul, madj, mid; simpl; rewrite delta_refl; (etransitivity; [|exact H]); ring. Qed.

Lemma unitary2 (a b c d : R) :
  a * kconj a + b * kconj b = k1 -> c * kconj c + d * kconj d = k1 -> a * kconj c + b * kconj d = k0 ->
  a * kconj a + c * kconj c = k1 -> b * kconj b + d * kconj d = k1 -> kconj a * b + kconj c * d = k0 ->
  unitary 2 (mat2 a b c d).
Proof.
  intros H1 H2 H3 H4 H5 H6.
  assert (H3' : c * kconj a + d * kconj b = k0).
  { rewrite <- (conj_invol R c), <- (conj_invol R d), <- !conj_mul, <- conj_add.
    replace (kconj c * a + kconj d * b) with (a * kconj c + b * kconj d) by ring. rewrite H3. apply conj_zero. }
  assert (H6' : kconj b * a + kconj d * c = k0).
  { rewrite <- (conj_invol R a), <- (conj_invol R c), <- !conj_mul, <- conj_add.
    replace (b * kconj a + d * kconj c) with (kconj a * b + kconj c * d) by ring. rewrite H6. apply conj_zero. }
  split; intros i j Hi Hj; unfold mmul, madj, mid; simpl;
  destruct i as [|[|i]]; try lia; destruct j as [|[|j]]; try lia; simpl; unfold delta; simpl.
  - etransitivity; [|exact H1]; ring.
  - etransitivity; [|exact H3]; ring.
  - etransitivity; [|exact H3']; ring.
  - etransitivity; [|exact H2]; ring.
  - etransitivity; [|exact H4]; ring.
  - etransitivity; [|exact H6]; ring.
  - etransitivity; [|exact H6']; ring.
  - etransitivity; [|exact H5]; ring.
Qed.

Section BS.
Variables ii c s tl bl tr br : R.
Hypothesis ii2 : ii * ii = - k1.
Hypothesis conj_ii : kconj ii = - ii.
Hypothesis cs : c * c = k1 - s * s.
Hypothesis cc : kconj c = c.
Hypothesis sc : kconj s = s.
Hypothesis utl : tl * kconj tl = k1.
Hypothesis ubl : bl * kconj bl = k1.
Hypothesis utr : tr * kconj tr = k1.
Hypothesis ubr : br * kconj br = k1.

Theorem bs_unitary cv : unitary 2 (bs_mat cv ii c s tl bl tr br).
Proof.
  destruct cv; unfold bs_mat; apply unitary2;
  rewrite ?conj_mul, ?conj_opp, ?conj_one, ?conj_ii, ?cc, ?sc;
  ring [ii2 cs utl ubl utr ubr].
Qed.
End BS.

Section Others.
Variables ii e cd sd cx sx : R.
Hypothesis ii2 : ii * ii = - k1.
Hypothesis conj_ii : kconj ii = - ii.
Hypothesis ue : e * kconj e = k1.
Hypothesis csd : cd * cd = k1 - sd * sd.
Hypothesis csx : cx * cx = k1 - sx * sx.
Hypothesis rcd : kconj cd = cd.
Hypothesis rsd : kconj sd = sd.
Hypothesis rcx : kconj cx = cx.
Hypothesis rsx : kconj sx = sx.

Theorem ps_unitary : unitary 1 (ps_mat e).
Proof. apply unitary1. exact ue. Qed.
Theorem wp_unitary : unitary 2 (wp_mat ii cd sd cx sx).
Proof. unfold wp_mat. apply unitary2;
  rewrite ?conj_sub, ?conj_add, ?conj_mul, ?conj_opp, ?conj_one, ?conj_ii, ?rcd, ?rsd, ?rcx, ?rsx;
  ring [ii2 csd csx]. Qed.
Theorem pr_unitary : unitary 2 (pr_mat cd sd).
Proof. unfold pr_mat. apply unitary2;
  rewrite ?conj_sub, ?conj_add, ?conj_mul, ?conj_opp, ?conj_one, ?rcd, ?rsd;
  ring [csd]. Qed.
End Others.

(* permutation matrices *)
Definition bij_on (n : nat) (p q : nat -> nat) :=
  (forall k, (k < n)%nat -> (p k < n)%nat /\ q (p k) = k) /\ (forall i, (i < n)%nat -> (q i < n)%nat /\ p (q i) = i).

Theorem pmat_unitary n p q : bij_on n p q -> unitary n (pmat (R:=R) p).
Proof. intros [Hp Hq]. split; intros i j Hi Hj; unfold mmul, madj, mid, pmat.
  - destruct (Hq j Hj) as [Hqj Hpq].
    rewrite (sumn_single R n _ (q j) Hqj).
    + rewrite Hpq, conj_delta, delta_refl. ring.
    + intros l Hl Hne. rewrite conj_delta. rewrite (delta_neq R j (p l)). ring.
      intros E. subst j. destruct (Hp l Hl) as [_ E]. congruence.
  - transitivity (sumn n (fun l => delta (R:=R) l (p i) * delta l (p j))).
    { apply sumn_ext. intros l _. rewrite conj_delta. reflexivity. }
    destruct (Hp i Hi) as [Hpi Hqi]. destruct (Hp j Hj) as [Hpj Hqj].
    rewrite (sumn_single R n _ (p i) Hpi).
    + rewrite delta_refl. unfold delta.
      destruct (i =? j) eqn:E. apply Nat.eqb_eq in E. subst. rewrite Nat.eqb_refl. ring.
      apply Nat.eqb_neq in E. replace (p i =? p j) with false. ring.
      symmetry. apply Nat.eqb_neq. intros E'. apply E. congruence.
    + intros l Hl Hne. rewrite (delta_neq R l (p i)) by exact Hne. ring.
Qed.

Theorem pmat_col p i k : pmat (R:=R) p i k = delta i (p k).
Proof. reflexivity. Qed.

Theorem pmat_compose n p1 p2 : (forall k, (k < n)%nat -> (p1 k < n)%nat) ->
  meq n (mmul n (pmat p2) (pmat p1)) (pmat (R:=R) (fun k => p2 (p1 k))).
Proof. intros H i j Hi Hj. unfold mmul, pmat.
  rewrite (sumn_single R n _ (p1 j) (H j Hj)). rewrite delta_refl. ring.
  intros l Hl Hne. rewrite (delta_neq R l (p1 j)) by exact Hne. ring. Qed.

End ComponentsP.
