From PV Require Import Model.Param.
From Coq Require Import Lqa Lia.

Lemma wrap_periodic_spec v lo hi : lo < hi ->
  lo <= wrap_periodic v lo hi <= hi /\ exists k : Z, wrap_periodic v lo hi == v + inject_Z k * (hi - lo).
Proof.
  intros Hlh. unfold wrap_periodic.
  destruct (Qlt_le_dec hi v) as [Hv|Hv].
  - set (t := (v - hi) / (hi - lo)). set (p := Qfloor t).
    assert (Hp1 : inject_Z p <= t) by apply Qfloor_le.
    assert (Hp2 : t < inject_Z (p + 1)) by apply Qlt_floor.
    assert (Ht : v - hi == t * (hi - lo)) by (unfold t; field; lra).
    rewrite inject_Z_plus in *. change (inject_Z 1) with 1 in *.
    split.
    + split; nra.
    + exists (- (p + 1))%Z. rewrite inject_Z_opp, inject_Z_plus. change (inject_Z 1) with 1. ring.
  - destruct (Qlt_le_dec v lo) as [Hv'|Hv'].
    + set (t := (lo - v) / (hi - lo)). set (p := Qfloor t).
      assert (Hp1 : inject_Z p <= t) by apply Qfloor_le.
      assert (Hp2 : t < inject_Z (p + 1)) by apply Qlt_floor.
      assert (Ht : lo - v == t * (hi - lo)) by (unfold t; field; lra).
      rewrite inject_Z_plus in *. change (inject_Z 1) with 1 in *.
      split.
      * split; nra.
      * exists (p + 1)%Z. rewrite inject_Z_plus. change (inject_Z 1) with 1. ring.
    + split. lra. exists 0%Z. change (inject_Z 0) with 0. ring.
Qed.

(* a periodic parameter with proper bounds never raises, stays in range, moves by whole periods *)
Theorem check_value_periodic v lo hi : lo < hi ->
  exists v', check_value v (Some lo) (Some hi) true = WOk v' /\ lo <= v' <= hi /\
             exists k : Z, v' == v + inject_Z k * (hi - lo).
Proof. intros H. destruct (wrap_periodic_spec v lo hi H) as [[H1 H2] Hk].
  exists (wrap_periodic v lo hi). unfold check_value.
  destruct (Qlt_le_dec (wrap_periodic v lo hi) lo); [lra|].
  destruct (Qlt_le_dec hi (wrap_periodic v lo hi)); [lra|]. simpl. auto. Qed.

(* a non-periodic parameter keeps the value or is rejected, exactly on the range *)
Theorem check_value_plain v lo hi :
  check_value v (Some lo) (Some hi) false = if Qlt_le_dec v lo then WErr else if Qlt_le_dec hi v then WErr else WOk v.
Proof. unfold check_value. destruct (Qlt_le_dec v lo), (Qlt_le_dec hi v); reflexivity. Qed.
