(* Trusted driver: reads "<fid> <sx>" per line, prints the result tree. sx syntax: integers and
   parenthesised lists, e.g. (1 (2 -3) ()).  Integers are arbitrary precision (Zarith only used for
   decimal <-> binary conversion; all arithmetic is done by the extracted Coq code). *)
module BZ = Z
open Model

let rec pos_of_z (n : BZ.t) : positive =
  if BZ.equal n BZ.one then XH
  else if BZ.is_even n then XO (pos_of_z (BZ.shift_right n 1))
  else XI (pos_of_z (BZ.shift_right n 1))
let coqz_of_z (n : BZ.t) : z =
  if BZ.sign n = 0 then Z0 else if BZ.sign n > 0 then Zpos (pos_of_z n) else Zneg (pos_of_z (BZ.neg n))
let rec z_of_pos = function
  | XH -> BZ.one | XO p -> BZ.shift_left (z_of_pos p) 1 | XI p -> BZ.succ (BZ.shift_left (z_of_pos p) 1)
let z_of_coqz = function Z0 -> BZ.zero | Zpos p -> z_of_pos p | Zneg p -> BZ.neg (z_of_pos p)

let parse (s : string) (i : int ref) : sx =
  let n = String.length s in
  let skip () = while !i < n && (s.[!i] = ' ' || s.[!i] = '\t') do incr i done in
  let rec item () : sx =
    skip ();
    if !i >= n then failwith "eof";
    if s.[!i] = '(' then begin
      incr i;
      let acc = ref [] in
      skip ();
      while !i < n && s.[!i] <> ')' do acc := item () :: !acc; skip () done;
      if !i >= n then failwith "unclosed";
      incr i; L (List.rev !acc)
    end else begin
      let j = !i in
      while !i < n && s.[!i] <> ' ' && s.[!i] <> ')' && s.[!i] <> '(' do incr i done;
      I (coqz_of_z (BZ.of_string (String.sub s j (!i - j))))
    end
  in item ()

let rec print (b : Buffer.t) (x : sx) : unit =
  match x with
  | I z -> Buffer.add_string b (BZ.to_string (z_of_coqz z))
  | L l -> Buffer.add_char b '(';
           List.iteri (fun k y -> if k > 0 then Buffer.add_char b ' '; print b y) l;
           Buffer.add_char b ')'

let () =
  try
    while true do
      let line = input_line stdin in
      if String.length line > 0 then begin
        let i = ref 0 in
        let f = parse line i in
        let x = parse line i in
        let fid = match f with I z -> z | L _ -> Z0 in
        let b = Buffer.create 4096 in
        (try print b (dispatch fid x) with Stack_overflow -> Buffer.add_string b "STACK_OVERFLOW");
        print_string (Buffer.contents b); print_newline ()
      end
    done
  with End_of_file -> ()
