#!/usr/bin/env python3
"""seeded_regress.py [-j N] [ids...] : re-confirm every stored seeded change against the CURRENT /repo and the CURRENT checks.

For each /verif/seeded/<id>/: a scratch `git worktree` of /repo HEAD under /tmp, `git apply patch.diff` (must apply),
demo.py before (exit 0) / after (exit != 0), then every check recorded in meta.json run with VERIF_REPO pointing at the
changed tree (must exit 1 with a VIOLATION line). The worktree is removed afterwards. Results go to
seeded/<id>/meta.json under "regression" (repo commit, date, demo exits, per-check exit / signatures); the test-suite is not
re-run here (it was confirmed when the change was first kept, see "confirmed")."""
import json, os, re, subprocess, sys, time, concurrent.futures as cf
V = os.path.dirname(os.path.dirname(os.path.abspath(__file__)))
SE = os.path.join(V, "seeded")
def sh(cmd, **kw):
    return subprocess.run(cmd, shell=True, stdout=subprocess.PIPE, stderr=subprocess.STDOUT, text=True, **kw)
HEAD = sh("git -C /repo rev-parse --short HEAD").stdout.strip()
def one(mid):
    d = os.path.join(SE, mid)
    meta = json.load(open(os.path.join(d, "meta.json")))
    w = f"/tmp/seedreg_{mid}_{os.getpid()}"
    out = {"repo": HEAD, "when": time.strftime("%Y-%m-%dT%H:%M:%SZ", time.gmtime())}
    r = sh(f"git -C /repo worktree add -q --detach {w} HEAD")
    if r.returncode:
        out["error"] = "worktree: " + r.stdout[-200:]
        return mid, out
    try:
        env = dict(os.environ, PYTHONPATH=w)
        demo = os.path.join(d, "demo.py")
        if os.path.exists(demo):
            out["demo_clean_exit"] = sh(f"cd {w} && timeout 900 /venv/bin/python {demo}", env=env).returncode
        a = sh(f"git -C {w} apply {os.path.join(d, 'patch.diff')}")
        out["patch_applies"] = a.returncode == 0
        if a.returncode:
            return mid, out
        if os.path.exists(demo):
            out["demo_changed_exit"] = sh(f"cd {w} && timeout 900 /venv/bin/python {demo}", env=env).returncode
        checks = list(meta.get("checks", {})) or [meta["property"]]
        out["checks"] = {}
        for c in checks:
            r = sh(f"cd {V} && VERIF_REPO={w} timeout 2400 ./check {c} --tier quick --no-build")
            sigs = []
            for f in re.findall(r"^VIOLATION .*replay=(\S+)", r.stdout, flags=re.M)[:3]:
                try:
                    sigs.append(json.load(open(f)).get("signature"))
                except Exception:
                    pass
            out["checks"][c] = {"exit": r.returncode, "violation_lines": len(re.findall(r"^VIOLATION", r.stdout, flags=re.M)),
                                "no_failing_input": "no-failing-input-found" in r.stdout, "signatures": sigs}
        out["detected"] = any(v["exit"] == 1 and v["violation_lines"] > 0 for v in out["checks"].values())
    finally:
        sh(f"git -C /repo worktree remove --force {w}")
    return mid, out
def main():
    args = sys.argv[1:]
    j = 4
    if args[:1] == ["-j"]:
        j = int(args[1]); args = args[2:]
    ids = args or sorted((x for x in os.listdir(SE) if os.path.exists(os.path.join(SE, x, "meta.json"))),
                         key=lambda x: (x.split("-m")[1], x))     # neighbours in the queue belong to different properties
    with cf.ThreadPoolExecutor(j) as ex:
        for mid, out in ex.map(one, ids):
            p = os.path.join(SE, mid, "meta.json")
            meta = json.load(open(p))
            key = "regression" if os.environ.get("VERIF_SEED", "0") in ("", "0") else "regression_seed" + os.environ["VERIF_SEED"]
            out["seed"] = int(os.environ.get("VERIF_SEED", "0") or 0)
            meta[key] = out
            json.dump(meta, open(p, "w"), indent=1)
            print(mid, "OK" if out.get("detected") and out.get("demo_changed_exit", 1) != 0 and out.get("demo_clean_exit", 0) == 0 else "PROBLEM", json.dumps(out)[:300], flush=True)
main()
