#!/usr/bin/env python3
"""Resolve the routine conflicts of merging a property branch (run after `git merge <branch>` reported conflicts)."""
import json, re, subprocess, sys, os
branch = sys.argv[1]
V = os.path.dirname(os.path.dirname(os.path.abspath(__file__)))
os.chdir(V)
def sh(*a): return subprocess.run(a, stdout=subprocess.PIPE, check=False).stdout.decode()
def both(path):
    s = open(path).read()
    if "<<<<<<<" not in s: return
    out = re.sub(r"<<<<<<< [^\n]*\n(.*?)=======\n(.*?)>>>>>>> [^\n]*\n", lambda m: m.group(1) + m.group(2), s, flags=re.S)
    open(path, "w").write(out)
for p in ["coq/Model/Exec.v", "coq/_CoqProject", "tools/gen_manifest.py", ".gitignore", "harness/README.md"]:
    if os.path.exists(p): both(p)
e = open("coq/Model/Exec.v").read().replace("From PV Require Export Model.ComponentsX.\n", "")
open("coq/Model/Exec.v", "w").write(e)
# _CoqProject: drop duplicate lines keeping first occurrence
lines = open("coq/_CoqProject").read().splitlines()
seen, out = set(), []
for l in lines:
    if l in seen and l.strip(): continue
    seen.add(l); out.append(l)
open("coq/_CoqProject", "w").write("\n".join(out) + "\n")
ours = json.loads(sh("git", "show", "HEAD:known_findings.json"))
theirs = json.loads(sh("git", "show", f"{branch}:known_findings.json"))
keys = {(f["property"], f["signature"]): i for i, f in enumerate(ours["findings"])}
own = branch.upper().split("-")[0]
for f in theirs["findings"]:
    k = (f["property"], f["signature"])
    if k not in keys:
        ours["findings"].append(f)
    elif f["property"] == own:
        ours["findings"][keys[k]] = f      # the branch is authoritative for its own property
json.dump(ours, open("known_findings.json", "w"), indent=1)
subprocess.run(["git", "checkout", "--ours", "MANIFEST.json"], check=False)
for ev in sh("git", "diff", "--name-only", "--diff-filter=U").split():
    if ev.startswith("evidence/"):
        subprocess.run(["git", "checkout", "--ours", ev], check=False)   # evidence is rewritten by the next run anyway
subprocess.run([sys.executable, "tools/gen_manifest.py"], check=True)
print(sh("git", "status", "--short"))
