"""C05: five-line reproductions of the findings against /repo (PYTHONPATH=/repo /venv/bin/python tools/c05_repro.py [name]).
growth, shrink, remask, crash, mps, simulator, stepper are repaired in /repo (1c6530fa, 3d5f407f, bc7ab4f9, 5b78b3c9): history
and fresh agree now.  Still open: `vacuum` (kills the interpreter: run it alone) and `processor`."""
import sys
import perceval as pcvl
from perceval.backends import SLOSBackend, MPSBackend
from perceval.components import BS, PS, Circuit, Processor
from perceval.simulators import Simulator
from perceval.simulators.stepper import Stepper
from perceval.utils import BasicState, SVDistribution

C2 = Circuit(2) // BS.Ry(theta=2.2)
which = sys.argv[1] if len(sys.argv) > 1 else "all"


def fresh(mask, s):
    b = SLOSBackend(); b.set_circuit(C2)
    if mask: b.set_mask(mask)
    b.set_input_state(BasicState(s)); return b


if which in ("all", "growth"):
    b = SLOSBackend(); b.set_circuit(C2); b.set_mask("*1")
    b.set_input_state(BasicState([1, 0])); b.set_input_state(BasicState([1, 1]))
    print("growth  history:", b.prob_distribution(), " fresh:", fresh("*1", [1, 1]).prob_distribution())
if which in ("all", "shrink"):
    b = SLOSBackend(); b.set_circuit(C2); b.set_mask("*1")
    b.set_input_state(BasicState([1, 1])); b.set_input_state(BasicState([1, 0]))
    print("shrink  amp(|0,1>) history:", b.prob_amplitude(BasicState([0, 1])), " fresh:", fresh("*1", [1, 0]).prob_amplitude(BasicState([0, 1])))
    try: b.prob_distribution()
    except ValueError as e: print("shrink  prob_distribution history:", repr(e), " fresh:", fresh("*1", [1, 0]).prob_distribution())
if which in ("all", "remask"):
    b = SLOSBackend(); b.set_circuit(C2); b.set_input_state(BasicState([1, 1])); b.set_mask("*1")
    try: b.prob_distribution()
    except KeyError as e: print("remask  history: KeyError", e, " fresh:", fresh("*1", [1, 1]).prob_distribution())
if which == "crash":
    b = SLOSBackend(); b.set_circuit(C2); b.set_mask("2*")
    b.set_input_state(BasicState([1, 0])); print("fresh:", fresh("2*", [1, 1]).prob_distribution(), flush=True)
    b.set_input_state(BasicState([1, 1]))       # segmentation fault
if which == "vacuum":
    f = SLOSBackend(); f.set_circuit(C2); f.set_mask("2*", 1); f.set_input_state(BasicState([1, 0]))
    print("fresh:", f.prob_distribution(), flush=True)
    b = SLOSBackend(); b.set_circuit(C2); b.set_mask("2*", 1); b.set_input_state(BasicState([0, 0]))
    b.set_input_state(BasicState([1, 0]))       # segmentation fault
if which in ("all", "mps"):
    c4 = Circuit(4)
    for k in range(3):
        c4.add(0, BS.Ry(theta=1.1 + k)).add(2, BS.Ry(theta=0.7 + k)).add(1, BS.Ry(theta=1.9 - k / 2))
    b = MPSBackend(); b.set_circuit(c4); b.set_input_state(BasicState([1, 1, 1, 0])); b.set_input_state(BasicState([0, 1, 1, 0]))
    f = MPSBackend(); f.set_circuit(c4); f.set_input_state(BasicState([0, 1, 1, 0]))
    d, e = b.prob_distribution(), f.prob_distribution()
    print("mps     cutoff history:", b._cutoff, " fresh:", f._cutoff, " max |dp| =", max(abs(d[k] - e[k]) for k in e))
if which in ("all", "simulator"):
    c3 = Circuit(3) // BS() // (1, BS(theta=1.0)) // BS(theta=0.7)
    def sim():
        s = Simulator(SLOSBackend()); s.set_circuit(c3); s.set_heralds({2: 0}); return s
    s = sim(); s.probs_svd(SVDistribution(BasicState([1, 0, 0])))
    print("simulator history:", dict(s.probs(BasicState([1, 1, 0]))), s.logical_perf, " fresh:", dict(sim().probs(BasicState([1, 1, 0]))))
if which in ("all", "stepper"):
    p = pcvl.P("a"); c = Circuit(2) // BS(theta=p); p.set_value(1.0)
    st = Stepper(); st.set_circuit(c); st.probs(BasicState([1, 0])); p.set_value(1.0000004)
    f = Stepper(); f.set_circuit(c)
    print("stepper history:", dict(st.probs(BasicState([1, 0]))), " fresh:", dict(f.probs(BasicState([1, 0]))))
if which in ("all", "processor"):
    p = Processor("SLOS", 2); p.add(0, BS()); p.with_input(BasicState([1, 1])); p.probs(); p.with_input(BasicState([1, 0]))
    f = Processor("SLOS", 2); f.add(0, BS()); f.with_input(BasicState([1, 0]))
    print("processor history:", p.probs(), " fresh:", f.probs())
