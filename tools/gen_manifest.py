#!/usr/bin/env python3
"""Regenerates MANIFEST.json from the table below (kept here so the manifest stays valid and uniform)."""
import json, os
V = os.path.dirname(os.path.dirname(os.path.abspath(__file__)))
ALL = [f"C{i:02d}" for i in range(1, 21)]
BASE_NOTE = ("Trusted: Coq 8.16.1 kernel (vm_compute, no native_compute); extraction with ExtrOcamlBasic only and the "
             "OCaml driver ocaml/modelrun.ml; the Python harness (generators, implementation drivers, tolerance 1e-9); "
             "native exqalibur kernels, numpy/scipy/sympy are modelled, not verified (tied by the correspondence stream "
             "of this check). Floating-point rounding is not modelled. ")
CLAIMED = {
 "C14": dict(cat="proof", ref="DESIGN.md §7 C14",
   text="Kernel-checked theorems: BS (3 conventions), PS, WP, PR unitary over any commutative ring with conjugation and, instantiated at C=R×R, for every real angle; PERM unitary with u[p k,k]=1 for every size; the range wrap lands in range and moves by whole ranges, and whole ranges leave every matrix unchanged. The hand-written model is tied to /repo on every run by a correspondence stream (numeric and symbolic matrices, far out-of-range values, permutations, _check_value, bound parameters/expressions) evaluated by the extracted model.",
   note="Axioms: the three Coq.Reals axioms (sig_forall_dec, sig_not_dec, functional_extensionality_dep) for the real-angle and periodicity theorems; all other theorems closed.",
   tech="Coq proof (generic ring + Reals instance) + extracted-model differential correspondence"),
 "C01": dict(cat="proof", ref="DESIGN.md §7 C01",
   text="Kernel-checked theorems over any commutative ring, any nesting depth, offsets and mode count: the circuit matrix equals the ordered product of the leaves' matrices embedded at their absolute ranges (cmat_flatten), is unitary when the leaves are, merge = nest, barriers are neutral, add rejects exactly misfitting ranges. The model's construction semantics (add/merge/nest, //, @, barrier, copy) is tied to /repo by running random straight-line programs over named circuit variables on both sides and comparing every variable's matrix and component listing after every statement.",
   note="All theorems closed under the global context.",
   tech="Coq proof by induction over the circuit tree + extracted-model differential correspondence"),
 "C02": dict(cat="proof", ref="DESIGN.md §7 C02",
   text="Kernel-checked theorems over any commutative ring and all sizes: the amplitude specification (multiset expansion permS) equals the textbook Laplace permanent of the explicit submatrix U[t|s] (permR_permS); the model of Naive (_compute_submatrix + permanent, with its n=0 / n-differs special cases) equals it; the SLOS coefficient recursion times prod t! equals it (bunched inputs/outputs included); amplitudes vanish when photon numbers differ; pruning the SLOS state space by any FSMask-style mask (closed under removing a photon) leaves the values of kept states unchanged. Every engine of /repo (Naive, SLOS, SLAP, MPS at full bond dimension, Stepper) is compared on every run with the extracted specification on all output states of sampled (circuit, input) pairs, bulk order, exact mass 1, masks, white-box submatrix and SLOS coefficients.",
   note="All theorems closed under the global context. SLAP, MPS and the native SLOS layer / permanent_cx have no algorithmic model: they are compared with the proved specification only. Full-distribution normalisation for all n is checked exactly per instance (mass = 1 as rationals), not proved.",
   tech="Coq proof (Laplace permanent = multiset expansion = SLOS recursion; mask soundness) + extracted-spec differential correspondence on all engines"),
 "C06": dict(cat="proof", ref="DESIGN.md §7 C06",
   text="Kernel-checked theorems over all admissible rational parameters (the two square roots the code takes enter as parameters with r^2 = 1-2*px*g2 and s^2 = indistinguishability as hypotheses), all tag-counter values and all expected inputs: p1+p2 = brightness; 2*p2/(p1+2*p2)^2 = g2; every weight of the one-photon distribution is >= 0 and they sum to 1; its photon-number marginal is the binomial thinning of (1-px, p1, p2) by the transmittance; the distribution of n photons in a mode and of a whole input state has mass 1 (induction on photons and modes) and the code's normalize() is the identity; a perfect source returns the requested state; NoiseModel->Source field mapping; the per-photon law of the event sampler and of the distribution builder agree on every class of annotation lists up to tag renaming; two signal photons share a tag with probability = indistinguishability; the event table's entries are the multinomial probabilities, which satisfy the independent-draws recurrence, are complete on events of non-zero probability, sum to 1, and the filter divides the restriction by the kept mass, reported as physical performance. The model is tied to /repo on every run: _get_probs, _generate_one_photon_distribution, probability_distribution, generate_distribution, Processor.source_distribution via NoiseModel, _compute_prob_table, and generate_samples (with/without filter) by a goodness-of-fit test against the model's exact probabilities.",
   note="All theorems closed under the global context. The g2 identity is stated over Qc with the root as a hypothesis (no Reals version). The equality 'photon-count marginal of generate_distribution = event table' is checked exactly per instance by the driver (model kept mass = model table phys_perf as rationals), not proved for all n. exqalibur merge/tensor/sample kernels have no model: compared with the model only. The sampler is tied statistically (chi-square, level 1e-9 per configuration).",
   tech="Coq proof over Qc (nra on Q for the bounds, induction for the tensor and the multinomial table) + extracted-model differential correspondence + exact-expectation goodness-of-fit for the sampler"),
}
REASON_PENDING = "not yet built in this development (see DESIGN.md §10 for the build order); no check is claimed"

def main():
    checks = []
    for pid in ALL:
        if pid not in CLAIMED:
            continue
        c = CLAIMED[pid]
        checks.append({
            "property_id": pid,
            "quick_cmd": f"./check {pid} --tier quick",
            "thorough_cmd": f"./check {pid} --tier thorough",
            "evidence_file": f"/verif/evidence/{pid}.json",
            "replay_cmd_template": f"./check {pid} --replay {{path}}",
            "engine": "coq-proof+correspondence",
            "level_claimed": {"category": c["cat"], "text": c["text"], "design_ref": c["ref"]},
            "level_note": BASE_NOTE + c["note"],
            "technique": c["tech"],
        })
    man = {
        "version": 1,
        "setup_cmd": "./setup.sh",
        "hooks": {"guard": "QUANDELA_PERCEVAL_VERIF",
                  "enable": "no hooks are needed: the drivers import perceval from /repo in place (PYTHONPATH=/repo); the guard name is reserved and nothing in /repo reads it",
                  "baseline_off_cmd": "cd /repo && /venv/bin/python -m pytest -ra -q -p no:cacheprovider --timeout=900 --continue-on-collection-errors",
                  "source_commits": [], "add_only": True},
        "engines": [{"name": "coq-proof+correspondence", "path": "/verif/coq + /verif/ocaml + /verif/harness",
                     "serves_properties": sorted(CLAIMED),
                     "kind_free_text": "Coq 8.16 development (generic ring models, theorems in coq/Props), model extracted to OCaml and compared with /repo on generated inputs on every run"}],
        "checks": checks,
        "notes": "Genuine defects repaired in /repo are 'fix:' commits listed in known_findings.json as fixed entries; open findings print KNOWN-FINDING lines.",
        "not_applicable": [{"property_id": p, "reason": REASON_PENDING} for p in ALL if p not in CLAIMED],
    }
    json.dump(man, open(os.path.join(V, "MANIFEST.json"), "w"), indent=1)
    print("claimed:", sorted(CLAIMED))
main()
