#!/usr/bin/env python3
"""Regenerates MANIFEST.json from the table below (kept here so the manifest stays valid and uniform)."""
import json, os
V = os.path.dirname(os.path.dirname(os.path.abspath(__file__)))
ALL = [f"C{i:02d}" for i in range(1, 21)]
BASE_NOTE = ("Trusted: Coq 8.16.1 kernel (vm_compute, no native_compute); extraction with ExtrOcamlBasic only and the "
             "OCaml driver ocaml/modelrun.ml; the Python harness (generators, implementation drivers, tolerance 1e-9); "
             "native exqalibur kernels, numpy/scipy/sympy are modelled, not verified (tied by the correspondence stream "
             "of this check). Floating-point rounding is not modelled. ")
CLAIMED = {
 "C14": dict(cat="proof", ref="DESIGN.md §7 C14",
   text="Kernel-checked theorems: BS (3 conventions), PS, WP, PR unitary over any commutative ring with conjugation and, instantiated at C=R×R, for every real angle; PERM unitary with u[p k,k]=1 for every size; the range wrap lands in range and moves by whole ranges, and whole ranges leave every matrix unchanged. The hand-written model is tied to /repo on every run by a correspondence stream (numeric and symbolic matrices, far out-of-range values, permutations, _check_value, bound parameters/expressions) evaluated by the extracted model.",
   note="Axioms: the three Coq.Reals axioms (sig_forall_dec, sig_not_dec, functional_extensionality_dep) for the real-angle and periodicity theorems; all other theorems closed.",
   tech="Coq proof (generic ring + Reals instance) + extracted-model differential correspondence"),
 "C01": dict(cat="proof", ref="DESIGN.md §7 C01",
   text="Kernel-checked theorems over any commutative ring, any nesting depth, offsets and mode count: the circuit matrix equals the ordered product of the leaves' matrices embedded at their absolute ranges (cmat_flatten), is unitary when the leaves are, merge = nest, barriers are neutral, add rejects exactly misfitting ranges. The model's construction semantics (add/merge/nest, //, @, barrier, copy) is tied to /repo by running random straight-line programs over named circuit variables on both sides and comparing every variable's matrix and component listing after every statement.",
   note="All theorems closed under the global context.",
   tech="Coq proof by induction over the circuit tree + extracted-model differential correspondence"),
 "C16": dict(cat="proof", ref="DESIGN.md §7 C16",
   text="Kernel-checked theorems about an executable model of the request assembly (prepare_job_payload, check_circuit/check_input, Sampler._create_job and primitive selection, Job._handle_params, RemoteJob._create_payload_data and the max_samples clamp, from_local_processor, user sessions): for every platform and processor configuration an accepted payload deserialises to the configuration (circuit, full input incl. herald photons, heralds, post-selection, noise, filter, command) and satisfies the platform constraints, and nothing else is refused; for every history of processor operations, iterations, job creations and executions nothing reaches the network except one request per accepted execution, and every request describes the processor its job was built from with max_samples <= max_shots; keyword arguments land in the command or the mapping or the call is rejected; the local->remote relabelling is a permutation keeping the modes of interest in order. 'Conversion preserves the processor' is REFUTED for processors with heralds and an input (witness replayed on /repo, open finding) and proved on the complement. The model is tied to /repo on every run: the real RemoteProcessor/Sampler/RemoteJob/RPCHandler run under `responses`, captured request bodies are deserialised with perceval.deserialize and compared field by field with the model's payload and describe.",
   note="All 22 theorems closed under the global context. Circuits, noise models and post-selection expressions are abstract values in the model (their codec is C15); matrices are compared numerically by the driver after the model's mode relabelling.",
   tech="Coq proof (invariants over session histories, refutation witness by vm_compute) + extracted-model differential correspondence under a mocked HTTP layer"),
}
REASON_PENDING = "not yet built in this development (see DESIGN.md §10 for the build order); no check is claimed"

def main():
    checks = []
    for pid in ALL:
        if pid not in CLAIMED:
            continue
        c = CLAIMED[pid]
        checks.append({
            "property_id": pid,
            "quick_cmd": f"./check {pid} --tier quick",
            "thorough_cmd": f"./check {pid} --tier thorough",
            "evidence_file": f"/verif/evidence/{pid}.json",
            "replay_cmd_template": f"./check {pid} --replay {{path}}",
            "engine": "coq-proof+correspondence",
            "level_claimed": {"category": c["cat"], "text": c["text"], "design_ref": c["ref"]},
            "level_note": BASE_NOTE + c["note"],
            "technique": c["tech"],
        })
    man = {
        "version": 1,
        "setup_cmd": "./setup.sh",
        "hooks": {"guard": "QUANDELA_PERCEVAL_VERIF",
                  "enable": "no hooks are needed: the drivers import perceval from /repo in place (PYTHONPATH=/repo); the guard name is reserved and nothing in /repo reads it",
                  "baseline_off_cmd": "cd /repo && /venv/bin/python -m pytest -ra -q -p no:cacheprovider --timeout=900 --continue-on-collection-errors",
                  "source_commits": [], "add_only": True},
        "engines": [{"name": "coq-proof+correspondence", "path": "/verif/coq + /verif/ocaml + /verif/harness",
                     "serves_properties": sorted(CLAIMED),
                     "kind_free_text": "Coq 8.16 development (generic ring models, theorems in coq/Props), model extracted to OCaml and compared with /repo on generated inputs on every run"}],
        "checks": checks,
        "notes": "Genuine defects repaired in /repo are 'fix:' commits listed in known_findings.json as fixed entries; open findings print KNOWN-FINDING lines.",
        "not_applicable": [{"property_id": p, "reason": REASON_PENDING} for p in ALL if p not in CLAIMED],
    }
    json.dump(man, open(os.path.join(V, "MANIFEST.json"), "w"), indent=1)
    print("claimed:", sorted(CLAIMED))
main()
