#!/usr/bin/env python3
"""Regenerates MANIFEST.json from the table below (kept here so the manifest stays valid and uniform)."""
import json, os
V = os.path.dirname(os.path.dirname(os.path.abspath(__file__)))
ALL = [f"C{i:02d}" for i in range(1, 21)]
BASE_NOTE = ("Trusted: Coq 8.16.1 kernel (vm_compute, no native_compute); extraction with ExtrOcamlBasic only and the "
             "OCaml driver ocaml/modelrun.ml; the Python harness (generators, implementation drivers, tolerance 1e-9); "
             "native exqalibur kernels, numpy/scipy/sympy are modelled, not verified (tied by the correspondence stream "
             "of this check). Floating-point rounding is not modelled. ")
CLAIMED = {
 "C14": dict(cat="proof", ref="DESIGN.md §7 C14",
   text="Kernel-checked theorems: BS (3 conventions), PS, WP, PR unitary over any commutative ring with conjugation and, instantiated at C=R×R, for every real angle; PERM unitary with u[p k,k]=1 for every size; the range wrap lands in range and moves by whole ranges, and whole ranges leave every matrix unchanged. The hand-written model is tied to /repo on every run by a correspondence stream (numeric and symbolic matrices, far out-of-range values, permutations, _check_value, bound parameters/expressions) evaluated by the extracted model.",
   note="Axioms: the three Coq.Reals axioms (sig_forall_dec, sig_not_dec, functional_extensionality_dep) for the real-angle and periodicity theorems; all other theorems closed.",
   tech="Coq proof (generic ring + Reals instance) + extracted-model differential correspondence"),
 "C01": dict(cat="proof", ref="DESIGN.md §7 C01",
   text="Kernel-checked theorems over any commutative ring, any nesting depth, offsets and mode count: the circuit matrix equals the ordered product of the leaves' matrices embedded at their absolute ranges (cmat_flatten), is unitary when the leaves are, merge = nest, barriers are neutral, add rejects exactly misfitting ranges. The model's construction semantics (add/merge/nest, //, @, barrier, copy) is tied to /repo by running random straight-line programs over named circuit variables on both sides and comparing every variable's matrix and component listing after every statement.",
   note="All theorems closed under the global context.",
   tech="Coq proof by induction over the circuit tree + extracted-model differential correspondence"),
 "C02": dict(cat="proof", ref="DESIGN.md §7 C02",
   text="Kernel-checked theorems over any commutative ring and all sizes: the amplitude specification (multiset expansion permS) equals the textbook Laplace permanent of the explicit submatrix U[t|s] (permR_permS); the model of Naive (_compute_submatrix + permanent, with its n=0 / n-differs special cases) equals it; the SLOS coefficient recursion times prod t! equals it (bunched inputs/outputs included); amplitudes vanish when photon numbers differ; pruning the SLOS state space by any FSMask-style mask (closed under removing a photon) leaves the values of kept states unchanged. Every engine of /repo (Naive, SLOS, SLAP, MPS at full bond dimension, Stepper) is compared on every run with the extracted specification on all output states of sampled (circuit, input) pairs, bulk order, exact mass 1, masks, white-box submatrix and SLOS coefficients.",
   note="All theorems closed under the global context. SLAP, MPS and the native SLOS layer / permanent_cx have no algorithmic model: they are compared with the proved specification only. Full-distribution normalisation for all n is checked exactly per instance (mass = 1 as rationals), not proved.",
   tech="Coq proof (Laplace permanent = multiset expansion = SLOS recursion; mask soundness) + extracted-spec differential correspondence on all engines"),
 "C11": dict(cat="proof", ref="DESIGN.md §7 C11",
   text="Kernel-checked theorems over any commutative ring with conjugation and all sizes: Circuit.inverse(v,h) on any circuit tree (any depth/offsets) yields the adjoint for h (the inverse of a unitary) and J U J for v as soon as the leaf inversions do (tinv_sound); PS/Unitary/PERM inversions are right; the code's BS.inverse is right exactly under stated phase symmetries (partial) and refuted by three vm_compute witnesses (h, v, Ry with v and h), the repaired BS.inverse is right for all parameter values and conventions; the adjacent swaps emitted by break_in_2_mode_perms multiply to the permutation matrix for every permutation of every size and decompose_perms preserves every flat circuit's matrix; experiment._flatten as it is preserves the matrix when no enclosing offset is dropped (depth <= 1 in particular), is refuted at depth 2, and the repaired recursion preserves it for all depths and max_depth; regrouping a unitary run into one block preserves it; the simplifier's rewrite rules (two consecutive PERMs = perm_compose, reduce_perm trimming, moving a component through a permutation under the contiguity side-condition, the unravelling step, phase-shifter fusion / zero drop / passage through permutations and past disjoint components) hold for all sizes; the checkers circ_eq / mat_close that validate the heuristic search per instance are sound. Every run compares /repo (Circuit.inverse, copy, decompose_perms, break_in_2_mode_perms, Processor.flatten / linear_circuit / non_unitary_circuit, simplify in both display modes, extend_perm, perm_compose, reduce_perm, invert_permutation, _update_adjacent) with the extracted models on generated circuits.",
   note="All theorems closed under the global context. The simplifier's heuristic search (_generate_compatible_perm, _update_perm, _search_empty_space) is an oracle validated per instance (translation validation), not proved; Six open findings (three in BS.inverse, _flatten, two in _update_adjacent).",
   tech="Coq proof (induction over circuit trees, permutation conjugation, bubble-sort invariant) + extracted-model differential correspondence + translation validation of simplify"),
}
REASON_PENDING = "not yet built in this development (see DESIGN.md §10 for the build order); no check is claimed"

def main():
    checks = []
    for pid in ALL:
        if pid not in CLAIMED:
            continue
        c = CLAIMED[pid]
        checks.append({
            "property_id": pid,
            "quick_cmd": f"./check {pid} --tier quick",
            "thorough_cmd": f"./check {pid} --tier thorough",
            "evidence_file": f"/verif/evidence/{pid}.json",
            "replay_cmd_template": f"./check {pid} --replay {{path}}",
            "engine": "coq-proof+correspondence",
            "level_claimed": {"category": c["cat"], "text": c["text"], "design_ref": c["ref"]},
            "level_note": BASE_NOTE + c["note"],
            "technique": c["tech"],
        })
    man = {
        "version": 1,
        "setup_cmd": "./setup.sh",
        "hooks": {"guard": "QUANDELA_PERCEVAL_VERIF",
                  "enable": "no hooks are needed: the drivers import perceval from /repo in place (PYTHONPATH=/repo); the guard name is reserved and nothing in /repo reads it",
                  "baseline_off_cmd": "cd /repo && /venv/bin/python -m pytest -ra -q -p no:cacheprovider --timeout=900 --continue-on-collection-errors",
                  "source_commits": [], "add_only": True},
        "engines": [{"name": "coq-proof+correspondence", "path": "/verif/coq + /verif/ocaml + /verif/harness",
                     "serves_properties": sorted(CLAIMED),
                     "kind_free_text": "Coq 8.16 development (generic ring models, theorems in coq/Props), model extracted to OCaml and compared with /repo on generated inputs on every run"}],
        "checks": checks,
        "notes": "Genuine defects repaired in /repo are 'fix:' commits listed in known_findings.json as fixed entries; open findings print KNOWN-FINDING lines.",
        "not_applicable": [{"property_id": p, "reason": REASON_PENDING} for p in ALL if p not in CLAIMED],
    }
    json.dump(man, open(os.path.join(V, "MANIFEST.json"), "w"), indent=1)
    print("claimed:", sorted(CLAIMED))
main()
