#!/usr/bin/env python3
"""Regenerates MANIFEST.json from the table below (kept here so the manifest stays valid and uniform)."""
import json, os
V = os.path.dirname(os.path.dirname(os.path.abspath(__file__)))
ALL = [f"C{i:02d}" for i in range(1, 21)]
BASE_NOTE = ("Trusted: Coq 8.16.1 kernel (vm_compute, no native_compute); extraction with ExtrOcamlBasic only and the "
             "OCaml driver ocaml/modelrun.ml; the Python harness (generators, implementation drivers, tolerance 1e-9); "
             "native exqalibur kernels, numpy/scipy/sympy are modelled, not verified (tied by the correspondence stream "
             "of this check). Floating-point rounding is not modelled. ")
CLAIMED = {
 "C14": dict(cat="proof", ref="DESIGN.md §7 C14",
   text="Kernel-checked theorems: BS (3 conventions), PS, WP, PR unitary over any commutative ring with conjugation and, instantiated at C=R×R, for every real angle; PERM unitary with u[p k,k]=1 for every size; the range wrap lands in range and moves by whole ranges, and whole ranges leave every matrix unchanged. The hand-written model is tied to /repo on every run by a correspondence stream (numeric and symbolic matrices, far out-of-range values, permutations, _check_value, bound parameters/expressions) evaluated by the extracted model.",
   note="Axioms: the three Coq.Reals axioms (sig_forall_dec, sig_not_dec, functional_extensionality_dep) for the real-angle and periodicity theorems; all other theorems closed.",
   tech="Coq proof (generic ring + Reals instance) + extracted-model differential correspondence"),
 "C13": dict(cat="proof", ref="DESIGN.md §7 C13",
   text="Kernel-checked theorems over any commutative ring with conjugation and all sizes: doubling a spatial matrix is a monoid morphism (products, identity, adjoint) and preserves unitarity; the 2m x 2m matrix of a circuit mixing spatial and polarising leaves (any nesting, offsets) is the ordered product of its leaves, spatial ones doubled at sub-modes [2 off, 2 off + 2k), and is unitary when the leaves are (WP/HWP/QWP, PR, PBS proved unitary) provided no sub-circuit is empty; the preparation matrix built from normalised Jones vectors (first vector and its complement, or two orthogonal vectors; orthonormal columns => orthonormal rows via the adjugate) is unitary; for EVERY output over the sub-modes the simulator's route (engine specification on U_pol.Prep and the spatial input) equals the specification (permanent with one column U_pol.(eh|2k>+ev|2k+1>) per photon, photon order irrelevant), with prod s'! = squared norm of the polarised input; merging sums the two sub-modes; the label table pushed through project_eh_ev gives H V D A L R = the standard Jones vectors, in any ring with i^2=-1, 2r^2=1 and at the complex numbers over the reals with r = 1/sqrt 2. The code as it is refutes two clauses (vm_compute witnesses, replayed on /repo): a circuit containing an empty sub-circuit has a non-unitary / wrongly sized polarised matrix, and the vacuum yields no preparation matrix; with the two one-line repairs both clauses are proved for every circuit and input (C13_polar_unitary_repaired, C13_impl_eq_spec_repaired; second model configuration 1310-1313, switch REPAIRED in harness/props/c13.py). The model is tied to /repo on every run over the exact field Q(i)(sqrt 2): compute_unitary(use_polarization=True), convert_polarized_state, SimulatorFactory(SLOS, Naive).probs / evolve and Processor.with_polarized_input on generated circuits and inputs (elliptical rational Jones vectors, labelled and elliptical orthogonal pairs, malformed inputs), all outputs, exact mass 1.",
   note="Theorems closed under the global context except the two real-angle label theorems (three Coq.Reals axioms). Three open findings re-found on every run (known_findings.json): empty sub-circuit in polarised mode, two polarisations in one mode rejected by the unitarity assertion (float32 annotations; found by the correspondence stream, not expressible in the exact model), vacuum input. Distributions compared at 1e-6 because annotations are single precision.",
   tech="Coq proof (morphism + circuit induction + column identity of the matrix product + permutation invariance of the permanent) + extracted-model differential correspondence over Q(i)(sqrt 2)"),
 "C01": dict(cat="proof", ref="DESIGN.md §7 C01",
   text="Kernel-checked theorems over any commutative ring, any nesting depth, offsets and mode count: the circuit matrix equals the ordered product of the leaves' matrices embedded at their absolute ranges (cmat_flatten), is unitary when the leaves are, merge = nest, barriers are neutral, add rejects exactly misfitting ranges. The model's construction semantics (add/merge/nest, //, @, barrier, copy) is tied to /repo by running random straight-line programs over named circuit variables on both sides and comparing every variable's matrix and component listing after every statement.",
   note="All theorems closed under the global context.",
   tech="Coq proof by induction over the circuit tree + extracted-model differential correspondence"),
 "C02": dict(cat="proof", ref="DESIGN.md §7 C02",
   text="Kernel-checked theorems over any commutative ring and all sizes: the amplitude specification (multiset expansion permS) equals the textbook Laplace permanent of the explicit submatrix U[t|s] (permR_permS); the model of Naive (_compute_submatrix + permanent, with its n=0 / n-differs special cases) equals it; the SLOS coefficient recursion times prod t! equals it (bunched inputs/outputs included); amplitudes vanish when photon numbers differ; pruning the SLOS state space by any FSMask-style mask (closed under removing a photon) leaves the values of kept states unchanged. Every engine of /repo (Naive, SLOS, SLAP, MPS at full bond dimension, Stepper) is compared on every run with the extracted specification on all output states of sampled (circuit, input) pairs, bulk order, exact mass 1, masks, white-box submatrix and SLOS coefficients.",
   note="All theorems closed under the global context. SLAP, MPS and the native SLOS layer / permanent_cx have no algorithmic model: they are compared with the proved specification only. Full-distribution normalisation for all n is checked exactly per instance (mass = 1 as rationals), not proved.",
   tech="Coq proof (Laplace permanent = multiset expansion = SLOS recursion; mask soundness) + extracted-spec differential correspondence on all engines"),
 "C17": dict(cat="proof", ref="DESIGN.md §7 C17, Appendix A.5",
   text="Kernel-checked theorems about a Gallina state machine of RemoteJob (execute_async/execute_sync, status with its consecutive-error counter, cancel, rerun, get_results) whose events are client actions paired with the server's answer to every request they trigger, for ALL finite traces and all states: the repaired code (two one-token patches) refines the specification automaton of the statement; the code as it is refines it on every trace that avoids the two defects, and is refuted otherwise (vm_compute witnesses of length 2 and 7: second creation request on a sent WAITING job; sixth consecutive failure absorbed); final statuses are absorbing and nothing is polled after them; the counter equals the number of failed status requests since the last success over any history; failures 1-4 absorbed when transient, the fifth raises, other HTTP errors raise at once, a success resets; results/cancel/rerun requests are only issued under their guards; a failed job reports the message read with its status. The hand-written model is tied to /repo on every run: the real RemoteJob and RPCHandler run under the `responses` library against a scripted server on every trace of length <= 4 (quick) / 5 (thorough) over a 14-symbol alphabet, every failure run of length <= 8, and random long multi-job traces over the full alphabet; outcome, HTTP requests received and white-box state are compared per step with the extracted model of the code and with the specification.",
   note="All theorems closed under the global context. Two open findings (known_findings.json: double-send, sixth-failure-absorbed) are re-found on every run.",
   tech="Coq proof (refinement + invariants by induction over traces) + extracted-model differential correspondence under a scripted HTTP server"),
 "C04": dict(cat="proof", ref="DESIGN.md §7 C04",
   text="Kernel-checked theorems over exact rational distributions: the conditioned result is normalised; physical x logical performance = retained mass; physical performance is exactly the probability of passing the filter; only outcomes passing filter, heralds and post-selection are kept; heralded modes are removed; once heralds are satisfied the filter counts non-herald photons; and the key invariance: restricting every tag-group's engine to the herald mask instantiated with the implementation's photon budget best_n(n_ext, n_own) changes the probability of NO heralded outcome of the merged distribution (any number of groups, any distributions; mask_budget_sound + restriction_invisible by induction over the groups). Every run compares Processor.probs(precision=0) and Simulator.probs_svd (heralds anywhere, post-selection trees, filters 0..n+1, noisy sources, threshold detectors, heralds kept or discarded, SLOS and Naive) with the extracted `condition` applied to the brute-force unmasked specification distribution.",
   note="All theorems closed under the global context. PostSelect and FSMask are native and modelled; the noisy input mixture is read from the implementation (its statistics are C06). Default-precision trimming (1e-6) is not modelled: the stream runs at precision 0.",
   tech="Coq proof (conditioning algebra; herald-mask invisibility by induction over tag groups) + extracted-spec differential correspondence"),
 "C17": dict(cat="proof", ref="DESIGN.md §7 C17, Appendix A.5",
   text="Kernel-checked refinement: the Gallina model of RemoteJob (execute, poll with the retry counter, cancel, rerun, get_results, execute_sync) produces, on EVERY finite trace of client actions x server answers from every state, the outputs of the specification automaton of the statement (C17_refinement_repaired), with corollaries: sent at most once, final statuses absorbing with no request afterwards, four transient failures absorbed and every later consecutive one raised, success resets, fatal errors raise at once, results/cancel/rerun guards. The pre-repair code is kept as a second configuration with vm_compute-refuted witnesses (double send; sixth failure absorbed) — both repaired in /repo by fix commits. The model is tied to /repo by running the real RemoteJob + RPCHandler under `responses` on all traces of length <= 4 over a 14-symbol alphabet (prefix tree), all failure runs of length <= 8 and random long multi-job traces, comparing outcome, exception class, identifiers, HTTP requests received and white-box state at every step.",
   note="All theorems closed under the global context. Read time-outs, malformed 200 bodies and from_id are outside the modelled alphabet.",
   tech="Coq refinement proof (implementation state machine = specification automaton on all traces) + exhaustive short-trace and random long-trace correspondence"),
}
REASON_PENDING = "not yet built in this development (see DESIGN.md §10 for the build order); no check is claimed"

def main():
    checks = []
    for pid in ALL:
        if pid not in CLAIMED:
            continue
        c = CLAIMED[pid]
        checks.append({
            "property_id": pid,
            "quick_cmd": f"./check {pid} --tier quick",
            "thorough_cmd": f"./check {pid} --tier thorough",
            "evidence_file": f"/verif/evidence/{pid}.json",
            "replay_cmd_template": f"./check {pid} --replay {{path}}",
            "engine": "coq-proof+correspondence",
            "level_claimed": {"category": c["cat"], "text": c["text"], "design_ref": c["ref"]},
            "level_note": BASE_NOTE + c["note"],
            "technique": c["tech"],
        })
    man = {
        "version": 1,
        "setup_cmd": "./setup.sh",
        "hooks": {"guard": "QUANDELA_PERCEVAL_VERIF",
                  "enable": "no hooks are needed: the drivers import perceval from /repo in place (PYTHONPATH=/repo); the guard name is reserved and nothing in /repo reads it",
                  "baseline_off_cmd": "cd /repo && /venv/bin/python -m pytest -ra -q -p no:cacheprovider --timeout=900 --continue-on-collection-errors",
                  "source_commits": [], "add_only": True},
        "engines": [{"name": "coq-proof+correspondence", "path": "/verif/coq + /verif/ocaml + /verif/harness",
                     "serves_properties": sorted(CLAIMED),
                     "kind_free_text": "Coq 8.16 development (generic ring models, theorems in coq/Props), model extracted to OCaml and compared with /repo on generated inputs on every run"}],
        "checks": checks,
        "notes": "Genuine defects repaired in /repo are 'fix:' commits listed in known_findings.json as fixed entries; open findings print KNOWN-FINDING lines.",
        "not_applicable": [{"property_id": p, "reason": REASON_PENDING} for p in ALL if p not in CLAIMED],
    }
    json.dump(man, open(os.path.join(V, "MANIFEST.json"), "w"), indent=1)
    print("claimed:", sorted(CLAIMED))
main()
