#!/usr/bin/env python3
"""Regenerates MANIFEST.json from the table below (kept here so the manifest stays valid and uniform)."""
import json, os
V = os.path.dirname(os.path.dirname(os.path.abspath(__file__)))
ALL = [f"C{i:02d}" for i in range(1, 21)]
BASE_NOTE = ("Trusted: Coq 8.16.1 kernel (vm_compute, no native_compute); extraction with ExtrOcamlBasic only and the "
             "OCaml driver ocaml/modelrun.ml; the Python harness (generators, implementation drivers, tolerance 1e-9); "
             "native exqalibur kernels, numpy/scipy/sympy are modelled, not verified (tied by the correspondence stream "
             "of this check). Floating-point rounding is not modelled. ")
CLAIMED = {
 "C14": dict(cat="proof", ref="DESIGN.md §7 C14",
   text="Kernel-checked theorems: BS (3 conventions), PS, WP, PR unitary over any commutative ring with conjugation and, instantiated at C=R×R, for every real angle; PERM unitary with u[p k,k]=1 for every size; the range wrap lands in range and moves by whole ranges, and whole ranges leave every matrix unchanged. The hand-written model is tied to /repo on every run by a correspondence stream (numeric and symbolic matrices, far out-of-range values, permutations, _check_value, bound parameters/expressions) evaluated by the extracted model.",
   note="Axioms: the three Coq.Reals axioms (sig_forall_dec, sig_not_dec, functional_extensionality_dep) for the real-angle and periodicity theorems; all other theorems closed.",
   tech="Coq proof (generic ring + Reals instance) + extracted-model differential correspondence"),
 "C01": dict(cat="proof", ref="DESIGN.md §7 C01",
   text="Kernel-checked theorems over any commutative ring, any nesting depth, offsets and mode count: the circuit matrix equals the ordered product of the leaves' matrices embedded at their absolute ranges (cmat_flatten), is unitary when the leaves are, merge = nest, barriers are neutral, add rejects exactly misfitting ranges. The model's construction semantics (add/merge/nest, //, @, barrier, copy) is tied to /repo by running random straight-line programs over named circuit variables on both sides and comparing every variable's matrix and component listing after every statement.",
   note="All theorems closed under the global context.",
   tech="Coq proof by induction over the circuit tree + extracted-model differential correspondence"),
 "C19": dict(cat="proof", ref="DESIGN.md §7 C19, A.7",
   text="Kernel-checked theorems over ALL operation histories (re-open, add [pre-executed / keyword], run_parallel/sequential, rerun_failed_parallel/sequential replace/append, progress) and ALL server scripts (accept with id, 429, 500, later statuses per request), by invariant induction on a Gallina model of JobGroup/RemoteJob/PersistentData with the code's write points: (1) every operation, returning or raising, keeps the file the exact image of memory (so re-opening yields the same ids, statuses of sent jobs, metadata, request bodies) for jobs without job_context/unfilled parameters, unless the model's ghost flag reports a status refreshed inside a launch loop that no write followed; re-open/add/run_parallel/progress never raise the flag; (2) identifiers and metadata on disk equal memory after every operation of every history (accepted ids survive a refusal), and a re-open always restores an exact state; (3) the request that would be sent is the same from memory and from the re-opened group; (4) progress() partitions the jobs into the four documented categories, list_* are disjoint; (5) add of a present identifier raises and changes nothing. The full statement is refuted by four vm_compute witnesses (job_context lost on reload; add raising after the append; rerun-loop refresh not written; sequential wait raising after a refresh), each reproduced on /repo and recorded as an open finding. Correspondence: exhaustive short + random histories x scripts on the real JobGroup/RemoteJob/RPCHandler over a temp directory under `responses`, compared with the extracted model after every operation (outcome class, memory, file, re-opened group, requests received, answers consumed, progress).",
   note="All theorems closed under the global context. The ghost flag `udirty` is instrumentation of the model (no Python counterpart); the theorems state when it can be raised.",
   tech="Coq proof by invariant induction over operation histories + extracted-model differential correspondence"),
}
REASON_PENDING = "not yet built in this development (see DESIGN.md §10 for the build order); no check is claimed"

def main():
    checks = []
    for pid in ALL:
        if pid not in CLAIMED:
            continue
        c = CLAIMED[pid]
        checks.append({
            "property_id": pid,
            "quick_cmd": f"./check {pid} --tier quick",
            "thorough_cmd": f"./check {pid} --tier thorough",
            "evidence_file": f"/verif/evidence/{pid}.json",
            "replay_cmd_template": f"./check {pid} --replay {{path}}",
            "engine": "coq-proof+correspondence",
            "level_claimed": {"category": c["cat"], "text": c["text"], "design_ref": c["ref"]},
            "level_note": BASE_NOTE + c["note"],
            "technique": c["tech"],
        })
    man = {
        "version": 1,
        "setup_cmd": "./setup.sh",
        "hooks": {"guard": "QUANDELA_PERCEVAL_VERIF",
                  "enable": "no hooks are needed: the drivers import perceval from /repo in place (PYTHONPATH=/repo); the guard name is reserved and nothing in /repo reads it",
                  "baseline_off_cmd": "cd /repo && /venv/bin/python -m pytest -ra -q -p no:cacheprovider --timeout=900 --continue-on-collection-errors",
                  "source_commits": [], "add_only": True},
        "engines": [{"name": "coq-proof+correspondence", "path": "/verif/coq + /verif/ocaml + /verif/harness",
                     "serves_properties": sorted(CLAIMED),
                     "kind_free_text": "Coq 8.16 development (generic ring models, theorems in coq/Props), model extracted to OCaml and compared with /repo on generated inputs on every run"}],
        "checks": checks,
        "notes": "Genuine defects repaired in /repo are 'fix:' commits listed in known_findings.json as fixed entries; open findings print KNOWN-FINDING lines.",
        "not_applicable": [{"property_id": p, "reason": REASON_PENDING} for p in ALL if p not in CLAIMED],
    }
    json.dump(man, open(os.path.join(V, "MANIFEST.json"), "w"), indent=1)
    print("claimed:", sorted(CLAIMED))
main()
