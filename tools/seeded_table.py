#!/usr/bin/env python3
"""Markdown table of /verif/seeded/*/meta.json (pasted into DESIGN.md §11.4)."""
import json, glob, os, re
V = os.path.dirname(os.path.dirname(os.path.abspath(__file__)))
rows = []
for f in sorted(glob.glob(os.path.join(V, "seeded", "*", "meta.json"))):
    m = json.load(open(f))
    notes = open(os.path.join(os.path.dirname(f), "notes.md")).read() if os.path.exists(os.path.join(os.path.dirname(f), "notes.md")) else ""
    title = next((l.strip("# ").strip() for l in notes.splitlines() if l.strip()), "")[:110]
    sigs = "; ".join(f"{c}: {', '.join(v['signatures'][:2])}" for c, v in m["checks"].items() if v.get("exit") == 1) or "—"
    note = m.get("note", "").lower()
    first = ("no" if ("missed" in note or "does not see it" in note) else
             "reported without a failing input" if "first evaluation" in note else "yes")
    rows.append(f"| {m['id']} | {title} | {'caught' if m['detected'] else 'MISSED'} | {first} | {sigs} |")
print("| id | seeded change (first line of its notes) | now | caught by the check as first built | failing signatures |")
print("|---|---|---|---|---|")
print("\n".join(rows))
