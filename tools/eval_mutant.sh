#!/bin/bash
# tools/eval_mutant.sh <Cxx> <dir with patch.diff and demo.py> [more checks...]
# Confirms a seeded change in a scratch worktree of /repo (demo passes without / fails with, test-suite unchanged),
# then runs the given checks against that worktree (VERIF_REPO) and reports whether each raises a VIOLATION.
set -u
PID=$1; DIR=$(realpath $2); shift 2; CHECKS="$PID $*"
W=/tmp/mut/eval_$$
git -C /repo worktree add -q --detach $W HEAD || exit 2
trap "git -C /repo worktree remove --force $W >/dev/null 2>&1" EXIT
cd $W
echo "== demo on clean tree"; PYTHONPATH=$W timeout 600 /venv/bin/python $DIR/demo.py >/tmp/mut/demo_clean_$$.log 2>&1; echo "exit=$?"
git apply $DIR/patch.diff || { echo "PATCH DOES NOT APPLY"; exit 3; }
echo "== demo with change"; PYTHONPATH=$W timeout 600 /venv/bin/python $DIR/demo.py >/tmp/mut/demo_mut_$$.log 2>&1; echo "exit=$?"; tail -3 /tmp/mut/demo_mut_$$.log
if [ "${SKIP_TESTS:-0}" != "1" ]; then
  echo "== test-suite with change"; PYTHONPATH=$W timeout 1800 /venv/bin/python -m pytest -q -p no:cacheprovider --timeout=900 --continue-on-collection-errors -n 8 2>&1 | tail -1
fi
cd /verif
for c in $CHECKS; do
  echo "== check $c against the changed tree"
  VERIF_REPO=$W timeout 1500 ./check $c --tier ${TIER:-quick} > /tmp/mut/check_${c}_$$.log 2>&1; rc=$?
  echo "exit=$rc violations=$(grep -c '^VIOLATION' /tmp/mut/check_${c}_$$.log)"; grep '^VIOLATION' /tmp/mut/check_${c}_$$.log | head -3
  for f in $(grep '^VIOLATION' /tmp/mut/check_${c}_$$.log | sed 's/.*replay=\([^ ]*\).*/\1/' | head -2); do
    python3 -c "import json;d=json.load(open('$f'));print('   ',d.get('signature'),'|',str(d.get('what'))[:160])"
  done
done
