import os, tempfile, itertools, warnings; warnings.simplefilter("ignore")
import requests
from perceval.runtime import JobGroup, RemoteJob
from perceval.runtime.rpc_handler import RPCHandler
from perceval.utils import PersistentData
import perceval.runtime.remote_job as rj, perceval.runtime.job_group as jg
d = tempfile.mkdtemp(); pd = PersistentData(directory=d); pd.create_sub_directory("job_group")
JobGroup._PERSISTENT_DATA, JobGroup._DIR_PATH = pd, os.path.join(d, "job_group")
clock = itertools.count(1000, 10); rj.time = jg.time = type("T", (), {"time": staticmethod(lambda: next(clock)), "sleep": staticmethod(lambda s: None)})
jg.tqdm = lambda *a, **k: type("B", (), {"update": lambda *a: None, "set_description_str": lambda *a: None, "close": lambda *a: None})()
ids = itertools.count(1); RPCHandler.create_job = lambda self, payload: (sent.append(payload), f"id{next(ids)}")[1]
sent = []; H = RPCHandler("sim:x", "https://x", "tok")
st = lambda s: {"status": s, "progress": 0.5, "progress_message": "", "status_message": ""}

print("(a) job_context lost on re-open")
g = JobGroup("a"); g.add(RemoteJob({"payload": {}}, H, "n", job_context={"result_mapping": ["perceval.utils", "samples_to_sample_count"]}))
JobGroup("a").run_parallel(); g.run_parallel()
print("   sent after re-open :", sent[0]["payload"]["job_context"]); print("   sent from memory   :", sent[1]["payload"]["job_context"])

print("(b) add raises after the append")
g = JobGroup("b"); j = RemoteJob({"payload": {"max_shots": 10}}, H, "n", delta_parameters={"command": {"max_samples": None}, "mapping": {}})
try: g.add(j)
except TypeError as e: print("   add raised TypeError; in memory:", len(g), " on disk:", len(JobGroup("b")))

print("(c) rerun_failed_parallel returns with an unsaved status")
answers = iter(["waiting", "running"]); RPCHandler.get_job_status = lambda self, i: st(next(answers))
g = JobGroup("c"); g.add(RemoteJob({"payload": {}}, H, "n")); g.run_parallel(); g.rerun_failed_parallel()
print("   memory:", g[0]._job_status.status.name, " re-opened:", JobGroup("c")[0]._job_status.status.name)

print("(d) run_sequential raises after a status change")
def status(self, i):
    if next(polls) == 0: return st("running")
    r = requests.Response(); r.status_code = 500; raise requests.HTTPError(response=r)
polls = itertools.count(); RPCHandler.get_job_status = status
g = JobGroup("d"); g.add(RemoteJob({"payload": {}}, H, "n"))
try: g.run_sequential(0)
except requests.HTTPError: print("   run_sequential raised; memory:", g[0]._job_status.status.name, " re-opened:", JobGroup("d")[0]._job_status.status.name)

print("(e) get_results: second refresh of an UNKNOWN job is not written")
answers = iter(["weird", "weird", "completed"]); RPCHandler.get_job_status = lambda self, i: st(next(answers))
RPCHandler.get_job_results = lambda self, i: {"results": None}
g = JobGroup("e"); g.add(RemoteJob({"payload": {}}, H, "n")); g.run_parallel(); g.progress(); g.get_results()
print("   memory:", g[0]._job_status.status.name, " re-opened:", JobGroup("e")[0]._job_status.status.name)
