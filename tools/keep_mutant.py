#!/usr/bin/env python3
"""keep_mutant.py <Cxx> <k> <src dir> <eval log> [note]  ->  seeded/<Cxx>-m<k>/{patch.diff,demo.py,notes.md,meta.json}"""
import json, os, re, shutil, sys
pid, k, src, log = sys.argv[1:5]
note = sys.argv[5] if len(sys.argv) > 5 else ""
V = os.path.dirname(os.path.dirname(os.path.abspath(__file__)))
dst = os.path.join(V, "seeded", f"{pid}-m{k}")
os.makedirs(dst, exist_ok=True)
for f in ("patch.diff", "demo.py", "notes.md"):
    if os.path.exists(os.path.join(src, f)):
        shutil.copy(os.path.join(src, f), os.path.join(dst, f))
txt = open(log).read()
sec = re.split(r"^== ", txt, flags=re.M)
def grab(title):
    for s in sec:
        if s.startswith(title):
            return s[len(title):].strip()
    return ""
checks = {}
for s in sec:
    m = re.match(r"check (C\d\d) against the changed tree\n(.*)", s, re.S)
    if m:
        body = m.group(2)
        mm = re.search(r"exit=(\d+) violations=(\d+)", body)
        sigs = re.findall(r"^\s{4}(\S+) \| (.*)$", body, flags=re.M)
        checks[m.group(1)] = {"exit": int(mm.group(1)) if mm else None, "violation_lines": int(mm.group(2)) if mm else None,
                              "signatures": [s0 for s0, _ in sigs], "what": [w for _, w in sigs][:2]}
notes = open(os.path.join(dst, "notes.md")).read() if os.path.exists(os.path.join(dst, "notes.md")) else ""
meta = {
    "id": f"{pid}-m{k}", "property": pid,
    "origin": "written by a fresh sub-agent given only the property text and a scratch worktree of /repo (nothing from /verif)",
    "needs_to_manifest": (re.search(r"(?is)(need|manifest|trigger)[^\n]*\n(.{0,600})", notes).group(0)[:700] if re.search(r"(?is)(need|manifest|trigger)", notes) else notes[:500]),
    "confirmed": {
        "demo_on_clean_tree": grab("demo on clean tree").splitlines()[0] if grab("demo on clean tree") else "",
        "demo_with_change": grab("demo with change").splitlines()[0] if grab("demo with change") else "",
        "test_suite_with_change": grab("test-suite with change").splitlines()[-1] if grab("test-suite with change") else "not re-run",
        "how": "tools/eval_mutant.sh: scratch `git worktree` of /repo HEAD under /tmp, demo.py before/after `git apply patch.diff`, full pytest run with the change, then ./check with VERIF_REPO pointing at the changed worktree; worktree removed afterwards",
    },
    "checks": checks,
    "detected": any(c.get("exit") == 1 for c in checks.values()),
    "note": note,
}
json.dump(meta, open(os.path.join(dst, "meta.json"), "w"), indent=1)
print(dst, "detected" if meta["detected"] else "MISSED", {c: v["signatures"][:2] for c, v in checks.items()})
