#!/usr/bin/env python3
"""Regenerates the generated tables of DESIGN.md (between the BEGIN/END GENERATED markers) from the tree:
   per-property summary (theorem counts, evidence of the last run) and the seeded-changes table."""
import glob, json, os, re, subprocess
V = os.path.dirname(os.path.dirname(os.path.abspath(__file__)))

def per_property():
    rows = ["| id | theorems (Props) | regenerated-from-source lemmas | quick run: evaluations / distinct non-trivial / wall s | streams |",
            "|---|---|---|---|---|"]
    tot = 0
    for i in range(1, 21):
        pid = f"C{i:02d}"
        n = 0
        for f in (f"{V}/coq/Props/{pid}.v", f"{V}/coq/Props/{pid}ext.v"):
            if os.path.exists(f):
                n += len(re.findall(r"^(?:Theorem|Lemma)\s", open(f).read(), flags=re.M))
        tot += n
        ev = json.load(open(f"{V}/evidence/{pid}.json")) if os.path.exists(f"{V}/evidence/{pid}.json") else {}
        c = ev.get("coverage", {})
        streams = "; ".join(list((c.get("streams") or {}).keys()))[:230]
        rows.append(f"| {pid} | {n} | {', '.join(c.get('source_equivalence_lemmas') or []) or '—'} | "
                    f"{c.get('evaluations')} / {c.get('distinct_nontrivial')} / {ev.get('wall_s')} | {streams} |")
    rows.append(f"\nTotal: {tot} restated theorems in `coq/Props/`.")
    return "\n".join(rows)

def seeded():
    return subprocess.run(["python3", os.path.join(V, "tools", "seeded_table.py")], stdout=subprocess.PIPE).stdout.decode()

def findings():
    d = json.load(open(f"{V}/known_findings.json"))["findings"]
    rows = ["| property | status | signature | commit |", "|---|---|---|---|"]
    for f in sorted(d, key=lambda f: (f["property"], f.get("status", ""))):
        rows.append(f"| {f['property']} | {f.get('status','open')} | `{f['signature']}` | {f.get('commit','')} |")
    return "\n".join(rows)

def main():
    p = os.path.join(V, "DESIGN.md")
    s = open(p).read()
    for name, fn in (("per-property", per_property), ("seeded", seeded), ("findings", findings)):
        b, e = f"<!-- BEGIN GENERATED: {name} -->", f"<!-- END GENERATED: {name} -->"
        if b in s and e in s:
            s = s[:s.index(b) + len(b)] + "\n" + fn() + "\n" + s[s.index(e):]
    open(p, "w").write(s)
main()
