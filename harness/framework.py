"""Per-property check driver: obligations P (proofs), A (audit), K (correspondence) -> verdict + evidence."""
from __future__ import annotations
import importlib
import json
import os
import sys
import time
import traceback

from . import common
from .common import VERIF, Rng, Model


class Ctx:
    def __init__(self, pid, tier, seed):
        self.pid = pid
        self.tier = tier
        self.seed = seed
        self.rng = Rng(seed, pid)
        self.model = Model()
        self.failures = []          # dicts: signature, what, case, expected, observed
        self.evaluations = 0
        self.nontrivial = set()
        self.samples = []
        self.hist = {}
        self.streams = {}
        self.notes = []
        self.exhaustive = False
        self.t0 = time.time()
        self.budget_scale = 1.0

    def log(self, msg):
        print(f"[{self.pid} {time.time() - self.t0:6.1f}s] {msg}", flush=True)

    def count(self, key, n=1):
        self.hist[key] = self.hist.get(key, 0) + n

    def case(self, canon, nontrivial: bool, sample=None):
        """Register one evaluated case (canonical expanded form for distinctness)."""
        self.evaluations += 1
        if nontrivial:
            self.nontrivial.add(common.canon_hash(canon))
        if sample is not None and len(self.samples) < 3:
            self.samples.append(sample)

    def fail(self, signature, what, case, expected=None, observed=None, correspondence_only=False):
        """A failing case. `correspondence_only`: model and implementation differ on an observable that is NOT part of the
        property's statement (e.g. the order of status polls): the correspondence no longer checks, but this input does not
        by itself show the property failing — reported as a VIOLATION ending with no-failing-input-found."""
        self.failures.append({"signature": signature, "what": what, "case": case,
                              "expected": expected, "observed": observed, "correspondence_only": bool(correspondence_only)})

    def quick(self):
        return self.tier == "quick"

    def n(self, quick, thorough):
        return int((quick if self.tier == "quick" else thorough) * self.budget_scale)


def load_findings():
    path = os.path.join(VERIF, "known_findings.json")
    if not os.path.exists(path):
        return []
    return json.load(open(path)).get("findings", [])


def write_replay(pid, payload):
    os.makedirs(os.path.join(VERIF, "replays"), exist_ok=True)
    h = common.canon_hash(payload)
    path = os.path.join(VERIF, "replays", f"{pid}-{h}.json")
    with open(path, "w") as f:
        json.dump(payload, f, indent=1, default=str)
    return path


def main(argv=None):
    import argparse
    ap = argparse.ArgumentParser()
    ap.add_argument("pid")
    ap.add_argument("--tier", default=os.environ.get("VERIF_TIER", "quick"), choices=["quick", "thorough"])
    ap.add_argument("--replay", default=None)
    ap.add_argument("--no-build", action="store_true")
    args = ap.parse_args(argv)
    pid = args.pid.upper()
    seed = int(os.environ.get("VERIF_SEED", "0") or 0)
    t0 = time.time()
    ctx = Ctx(pid, args.tier, seed)
    mod = importlib.import_module(f"harness.props.{pid.lower()}")
    try:   # keep the library's console logger quiet (warnings about empty distributions etc.)
        from perceval.utils.logging import get_logger, level, channel
        for ch in (channel.general, channel.user, channel.resources):
            get_logger().set_level(level.critical, ch)
    except Exception:
        pass

    if args.replay:
        case = json.load(open(args.replay))
        mod.replay(ctx, case)
        return 0

    broken = []      # (kind, name, text)
    # ---- P: proof obligations (full .vo build), extraction and runner
    ok, out = (True, "") if args.no_build else common.build_all(ctx.log)
    if not ok:
        broken.append(("build", "make", out[-3000:]))
    props = {"theorems": [], "axioms": {}, "closed": 0, "ok": False, "output": ""}
    if ok:
        props = common.check_props(pid)
        if not props["ok"]:
            broken.append(("proof", f"Props/{pid}.v", props["output"][-3000:]))
        for a in props["bad_axioms"]:
            broken.append(("axiom", a, f"axiom {a} not in the allow-list appears under Print Assumptions"))
    # ---- independent re-check (thorough tier): coqchk on the property's compiled theorems
    chk_note = None
    if ok and props["ok"] and args.tier == "thorough" and not os.environ.get("VERIF_NO_COQCHK"):
        c_ok, c_ax, c_txt = common.coqchk(pid)
        chk_note = f"coqchk -o PV.Props.{pid}: {'ok' if c_ok else 'FAILED'}; axioms: {', '.join(c_ax) or 'none'}"
        ctx.log(chk_note)
        if not c_ok:
            broken.append(("coqchk", f"Props/{pid}.vo", c_txt))
    # ---- A: source audit
    for b in common.audit_sources():
        broken.append(("audit", b, b))
    # ---- translator obligations (regenerated from /repo) if the property has some
    gen_info = {}
    if ok:
        try:
            gen_info = common.regenerate(pid)
            for g in gen_info.get("broken", []):
                broken.append(("translator", g[0], g[1]))
            if gen_info.get("lemmas"):
                ctx.log(f"regenerated {gen_info['generated']} from {common.REPO}; source-equivalence lemmas: {gen_info['lemmas']}")
        except Exception:  # fail closed
            broken.append(("translator", "exception", traceback.format_exc()[-2000:]))
    # ---- K: correspondence
    runner_ok = os.path.exists(os.path.join(common.OCAML, "modelrun"))
    k_error = None
    if runner_ok:
        if broken:
            ctx.budget_scale = 3.0   # a broken obligation widens the search for a failing input
        try:
            mod.run(ctx)
        except Exception:
            k_error = traceback.format_exc()
            broken.append(("correspondence", "driver exception", k_error[-3000:]))
    else:
        broken.append(("build", "runner", "ocaml/modelrun missing"))

    # ---- verdict
    findings = [f for f in load_findings() if f.get("property") == pid and f.get("status", "open") == "open"]
    known_sigs = {f["signature"]: f for f in findings}
    lines = []
    violations = 0
    seen_sig = set()
    known_hit = {}
    for fl in ctx.failures:
        sig = fl["signature"]
        if sig in known_sigs:
            known_hit.setdefault(sig, fl)
            continue
        if sig in seen_sig:
            continue
        seen_sig.add(sig)
        if fl.get("correspondence_only"):
            path = write_replay(pid, {"property": pid, "kind": "broken-correspondence",
                                      "correspondence": f"{sig}: {fl['what']}",
                                      "note": "model and implementation differ on this input on an observable outside the property's "
                                              "statement; no input on which the property itself fails was found",
                                      **fl, "seed": seed, "tier": args.tier})
            lines.append(f"VIOLATION property={pid} replay={path} no-failing-input-found")
        else:
            path = write_replay(pid, {"property": pid, "kind": "failing-input", **fl, "seed": seed, "tier": args.tier})
            lines.append(f"VIOLATION property={pid} replay={path}")
        violations += 1
    for sig, fl in known_hit.items():
        print(f"KNOWN-FINDING: property={pid} {known_sigs[sig]['what']} [signature={sig}]")
    if broken and violations == 0:
        path = write_replay(pid, {"property": pid, "kind": "broken-obligation",
                                  "obligations": [{"kind": k, "name": n, "text": t} for k, n, t in broken],
                                  "seed": seed, "tier": args.tier})
        lines.append(f"VIOLATION property={pid} replay={path} no-failing-input-found")
        violations += 1
    for l in lines:
        print(l)

    # ---- evidence
    n_thm = len(props["theorems"])
    n_gen = len(gen_info.get("lemmas", []))
    n_streams = max(1, len(ctx.streams))
    obligations = n_thm + n_gen + n_streams
    failed_streams = len({fl["signature"] for fl in ctx.failures if fl["signature"] not in known_sigs}) and 1
    discharged = (n_thm if props["ok"] and not props["bad_axioms"] else 0) + \
                 (n_gen - len(gen_info.get("broken", []))) + (n_streams - (1 if (failed_streams or k_error) else 0))
    level = getattr(mod, "LEVEL", "proof")
    coverage = {
        "obligations": obligations,
        "discharged": max(discharged, 0),
        "checker_cmd": f"make -C coq (coqc 8.16.1, full .vo build) && coqc -Q coq PV coq/Props/{pid}.v && ./check {pid} --tier {args.tier}",
        "trusted_base": getattr(mod, "TRUSTED", []) + [
            "Coq 8.16.1 kernel incl. vm_compute (no native_compute)",
            "Print Assumptions: " + (", ".join(f"{k} x{v}" for k, v in sorted(props["axioms"].items())) or "none") +
            f"; {props['closed']} theorem(s) closed under the global context",
            "extraction: ExtrOcamlBasic only (Extract Inductive bool/option/unit/list/prod/sumbool), no Extract Constant; OCaml 4.13.1; ocaml/modelrun.ml (parser/printer, Zarith for decimal conversion only)",
            "harness: generators, implementation drivers, tolerance comparison (harness/)",
        ],
        "theorems": props["theorems"],
        "source_equivalence_lemmas": gen_info.get("lemmas", []),
        "regenerated_from_source": gen_info.get("generated", []),
        "evaluations": ctx.evaluations,
        "distinct_nontrivial": len(ctx.nontrivial),
        "rule": getattr(mod, "RULE", ""),
        "samples": ctx.samples or [{"note": "no case generated (obligations broken before the stream ran)"}],
        "histogram": ctx.hist,
        "streams": ctx.streams,
        "exhaustive": bool(ctx.exhaustive),
        "known_findings_hit": sorted(known_hit.keys()),
        "model_calls": ctx.model.calls,
        "notes": ctx.notes + ([chk_note] if chk_note else []),
        "programs": ctx.evaluations,
        "disagreements_checked": len(ctx.failures),
        "explanation": getattr(mod, "EXPLANATION", ""),
    }
    ev = {"property_id": pid, "tier": args.tier, "seed": seed, "level": level, "coverage": coverage,
          "assumptions": getattr(mod, "ASSUMPTIONS", []), "wall_s": round(time.time() - t0, 2),
          "violations": violations}
    ev_dir = os.path.join(VERIF, "evidence")
    if os.path.realpath(common.REPO) != "/repo":     # evaluating a scratch copy: never touch the real evidence
        ev_dir = os.path.join(VERIF, ".work", "evidence-scratch")
        ev["assumptions"] = list(ev["assumptions"]) + [f"run against VERIF_REPO={common.REPO}, not /repo"]
    os.makedirs(ev_dir, exist_ok=True)
    with open(os.path.join(ev_dir, f"{pid}.json"), "w") as f:
        json.dump(ev, f, indent=1, default=str)
    ctx.log(f"done: {ctx.evaluations} evaluations, {len(ctx.nontrivial)} distinct non-trivial, "
            f"{len(ctx.failures)} failing, {violations} violation line(s)")
    return 1 if violations else 0
