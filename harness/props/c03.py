"""C03 — simulation is linear in its input; distinguishable photons evolve independently."""
from __future__ import annotations
import json
from fractions import Fraction

from ..common import QI, un_q, frac_of_float
from .. import gen
from .c02 import rand_circ

LEVEL = "proof"
RULE = ("circuits of the C02 vocabulary (m <= 4); inputs: superpositions of 1-4 distinct Fock terms with Gaussian-"
        "rational complex coefficients (equal or unequal photon numbers), every photon carrying one of 1-3 tags "
        "(several tags may share a mode), statistical mixtures of 1-3 such state vectors with rational weights. "
        "Compared with the extracted model: Simulator.probs(StateVector), Simulator.evolve(StateVector) (squared "
        "moduli after clearing tags), Simulator.probs_svd(SVDistribution) at precision 0, and — for untagged "
        "inputs — probs_density_matrix / the diagonal of evolve_density_matrix of DensityMatrix.from_svd. "
        "Non-trivial: >= 2 terms or >= 2 tags; distinct by (U, mixture).")
TRUSTED = ["model: coq/Model/Simulator.v, SimulatorX.v (tagged groups never interfere; amplitudes = permanent spec)",
           "the native StateVector / annotation machinery (separate_state, merge) is modelled, tied by this stream"]
ASSUMPTIONS = ["within one superposition all terms share prod s_i! per tag structure (collision-free groups or "
               "mode-permutations of one occupation pattern) so that probabilities are exact rationals",
               "precision 0 (the default relative trimming at 1e-6 is the documented approximation)"]


def bs_string(m, groups):
    """|{_:0}{_:1},0,{_:0}> from [(tag, state)]"""
    parts = []
    for j in range(m):
        s = "".join(("{_:%d}" % tag) * st[j] for tag, st in groups)
        parts.append(s if s else "0")
    return "|" + ",".join(parts) + ">"


def rand_term_groups(rng, m, tags, pattern=None):
    groups = []
    for tag in tags:
        if pattern is not None and len(tags) <= 2:
            st = rng.shuffle(pattern)
        elif pattern is not None:
            st = rng.shuffle([1] + [0] * (m - 1))
        else:
            st = [0] * m
            nph = rng.rint(1, min(2, m)) if len(tags) <= 2 else 1      # keep the total photon number <= 4
            for j in rng.shuffle(range(m))[:nph]:
                st[j] = 1
        groups.append((tag, st))
    return groups


def rand_sv(rng, m, max_terms, max_tags, untagged=False):
    nt = rng.rint(1, max_terms)
    terms, seen = [], set()
    bunched = rng.chance(1, 4) and max_tags <= 3
    pattern = ([2] + [0] * (m - 1)) if bunched else None
    ntags = 1 if untagged else rng.rint(1, max_tags)
    for _ in range(nt):
        tags = sorted(rng.shuffle(range(max_tags))[:ntags]) if not untagged else [0]
        if rng.chance(1, 3) and not untagged:
            tags = sorted(rng.shuffle(range(max_tags))[:rng.rint(1, max_tags)])
        g = rand_term_groups(rng, m, tags, pattern)
        key = bs_string(m, g)
        if key in seen:
            continue
        seen.add(key)
        c = QI(Fraction(rng.rint(-4, 4), rng.rint(1, 3)), Fraction(rng.rint(-4, 4), rng.rint(1, 3)))
        if c.re == 0 and c.im == 0:
            c = QI(1)
        terms.append((c, g))
    return terms


def build_sv(m, terms, untagged=False):
    import perceval as pcvl
    sv = None
    for c, g in terms:
        if untagged:
            st = [0] * m
            for _, s in g:
                st = [a + b for a, b in zip(st, s)]
            bs = pcvl.BasicState(st)
        else:
            bs = pcvl.BasicState(bs_string(m, g))
        t = complex(c) * pcvl.StateVector(bs)
        sv = t if sv is None else sv + t
    return sv


def enc_terms(terms, untagged=False):
    if untagged:
        out = []
        for c, g in terms:
            st = [0] * len(g[0][1])
            for _, s in g:
                st = [a + b for a, b in zip(st, s)]
            out.append([c, [[0, st]]])
        return out
    return [[c, [[tag, st] for tag, st in g]] for c, g in terms]


def model_cost(m, mix):
    """rough number of ring multiplications the exact model needs (outputs x terms x permanent sizes)"""
    import math
    cost = 0
    for _, terms in mix:
        shapes = {}
        for _, g in terms:
            shapes.setdefault(tuple((tag, sum(st)) for tag, st in g), 0)
            shapes[tuple((tag, sum(st)) for tag, st in g)] += 1
        for shape in shapes:
            outs = 1
            per = 0
            for _, n in shape:
                outs *= math.comb(m + n - 1, n)
                per += m ** n * max(n, 1)
            cost += outs * len(terms) * per
    return cost


def run(ctx):
    import perceval as pcvl
    import numpy as np
    from perceval.simulators import Simulator
    from perceval.utils import SVDistribution, DensityMatrix
    rng = ctx.rng
    N = ctx.n(110, 1500)
    cases = []
    for i in range(N):
        r = rng.fork(i)
        m = r.rint(2, 4)
        c = rand_circ(r, m, r.chance(2, 3))
        kind = r.choice(["probs_sv", "evolve_sv", "probs_svd", "probs_svd", "dm"])
        untagged = kind == "dm" or r.chance(1, 4)
        nmix = 1 if kind in ("probs_sv", "evolve_sv") else r.rint(1, 3)
        mix, seen = [], set()
        for _ in range(nmix):
            terms = rand_sv(r, m, 4 if not untagged else 3, 3, untagged)
            if untagged:
                # merge identical untagged terms (they would be the same basis state)
                uniq = {}
                for cc, g in terms:
                    st = [0] * m
                    for _, s in g:
                        st = [a + b for a, b in zip(st, s)]
                    uniq.setdefault(tuple(st), (cc, [(0, st)]))
                terms = list(uniq.values())
            key = str([(x.key(), g) for x, g in terms])
            if key in seen:
                continue
            seen.add(key)
            mix.append([Fraction(r.rint(1, 5)), terms])
        if kind == "probs_svd" and untagged and r.chance(1, 2) and m >= 2:
            # member 1 = a.A + b.B with A, B of different photon numbers; member 2 = A alone (it coincides with the
            # one-photon component member 1 splits into)
            sa = [0] * m
            sa[r.below(m)] = 1
            sb = [0] * m
            for j in r.shuffle(range(m))[:2]:
                sb[j] = 1
            ca = QI(Fraction(r.rint(1, 3)), Fraction(r.rint(-2, 2)))
            cb = QI(Fraction(r.rint(1, 3)), Fraction(r.rint(-2, 2)))
            mix = [[Fraction(r.rint(1, 4)), [(ca, [(0, sa)]), (cb, [(0, sb)])]], [Fraction(r.rint(1, 4)), [(QI(1), [(0, sa)])]]]
            if r.chance(1, 2):
                mix.append([Fraction(r.rint(1, 4)), [(QI(1), [(0, sb)])]])
        tot = sum(p for p, _ in mix)
        mix = [[p / tot, t] for p, t in mix]
        if model_cost(m, mix) > (4000 if ctx.quick() else 40000):
            ctx.count("generated-but-too-costly-for-the-exact-model")
            continue
        cases.append((c, m, kind, untagged, mix))
    outs = ctx.model.run([(30, [m, c.U, [[p, enc_terms(t, u)] for p, t in mix]]) for c, m, kind, u, mix in cases])
    for (c, m, kind, untagged, mix), out in zip(cases, outs):
        desc = {"circuit": c.describe(), "call": kind,
                "mixture": [[str(p), [[str(complex(cc)), bs_string(m, g) if not untagged else str(g[0][1])] for cc, g in t]] for p, t in mix]}
        nterms = max(len(t) for _, t in mix)
        ntags = max(len(g) for _, t in mix for _, g in t)
        ctx.case(["c03", gen.qmat_key(c.U), str(desc["mixture"]), kind], nterms >= 2 or ntags >= 2, desc)
        ctx.count("call." + kind)
        ctx.count("terms.%d" % nterms)
        ctx.count("tags.%d" % ntags)
        exp = {tuple(e[0]): float(un_q(e[1])) for e in out[1]}
        if un_q(out[0]) != 1:
            ctx.fail("model-mass", "model distribution of a normalised input does not have mass 1", desc, 1, str(un_q(out[0])))
            continue
        try:
            sim = Simulator(pcvl.SLOSBackend() if rng.chance(1, 2) else pcvl.NaiveBackend())
            sim.set_circuit(c.build())
            sim.set_precision(0)
            svs = [build_sv(m, t, untagged) for _, t in mix]
            def ev_dist(sv_in):
                sv = sim.evolve(sv_in)
                d = {}
                for st, a in sv:
                    st2 = pcvl.BasicState(list(st))     # clear tags
                    d[tuple(st2)] = d.get(tuple(st2), 0.0) + abs(complex(a)) ** 2
                return d
            if kind in ("probs_sv", "evolve_sv"):
                # the same simulator serves the query, a query on another superposition of the same terms, and the
                # first query again: every answer must be the one of the model (linearity does not wear off)
                first = {tuple(k): float(v) for k, v in sim.probs(svs[0]).items()} if kind == "probs_sv" else ev_dist(svs[0])
                terms = mix[0][1]
                if len(terms) >= 2:
                    alt = [(cc * QI(Fraction(i + 1), Fraction(1 - i)), g) for i, (cc, g) in enumerate(terms)]
                    alt_sv = build_sv(m, alt, untagged)
                    sim.evolve(alt_sv)
                    ctx.count("repeated-on-same-simulator")
                again = {tuple(k): float(v) for k, v in sim.probs(svs[0]).items()} if kind == "probs_sv" else ev_dist(svs[0])
                if not same(exp, first):
                    got = first
                else:
                    got = again
                    if not same(exp, again):
                        ctx.fail(f"{kind}-second-query-differs", f"{kind}: the same query answered differently the second time on one simulator",
                                 desc, str(sorted(exp.items())), str(sorted(again.items())))
                        continue
            elif kind == "probs_svd":
                svd = SVDistribution({sv: float(p) for sv, (p, _) in zip(svs, mix)})
                res = sim.probs_svd(svd)
                got = {tuple(k): float(v) for k, v in res["results"].items()}
                if abs(float(res["physical_perf"]) - 1) > 1e-9 or abs(float(res["logical_perf"]) - 1) > 1e-9:
                    ctx.fail("probs_svd-perf", "performances differ from 1 without any selection", desc, 1,
                             [res["physical_perf"], res["logical_perf"]])
            else:
                svd = SVDistribution({sv: float(p) for sv, (p, _) in zip(svs, mix)})
                dm = DensityMatrix.from_svd(svd)
                got = {tuple(k): float(v) for k, v in sim.probs_density_matrix(dm)["results"].items()}
                dm2 = sim.evolve_density_matrix(dm)
                diag = np.real(dm2.mat.diagonal()) if hasattr(dm2.mat, "diagonal") else np.real(np.diag(dm2.mat))
                got2 = {tuple(dm2.inverse_index[i]): float(diag[i]) for i in range(len(diag))}
                if not same(exp, got2):
                    ctx.fail("evolve_density_matrix-diagonal", "diagonal of the evolved density matrix differs from the mixture's output probabilities",
                             desc, str(sorted(exp.items())), str(sorted(got2.items())))
                    continue
            if not same(exp, got):
                ctx.fail(f"{kind}-distribution", f"{kind}: output distribution differs from the linear / convolved specification",
                         desc, str(sorted(exp.items())), str(sorted(got.items())))
        except Exception as e:
            ctx.fail(f"exception-{kind}-{type(e).__name__}", f"{kind} raised {type(e).__name__}: {e}", desc)
    ctx.streams["superpositions/mixtures/tags"] = len(cases)
    sample = [(30, [m, c.U, [[p, enc_terms(t, u)] for p, t in mix]]) for c, m, kind, u, mix in cases[:2]]
    a = ctx.model.run(sample, jobs=1)
    b = ctx.model.vm_crosscheck(sample, "c03")
    ctx.count("vm_compute_crosscheck", len(sample))
    if a != b:
        ctx.fail("extraction-vs-vm_compute", "extracted runner and vm_compute disagree", {"n": len(sample)})


def same(exp, got, tol=1e-9):
    keys = set(k for k, v in exp.items() if v > 1e-12) | set(k for k, v in got.items() if v > 1e-12)
    return all(abs(exp.get(k, 0.0) - got.get(k, 0.0)) <= tol for k in keys)


def replay(ctx, case):
    print(json.dumps(case, indent=1, default=str))
