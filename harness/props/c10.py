"""C10 — plugging a component or processor onto chosen modes wires it exactly there."""
from __future__ import annotations
import json
import re

from ..common import QI, un_mat, mat_close
from .. import gen

LEVEL = "proof"
RULE = ("straight-line programs over named processor variables, generated statement by statement against the live "
        "state of the real objects: Processor(m) or Processor(circuit) in one piece, add(mapping, component) with "
        "elementary leaves (BS 3 conventions, PS, PERM, exact unitary blocks) or multi-leaf circuits, add_herald at "
        "any position (anonymous / named, expected 0/1), add_port (RAW / DUAL_RAIL, in / out / both), detectors, "
        "set_postselection (trees over ==,!=,<,>,<=,>= with & | ^ !), then 1-3 plug statements add(mapping, X) where X "
        "is a component or a freshly built right-hand processor (one piece or component by component through "
        "non-monotone mappings, heralds anywhere, ports, detectors, post-selection) and the mapping is a random "
        "injective map onto connectible modes in any order with gaps, written as offset / list / dict int->int (any "
        "bijection) / dict by port names (name->name, name->list, name->int); a malformed stream mutates a legal "
        "plug (wrong size, duplicate key, duplicate value, herald / classical / out-of-range / negative mode, unknown "
        "port name), and a systematic grid aims one plug at every kind of unavailable mode of the left processor (its "
        "own herald, a herald appended by an earlier plug of a heralded processor, a mode closed by a detector, a mode "
        "beyond the circuit, a negative mode) through every mapping form (offset, list, dict, port / herald name) for a "
        "component, a processor and a heralded processor. After every statement: accepted vs rejected, m, circuit_size, linear_circuit().compute_unitary() "
        "(1e-9), heralds (ordered), detectors, in/out port names, mode types, post_select_fn on all states with <= 2 "
        "photons, against the extracted model; plus the statement's own reading decided on the real matrices "
        "(untouched modes fixed; re-expressed post-selection = pulled-back one; legal accepted, illegal rejected). "
        "Non-trivial: a plug through a non-monotone or gapped mapping of a multi-component right-hand side; distinct "
        "by (statement kinds, mappings, leaf matrices).")
TRUSTED = ["model: coq/Model/Connector.v, ConnectorX.v (hand-written; tied by this correspondence stream)",
           "simplify() and the fusion of consecutive PERMs are not modelled (matrix-preserving by contract, C11): a "
           "deviation shows up as a matrix mismatch and is classified by re-running with simplify disabled"]
ASSUMPTIONS = ["each right-hand processor object is plugged once and not mutated afterwards (port objects are shared by "
               "reference between experiments in the implementation)",
               "dictionary values are non-negative integers; add_herald / add_port / detectors are only issued on "
               "existing modes; every processor keeps at least one mode of interest",
               "only unitary components are plugged (the statement is about light: non-unitary components, barriers "
               "and feed-forward configurators are outside)"]
EXPLANATION = ("Theorems cover all sizes and all injective mappings; the stream ties the hand-written model to /repo "
               "and decides the statement's literal reading on the real matrices.")

NMAX = 2
CMP = ["==", "!=", "<", ">", "<=", ">="]
EXPECTED_EXC = ("AssertionError", "InvalidMappingException", "UnavailableModeException", "RuntimeError")


# ------------------------------------------------------------------ encoding
def enc_key(k):
    return [1, k[1]] if isinstance(k, tuple) else [0, k]


def enc_val(v):
    if isinstance(v, tuple):
        return [1, v[1]] if v[0] == "n" else [2, list(v[1])]
    return [0, v]


def enc_mapping(mp):
    if mp["kind"] == "int":
        return [0, mp["b"]]
    if mp["kind"] == "list":
        return [1, list(mp["l"])]
    return [2, [[enc_key(k), enc_val(v)] for k, v in mp["items"]]]


def py_mapping(mp):
    if mp["kind"] == "int":
        return mp["b"]
    if mp["kind"] == "list":
        return list(mp["l"])
    d = {}
    for k, v in mp["items"]:
        kk = f"p{k[1]}" if isinstance(k, tuple) else k
        if isinstance(v, tuple):
            vv = f"p{v[1]}" if v[0] == "n" else list(v[1])
        else:
            vv = v
        d[kk] = vv
    return d


def enc_ps(t):
    if t[0] == "cmp":
        return [1, list(t[1]), CMP.index(t[2]), t[3]]
    if t[0] == "not":
        return [5, enc_ps(t[1])]
    return [{"and": 2, "or": 3, "xor": 4}[t[0]], enc_ps(t[1]), enc_ps(t[2])]


def str_ps(t):
    if t[0] == "cmp":
        return f"[{','.join(map(str, t[1]))}] {t[2]} {t[3]}"
    if t[0] == "not":
        return f"(! {str_ps(t[1])})"
    return f"({str_ps(t[1])} {'&|^'[['and', 'or', 'xor'].index(t[0])]} {str_ps(t[2])})"


def ps_modes(t):
    if t[0] == "cmp":
        return set(t[1])
    if t[0] == "not":
        return ps_modes(t[1])
    return ps_modes(t[1]) | ps_modes(t[2])


def dec_ps_conds(x):
    """(modes, op, k) triples of a model ps tree."""
    tag = x[0]
    if tag == 0:
        return []
    if tag == 1:
        return [(tuple(x[1]), CMP[x[2]], x[3])]
    if tag == 5:
        return dec_ps_conds(x[1])
    return dec_ps_conds(x[1]) + dec_ps_conds(x[2])


def enc_items(items):
    return [[off, lf.k, lf.U] for off, lf in items]


def enc_stmt(s):
    """One python statement -> list of model statements (the one-piece constructor is New + add(0, circuit))."""
    op, v = s["op"], s["v"]
    if op == "new":
        out = [[0, v, s["m"]]]
        if s.get("items"):
            out.append([1, v, [0, 0], s["m"], enc_items(s["items"]), 1])
        return out
    if op == "comp":
        return [[1, v, enc_mapping(s["map"]), s["k"], enc_items(s["items"]), s["keep"]]]
    if op == "proc":
        return [[2, v, enc_mapping(s["map"]), s["w"], s["keep"]]]
    if op == "herald":
        return [[3, v, s["mode"], s["expected"], s["name"]]]
    if op == "port":
        return [[4, v, s["mode"], s["name"], s["enc"], s["size"], s["loc"]]]
    if op == "det":
        return [[5, v, s["mode"], s["d"]]]
    return [[6, v, enc_ps(s["ps"])]]


def show_comp(s):
    items = s["items"]
    if len(items) == 1 and items[0][0] == 0 and items[0][1].k == s["k"] and not s.get("wrap"):
        return items[0][1].describe()
    return f"Circuit({s['k']})" + "".join(f".add({off}, {lf.describe()})" for off, lf in items)


def show_stmt(s):
    op, v = s["op"], s["v"]
    kp = "" if s.get("keep", True) else ", keep_port=False"
    if op == "new":
        if s.get("items"):
            return f"p{v} = Processor('SLOS', {show_comp({'items': s['items'], 'k': s['m'], 'wrap': True})})"
        return f"p{v} = Processor('SLOS', {s['m']})"
    if op == "comp":
        return f"p{v}.add({py_mapping(s['map'])!r}, {show_comp(s)}{kp})"
    if op == "proc":
        return f"p{v}.add({py_mapping(s['map'])!r}, p{s['w']}{kp})"
    if op == "herald":
        nm = f", 'p{s['name']}'" if s["name"] else ""
        return f"p{v}.add_herald({s['mode']}, {s['expected']}{nm})"
    if op == "port":
        return (f"p{v}.add_port({s['mode']}, Port(Encoding.{['RAW', 'DUAL_RAIL'][s['enc']]}, 'p{s['name']}'), "
                f"PortLocation.{['INPUT', 'OUTPUT', 'IN_OUT'][s['loc']]})")
    if op == "det":
        return f"p{v}.add({s['mode']}, Detector.{['', 'threshold', 'pnr'][s['d']]}())"
    return f"p{v}.set_postselection(PostSelect('{str_ps(s['ps'])}'))"


def stmt_key(s):
    k = {x: s[x] for x in s if x not in ("items", "map", "ps", "legal", "kind", "cell")}
    if "items" in s and s["items"]:
        k["items"] = [[off, lf.key()] for off, lf in s["items"]]
    if "map" in s:
        k["map"] = enc_mapping(s["map"])
    if "ps" in s:
        k["ps"] = enc_ps(s["ps"])
    return k


# ------------------------------------------------------------------ implementation side
def build_comp(s, k=None):
    import perceval as pcvl
    items = s["items"]
    k = k if k is not None else s["k"]
    if len(items) == 1 and items[0][0] == 0 and items[0][1].k == k and not s.get("wrap"):
        return items[0][1].build()
    c = pcvl.Circuit(k)
    for off, lf in items:
        c.add(off, lf.build())
    return c


def impl_step(env, s):
    """Executes one statement on the real objects. Returns (accepted, exception class name)."""
    import perceval as pcvl
    from perceval.components import Processor, Port, PortLocation, Detector
    from perceval.utils import Encoding, PostSelect
    op, v = s["op"], s["v"]
    try:
        if op == "new":
            if s.get("items"):
                env[v] = Processor("SLOS", build_comp({"items": s["items"], "k": s["m"], "wrap": True}))
            else:
                env[v] = Processor("SLOS", s["m"])
        elif op == "comp":
            env[v].add(py_mapping(s["map"]), build_comp(s), keep_port=bool(s["keep"]))
        elif op == "proc":
            env[v].add(py_mapping(s["map"]), env[s["w"]], keep_port=bool(s["keep"]))
        elif op == "herald":
            env[v].add_herald(s["mode"], s["expected"], f"p{s['name']}" if s["name"] else None)
        elif op == "port":
            env[v].add_port(s["mode"], Port([Encoding.RAW, Encoding.DUAL_RAIL][s["enc"]], f"p{s['name']}"),
                            [PortLocation.INPUT, PortLocation.OUTPUT, PortLocation.IN_OUT][s["loc"]])
        elif op == "det":
            env[v].add(s["mode"], Detector.threshold() if s["d"] == 1 else Detector.pnr())
        else:
            env[v].set_postselection(PostSelect(str_ps(s["ps"])))
        return True, None
    except Exception as e:  # classified by the caller
        return False, type(e).__name__ + ("/port-overlap" if "Another port overlaps" in str(e) else "")


_STATES = {}


def states(m):
    if m not in _STATES:
        _STATES[m] = [t for k in range(NMAX + 1) for t in gen.all_states(m, k)]
    return _STATES[m]


def impl_report(p):
    import numpy as np
    from perceval import BasicState
    from perceval.utils import ModeType
    from perceval.components.detector import DetectionType
    ex = p.experiment
    n = p.circuit_size
    try:
        U = [[complex(x) for x in row] for row in np.array(p.linear_circuit().compute_unitary()).tolist()]
    except Exception as e:
        U = f"{type(e).__name__}: {e}"
    dets = []
    for d in p.detectors:
        dets.append(0 if d is None else (1 if d.type == DetectionType.Threshold else 2))
    types = [{ModeType.PHOTONIC: 0, ModeType.HERALD: 1, ModeType.CLASSICAL: 2}[t] for t in ex._mode_type]
    ps = p.post_select_fn
    has_ps = ps is not None and ps.has_condition
    def names(f):
        try:
            return list(f())
        except IndexError:
            return "IndexError"
    return {"m": p.m, "size": n, "U": U, "heralds": [[k, v] for k, v in p.heralds.items()], "dets": dets,
            "in": names(lambda: p.in_port_names), "out": names(lambda: p.out_port_names), "types": types,
            "in_raw": [[q.name, list(r)] for q, r in ex._in_ports.items()],
            "out_raw": [[q.name, list(r)] for q, r in ex._out_ports.items()],
            "ps": str(ps) if has_ps else None,
            "ps_vals": [bool(ps(BasicState(t))) for t in states(n)] if has_ps else None}


def impl_run(prog, no_simplify=False):
    """Runs a whole program; trace[i] = (accepted, exc, report of the target or None)."""
    import perceval.components.experiment as ex_mod
    saved = ex_mod.simplify
    if no_simplify:
        ex_mod.simplify = lambda comps, *a, **k: comps     # diagnosis only (module attribute of the running harness)
    try:
        env, trace = {}, []
        for s in prog:
            ok, exc = impl_step(env, s)
            trace.append((ok, exc, impl_report(env[s["v"]]) if s["v"] in env else None))
        return trace
    finally:
        ex_mod.simplify = saved


def name_str(x):
    if not x:
        return ""
    return f"p{x[1]}" if x[0] == 0 else f"herald{x[1]}"


# ------------------------------------------------------------------ comparison
def model_requests(prog):
    return [ms for s in prog for ms in enc_stmt(s)]


def model_split(prog, mo):
    """Model answers per python statement (the last of its model statements)."""
    out, i = [], 0
    for s in prog:
        k = len(enc_stmt(s))
        out.append(mo[i + k - 1])
        i += k
    return out


def plug_shape(s):
    """Shape of a plug statement's mapping, for signatures."""
    mp = s["map"]
    if mp["kind"] == "dict":
        kinds = set()
        for k, v in mp["items"]:
            kinds.add(("name" if isinstance(k, tuple) else "int") + "-to-" +
                      (("name" if v[0] == "n" else "list") if isinstance(v, tuple) else "int"))
        return "dict:" + "+".join(sorted(kinds))
    return mp["kind"]


def compare(ctx, prog, mo, trace=None):
    """Returns None or (index, signature, what, expected, observed). `mo` = model answers per statement."""
    import numpy as np
    trace = trace if trace is not None else impl_run(prog)
    prev = {}     # var -> last impl report
    ps_reqs = []
    found = []    # failures of the statement's own reading that do not desynchronise model and implementation
    for i, (s, m, (ok_impl, exc, rep)) in enumerate(zip(prog, mo, trace)):
        v, op = s["v"], s["op"]
        ok_model = m[0] == 1
        what0 = f"after `{show_stmt(s)}`"
        exc_full = exc
        exc = exc.split("/")[0] if exc else exc
        if not ok_impl and exc not in EXPECTED_EXC:
            return found + [(i, f"unexpected-exception-{exc}:{op}", f"statement raised {exc} {what0}",
                    "accepted" if ok_model else "a rejection error", exc)]
        if s.get("legal") is False and ok_impl:
            return found + [(i, f"illegal-mapping-accepted:{s.get('kind')}",
                             f"an illegal mapping ({s.get('kind')}) was accepted {what0}"
                             + ("" if not ok_model else " (and by the model)"), "rejected", "accepted")]
        if s.get("legal") is False and ok_model:
            return found + [(i, f"model-accepts-illegal-mapping:{s.get('kind')}",
                             f"the model accepts an illegal mapping ({s.get('kind')}) {what0}", "rejected", "accepted")]
        if ok_model != ok_impl:
            return found + [(i, f"accept-reject:{op}:{plug_shape(s) if 'map' in s else ''}",
                    f"accepted by one side and rejected by the other {what0}",
                    "accepted" if ok_model else "rejected", "accepted" if ok_impl else f"rejected ({exc})")]
        # the statement's reading on legality
        if "legal" in s:
            if s["legal"] and not ok_impl and exc_full == "UnavailableModeException/port-overlap":
                found.append((i, "legal-plug-rejected:new-herald-mode-under-a-port-sticking-out-of-the-circuit",
                              f"a legal plug was refused {what0}: the new heralded mode is reported as occupied by a port",
                              "accepted", f"rejected ({exc}: Another port overlaps)"))
            elif s["legal"] and not ok_impl and exc in ("InvalidMappingException", "UnavailableModeException"):
                shape = "dict-with-port-name-to-int" if "name-to-int" in plug_shape(s) else plug_shape(s)
                found.append((i, f"legal-mapping-rejected:{shape}",
                              f"a mapping of the right size, injective, onto connectible modes was refused ({exc}) {what0}",
                              "accepted", f"rejected ({exc})"))
        if not m[1]:
            if rep is not None:
                return found + [(i, "variable-set", "variable defined only in the implementation", None, v)]
            continue
        e = m[1][0]
        if rep is None:
            return found + [(i, "variable-set", "variable defined only in the model", v, None)]
        tag = "" if ok_impl else "-after-rejection"
        if e[0] != rep["m"] or e[0] + e[1] != rep["size"]:
            return found + [(i, f"mode-count{tag}:{op}", f"m / circuit_size differ {what0}", [e[0], e[0] + e[1]], [rep["m"], rep["size"]])]
        n = rep["size"]
        Um = un_mat(e[2])
        if isinstance(rep["U"], str):
            return found + [(i, f"matrix-unavailable{tag}:{op}", f"linear_circuit().compute_unitary() failed {what0}", None, rep["U"])]
        if not mat_close(rep["U"], Um):
            sig = f"matrix{tag}:{op}" + (":" + plug_shape(s) if "map" in s else "")
            t2 = impl_run(prog[:i + 1], no_simplify=True)
            r2 = t2[i][2]
            if r2 is not None and not isinstance(r2["U"], str) and mat_close(r2["U"], Um):
                sig = f"matrix:simplify-changes-unitary:{op}"
            return found + [(i, sig, f"the processor's unitary differs from the model's W {what0}", str(Um), str(rep["U"]))]
        if [list(h) for h in e[3]] != rep["heralds"]:
            return found + [(i, f"heralds{tag}:{op}", f"heralds differ {what0}", e[3], rep["heralds"])]
        if e[4] != rep["dets"]:
            return found + [(i, f"detectors{tag}:{op}", f"detectors differ {what0}", e[4], rep["dets"])]
        for side, col, raw in (("in", 5, 9), ("out", 6, 10)):
            mraw = [[name_str(x[0]), x[1]] for x in e[raw]]
            if mraw != rep[side + "_raw"]:
                return found + [(i, f"{side}-ports{tag}:{op}", f"{side}put ports differ {what0}", mraw, rep[side + "_raw"])]
            # a transferred multi-mode port may stick out of the circuit: the implementation's *_port_names raises
            mnames = "IndexError" if any(x >= n for _, r in mraw for x in r) else [name_str(x) for x in e[col]]
            if mnames != rep[side]:
                return found + [(i, f"{side}-port-names{tag}:{op}", f"{side}put port names differ {what0}", mnames, rep[side])]
        if e[8] != rep["types"]:
            return found + [(i, f"mode-types{tag}:{op}", f"mode types differ {what0}", e[8], rep["types"])]
        mps = e[7][0] if e[7] else None
        if (mps is None) != (rep["ps"] is None):
            return found + [(i, f"postselect-presence{tag}:{op}", f"post-selection present on one side only {what0}", mps, rep["ps"])]
        if mps is not None:
            conds = dec_ps_conds(mps)
            if any(x >= n for c in conds for x in c[0]):
                # modes beyond the circuit: the native evaluation is undefined there; compare the conditions textually
                got = sorted((tuple(sorted(int(x) for x in a.split(","))), o, int(k)) for a, o, k in
                             re.findall(r"\[([\d, ]+)\] (==|!=|<=|>=|<|>) (\d+)", rep["ps"]))
                if got != sorted((tuple(sorted(c[0])), c[1], c[2]) for c in conds):
                    return found + [(i, f"postselect-conditions{tag}:{op}", f"post-selection conditions differ {what0}", sorted(conds), got)]
            else:
                ps_reqs.append((i, mps, n, rep["ps_vals"], rep["ps"]))
        # ---- the statement itself, on the real matrices
        if ok_impl and op in ("comp", "proc") and m[2]:
            seg = m[2]
            unt = seg[3]
            Ub = np.eye(n, dtype=complex)
            pb = prev.get(v)
            nb = pb["size"]
            Ub[:nb, :nb] = np.array(pb["U"])
            W = np.array(rep["U"]) @ Ub.conj().T
            bad = [u for u in unt if abs(W[u, u] - 1) > 1e-9 or
                   max(abs(W[j, u]) + abs(W[u, j]) for j in range(n) if j != u) > 1e-9] if n > 1 else []
            if bool(seg[4]) != (not bad):
                return found + [(i, f"untouched-flag:{op}", f"model and implementation disagree on untouched modes {what0}", seg[4], bad)]
            if bad:
                gap = sorted(seg[2]) != list(range(min(seg[2]), min(seg[2]) + len(seg[2])))
                found.append((i, f"untouched-mode-moved:{'component' if op == 'comp' else 'processor'}:"
                                 f"{'gapped' if gap else 'contiguous'}-mapping",
                              f"light of untouched mode(s) {bad} does not stay on them {what0}", "untouched modes are unaffected",
                              f"column {bad[0]} of the inserted segment = {np.round(W[:, bad[0]], 6).tolist()}"))
            if seg[5]:
                ps_reqs.append((i, ("pair", seg[5][0], seg[5][1], seg[0], seg[1]), n, None, None))
        prev[v] = rep
    # ---- post-selection: evaluated by the model on all states of the small space
    reqs = []
    for (_, mps, n, _, _) in ps_reqs:
        if isinstance(mps, tuple):
            reqs += [(1001, [mps[1], n, NMAX]), (1001, [mps[2], n, NMAX])]
        else:
            reqs.append((1001, [mps, n, NMAX]))
    outs = ctx.model.run(reqs, jobs=1) if reqs else []
    j = 0
    for (i, mps, n, vals, txt) in ps_reqs:
        s = prog[i]
        if isinstance(mps, tuple):
            a, b = outs[j], outs[j + 1]
            j += 2
            if a != b:
                k = next(x for x in range(len(a)) if a[x] != b[x])
                ident = mps[4] == list(range(len(mps[4])))
                found.append((i, f"postselect-reexpressed-wrongly:processor:min{'>0' if mps[3] else '=0'}-"
                                 f"{'identity' if ident else 'nontrivial'}-perm",
                              f"the added processor's post-selection is carried over to the wrong modes after `{show_stmt(s)}`",
                              f"conditions {sorted(dec_ps_conds(mps[2]))}",
                              f"conditions {sorted(dec_ps_conds(mps[1]))}; they differ on state {states(n)[k]}"))
        else:
            a = outs[j]
            j += 1
            if [bool(x) for x in a] != vals:
                k = next(x for x in range(len(a)) if bool(a[x]) != vals[x])
                return found + [(i, f"postselect-values:{s['op']}", f"post_select_fn differs from the model after `{show_stmt(s)}` on state {states(n)[k]}",
                        str(sorted(dec_ps_conds(mps))), txt)]
    return found


# ------------------------------------------------------------------ generation (against the live objects)
def rand_items(rng, k, nmax=4):
    n = rng.rint(1, nmax)
    items = []
    for _ in range(n):
        lf = gen.rand_leaf(rng, k)
        items.append((rng.rint(0, k - lf.k), lf))
    return items


def rand_ps(rng, modes, depth=0):
    """Random post-selection tree over (a subset of) the given modes, conditions on disjoint groups."""
    modes = rng.shuffle(modes)
    if len(modes) >= 2 and depth < 2 and rng.chance(3, 5):
        cut = rng.rint(1, len(modes) - 1)
        a, b = rand_ps(rng, modes[:cut], depth + 1), rand_ps(rng, modes[cut:], depth + 1)
        t = (rng.choice(["and", "and", "or", "xor"]), a, b)
    else:
        g = modes[:rng.rint(1, min(2, len(modes)))]
        t = ("cmp", sorted(g) if rng.chance(1, 2) else g, rng.choice(CMP), rng.rint(0, 2))
    if rng.chance(1, 8):
        t = ("not", t)
    return t


class Gen:
    def __init__(self, rng):
        self.rng = rng
        self.prog = []
        self.env = {}
        self.trace = []
        self.next_name = 1
        self.nontrivial = False
        self.dead = False

    def emit(self, s):
        ok, exc = impl_step(self.env, s)
        self.prog.append(s)
        self.trace.append((ok, exc, impl_report(self.env[s["v"]]) if s["v"] in self.env else None))
        if not ok:
            self.dead = True
        return ok

    def photonic(self, v):
        from perceval.utils import ModeType
        return [i for i, t in enumerate(self.env[v].experiment._mode_type) if t == ModeType.PHOTONIC]

    def fresh_name(self):
        self.next_name += 1
        return self.next_name - 1

    def legal_mapping(self, v, n, rmodes, right=None, forms=None):
        """A random injective mapping of n right modes onto connectible modes of p_v. None if impossible."""
        rng = self.rng
        conn = self.photonic(v)
        if len(conn) < n:
            return None, False
        style = rng.below(4)
        if style == 0:      # contiguous ascending
            starts = [a for a in conn if all(a + i in conn for i in range(n))]
            if not starts:
                chosen = rng.shuffle(conn)[:n]
            else:
                a = rng.choice(starts)
                chosen = list(range(a, a + n))
        elif style == 1:    # contiguous block, any order
            starts = [a for a in conn if all(a + i in conn for i in range(n))]
            if starts:
                a = rng.choice(starts)
                chosen = rng.shuffle(range(a, a + n))
            else:
                chosen = rng.shuffle(conn)[:n]
        else:               # any subset, any order (gaps)
            chosen = rng.shuffle(conn)[:n]
        asc = chosen == list(range(chosen[0], chosen[0] + n))
        weird = (chosen != sorted(chosen)) or (sorted(chosen) != list(range(min(chosen), min(chosen) + n)))
        form = rng.choice(forms or ["int", "list", "list", "dict", "dict", "names"])
        if form == "int" and asc:
            return {"kind": "int", "b": chosen[0]}, weird
        if form in ("int", "list"):
            return {"kind": "list", "l": chosen}, weird
        if form == "names":
            mp = self.named_mapping(v, right, chosen, rmodes)
            if mp is not None:
                return mp
        # dict int -> int through any bijection
        tgt = rng.shuffle(rmodes) if rng.chance(1, 2) else list(rmodes)
        pairs = rng.shuffle(list(zip(chosen, tgt)))
        ks = [k for k, _ in sorted(pairs, key=lambda kv: kv[1])]
        weird = (ks != sorted(ks)) or (sorted(ks) != list(range(min(ks), min(ks) + n)))
        return {"kind": "dict", "items": pairs}, weird

    def named_mapping(self, v, right, chosen, rmodes):
        """Uses left output ports (all modes connectible) and, for processors, right input ports."""
        rng = self.rng
        from perceval.components import Herald
        L = self.env[v].experiment
        conn = set(self.photonic(v))
        lports = [(p.name, list(r)) for p, r in L._out_ports.items() if not isinstance(p, Herald) and set(r) <= conn]
        if not lports:
            return None
        rports = []
        if right is not None:
            R = self.env[right].experiment
            rports = [(p.name, list(r)) for p, r in R._in_ports.items() if not isinstance(p, Herald)]
        items, used_l, used_r = [], set(), set()
        for name, lr in rng.shuffle(lports):
            if used_l & set(lr):
                continue
            cand = [rp for rp in rports if len(rp[1]) == len(lr) and not (used_r & set(rp[1]))]
            free_r = [x for x in rmodes if x not in used_r]
            if cand and rng.chance(1, 2):
                rn, rr = rng.choice(cand)
                items.append((("n", int(name[1:])), ("n", int(rn[1:]))))
                used_r |= set(rr)
            elif len(free_r) >= len(lr):
                tg = rng.shuffle(free_r)[:len(lr)]
                if len(lr) == 1 and rng.chance(1, 3):
                    items.append((("n", int(name[1:])), tg[0]))          # port name -> int
                else:
                    items.append((("n", int(name[1:])), ("l", tg)))
                used_r |= set(tg)
            else:
                continue
            used_l |= set(lr)
            if len(used_r) == len(rmodes):
                break
        if not items:
            return None
        rest_r = [x for x in rmodes if x not in used_r]
        rest_l = [x for x in rng.shuffle(sorted(conn - used_l))][:len(rest_r)]
        if len(rest_l) < len(rest_r):
            return None
        items += list(zip(rest_l, rng.shuffle(rest_r)))
        items = rng.shuffle(items)
        return {"kind": "dict", "items": items}, True

    def build_processor(self, v, m, role):
        """Emits the statements building processor p_v on m modes; role = 'left' | 'right'."""
        rng = self.rng
        multi = False
        if m >= 2 and rng.chance(1, 3):
            multi = self.build_layered(v, m)
            if self.dead:
                return multi
        elif rng.chance(1, 2):
            items = rand_items(rng, m, 4)
            multi = len(items) > 1
            self.emit({"op": "new", "v": v, "m": m, "items": items})
        else:
            self.emit({"op": "new", "v": v, "m": m})
            for _ in range(rng.rint(0, 3)):
                multi = self.plug_component(v, legal_only=True) or multi
                if self.dead:
                    return multi
        # heralds
        nh = rng.rint(0, min(2, m - 1)) if role == "right" or rng.chance(1, 3) else 0
        for pos in rng.shuffle(range(m))[:nh]:
            self.emit({"op": "herald", "v": v, "mode": pos, "expected": rng.below(2),
                       "name": self.fresh_name() if rng.chance(1, 3) else 0})
        if rng.chance(1, 3) and not self.dead:
            multi = self.plug_component(v, legal_only=True) or multi
        if self.dead:
            return multi
        E = self.env[v].experiment
        # ports on free photonic modes
        if rng.chance(1, 2):
            for _ in range(rng.rint(1, 2)):
                size = rng.choice([1, 1, 2])
                loc = rng.choice([0, 1, 2, 2])
                ph = self.photonic(v)
                from perceval.components import PortLocation
                pl = [PortLocation.INPUT, PortLocation.OUTPUT, PortLocation.IN_OUT][loc]
                starts = [a for a in ph if all((a + i) in ph for i in range(size)) and
                          E.are_modes_free(range(a, a + size), pl)]
                if starts:
                    self.emit({"op": "port", "v": v, "mode": rng.choice(starts), "name": self.fresh_name(),
                               "enc": size - 1, "size": size, "loc": loc})
        # detectors
        if rng.chance(1, 4):
            cand = list(self.env[v].heralds.keys()) + (self.photonic(v)[:1] if role == "right" and rng.chance(1, 4) and len(self.photonic(v)) > 1 else [])
            for mo in cand[:2]:
                from perceval.utils import ModeType
                if E._mode_type[mo] != ModeType.CLASSICAL:
                    self.emit({"op": "det", "v": v, "mode": mo, "d": rng.rint(1, 2)})
        # post-selection on modes of interest
        if rng.chance(1, 2) if role == "right" else rng.chance(1, 4):
            moi = [i for i in range(self.env[v].circuit_size) if i not in self.env[v].heralds]
            if role == "left":
                moi = rng.shuffle(moi)[:rng.rint(1, 2)]
            if moi:
                self.emit({"op": "ps", "v": v, "ps": rand_ps(rng, moi)})
        return multi

    def build_layered(self, v, m):
        """Component by component, every component at top level: layers of fixed phase shifters on many modes,
        permutations of any cycle type (3-cycles and longer included) and a few beam splitters. This is what the
        simplifier run by _compose_experiment rewrites (phases pushed through PERMs and merged, PERMs fused)."""
        rng = self.rng
        self.emit({"op": "new", "v": v, "m": m})
        n_layers = rng.rint(3, 6)
        for _ in range(n_layers):
            if self.dead:
                break
            kind = rng.choice(["ps", "ps", "perm", "perm", "bs"])
            if kind == "ps":
                for mode in range(m):
                    if rng.chance(3, 4):
                        lf = gen.rand_leaf(rng, 1, kinds=("PS",))
                        self.emit({"op": "comp", "v": v, "map": {"kind": "int", "b": mode}, "k": 1, "items": [(0, lf)],
                                   "keep": 1, "wrap": False, "legal": True})
            elif kind == "perm":
                n = rng.rint(min(3, m), m)
                p = rng.shuffle(range(n))
                if p == list(range(n)):
                    p = p[1:] + p[:1]
                lf = gen.Leaf("PERM", n, gen.perm_exact(p), (p,))
                self.emit({"op": "comp", "v": v, "map": {"kind": "int", "b": rng.rint(0, m - n)}, "k": n,
                           "items": [(0, lf)], "keep": 1, "wrap": False, "legal": True})
            else:
                lf = gen.rand_leaf(rng, 2, kinds=("BS",))
                self.emit({"op": "comp", "v": v, "map": {"kind": "int", "b": rng.rint(0, m - 2)}, "k": 2,
                           "items": [(0, lf)], "keep": 1, "wrap": False, "legal": True})
        return True

    def plug_component(self, v, legal_only=False, forms=None):
        rng = self.rng
        ph = self.photonic(v)
        if not ph:
            return False
        if rng.chance(1, 3) and len(ph) >= 2:
            k = rng.rint(2, min(len(ph), 4))
            items = rand_items(rng, k, 3)
            wrap = True
        else:
            lf = gen.rand_leaf(rng, min(len(ph), 4))
            k, items, wrap = lf.k, [(0, lf)], False
        if len(ph) < k:
            return False
        mp, weird = self.legal_mapping(v, k, list(range(k)), None, forms)
        if mp is None:
            return False
        s = {"op": "comp", "v": v, "map": mp, "k": k, "items": items, "keep": 0 if rng.chance(1, 6) else 1,
             "wrap": wrap, "legal": True}
        self.emit(s)
        if weird and len(items) > 1:
            self.nontrivial = True
        return weird

    def plug_processor(self, v, w, multi):
        rng = self.rng
        R = self.env[w]
        rmodes = [i for i in range(R.circuit_size) if i not in R.heralds]
        mp, weird = self.legal_mapping(v, R.m, rmodes, w)
        if mp is None:
            return
        self.emit({"op": "proc", "v": v, "map": mp, "w": w, "keep": 0 if rng.chance(1, 6) else 1, "legal": True})
        if weird and (multi or len(R.components) > 1):
            self.nontrivial = True


def mutate(rng, g, s):
    """Turns a legal plug statement into an illegal one. Returns (statement, kind) or None."""
    from perceval.utils import ModeType
    s = dict(s)
    E = g.env[s["v"]].experiment
    size = E.circuit_size
    mp = s["map"]
    bad_modes = [i for i, t in enumerate(E._mode_type) if t != ModeType.PHOTONIC] + [size, size + 1, -1, -2]
    kind = rng.choice(["wrong-size", "duplicate-key", "duplicate-value", "unavailable-mode", "unknown-name", "bad-offset"])
    if mp["kind"] == "int":
        keys = None
    elif mp["kind"] == "list":
        keys = list(mp["l"])
    else:
        keys = None
    if kind == "bad-offset":
        n = s["k"] if s["op"] == "comp" else g.env[s["w"]].m
        b = rng.choice([-1, -2, size - n + 1, size, size + 3])
        s["map"] = {"kind": "int", "b": b}
    elif kind == "wrong-size":
        if keys is not None:
            if len(keys) > 1 and rng.chance(1, 2):
                keys.pop(rng.below(len(keys)))
            else:
                extra = [x for x in range(size) if x not in keys]
                keys.append(rng.choice(extra) if extra else size)
            s["map"] = {"kind": "list", "l": keys}
        elif mp["kind"] == "dict" and len(mp["items"]) > 1:
            it = list(mp["items"])
            it.pop(rng.below(len(it)))
            s["map"] = {"kind": "dict", "items": it}
        else:
            return None
    elif kind == "duplicate-key":
        if keys is None or len(keys) < 2:
            return None
        i, j = rng.shuffle(range(len(keys)))[:2]
        keys[i] = keys[j]
        s["map"] = {"kind": "list", "l": keys}
    elif kind == "duplicate-value":
        if mp["kind"] != "dict":
            return None
        it = [kv for kv in mp["items"] if not isinstance(kv[0], tuple) and not isinstance(kv[1], tuple)]
        if len(it) < 2 or len(it) != len(mp["items"]):
            return None
        i, j = rng.shuffle(range(len(it)))[:2]
        it[i] = (it[i][0], it[j][1])
        s["map"] = {"kind": "dict", "items": it}
    elif kind == "unavailable-mode":
        b = rng.choice(bad_modes)
        if keys is not None:
            keys[rng.below(len(keys))] = b
            if len(set(keys)) != len(keys):
                return None
            s["map"] = {"kind": "list", "l": keys}
        elif mp["kind"] == "dict":
            it = list(mp["items"])
            idx = [i for i, kv in enumerate(it) if not isinstance(kv[0], tuple) and not isinstance(kv[1], tuple)]
            if not idx or any(kv[0] == b for kv in it):
                return None
            i = rng.choice(idx)
            it[i] = (b, it[i][1])
            s["map"] = {"kind": "dict", "items": it}
        else:
            return None
    else:   # unknown-name
        if mp["kind"] != "dict":
            return None
        it = list(mp["items"])
        i = rng.below(len(it))
        v = it[i][1]
        it[i] = (("n", 99), v if isinstance(v, tuple) and v[0] == "l" else ("l", [v] if not isinstance(v, tuple) else [0]))
        s["map"] = {"kind": "dict", "items": it}
    s["legal"] = False
    s["kind"] = kind
    return s, kind

# ------------------------------------------------------------------ every unavailable mode x every mapping form
CAUSES = ["herald-own", "herald-appended", "detector", "beyond", "negative"]
FORMS = ["int", "list", "dict", "name"]
RIGHTS = ["comp", "proc", "heralded-proc"]


def gen_unavailable(rng, cause, form, right):
    """A left processor owning every kind of unavailable mode (its own heralds, heralds appended by an earlier plug of
    a heralded processor, a mode closed by a detector), then ONE illegal plug aiming at a mode unavailable for `cause`
    through mapping form `form`, of a plain component / a processor / a heralded processor. None if impossible."""
    from perceval.utils import ModeType
    g = Gen(rng)
    m = rng.rint(4, 6)
    if rng.chance(1, 2):
        g.emit({"op": "new", "v": 0, "m": m, "items": rand_items(rng, m, 3)})
    else:
        g.emit({"op": "new", "v": 0, "m": m})
    pos = rng.shuffle(range(m))
    own, det = pos[0], pos[1]
    own_name, det_name, app_name = g.fresh_name(), g.fresh_name(), g.fresh_name()
    g.emit({"op": "herald", "v": 0, "mode": own, "expected": rng.below(2), "name": own_name})
    # a heralded processor plugged legally: its herald becomes a new mode after the existing ones
    g.emit({"op": "new", "v": 1, "m": 2, "items": rand_items(rng, 2, 2)})
    g.emit({"op": "herald", "v": 1, "mode": rng.below(2), "expected": rng.below(2), "name": app_name})
    mp, _ = g.legal_mapping(0, 1, [i for i in range(2) if i not in g.env[1].heralds], 1, forms=["int", "list", "dict"])
    g.emit({"op": "proc", "v": 0, "map": mp, "w": 1, "keep": 1, "legal": True})
    if g.dead:
        return None
    appended = g.env[0].circuit_size - 1
    # a mode closed by a detector, with a port on it so that it can be named
    g.emit({"op": "port", "v": 0, "mode": det, "name": det_name, "enc": 0, "size": 1, "loc": rng.choice([1, 2])})
    g.emit({"op": "det", "v": 0, "mode": det, "d": rng.rint(1, 2)})
    if g.dead:
        return None
    size = g.env[0].circuit_size
    bad, bad_name = {"herald-own": (own, own_name), "herald-appended": (appended, app_name), "detector": (det, det_name),
                     "beyond": (size + rng.below(2), None), "negative": (-1 - rng.below(2), None)}[cause]
    if form == "name" and bad_name is None:
        return None
    # the right-hand side
    if right == "comp":
        lf = gen.rand_leaf(rng, 2, kinds=("BS", "PS", "U"))
        n, rmodes = lf.k, list(range(lf.k))
        stmt = {"op": "comp", "v": 0, "k": lf.k, "items": [(0, lf)], "keep": 1, "wrap": False}
    else:
        mr = rng.rint(1, 2) + (1 if right == "heralded-proc" else 0)
        g.emit({"op": "new", "v": 2, "m": mr, "items": rand_items(rng, mr, 3)})
        if right == "heralded-proc":
            g.emit({"op": "herald", "v": 2, "mode": rng.below(mr), "expected": rng.below(2), "name": 0})
        R = g.env[2]
        n, rmodes = R.m, [i for i in range(R.circuit_size) if i not in R.heralds]
        stmt = {"op": "proc", "v": 0, "w": 2, "keep": 1}
    ph = [x for x in g.photonic(0) if x != bad]
    if form == "int":
        # an offset whose span covers the unavailable mode
        cands = [o for o in range(bad - n + 1, bad + 1) if (cause == "negative" or o >= 0)]
        stmt["map"] = {"kind": "int", "b": rng.choice(cands)}
    else:
        if len(ph) < n - 1:
            return None
        chosen = rng.shuffle([bad] + rng.shuffle(ph)[:n - 1])
        if form == "list":
            stmt["map"] = {"kind": "list", "l": chosen}
        elif form == "dict":
            stmt["map"] = {"kind": "dict", "items": rng.shuffle(list(zip(chosen, rng.shuffle(rmodes))))}
        else:
            tg = rng.shuffle(rmodes)
            items = [(("n", bad_name), ("l", [tg[0]]) if rng.chance(1, 2) else tg[0])]
            items += list(zip([c for c in chosen if c != bad], tg[1:]))
            stmt["map"] = {"kind": "dict", "items": rng.shuffle(items)}
    stmt["legal"] = False
    stmt["kind"] = f"unavailable-mode:{cause}:{form}"
    stmt["cell"] = right
    g.emit(stmt)
    return g


def gen_program(rng, malformed):
    g = Gen(rng)
    g.build_processor(0, rng.rint(2, 6), "left")
    nplug = rng.rint(1, 3)
    w = 1
    for j in range(nplug):
        if g.dead:
            break
        last = j == nplug - 1
        if rng.chance(2, 5):
            if malformed and last:
                break_after = malformed_plug(rng, g, None)
                break
            g.plug_component(0)
        else:
            free = len(g.photonic(0))
            if free == 0:
                break
            multi = g.build_processor(w, rng.rint(1, min(4, free + 1)), "right")
            if g.dead:
                break
            if malformed and last:
                malformed_plug(rng, g, (w, multi))
                break
            g.plug_processor(0, w, multi)
            w += 1
    return g


def malformed_plug(rng, g, right):
    """Emit an illegal plug: generate a legal statement without executing it, mutate, execute."""
    shadow = Gen(rng)
    shadow.env, shadow.prog, shadow.trace = g.env, [], []
    shadow.next_name = g.next_name
    real_emit = shadow.emit
    captured = []
    shadow.emit = lambda s: captured.append(s) or True
    if right is None:
        shadow.plug_component(0, forms=["list", "list", "dict", "int"])
    else:
        shadow.plug_processor(0, right[0], right[1])
    if not captured:
        return
    for _ in range(6):
        r = mutate(rng, g, captured[0])
        if r is not None:
            g.emit(r[0])
            return
    return


# ------------------------------------------------------------------ corpus
def corpus():
    """Witnesses of the repaired defects (DESIGN §9 rows 13, 15: fixes 7bb2f795, c0ab6b50; name->int dictionary entry:
    2ff1ae25; port re-attached beyond the circuit, two histories: 6d353ebc), kept as regression guards; always run first."""
    from ..common import Ang
    bs = gen.Leaf("BS", 2, gen.bs_exact(0, Ang(3, 4, 5), [Ang(1, 0, 1)] * 4), (0, 2 * Ang(3, 4, 5).value, [0.0] * 4))
    ry = gen.Leaf("BS", 2, gen.bs_exact(1, Ang(5, 12, 13), [Ang(1, 0, 1)] * 4), (1, 2 * Ang(5, 12, 13).value, [0.0] * 4))
    ps1 = gen.Leaf("PS", 1, [[QI(0, 1)]], (Ang(0, 1, 1).value,))
    row13 = [{"op": "new", "v": 0, "m": 3},
             {"op": "comp", "v": 0, "map": {"kind": "list", "l": [0, 2]}, "k": 2, "items": [(0, bs)], "keep": 1, "legal": True}]
    right = [{"op": "new", "v": 1, "m": 4, "items": [(0, bs), (1, ry), (2, bs), (0, ps1)]},
             {"op": "herald", "v": 1, "mode": 1, "expected": 0, "name": 0},
             {"op": "ps", "v": 1, "ps": ("and", ("cmp", [0], "==", 1), ("cmp", [2, 3], "==", 1))}]
    row15 = [{"op": "new", "v": 0, "m": 6}] + right + \
            [{"op": "proc", "v": 0, "map": {"kind": "dict", "items": [(4, 0), (5, 2), (2, 3)]}, "w": 1, "keep": 1, "legal": True}]
    ok15 = [{"op": "new", "v": 0, "m": 4}] + right + \
           [{"op": "proc", "v": 0, "map": {"kind": "list", "l": [2, 0, 3]}, "w": 1, "keep": 1, "legal": True}]
    named = [{"op": "new", "v": 0, "m": 3},
             {"op": "port", "v": 0, "mode": 1, "name": 1, "enc": 0, "size": 1, "loc": 2},
             {"op": "port", "v": 0, "mode": 2, "name": 2, "enc": 0, "size": 1, "loc": 2},
             {"op": "comp", "v": 0, "map": {"kind": "dict", "items": [(("n", 1), 0), (("n", 2), 1)]}, "k": 2,
              "items": [(0, bs)], "keep": 1, "legal": True}]
    named_ok = named[:3] + [{"op": "comp", "v": 0, "map": {"kind": "dict", "items": [(("n", 2), ("l", [0])), (("n", 1), ("l", [1]))]},
                             "k": 2, "items": [(0, ry)], "keep": 1, "legal": True}]
    stick = [{"op": "new", "v": 0, "m": 2},
             {"op": "new", "v": 1, "m": 2, "items": [(0, ry)]},
             {"op": "port", "v": 1, "mode": 0, "name": 3, "enc": 1, "size": 2, "loc": 2},
             {"op": "proc", "v": 0, "map": {"kind": "list", "l": [1, 0]}, "w": 1, "keep": 1, "legal": True},
             {"op": "new", "v": 2, "m": 2, "items": [(0, bs)]},
             {"op": "herald", "v": 2, "mode": 1, "expected": 0, "name": 0},
             {"op": "proc", "v": 0, "map": {"kind": "int", "b": 0}, "w": 2, "keep": 1, "legal": True}]
    # second history of the same defect (first thorough run): a DUAL_RAIL port reversed by the mapping stuck out of
    # the circuit and the next plug by port name died in out_port_names (IndexError) instead of being refused
    hist = [{"op": "new", "v": 0, "m": 3},
            {"op": "new", "v": 1, "m": 3, "items": [(0, bs), (1, ry)]},
            {"op": "port", "v": 1, "mode": 0, "name": 2, "enc": 1, "size": 2, "loc": 2},
            {"op": "proc", "v": 0, "map": {"kind": "dict", "items": [(0, 2), (2, 0), (1, 1)]}, "w": 1, "keep": 1, "legal": True},
            {"op": "new", "v": 2, "m": 3, "items": [(0, ry)]},
            {"op": "herald", "v": 2, "mode": 0, "expected": 0, "name": 0},
            {"op": "proc", "v": 0, "map": {"kind": "dict", "items": [(("n", 2), ("l", [1])), (("n", 4), 2)]}, "w": 2,
             "keep": 0, "legal": False, "kind": "unknown-name"}]
    return [row13, row15, ok15, named, named_ok, stick, hist]


def is_weird_plug(s):
    return s["op"] in ("comp", "proc") and s.get("legal")


def shrink(ctx, prog, sig):
    """Delete statements (never the last one) while the same failure signature persists."""
    cur = list(prog)
    guard = None
    if sig.startswith("illegal-mapping-accepted:unavailable-mode"):
        guard = still_unavailable   # deletions are kept only while the last mapping still aims at an unavailable mode
    elif sig.startswith(("legal-", "illegal-")):
        return cur          # the legality label was computed on the generated program: deletions could falsify it
    changed = True
    budget = 60
    while changed and budget > 0:
        changed = False
        for i in range(len(cur) - 2, -1, -1):
            cand = cur[:i] + cur[i + 1:]
            budget -= 1
            if budget <= 0:
                break
            try:
                rs = check_program(ctx, cand) if guard is None or guard(cand) else []
            except Exception:
                rs = []
            if any(r[1] == sig and r[0] == len(cand) - 1 for r in rs):
                cur = cand
                changed = True
    return cur


def still_unavailable(prog):
    """Independent legality oracle for the last plug of a program: does its mapping name a mode of the left processor
    that is negative, beyond the circuit or not photonic (white-box read of _mode_type, not of is_mode_connectible)?"""
    from perceval.utils import ModeType
    env = {}
    for st in prog[:-1]:
        if st["op"] != "new" and st["v"] not in env:
            return False
        if st["op"] == "proc" and st["w"] not in env:
            return False
        ok, _ = impl_step(env, st)
        if not ok:
            return False
    s = prog[-1]
    if s["op"] not in ("comp", "proc") or s["v"] not in env or (s["op"] == "proc" and s["w"] not in env):
        return False
    E = env[s["v"]].experiment
    n = s["k"] if s["op"] == "comp" else env[s["w"]].m
    mp = s["map"]
    if mp["kind"] == "int":
        keys = list(range(mp["b"], mp["b"] + n))
    elif mp["kind"] == "list":
        keys = list(mp["l"])
    else:
        keys = []
        for k, _ in mp["items"]:
            if isinstance(k, tuple):
                for port, r in E._out_ports.items():
                    if port.name == f"p{k[1]}":
                        keys += list(r)
            else:
                keys.append(k)
    return any(k < 0 or k >= E.circuit_size or E._mode_type[k] != ModeType.PHOTONIC for k in keys)


def check_program(ctx, prog, trace=None):
    # a program that references an undefined variable is not a candidate (shrinking)
    defined = set()
    for s in prog:
        if s["op"] == "new":
            defined.add(s["v"])
        elif s["v"] not in defined or (s["op"] == "proc" and s["w"] not in defined):
            return []
    mo = ctx.model.run([(1000, model_requests(prog))], jobs=1)[0]
    return compare(ctx, prog, model_split(prog, mo), trace)


def run(ctx):
    rng = ctx.rng
    n_valid = ctx.n(260, 4000)
    n_bad = ctx.n(90, 1200)
    progs = [(p, None, "corpus", True) for p in corpus()]
    for i in range(n_valid):
        g = gen_program(rng.fork(("v", i)), False)
        progs.append((g.prog, g.trace, "valid", g.nontrivial))
        if g.nontrivial:
            ctx.count("nontrivial_programs")
    for i in range(n_bad):
        g = gen_program(rng.fork(("m", i)), True)
        progs.append((g.prog, g.trace, "malformed", False))
    n_grid = 0
    for rep_i in range(ctx.n(1, 6)):
        for cause in CAUSES:
            for form in FORMS:
                for right in RIGHTS:
                    g = gen_unavailable(rng.fork(("u", rep_i, cause, form, right)), cause, form, right)
                    if g is not None and g.prog and g.prog[-1].get("legal") is False:
                        progs.append((g.prog, g.trace, "unavailable-grid", False))
                        ctx.count(f"unavailable.{cause}.{form}.{right}")
                        n_grid += 1
    reqs = [(1000, model_requests(p)) for p, _, _, _ in progs]
    outs = ctx.model.run(reqs)
    shrunk = set()
    for (p, tr, stream, nt), mo in zip(progs, outs):
        text = [show_stmt(s) for s in p]
        for s in p:
            ctx.count("op." + s["op"])
            if "map" in s:
                ctx.count("mapping." + plug_shape(s) + ("" if s.get("legal", True) else ":illegal:" + str(s.get("kind"))))
        ctx.count("stream." + stream)
        if tr is None:
            tr = impl_run(p)
        rs = compare(ctx, p, model_split(p, mo), tr)
        ctx.case([stmt_key(s) for s in p], nt, {"program": text})
        for (ok, exc, _), s in zip(tr, p):
            if s["op"] in ("comp", "proc"):
                ctx.count(f"plug.{s['op']}." + ("accepted" if ok else f"rejected.{exc}"))
        for r in rs:
            idx, sig, what, exp, obs = r
            if sig in shrunk:
                ctx.fail(sig, what, {"program": text[:idx + 1], "failing_statement_index": idx}, exp, obs)
                continue
            shrunk.add(sig)
            small = shrink(ctx, p[:idx + 1], sig)
            r2 = next((x for x in check_program(ctx, small) if x[1] == sig), r) if len(small) < idx + 1 else r
            ctx.fail(sig, r2[2], {"program": [show_stmt(s) for s in small], "failing_statement_index": r2[0]}, r2[3], r2[4])
    ctx.streams["valid programs"] = n_valid
    ctx.streams["malformed plugs"] = n_bad
    ctx.streams["corpus"] = len(corpus())
    ctx.streams["unavailable modes (cause x mapping form x right-hand side)"] = n_grid
    # generate_permutation alone: all injective key sets of small size, against the real static method
    exhaustive_genperm(ctx)
    sample = reqs[len(corpus()):len(corpus()) + (2 if ctx.quick() else 20)]
    a = ctx.model.run(sample, jobs=1)
    b = ctx.model.vm_crosscheck(sample, "c10")
    ctx.count("vm_compute_crosscheck", len(sample))
    if a != b:
        ctx.fail("extraction-vs-vm_compute", "extracted runner and vm_compute disagree", {"n": len(sample)})


def exhaustive_genperm(ctx):
    """ModeConnector.generate_permutation on every injective mapping of c in 1..3 right modes into 0..4."""
    import itertools
    from perceval.components._mode_connector import ModeConnector
    cases = []
    for c in range(1, 4):
        for ks in itertools.permutations(range(5), c):
            for vs in itertools.permutations(range(c)):
                cases.append(list(zip(ks, vs)))
    outs = ctx.model.run([(1002, [[k, v] for k, v in m]) for m in cases])
    for m, o in zip(cases, outs):
        d = dict(m)
        modes, perm = ModeConnector.generate_permutation(d)
        pv = perm.perm_vector if perm is not None else list(range(len(modes)))
        inv = None
        if perm is not None:
            pi = perm.copy()
            pi.inverse(h=True)
            inv = pi.perm_vector
        ctx.count("generate_permutation.exhaustive")
        wired = all(pv[k - modes[0]] == v for k, v in m)
        if o[0] != modes[0] or o[1] != pv or o[2] != 1 or (inv is not None and o[3] != inv) or not wired:
            ctx.fail("generate_permutation", "generate_permutation differs from the model or does not wire a mapped mode",
                     {"mapping": m}, [o[0], o[1], o[3]], [modes[0], pv, inv])
            break
    ctx.streams["generate_permutation exhaustive (<=3 of 5 modes)"] = len(cases)


def replay(ctx, case):
    print(json.dumps(case, indent=1, default=str))
