"""C05 - results depend on the current configuration only, never on call history.

One long-lived object (engine, Simulator, Stepper, Processor) serves a history of mutators and queries in a
child process; after every query the observable is compared with
 (i)   a freshly constructed object given only the final configuration (the property itself, model-free),
 (ii)  the extracted machine of coq/Model/CacheMachine.v (faithful = model of the caches; repaired = fresh),
 (iii) the white-box cache key sets (_fsas, _fsms, _mk_l, _state_mapping, _cache_iterator, _cutoff) of the machine.
"""
from __future__ import annotations
import json
import math
import os
import subprocess
import sys
from concurrent.futures import ThreadPoolExecutor
from fractions import Fraction

from ..common import QI, Rng, un_q, VERIF
from .. import gen

LEVEL = "proof"
RULE = ("histories of public mutators and queries on ONE object: all histories of length <= 4 over a reduced "
        "alphabet (two same-size circuits, one larger, two inputs with different photon numbers, set_mask, "
        "clear_mask, prob_distribution) for SLOS (length <= 3 for Naive/SLAP/MPS), random histories of length <= 8 "
        "over circuits of 2..3 modes built from exact BS/PS blocks, inputs of 0..3 photons, one or two mask strings "
        "with or without an explicit n, cutoffs (MPS), all query kinds; Simulator: set_circuit/heralds/"
        "postselection/filter + probs/evolve/probs_svd; Stepper and Processor: parameter, noise, filter, input, "
        "added component + probs. Every query is compared with a fresh object built from the final configuration. "
        "Non-trivial: the history contains a size change, a photon-number change, a mask/herald change or a "
        "parameter change before the query; distinct by the history itself.")
TRUSTED = ["model: coq/Model/CacheMachine.v (hand-written from _slos.py, _abstract_backends.py, _mps.py, simulator.py; "
           "tied by this correspondence stream: outputs and white-box cache keys after every operation)",
           "native exqalibur behaviour (FSArray order, FSMask rule, FSMap over an empty parent array = crash) is "
           "modelled, not verified"]
ASSUMPTIONS = ["time-delay components (TD) are not in the Processor alphabet (loss and polarisation layers are)",
               "the keyed-cache theorems say that a cache entry is a function of the configuration it was computed under; that "
               "a query does not modify an entry in place is covered by the repeated-query stream (the same superposed "
               "input twice in a row, then superpositions sharing basic states, each against a fresh Simulator)",
               "Simulator: the model covers the invalidation policy of _evolve (circuit, heralds, mask usability) and the "
               "leftover engine mask; the values probs_svd / evolve compute from the cache (merging, post-selection, "
               "detectors, performances) are covered by the implementation-vs-fresh-implementation stream only",
               "the fresh object is configured in the order set_circuit, set_cutoff, set_mask, set_input_state",
               "floating point: absolute tolerance 1e-9 (MPS: 1e-7)",
               "a raising mutator ends a history (the object may be half-updated)"]
EXPLANATION = ("coherence of the cached state with the configuration is proved by invariant induction over all "
               "histories for the SLOS machine of the current code ((fixA, fixB) = (true, true), /repo 1c6530fa), the "
               "keyed caches, the MPS bond dimension (3d5f407f) and the Simulator leftover mask (bc7ab4f9); the witnesses "
               "of the code before those commits (and before f2cccc2b) are _old_code theorems and regression histories of "
               "this driver; still open: Processor default filter stored by the first query")

WORKER = os.path.join(os.path.dirname(os.path.abspath(__file__)), "c05_worker.py")
TOL = 1e-9


# ------------------------------------------------------------------------------------------------ child processes
class Child:
    """A long-lived worker process (importing perceval costs seconds); restarted when it dies."""

    def __init__(self):
        self.p = None

    def start(self):
        env = dict(os.environ)
        env["PYTHONPATH"] = os.environ.get("VERIF_REPO", "/repo")
        env.setdefault("OMP_NUM_THREADS", "1")
        self.p = subprocess.Popen(["/venv/bin/python", WORKER], stdin=subprocess.PIPE, stdout=subprocess.PIPE,
                                  stderr=subprocess.DEVNULL, env=env)
        self.p.stdout.readline()            # {"ready": true}

    def run(self, job):
        """-> (finished_normally, records). EOF before the done marker = the child died."""
        if self.p is None or self.p.poll() is not None:
            self.start()
        recs = []
        try:
            self.p.stdin.write((json.dumps(job) + "\n").encode())
            self.p.stdin.flush()
        except (BrokenPipeError, OSError):
            self.kill()
            return False, recs
        while True:
            line = self.p.stdout.readline()
            if not line:
                rc = self.p.wait()
                self.p = None
                return False, recs
            try:
                r = json.loads(line)
            except ValueError:
                continue
            if r.get("done"):
                return True, recs
            recs.append(r)

    def kill(self):
        if self.p is not None:
            try:
                self.p.kill()
                self.p.wait()
            except Exception:
                pass
            self.p = None


import queue as _queue
import atexit as _atexit
POOL = _queue.Queue()
POOL_SIZE = 10
_ALL = []


def _get_child():
    try:
        return POOL.get_nowait()
    except _queue.Empty:
        c = Child()
        _ALL.append(c)
        return c


@_atexit.register
def _cleanup():
    for c in _ALL:
        c.kill()


def run_chunk(target, circuits, hists, indices, whitebox):
    """Runs the histories in one child; a child that dies is restarted after the history that killed it.
    Returns {index: [step results]} with {"c": "crash"} for the step that killed the child."""
    out = {}
    todo = list(zip(indices, hists))
    child = _get_child()
    try:
        while todo:
            ok, recs = child.run({"target": target, "circuits": circuits, "histories": [h for _, h in todo],
                                  "indices": [i for i, _ in todo], "whitebox": whitebox})
            done = set()
            cur = {}
            for r in recs:
                if r.get("end"):
                    done.add(r["i"])
                else:
                    cur.setdefault(r["i"], []).append(r)
            rest = []
            killed = False
            for i, h in todo:
                if i in done:
                    out[i] = cur.get(i, [])
                elif not killed:
                    # first unfinished history: the child died while executing its next step
                    steps = cur.get(i, [])
                    steps.append({"k": len(steps), "c": "crash"})
                    out[i] = steps
                    killed = True
                else:
                    rest.append((i, h))
            todo = rest
    finally:
        POOL.put(child)
    return out


def run_histories(target, circuits, hists, whitebox=False, jobs=POOL_SIZE):
    if not hists:
        return []
    jobs = max(1, min(jobs, POOL_SIZE, len(hists) // 4 or 1))
    idx = list(range(len(hists)))
    chunks = [(idx[j::jobs], [hists[i] for i in idx[j::jobs]]) for j in range(jobs)]
    res = {}
    with ThreadPoolExecutor(jobs) as ex:
        for part in ex.map(lambda c: run_chunk(target, circuits, c[1], c[0], whitebox), chunks):
            res.update(part)
    return [res[i] for i in idx]


# ------------------------------------------------------------------------------------------------ values
def same_value(a, b, tol=TOL):
    if isinstance(a, dict) and isinstance(b, dict):
        return a.keys() == b.keys() and all(same_value(a[k], b[k], tol) for k in a)
    if isinstance(a, (list, tuple)) and isinstance(b, (list, tuple)):
        if a and isinstance(a[0], list) and a[0] and isinstance(a[0][0], list):     # [[state, x...], ...]: as maps
            da = {tuple(r[0]): r[1:] for r in a}
            db = {tuple(r[0]): r[1:] for r in b}
            keys = set(da) | set(db)
            for k in keys:
                x = da.get(k, [0.0] * len(next(iter((da or db).values()))))
                y = db.get(k, [0.0] * len(x))
                if not same_value(x, y, tol):
                    return False
            return True
        return len(a) == len(b) and all(same_value(x, y, tol) for x, y in zip(a, b))
    if isinstance(a, (int, float)) and isinstance(b, (int, float)):
        return abs(a - b) <= tol
    return a == b


def same_step(a, b, tol=TOL):
    if a["c"] != b["c"]:
        return False
    if a["c"] != "ok":
        return True                       # both rejected (the exception type is not part of the observable)
    return same_value(a.get("v"), b.get("v"), tol)


def same_sv_up_to_phase(a, b, tol):
    """StateVector outputs: equal as lists (no global phase freedom is granted)."""
    return same_value(a, b, tol)


# ------------------------------------------------------------------------------------------------ circuits
class Circ:
    def __init__(self, m, comps):
        self.m = m
        self.comps = comps                     # [(offset, gen.Leaf)]
        U = gen.qmat_id(m)
        for off, leaf in comps:
            U = gen.qmat_mul(gen.qmat_embed(m, off, leaf.U), U)
        self.U = U

    def desc(self):
        out = []
        for off, lf in self.comps:
            if lf.kind == "BS":
                cv, th, ph = lf.args
                out.append([off, "BS", [cv, th, list(ph)]])
            elif lf.kind == "PS":
                out.append([off, "PS", [lf.args[0]]])
            else:
                out.append([off, "PERM", [list(lf.args[0])]])
        return {"m": self.m, "comps": out}


def rand_circ(rng: Rng, m: int) -> Circ:
    comps = []
    for _ in range(rng.rint(m, m + 2)):
        lf = gen.rand_leaf(rng, 2, kinds=("BS", "BS", "BS", "PS"))
        comps.append((rng.below(m - lf.k + 1), lf))
    return Circ(m, comps)


def deep_circ(rng: Rng, m: int) -> Circ:
    """Three brick-work layers of non-trivial beam splitters: enough entanglement for an MPS truncation to matter."""
    comps = []
    for layer in range(3):
        for off in list(range(0, m - 1, 2)) + list(range(1, m - 1, 2)):
            comps.append((off, gen.rand_leaf(rng, 2, kinds=("BS",))))
    return Circ(m, comps)


def mask_to_model(s):
    return [(-1 if ch in "* " else int(ch)) for ch in s]


# ------------------------------------------------------------------------------------------------ backend histories
class BCfg:
    """The configuration of an engine as the history's mutators define it."""

    def __init__(self):
        self.circ = None
        self.mask = None            # (strs, n)
        self.cutoff = None
        self.inp = None
        self.opts = None            # constructor options that are not reachable through a mutator (use_symbolic)

    def apply(self, op):
        k = op[0]
        if k == "new":              # constructor options: mask / cutoff are the same settings as set_mask / set_cutoff
            o = dict(op[1])
            if "mask" in o:
                self.mask = ([o.pop("mask")], None)
            if "cutoff" in o:
                self.cutoff = o.pop("cutoff")
            self.opts = o or None
        elif k == "circ":
            self.circ, self.inp = op[1], None
        elif k == "in":
            self.inp = list(op[1])
        elif k == "mask":
            self.mask = (list(op[1]), op[2])
        elif k == "clear":
            self.mask = None
        elif k == "cutoff":
            self.cutoff, self.inp = op[1], None     # the compiled state is not rebuilt: the input has to be set again
        elif k == "q" and op[1] == "allprob_in":
            self.inp = list(op[2])

    def fresh(self, q):
        h = []
        if self.opts:
            h.append(["new", self.opts])
        if self.circ is not None:
            h.append(["circ", self.circ])
        if self.cutoff is not None:
            h.append(["cutoff", self.cutoff])
        if self.mask is not None:
            h.append(["mask", self.mask[0], self.mask[1]])
        if self.inp is not None and not (q[1] == "allprob_in"):
            h.append(["in", self.inp])
        h.append(q)
        return h


def rand_mask(rng, m):
    strs = []
    for _ in range(1 if rng.chance(3, 4) else 2):
        strs.append("".join("*" if rng.chance(3, 5) else str(rng.below(3)) for _ in range(m)))
    n = None if rng.chance(2, 3) else rng.below(4)
    return ["mask", strs, n]


def rand_backend_history(rng, circs, name, maxlen=8, nmax=3, opts=None, pool=None,
                         qkinds=("amp", "dist", "dist", "allprob", "evolve", "allprob_in")):
    """opts: constructor options forced on the engine (use_symbolic); mask (SLOS) and cutoff (MPS) given to the
    constructor are drawn here; pool: indices of the circuits to use."""
    h = []
    m = None
    have_in = False
    n_cur = 0
    L = rng.rint(3, maxlen)
    pool = list(range(len(circs))) if pool is None else pool
    first = rng.choice(pool)
    m = circs[first].m
    o = dict(opts or {})
    if name == "SLOS" and rng.chance(1, 6):
        o["mask"] = rand_mask(rng, m)[1][0]
    if name == "MPS" and rng.chance(1, 4):
        o["cutoff"] = rng.rint(1, 6)
    if o:
        h.append(["new", o])
    h.append(["circ", first])
    while len(h) < L:
        r = rng.below(20)
        if r < 2:
            i = rng.choice(pool)
            if circs[i].m != m and rng.chance(1, 2):
                h.append(["clear"])          # a mask of the old length would make the next input illegal
            h.append(["circ", i])
            m = circs[i].m
            have_in = False
        elif r < 8:
            n_cur = rng.rint(0, nmax)
            h.append(["in", gen.rand_state(rng, m, n_cur)])
            have_in = True
        elif r < 11:
            h.append(rand_mask(rng, m))
        elif r < 12:
            h.append(["clear"])
        elif r < 13 and name == "MPS":
            h.append(["cutoff", rng.rint(1, 6)])
            have_in = False
        elif r < 13 and rng.chance(1, 3):
            # malformed: an input of the wrong size / a mask of the wrong length while an input is set (both raise
            # and end the history)
            if rng.chance(1, 2) or not have_in:
                h.append(["in", gen.rand_state(rng, m + 1, rng.rint(1, 2))])
            else:
                h.append(["mask", ["*" * (m + 1)], None])
            break
        elif have_in:
            q = rng.choice(list(qkinds))
            if q in ("amp", "prob"):
                nn = n_cur if rng.chance(5, 6) else rng.rint(0, nmax)
                h.append(["q", q, gen.rand_state(rng, m, nn)])
            elif q == "allprob_in":
                n_cur = rng.rint(0, nmax)
                h.append(["q", "allprob_in", gen.rand_state(rng, m, n_cur)])
            else:
                h.append(["q", q])
    if have_in and h[-1][0] != "q":
        h.append(["q", "dist"])
    return h


def rand_swap_history(rng, circs, pool, opts, nmax=2, qkinds=("amp", "prob")):
    """Same-size circuit swaps on an engine that has already deployed inputs (the paths are kept and their coefficients
    recomputed), each followed by the inputs again and point queries."""
    m = circs[pool[0]].m
    h = [["new", dict(opts)]] if opts else []
    states = [gen.rand_state(rng, m, rng.rint(1, nmax)) for _ in range(2)]
    for r in range(rng.rint(2, 3)):
        h.append(["circ", rng.choice(pool)])
        for st in (states if rng.chance(1, 2) else states[:1]):
            h.append(["in", st])
            for _ in range(rng.rint(1, 2)):
                h.append(["q", rng.choice(list(qkinds)), gen.rand_state(rng, m, sum(st))])
    return h


def exhaustive_histories(maxlen, circ_ids):
    """set_circuit(A) followed by every word of length <= maxlen over the reduced alphabet (inputs and masks
    adapt to the current size)."""
    alpha = ["A", "B", "C", "a", "b", "m", "c", "q"]
    words = [["A"]]
    out = []
    for _ in range(maxlen):
        words = [w + [x] for w in words for x in alpha]
        out.extend(words)
    return out


def expand_word(word, circs, circ_ids):
    A, B, C = circ_ids
    h = []
    m = None
    for x in word:
        if x in "ABC":
            i = {"A": A, "B": B, "C": C}[x]
            h.append(["circ", i])
            m = circs[i].m
        elif m is None:
            return None                       # input / mask / query before any circuit: skipped (never legal)
        elif x == "a":
            h.append(["in", [1] + [0] * (m - 1)])
        elif x == "b":
            h.append(["in", [1, 1] + [0] * (m - 2)])
        elif x == "m":
            h.append(["mask", ["*1" + "*" * (m - 2)], None])
        elif x == "c":
            h.append(["clear"])
        else:
            h.append(["q", "dist"])
    return h


# ------------------------------------------------------------------------------------------------ model side (SLOS)
def model_ops(h, circs):
    ops = []
    for op in h:
        k = op[0]
        if k == "new":      # a mask given to the constructor is set_mask; otherwise nothing (clear_mask on a new engine)
            ops.append([2, [mask_to_model(op[1]["mask"])], -1] if "mask" in op[1] else [3])
        elif k == "circ":
            c = circs[op[1]]
            ops.append([0, c.m, c.U])
        elif k == "in":
            ops.append([1, list(op[1])])
        elif k == "mask":
            ops.append([2, [mask_to_model(s) for s in op[1]], -1 if op[2] is None else op[2]])
        elif k == "clear":
            ops.append([3])
        elif k == "q":
            q = op[1]
            if q == "allprob_in":
                ops.append([1, list(op[2])])
                ops.append([4, 2, []])
            else:
                ops.append([4, {"amp": 0, "dist": 1, "allprob": 2, "evolve": 3}[q], list(op[2]) if q == "amp" else []])
    return ops


def fact_prod(s):
    p = 1
    for x in s:
        p *= math.factorial(x)
    return p


def cqi(x):
    return complex(float(un_q(x[0])), float(un_q(x[1])))


def model_out_to_step(o, q):
    """Model output -> the worker's observable for query kind q (None for mutators)."""
    tag = o[0]
    if tag == 0:
        return {"c": "ok"}
    if tag == 1:
        return {"c": "err"}
    if tag == 2:
        return {"c": "crash"}
    if tag == 3:
        return {"c": "ok", "v": [0.0, 0.0]}
    if tag == 4:
        c, t, s = cqi(o[1]), o[2], o[3]
        a = c * math.sqrt(fact_prod(t) / fact_prod(s))
        return {"c": "ok", "v": [a.real, a.imag]}
    rows, s = o[1], o[2]
    fs = fact_prod(s)
    if q in ("dist",):
        acc = {}
        for lab, c, fa in rows:
            p = abs(cqi(c)) ** 2 * fact_prod(fa) / fs
            acc[tuple(lab)] = acc.get(tuple(lab), 0.0) + p
        return {"c": "ok", "v": sorted([[list(k), p] for k, p in acc.items() if abs(p) > 1e-12])}
    if q in ("allprob", "allprob_in"):
        return {"c": "ok", "v": [abs(cqi(c)) ** 2 * fact_prod(fa) / fs for _, c, fa in rows]}
    acc = {}
    for lab, c, fa in rows:
        a = cqi(c) * math.sqrt(fact_prod(lab) / fs)
        acc[tuple(lab)] = acc.get(tuple(lab), 0j) + a
    nrm = math.sqrt(sum(abs(a) ** 2 for a in acc.values()))
    if nrm > 0:
        acc = {k: a / nrm for k, a in acc.items()}
    return {"c": "ok", "v": sorted([[list(k), a.real, a.imag] for k, a in acc.items() if abs(a) > 1e-12])}


def model_wb(w):
    return {"fsas_count": sorted([list(e) for e in w[0]]), "nfsms": w[1], "mk_l": list(w[2]),
            "mapped": sorted(list(s) for s in w[3]), "it": sorted(w[4]), "has_mask": bool(w[5]),
            "closed": bool(w[7])}


def slos_model_steps(ctx, hists, circs, fix):
    """Per history: list aligned with the history's steps of (predicted observable, predicted white box)."""
    reqs = [(500, [fix, fix, model_ops(h, circs)]) for h in hists]
    outs = ctx.model.run(reqs)
    res = []
    for h, out in zip(hists, outs):
        steps = []
        j = 0
        for op in h:
            if op[0] == "q" and op[1] == "allprob_in":
                o_in, o_q = out[j], out[j + 1]
                j += 2
                st = model_out_to_step(o_q[0], "allprob") if o_in[0][0] == 0 else model_out_to_step(o_in[0], None)
                steps.append((st, model_wb(o_q[1])))
            else:
                o = out[j]
                j += 1
                steps.append((model_out_to_step(o[0], op[1] if op[0] == "q" else None), model_wb(o[1])))
        res.append(steps)
    return res


# ------------------------------------------------------------------------------------------------ classification
def slos_signature(hstep, fstep, cfg, hist=()):
    under = "under-mask" if cfg.mask is not None else "no-mask"
    if hstep["c"] == "crash":
        vacuum_first = any((op[0] == "in" and sum(op[1]) == 0) or
                           (op[0] == "q" and op[1] == "allprob_in" and sum(op[2]) == 0) for op in hist)
        if vacuum_first and cfg.mask is not None and cfg.mask[1]:
            return "slos-crash-vacuum-input-first-under-mask-with-explicit-n"
        return f"slos-crash-levels-of-another-mask-instance-{under}"
    if hstep["c"] == "err" and fstep["c"] == "ok":
        if hstep.get("e") == "KeyError":
            return "slos-keyerror-query-after-mask-change-with-input-set"
        return f"slos-index-mismatch-after-photon-number-change-{under}"
    if hstep["c"] == "ok" and fstep["c"] == "ok":
        return (f"slos-stale-levels-after-photon-number-growth-{under}" if cfg.mask is not None
                else "slos-value-differs-from-fresh-no-mask")
    return f"slos-other-{hstep['c']}-vs-{fstep['c']}-{under}"


def generic_signature(name, hstep, fstep):
    if hstep["c"] == "crash":
        return f"{name}-crash"
    if hstep["c"] != fstep["c"]:
        return f"{name}-{hstep['c']}-where-fresh-{fstep['c']}"
    return f"{name}-value-differs-from-fresh"


def nontrivial_history(h, k):
    """A size, photon-number, mask, cutoff, herald or parameter change precedes the query at step k."""
    kinds = [op[0] for op in h[:k]]
    n_in = len({tuple(op[1]) if op[0] == "in" else None for op in h[:k] if op[0] == "in"})
    return kinds.count("circ") > 1 or n_in > 1 or any(x in kinds for x in
                                                     ("mask", "clear", "cutoff", "heralds", "param", "noise", "add", "new", "selection", "precision",
                                                      "filter", "postselect", "clear_heralds", "pinput"))


# ------------------------------------------------------------------------------------------------ shrinking
def shrink(history, k, failing_subset):
    """Delete operations (keeping the query at the end) while the same signature persists.
    failing_subset(list of candidate histories) -> indices of the candidates that still fail the same way."""
    h = history[:k + 1]
    while len(h) > 1:
        cands = [h[:i] + h[i + 1:] for i in range(len(h) - 1)]
        good = failing_subset(cands)
        if not good:
            break
        h = cands[good[0]]
    return h


# ------------------------------------------------------------------------------------------------ engine stream
def check_backend_stream(ctx, name, circs, hists, stream, with_model, variant=""):
    target = "backend:" + name
    cdesc = [c.desc() for c in circs]
    tol = 1e-7 if name == "MPS" else TOL
    res = run_histories(target, cdesc, hists, whitebox=True)
    # fresh objects: one per query step (deduplicated)
    fresh_req = {}
    per_query = []
    for hi, (h, steps) in enumerate(zip(hists, res)):
        cfg = BCfg()
        for k, op in enumerate(h):
            if k >= len(steps):
                break
            if op[0] == "q":
                if op[1] == "allprob_in":
                    cfg.apply(op)
                fh = cfg.fresh(op)
                key = json.dumps(fh)
                fresh_req.setdefault(key, fh)
                per_query.append((hi, k, key, (cfg.circ, cfg.mask, cfg.cutoff, cfg.inp)))
            else:
                if steps[k]["c"] == "ok":
                    cfg.apply(op)
                elif steps[k]["c"] == "crash":
                    # a mutator killed the child: probe the same configuration on a fresh engine
                    cfg.apply(op)
                    probe = ["q", "dist"]
                    fh = cfg.fresh(probe)
                    key = json.dumps(fh)
                    fresh_req.setdefault(key, fh)
                    hists[hi] = h[:k + 1] + [probe]
                    steps.append(dict(steps[k], k=k + 1))
                    per_query.append((hi, k + 1, key, (cfg.circ, cfg.mask, cfg.cutoff, cfg.inp)))
                    break
    keys = list(fresh_req)
    fres = run_histories(target, cdesc, [fresh_req[k] for k in keys], whitebox=False)
    fresh = {k: (r[-1] if r else {"c": "crash"}) for k, r in zip(keys, fres)}
    # a fresh history may itself stop early (raising mutator): then the query was not reached -> class err
    for k, r in zip(keys, fres):
        if len(r) < len(fresh_req[k]):
            fresh[k] = {"c": r[-1]["c"] if r and r[-1]["c"] == "crash" else "err"}
    # the code as it is now = the machine with the three repairs (/repo 1c6530fa, f2cccc2b); 0 = the code before them
    model = slos_model_steps(ctx, hists, circs, 1) if with_model else None
    repaired = model

    def fails_like(sig):
        def f(cands):
            rs = run_histories(target, cdesc, cands, whitebox=False, jobs=4)
            cfgs, fhs = [], []
            for cand, r in zip(cands, rs):
                c2 = BCfg()
                for kk, op in enumerate(cand[:-1]):
                    if kk < len(r) and r[kk]["c"] == "ok":
                        c2.apply(op)
                if cand[-1][1] == "allprob_in":
                    c2.apply(cand[-1])
                cfgs.append(c2)
                fhs.append(c2.fresh(cand[-1]))
            frs = run_histories(target, cdesc, fhs, whitebox=False, jobs=4)
            good = []
            for i, (cand, r, c2, fh, fr) in enumerate(zip(cands, rs, cfgs, fhs, frs)):
                if len(r) < len(cand) and not (r and r[-1]["c"] == "crash"):
                    continue
                hs = r[-1]
                fs = fr[-1] if len(fr) == len(fh) else {"c": "err"}
                if same_step(hs, fs, tol):
                    continue
                s2 = (slos_signature(hs, fs, c2, cand) if name == "SLOS"
                      else generic_signature(name.lower(), hs, fs)) + variant
                if s2 == sig:
                    good.append(i)
                    seen_pairs[json.dumps(cand)] = (hs, fs, fh)
            return good
        return f

    seen_pairs = {}

    reported = set()
    for hi, k, key, cfgt in per_query:
        h = hists[hi]
        hs = res[hi][k]
        fs = fresh[key]
        nt = nontrivial_history(h, k)
        ctx.case([name, h[:k + 1]], nt, {"engine": name, "history": h[:k + 1], "fresh": fresh_req[key]}
                 if nt else None)
        ctx.count(f"{name}.{h[k][1]}")
        ctx.count(f"{name}.class.{hs['c']}")
        if not same_step(hs, fs, tol):
            cfg = BCfg()
            cfg.circ, cfg.mask, cfg.cutoff, cfg.inp = cfgt
            sig = (slos_signature(hs, fs, cfg, h[:k + 1]) if name == "SLOS"
                   else generic_signature(name.lower(), hs, fs)) + variant
            ctx.count(f"{name}.differs-from-fresh")
            if sig not in reported:
                reported.add(sig)
                hh = h[:k + 1]
                hh = shrink(h, k, fails_like(sig))
                hs2, fs2, fh2 = seen_pairs.get(json.dumps(hh), (hs, fs, fresh_req[key]))   # of the shrunk history
                ctx.fail(sig, f"{name}: the result after this history differs from a fresh engine given the final "
                              f"configuration", {"engine": name, "history": hh, "fresh": fh2,
                                                 "circuits": {str(op[1]): cdesc[op[1]] for op in hh if op[0] == "circ"}},
                         expected=fs2, observed={kk: vv for kk, vv in hs2.items() if kk != "w"})
    # (ii) + (iii): the machine's prediction, step by step (the faithful machine models the history dependence)
    if with_model:
        bad_model = 0
        for hi, h in enumerate(hists):
            dead = False
            for k, op in enumerate(h):
                if k >= len(res[hi]):
                    break
                hs = res[hi][k]
                ms, mw = model[hi][k]
                if dead:
                    break
                if not mw["closed"] and ms["c"] != "crash":
                    # an FSMap was built over a parent level of another mask instance: the native result is
                    # unspecified (wrong coefficients, possibly a crash); only the fresh comparison (i) applies
                    ctx.count("SLOS.model-unspecified-steps")
                    if hs["c"] == "crash":
                        dead = True
                    continue
                if ms["c"] == "crash" or hs["c"] == "crash":
                    dead = True
                    ctx.count("SLOS.model-crash-steps")
                    if ms["c"] != hs["c"]:
                        bad_model += 1
                        if "slos-model-crash" not in reported:
                            reported.add("slos-model-crash")
                            ctx.fail("slos-model-mismatch-crash", "the machine and the engine disagree on a native crash",
                                     {"history": h[:k + 1]}, expected=ms, observed={a: b for a, b in hs.items() if a != "w"})
                    continue
                ok = same_step(ms, hs, tol) if op[0] == "q" else (ms["c"] == hs["c"])
                if ok and hs["c"] == "ok" or (ok and op[0] == "q"):
                    w = hs.get("w", {})
                    for f in ("fsas_count", "nfsms", "mk_l", "mapped", "it", "has_mask"):
                        if f in w and w[f] != mw[f]:
                            ok = False
                            ms = dict(ms, whitebox_field=f, model=mw[f], engine=w[f])
                            break
                ctx.count("SLOS.model-steps")
                if not ok:
                    bad_model += 1
                    if "slos-model" not in reported:
                        reported.add("slos-model")
                        ctx.fail("slos-model-mismatch", "the faithful machine and the engine disagree (output or white-box "
                                 "cache keys)", {"history": h[:k + 1]}, expected=ms,
                                 observed={a: b for a, b in hs.items()})
                    break
                # the repaired machine must agree with the fresh engine on every query
                if op[0] == "q":
                    rs = repaired[hi][k][0]
                    key = None
            # repaired machine vs fresh engine
        for hi, k, key, cfgt in per_query:
            rs = repaired[hi][k][0]
            fs = fresh[key]
            ctx.count("SLOS.repaired-vs-fresh")
            if not same_step(rs, fs, tol):
                if "slos-repaired" not in reported:
                    reported.add("slos-repaired")
                    ctx.fail("slos-repaired-machine-differs-from-fresh", "the repaired machine does not predict the fresh "
                             "engine", {"history": hists[hi][:k + 1]}, expected=fs, observed=rs)
    if name in ("Naive", "SLAP", "MPS"):
        check_iterator_keys(ctx, name, circs, hists, res, reported)
    if name == "MPS":
        check_mps_cutoff(ctx, circs, hists, res, reported)
    ctx.streams[stream] = len(hists)


ITER_QUERIES = {"Naive": ("dist", "allprob", "evolve", "allprob_in"), "MPS": ("dist", "allprob", "evolve", "allprob_in"),
                "SLAP": ("dist",)}


def check_iterator_keys(ctx, name, circs, hists, res, reported):
    """(iii) _cache_iterator.keys() against the keyed-cache machine (function 503)."""
    reqs, maps = [], []
    for h, steps in zip(hists, res):
        ops, mp = [], []
        n_in = None
        for k, op in enumerate(h):
            if k >= len(steps) or steps[k]["c"] != "ok":
                break
            if op[0] == "new":
                if "mask" in op[1]:
                    ops.append([1, [mask_to_model(op[1]["mask"])], -1])
                else:
                    mp.append(None); continue
            elif op[0] == "circ":
                ops.append([0, circs[op[1]].m]); n_in = None
            elif op[0] == "mask":
                ops.append([1, [mask_to_model(x) for x in op[1]], -1 if op[2] is None else op[2]])
            elif op[0] == "clear":
                ops.append([2])
            elif op[0] == "in":
                ops.append([3]); n_in = sum(op[1])
            elif op[0] == "cutoff":
                mp.append(None); continue
            elif op[0] == "q":
                if op[1] == "allprob_in":
                    ops.append([3]); n_in = sum(op[2])
                if op[1] in ITER_QUERIES[name]:
                    ops.append([4, n_in])
                else:
                    mp.append(None); continue
            mp.append(len(ops) - 1)
        reqs.append((503, ops))
        maps.append(mp)
    outs = ctx.model.run(reqs)
    for h, steps, mp, out in zip(hists, res, maps, outs):
        for k, j in enumerate(mp):
            if j is None:
                continue
            ctx.count(f"{name}.iterator-keys")
            if sorted(out[j]) != steps[k]["w"]["it"]:
                if "iter" not in reported:
                    reported.add("iter")
                    ctx.fail(f"{name.lower()}-iterator-cache-keys-differ-from-machine", "white-box _cache_iterator keys differ "
                             "from the keyed-cache machine", {"engine": name, "history": h[:k + 1]},
                             expected=sorted(out[j]), observed=steps[k]["w"]["it"])
                break


def check_mps_cutoff(ctx, circs, hists, res, reported):
    """(ii)/(iii) MPSBackend._cutoff against the machine (function 502): faithful = stored value, fresh = what a new
    engine would use."""
    reqs, maps = [], []
    for h, steps in zip(hists, res):
        ops, mp = [], []
        for k, op in enumerate(h):
            if k >= len(steps) or steps[k]["c"] != "ok":
                break
            if op[0] == "new":
                if "cutoff" in op[1]:
                    ops.append([0, op[1]["cutoff"]])
                else:
                    mp.append(None); continue
            elif op[0] == "circ":
                ops.append([1, circs[op[1]].m])
            elif op[0] == "cutoff":
                ops.append([0, op[1]])
            elif op[0] == "in":
                ops.append([2, sum(op[1])])
            elif op[0] == "q" and op[1] == "allprob_in":
                ops.append([2, sum(op[2])])
            else:
                mp.append(None); continue
            mp.append(len(ops) - 1)
        reqs.append((502, [1, ops]))      # 1 = the code as it is now (/repo commit 3d5f407f), 0 = before it
        maps.append(mp)
    outs = ctx.model.run(reqs)
    for h, steps, mp, out in zip(hists, res, maps, outs):
        for k, j in enumerate(mp):
            if j is None:
                continue
            cut, fresh_cut = out[j]
            ctx.count("MPS.cutoff-steps")
            got = steps[k]["w"].get("cutoff")
            if (got if got is not None else -1) != cut:
                if "mpscut" not in reported:
                    reported.add("mpscut")
                    ctx.fail("mps-cutoff-differs-from-machine", "white-box _cutoff differs from the machine",
                             {"history": h[:k + 1]}, expected=cut, observed=got)
                break
            if h[k][0] in ("in",) and cut != fresh_cut:
                ctx.count("MPS.cutoff-differs-from-fresh")


# ------------------------------------------------------------------------------------------------ generic stream (i)
def check_generic_stream(ctx, target, label, cdesc, hists, fresh_of, signature_of, stream, tol=TOL):
    """Model-free: every query of every history against a fresh object built from the final configuration.
    fresh_of(history, k, steps) -> fresh history (the query last) or None; signature_of(history, k, hstep, fstep)."""
    res = run_histories(target, cdesc, hists, whitebox=True)
    fresh_req, per_query = {}, []
    for hi, (h, steps) in enumerate(zip(hists, res)):
        for k, op in enumerate(h):
            if k >= len(steps):
                break
            if op[0] == "q":
                fh = fresh_of(h, k, steps)
                if fh is None:
                    continue
                key = json.dumps(fh)
                fresh_req.setdefault(key, fh)
                per_query.append((hi, k, key))
    keys = list(fresh_req)
    fres = run_histories(target, cdesc, [fresh_req[k] for k in keys], whitebox=False)
    fresh = {}
    for k, r in zip(keys, fres):
        if len(r) < len(fresh_req[k]):
            fresh[k] = {"c": "crash" if r and r[-1]["c"] == "crash" else "err"}
        else:
            fresh[k] = r[-1]

    def failing_subset(sig):
        def f(cands):
            rs = run_histories(target, cdesc, cands, whitebox=True, jobs=4)
            fhs = [fresh_of(c, len(c) - 1, r) for c, r in zip(cands, rs)]
            idx = [i for i, fh in enumerate(fhs) if fh is not None and len(rs[i]) == len(cands[i])]
            frs = run_histories(target, cdesc, [fhs[i] for i in idx], whitebox=False, jobs=4)
            good = []
            for i, fr in zip(idx, frs):
                hs = rs[i][-1]
                fs = fr[-1] if len(fr) == len(fhs[i]) else {"c": "err"}
                if not same_step(hs, fs, tol) and signature_of(cands[i], len(cands[i]) - 1, hs, fs) == sig:
                    good.append(i)
                    seen_pairs[json.dumps(cands[i])] = (hs, fs)
            return good
        return f

    seen_pairs = {}

    reported = set()
    for hi, k, key in per_query:
        h, hs, fs = hists[hi], res[hi][k], fresh[key]
        nt = nontrivial_history(h, k)
        ctx.case([label, h[:k + 1]], nt, {"object": label, "history": h[:k + 1], "fresh": fresh_req[key]} if nt else None)
        ctx.count(f"{label}.{h[k][1]}")
        ctx.count(f"{label}.class.{hs['c']}")
        if not same_step(hs, fs, tol):
            sig = signature_of(h, k, hs, fs)
            ctx.count(f"{label}.differs-from-fresh")
            if sig not in reported:
                reported.add(sig)
                hh = shrink(h, k, failing_subset(sig))
                hs2, fs2 = seen_pairs.get(json.dumps(hh), (hs, fs))      # observables of the shrunk history
                ctx.fail(sig, f"{label}: the result after this history differs from a fresh object given the final "
                              f"configuration", {"object": label, "history": hh, "circuits": cdesc},
                         expected=fs2, observed={a: b for a, b in hs2.items() if a != "w"})
    ctx.streams[stream] = len(hists)
    return res


# ---- Simulator
SIM_STATES = {2: [[1, 0], [1, 1], [0, 1], [2, 0], "|{_:0},{_:1}>"],
              3: [[1, 0, 0], [1, 1, 0], [0, 1, 1], [1, 0, 1], [2, 1, 0], "|{_:0},{_:1},0>", "|{_:0},0,{_:1}>"]}


def selection_state(h, k, steps):
    """The settings a Simulator / Stepper history defines, whatever the route (dedicated setter or set_selection);
    degenerate values are settings like any other: filter 0, empty heralds, the trivially true post-selection."""
    st = {"circ": None, "heralds": None, "ps": None, "filter": None, "keep": None, "precision": None}
    for kk, op in enumerate(h[:k]):
        if kk < len(steps) and steps[kk]["c"] != "ok":
            continue
        if op[0] == "circ":
            st["circ"] = op
        elif op[0] == "heralds":
            st["heralds"] = op[1] or None
        elif op[0] == "clear_heralds":
            st["heralds"] = None
        elif op[0] == "postselect":
            st["ps"] = op[1]
        elif op[0] == "clear_postselect":
            st["ps"] = None
        elif op[0] == "filter":
            st["filter"] = op[1]
        elif op[0] == "keep_heralds":
            st["keep"] = op[1]
        elif op[0] == "precision":
            st["precision"] = op[1]
        elif op[0] == "selection":
            if op[1] is not None:
                st["filter"] = op[1]
            if op[2] is not None:
                st["ps"] = op[2] or None
            if op[3] is not None:
                st["heralds"] = op[3] or None
    return st


def fresh_from_selection(st, query):
    """A fresh object is configured through the dedicated setters only (the history may have used set_selection)."""
    if st["circ"] is None:
        return None
    h = [st["circ"]]
    if st["heralds"]:
        h.append(["heralds", st["heralds"]])
    if st["ps"]:
        h.append(["postselect", st["ps"]])
    if st["filter"] is not None:
        h.append(["filter", st["filter"]])
    if st["keep"] is not None:
        h.append(["keep_heralds", st["keep"]])
    if st["precision"] is not None:
        h.append(["precision", st["precision"]])
    return h + [query]


def sim_fresh(h, k, steps):
    return fresh_from_selection(selection_state(h, k, steps), h[k])


def sim_signature(h, k, hs, fs):
    q = h[k][1]
    before = sorted({op[1] for op in h[:k] if op[0] == "q"})
    if hs["c"] != fs["c"]:
        if q == "probs" and "probs_svd" in before and hs.get("e") == "AssertionError":
            return "simulator-probs-uses-mask-left-by-probs_svd"
        return f"simulator-{q}-{hs['c']}-where-fresh-{fs['c']}"
    what = "result"
    if isinstance(hs.get("v"), dict) and isinstance(fs.get("v"), dict):
        same_main = all(same_value(hs["v"].get(f), fs["v"].get(f)) for f in ("dist", "sv") if f in hs["v"])
        what = "performance-only" if same_main else "result"
    if q == "probs" and "probs_svd" in before:
        return "simulator-probs-uses-mask-left-by-probs_svd"
    return f"simulator-{q}-{what}-depends-on-history"


def rand_svd(rng, m):
    pool = [x for x in SIM_STATES[m]]
    terms = []
    n_states = rng.rint(1, 2)
    ps = [Fraction(1, n_states)] * n_states
    out = []
    for p in ps:
        if rng.chance(1, 4):
            a, b = rng.choice([x for x in pool if isinstance(x, list) and sum(x) == 2]), None
            cands = [x for x in pool if isinstance(x, list) and sum(x) == sum(a) and x != a]
            b = rng.choice(cands)
            out.append([float(p), [[0.6, 0.0, a], [0.0, 0.8, b]]])
        else:
            out.append([float(p), [[1.0, 0.0, rng.choice(pool)]]])
    # distinct state vectors only (an SVDistribution is a dictionary)
    seen, res = set(), []
    for p, t in out:
        key = json.dumps(t)
        if key not in seen:
            seen.add(key)
            res.append([p, t])
    tot = sum(p for p, _ in res)
    return [[p / tot, t] for p, t in res]


SUPER = {2: ([1, 1], [2, 0], [0, 2]), 3: ([1, 1, 0], [0, 1, 1], [1, 0, 1], [2, 0, 0])}
DETECTOR_KINDS = ("none", "pnr", "thr", "mixed")


def detectors_of(rng, kind, m):
    if kind == "none":
        return None
    if kind == "pnr":
        return ["pnr"] * m
    if kind == "thr":
        return ["thr"] * m
    d = [rng.choice(["pnr", "thr"]) for _ in range(m)]
    d[rng.below(m)] = "thr"
    return d


def rand_sim_flip_history(rng, circs):
    """Consecutive probs_svd queries that share basic states (superposed inputs go through Simulator._evolve, keyed
    (state, n)) while what the cached evolutions depend on changes between them: the detector kinds (None / all PNR =
    the heralds mask is usable, threshold / mixed = it is not), the heralds, the filter."""
    i = rng.below(len(circs))
    m = circs[i].m
    a, b = rng.shuffle(SUPER[m])[:2]
    amp = [(0.6, 0.0, 0.0, 0.8), (0.8, 0.0, 0.6, 0.0), (0.0, 0.6, 0.8, 0.0)]

    def svd():
        c = rng.choice(amp)
        x, y = (a, b) if rng.chance(1, 2) else (b, a)
        sup = [[c[0], c[1], x], [c[2], c[3], y]]
        if rng.chance(1, 2):
            return [[1.0, sup]]
        other = rng.choice([z for z in SIM_STATES[m] if z not in (a, b)])
        return [[0.5, [[1.0, 0.0, other]]], [0.5, sup]]

    h = [["circ", i], ["heralds", [[rng.below(m), 0 if rng.chance(3, 4) else 1]]]]
    if rng.chance(1, 3):
        h.append(["filter", rng.rint(1, 2)])
    kinds = rng.shuffle(DETECTOR_KINDS)
    # the first two queries always differ in the usability of the mask
    first = rng.choice(["none", "pnr"]) if rng.chance(1, 2) else rng.choice(["thr", "mixed"])
    second = rng.choice(["thr", "mixed"]) if first in ("none", "pnr") else rng.choice(["none", "pnr"])
    for kind in [first, second] + kinds[:rng.below(3)]:
        h.append(["q", "probs_svd", svd(), detectors_of(rng, kind, m)])
        r = rng.below(9)
        if r < 2:
            h.append(["filter", rng.below(3)])
        elif r < 3:
            h.append(["selection", rng.choice([0, 1, 2]), None, None])
        elif r < 4:
            h.append(["heralds", [[rng.below(m), rng.below(2)]]])
        elif r < 5:
            h.append(["q", "evolve", rng.choice([a, b])])
        elif r < 7:
            x = rng.choice([a, b])
            h.append(["q", rng.choice(["amp", "prob"]), x, gen.rand_state(rng, m, sum(x))])
    if h[-1][0] != "q":
        h.append(["q", "probs_svd", svd(), detectors_of(rng, rng.choice(DETECTOR_KINDS), m)])
    return h


def rand_sim_superposed_history(rng, circs):
    """Queries on SUPERPOSED un-annotated inputs (several terms, complex amplitudes): the same superposition twice in a
    row, then other superpositions sharing basic states, through evolve / probs(StateVector) / evolve_svd / probs_svd.
    A cached evolution that a query modifies in place shows at the second query."""
    i = rng.below(len(circs))
    m = circs[i].m
    pool = rng.shuffle(SUPER[m])
    a, b, c = pool[0], pool[1], pool[2 % len(pool)]
    amps = [((0.6, 0.0), (0.0, 0.8)), ((0.8, 0.0), (-0.6, 0.0)), ((0.0, 0.6), (0.8, 0.0)),
            ((0.28, 0.0), (0.0, -0.96)), ((0.6, 0.0), (0.48, 0.64))]

    def sup(x, y):
        (r1, i1), (r2, i2) = rng.choice(amps)
        return [[r1, i1, x], [r2, i2, y]]
    h = [["circ", i]]
    if rng.chance(1, 4):
        h.append(["heralds", [[rng.below(m), 0]]])
    s1 = sup(a, b)
    first = rng.choice(["evolve_sv", "evolve_sv", "probs_sv", "evolve_svd"])
    h.append(["q", first, s1] if first != "evolve_svd" else ["q", "evolve_svd", [[1.0, s1]]])
    h.append(["q", "evolve_sv", s1])                                   # the same superposition again
    for _ in range(rng.rint(1, 3)):
        s2 = sup(*rng.choice([(a, c), (c, b), (b, a), (a, b)]))        # shares a component with the cached ones
        kind = rng.choice(["evolve_sv", "evolve_sv", "probs_sv", "evolve_svd", "probs_svd", "evolve"])
        if kind in ("evolve_sv", "probs_sv"):
            h.append(["q", kind, s2])
        elif kind == "evolve_svd":
            h.append(["q", "evolve_svd", [[0.5, s2], [0.5, [[1.0, 0.0, rng.choice([a, b, c])]]]]])
        elif kind == "probs_svd":
            h.append(["q", "probs_svd", [[1.0, s2]], None])
        else:
            h.append(["q", "evolve", rng.choice([a, b, c])])
    return h


PS_EXPR = ["[0] < 2", "[1] == 1", "[0] > 0"]


def rand_selection_op(rng, m):
    """One mutator of the selection settings through a random route, degenerate values included."""
    r = rng.below(12)
    if r < 2:
        return ["heralds", [[rng.below(2), rng.below(2)]]]
    if r < 3:
        return ["clear_heralds"] if rng.chance(1, 2) else ["selection", None, None, []]        # empty heralds dict
    if r < 5:
        return ["postselect", rng.choice(PS_EXPR)]
    if r < 6:
        return ["clear_postselect"] if rng.chance(1, 2) else ["selection", None, "", None]     # trivially true
    if r < 8:
        return ["filter", rng.choice([0, 0, 1, 2])]
    if r < 10:
        return ["selection", rng.choice([0, 0, 1, 2]), rng.choice([None, None, rng.choice(PS_EXPR), ""]),
                rng.choice([None, None, [[rng.below(2), rng.below(2)]], []])]
    if r < 11:
        return ["precision", rng.choice([0, 1e-6])]
    return ["keep_heralds", rng.below(2)]


def rand_sim_history(rng, circs, maxlen=8):
    i = rng.below(len(circs))
    m = circs[i].m
    h = [["circ", i]]
    L = rng.rint(3, maxlen)
    plain = [x for x in SIM_STATES[m] if isinstance(x, list)]
    while len(h) < L:
        r = rng.below(22)
        if r < 2:
            i = rng.below(len(circs))
            m = circs[i].m
            plain = [x for x in SIM_STATES[m] if isinstance(x, list)]
            h.append(["circ", i])
        elif r < 10:
            h.append(rand_selection_op(rng, m))
        elif r < 13:
            h.append(["q", "probs", rng.choice(SIM_STATES[m])])
        elif r < 15:
            h.append(["q", "evolve", rng.choice(plain)])
        elif r < 18:
            # the unconditioned point queries, for any output of the same photon number: also those the heralds (the
            # mask a previous probs_svd left in the engine) exclude
            a = rng.choice(plain)
            b = gen.rand_state(rng, m, sum(a))
            h.append(["q", rng.choice(["amp", "prob"]), a, b])
        else:
            det = None if rng.chance(1, 2) else [rng.choice(["pnr", "thr"]) for _ in range(m)]
            h.append(["q", "probs_svd", rand_svd(rng, m), det])
    if h[-1][0] != "q":
        h.append(["q", "probs", rng.choice(SIM_STATES[m])])
    return h


# ---- Stepper / Processor: parametrised circuits
def param_circ_desc(rng, m):
    """BS / PS(param) / BS sandwiches on the same mode pairs, so that every phase matters."""
    comps = []
    names = []
    for j in range(rng.rint(1, 2)):
        off = rng.below(m - 1)
        name = f"p{j}"
        names.append(name)
        lf1 = gen.rand_leaf(rng, 2, kinds=("BS",))
        lf2 = gen.rand_leaf(rng, 2, kinds=("BS",))
        comps.append([off, "BS", [lf1.args[0], lf1.args[1], list(lf1.args[2])]])
        comps.append([off + rng.below(2), "PPS", [name, round(0.3 + 0.37 * rng.below(8), 6)]])
        comps.append([off, "BS", [lf2.args[0], lf2.args[1], list(lf2.args[2])]])
    return {"m": m, "comps": comps}, names


def bake(desc, values, added=()):
    comps = []
    for off, kind, args in desc["comps"]:
        if kind == "PPS":
            comps.append([off, "PPS", [args[0], values.get(args[0], args[1])]])
        else:
            comps.append([off, kind, args])
    return {"m": desc["m"], "comps": comps + [list(a) for a in added]}


PARAM_VALUES = [0.3, 1.1, 1.1000004, 2.5, 0.30000007]


def stepper_streams(ctx, rng, n):
    descs, hists = [], []
    for _ in range(n):
        m = rng.rint(2, 3)
        d, names = param_circ_desc(rng, m)
        descs.append(d)
        ci = len(descs) - 1
        h = [["circ", ci]]
        plain = [x for x in SIM_STATES[m] if isinstance(x, list)]
        for _ in range(rng.rint(2, 7)):
            r = rng.below(14)
            if r < 3:
                h.append(["param", rng.choice(names), rng.choice(PARAM_VALUES)])
            elif r < 4:
                h.append(["circ", ci])
            elif r < 8:
                op = rand_selection_op(rng, m)      # every public mutator of the Stepper, through both routes
                if op[0] in ("clear_heralds", "postselect", "clear_postselect"):
                    op = ["filter", rng.choice([0, 1, 2, 3])]
                elif op[0] == "selection":
                    op = ["selection", op[1], None, op[3]]
                h.append(op)
            elif rng.chance(2, 3) and len(h) > 1 and h[-1][0] == "q":
                h.append(["filter", rng.choice([0, 2, 3])])
                h.append(list(h[-2]))               # the same query again after the filter moved
            else:
                h.append(["q", rng.choice(["probs", "evolve"]), rng.choice(plain)])
        if h[-1][0] != "q":
            h.append(["q", "probs", [1] + [0] * (m - 1)])
        hists.append(h)
    # regression case: two parameter values that print alike in describe()
    descs.append({"m": 2, "comps": [[0, "BS", [0, 1.0, [0.0, 0.0, 0.0, 0.0]]], [0, "PPS", ["p0", 0.3]],
                                    [0, "BS", [0, 1.3, [0.0, 0.0, 0.0, 0.0]]]]})
    hists.insert(0, [["circ", len(descs) - 1], ["q", "probs", [1, 0]], ["param", "p0", 0.30000007], ["q", "probs", [1, 0]]])
    # regression case (fdd01a3e): the photon filter is part of what the compiled output depends on
    descs.append({"m": 3, "comps": [[0, "BS", [0, 1.0, [0.0, 0.0, 0.0, 0.0]]], [1, "BS", [0, 0.7, [0.0, 0.0, 0.0, 0.0]]]]})
    hists.insert(0, [["circ", len(descs) - 1], ["filter", 0], ["q", "evolve", [1, 1, 0]], ["filter", 3],
                     ["q", "evolve", [1, 1, 0]]])
    cdesc = list(descs)

    def fresh_of(h, k, steps):
        vals, ci = {}, None
        for op in h[:k]:
            if op[0] == "param":
                vals[op[1]] = op[2]
            elif op[0] == "circ":
                ci = op[1]
        if ci is None or ci >= len(descs):
            return None
        cdesc.append(bake(descs[ci], vals))
        st = selection_state(h, k, steps)
        st["circ"] = ["circ", len(cdesc) - 1]
        st["ps"] = None
        return fresh_from_selection(st, h[k])

    def sig(h, k, hs, fs):
        if hs["c"] != fs["c"]:
            return f"stepper-{hs['c']}-where-fresh-{fs['c']}"
        vals = [op[2] for op in h[:k] if op[0] == "param"]
        init = [x[2][1] for op in h[:1] if op[0] == "circ" and op[1] < len(descs) for x in descs[op[1]]["comps"] if x[1] == "PPS"]
        near = any(0 < abs(a - b) < 1e-5 for a in vals + init for b in vals)
        if near:
            return "stepper-stale-component-cache-describe-rounding"
        muts = [op[0] for op in h[:k] if op[0] != "q"]
        return "stepper-result-depends-on-history-after-" + (muts[-1] if muts else "query")      # the last mutator
    check_generic_stream(ctx, "stepper", "Stepper", cdesc, hists, fresh_of, sig, "stepper")


POLARIZING = ("PR", "WP", "HWP", "QWP", "PBS")
POL_STATES = {2: ["|{P:H},0>", "|{P:H},{P:V}>", "|{P:D},0>"], 3: ["|{P:H},0,0>", "|{P:H},{P:V},0>", "|0,{P:D},0>"]}


def rand_component(rng, m):
    """[offset, kind, args] of a component of any public class: unitary, polarization (needs another simulation
    layer than a plain circuit), loss channel (idem)."""
    kind = rng.choice(["BS", "BS", "PS", "PERM", "PR", "WP", "HWP", "QWP", "PBS", "LC"])
    if kind == "BS":
        lf = gen.rand_leaf(rng, 2, kinds=("BS",))
        return [rng.below(m - 1), "BS", [lf.args[0], lf.args[1], list(lf.args[2])]]
    if kind == "PS":
        return [rng.below(m), "PS", [round(0.2 + 0.31 * rng.below(9), 6)]]
    if kind == "PERM":
        return [rng.below(m - 1), "PERM", [[1, 0]]]
    if kind == "PBS":
        return [rng.below(m - 1), "PBS", []]
    if kind == "LC":
        return [rng.below(m), "LC", [rng.choice([0.1, 0.3, 0.5])]]
    if kind == "WP":
        return [rng.below(m), "WP", [round(0.2 + 0.3 * rng.below(6), 6), round(0.1 + 0.25 * rng.below(6), 6)]]
    return [rng.below(m), kind, [round(0.2 + 0.3 * rng.below(6), 6)]]


def processor_streams(ctx, rng, n, backend="SLOS"):
    descs, hists = [], []
    for _ in range(n):
        m = rng.rint(2, 3)
        d, names = param_circ_desc(rng, m)
        if rng.chance(1, 3):
            # a processor whose simulator is layered from the start (SimulatorFactory.build: loss / polarisation layer
            # around the Simulator): settings have to reach the inner layers too
            c = rand_component(rng, m)
            while c[1] not in POLARIZING + ("LC",):
                c = rand_component(rng, m)
            d["comps"].append(c)
        descs.append(d)
        ci = len(descs) - 1
        h = [["new", ci], ["input", rng.choice([x for x in SIM_STATES[m] if isinstance(x, list)])]]
        for _ in range(rng.rint(2, 7)):
            r = rng.below(16)
            if r < 3:
                h.append(["param", rng.choice(names), rng.choice([0.3, 1.1, 2.5, 0.9])])
            elif r < 5:
                h.append(["noise", rng.choice([None, {"transmittance": 0.8}, {"indistinguishability": 0.9},
                                               {"transmittance": 0.7, "g2": 0.05}])])
            elif r < 7:
                h.append(["filter", rng.choice([0, 0, 1, 2])])      # degenerate value included: lowered to exactly 0
            elif r < 8:
                h.append(["input", rng.choice([x for x in SIM_STATES[m] if isinstance(x, list)])])
            elif r < 9:
                h.append(["add", rand_component(rng, m)])
                if h[-1][1][1] in POLARIZING and rng.chance(1, 2):
                    h.append(["pinput", rng.choice(POL_STATES[m])])
            elif r < 10:
                h.append(["postselect", rng.choice(["[0] < 2", "[1] == 1", "[0] > 0"])])
            elif r < 11:
                h.append(["clear_postselect"])
            else:
                h.append(["q", "probs"])
        if rng.chance(1, 3):
            # a setting raised, used, then lowered to its degenerate value, used again
            h += [["filter", rng.rint(1, 2)], ["q", "probs"], ["filter", 0], ["q", "probs"]]
        if h[-1][0] != "q":
            h.append(["q", "probs"])
        hists.append(h)
    # regression case: the default filter chosen by the first query outlives a change of input
    descs.append({"m": 2, "comps": [[0, "BS", [0, 1.5707963267948966, [0.0, 0.0, 0.0, 0.0]]]]})
    hists.append([["new", len(descs) - 1], ["input", [1, 1]], ["q", "probs"], ["input", [1, 0]], ["q", "probs"]])
    cdesc = list(descs)

    def fresh_of(h, k, steps):
        vals, added, noise, filt, inp, ps = {}, [], None, None, None, None
        for kk, op in enumerate(h[:k]):
            if kk < len(steps) and steps[kk]["c"] != "ok":
                continue
            if op[0] == "param":
                vals[op[1]] = op[2]
            elif op[0] == "add":
                added.append(op[1])
            elif op[0] == "noise":
                noise = op
            elif op[0] == "filter":
                filt = op
            elif op[0] in ("input", "pinput"):
                inp = op
            elif op[0] == "postselect":
                ps = op
            elif op[0] == "clear_postselect":
                ps = None
        if not h or h[0][0] != "new" or h[0][1] >= len(descs):
            return None
        cdesc.append(bake(descs[h[0][1]], vals, added))
        return [["new", len(cdesc) - 1]] + [x for x in (noise, filt, ps, inp) if x is not None] + [h[k]]

    def sig(h, k, hs, fs):
        explicit = any(op[0] == "filter" for op in h[:k])
        queried = any(op[0] == "q" for op in h[:k])
        if not explicit and queried and hs["c"] != "crash":
            # the open finding, and only it: the filter stored by the first query is not the default a fresh processor
            # would choose now (another photon number), or a fresh processor has no default at all (imperfect source)
            inp = [op[1] for op in h[:k] if op[0] in ("input", "pinput")]
            cur_n = None if not inp else (sum(inp[-1]) if isinstance(inp[-1], list) else inp[-1].count("P:"))
            stored = hs.get("w", {}).get("min_filter")
            if (stored is not None and stored != cur_n) or (fs["c"] == "err" and fs.get("e") == "ValueError"
                                                            and "min_detected_photons" in fs.get("msg", "")):
                return "processor-auto-filter-set-by-first-query-persists"
        if hs["c"] != fs["c"]:
            return f"processor-{hs['c']}-where-fresh-{fs['c']}"
        muts = [(op[0] + "-" + op[1][1]) if op[0] == "add" else op[0] for op in h[:k] if op[0] not in ("new", "q")]
        return "processor-result-depends-on-history-after-" + (muts[-1] if muts else "query")   # the last mutator
    check_generic_stream(ctx, "processor:" + backend, "Processor", cdesc, hists, fresh_of, sig, "processor", tol=1e-8)


# ------------------------------------------------------------------------------------------------ corpus
def corpus(circs4):
    """Histories of the witnesses of coq/Props/C05.v and DESIGN.md section 9 (rows 5, 16, 17): regression guards
    (repaired in /repo by 1c6530fa, 3d5f407f: they must agree with a fresh engine now)."""
    return {
        "SLOS": [
            [["circ", 0], ["mask", ["*1"], None], ["in", [1, 0]], ["in", [1, 1]], ["q", "amp", [1, 1]], ["q", "dist"]],
            [["circ", 0], ["mask", ["*1"], None], ["in", [1, 1]], ["in", [1, 0]], ["q", "dist"], ["q", "amp", [0, 1]]],
            [["circ", 0], ["in", [1, 1]], ["mask", ["*1"], None], ["q", "dist"]],
            [["circ", 0], ["mask", ["2*"], None], ["in", [1, 0]], ["in", [1, 1]], ["q", "dist"]],
            [["circ", 2], ["mask", ["011"], None], ["in", [0, 0, 1]], ["q", "dist"], ["in", [1, 1, 0]], ["q", "dist"]],
            [["circ", 5], ["mask", ["**1*"], None], ["in", [1, 1, 0, 0]], ["in", [1, 1, 1, 0]], ["q", "dist"]],
            # vacuum input first under a mask with an explicit n that needs more photons (crashed before f2cccc2b)
            [["circ", 0], ["mask", ["2*"], 1], ["in", [0, 0]], ["in", [1, 0]], ["q", "dist"]],
            # same with mask_n None: the mask instance changes, the state space is rebuilt (no crash since 1c6530fa)
            [["circ", 0], ["mask", ["2*"], None], ["in", [0, 0]], ["in", [1, 0]], ["q", "dist"]],
        ],
        "MPS": [
            [["circ", 6], ["in", [1, 1, 1, 0]], ["in", [0, 0, 2, 1]], ["in", [0, 1, 1, 0]], ["q", "dist"]],
            [["circ", 6], ["in", [1, 1, 1, 0]], ["in", [0, 1, 1, 0]], ["q", "dist"]],
            [["circ", 6], ["cutoff", 5], ["in", [0, 1, 1, 0]], ["in", [1, 1, 1, 0]], ["q", "dist"]],
        ],
    }


def run(ctx):
    rng = ctx.rng
    circs = [rand_circ(rng, 2), rand_circ(rng, 2), rand_circ(rng, 3), rand_circ(rng, 3), rand_circ(rng, 2),
             rand_circ(rng, 4), deep_circ(rng, 4)]
    ids = (0, 1, 2)
    cor = corpus(circs)
    # ---- exhaustive short histories: set_circuit(A) + every word of length <= L over the reduced alphabet
    for name, L in (("SLOS", ctx.n(4, 5)), ("Naive", 3), ("SLAP", 3), ("MPS", ctx.n(2, 3))):
        hs = [h for h in (expand_word(w, circs, ids) for w in exhaustive_histories(L, ids)) if h and any(o[0] == "q" for o in h)]
        hs = cor.get(name, []) + hs
        ctx.log(f"{name}: {len(hs)} exhaustive histories of length <= {L} after set_circuit (+ corpus)")
        check_backend_stream(ctx, name, circs, hs, f"exhaustive-{name}", with_model=(name == "SLOS"))
    # ---- random histories (length <= 8)
    for name, n in (("SLOS", ctx.n(1000, 10000)), ("Naive", ctx.n(150, 2000)), ("SLAP", ctx.n(150, 2000)),
                    ("MPS", ctx.n(150, 2000))):
        hs = [rand_backend_history(rng, circs, name) for _ in range(n)]
        ctx.log(f"{name}: {len(hs)} random histories")
        check_backend_stream(ctx, name, circs, hs, f"random-{name}", with_model=(name == "SLOS"))
    # ---- engine options as a dimension: SLOS with symbolic coefficients (slow: two modes, at most two photons)
    two = [i for i, c in enumerate(circs) if c.m == 2]
    # (with symbolic coefficients only prob_amplitude / probability answer: the bulk queries raise on a fresh engine too)
    hs = [[["new", {"use_symbolic": True}], ["circ", two[0]], ["in", [1, 1]], ["q", "amp", [1, 1]], ["circ", two[1]],
           ["in", [1, 1]], ["q", "amp", [1, 1]], ["q", "prob", [2, 0]]]]
    hs += [rand_swap_history(rng, circs, two, {"use_symbolic": True}) if j % 2 else
           rand_backend_history(rng, circs, "SLOS", maxlen=8, nmax=2, opts={"use_symbolic": True}, pool=two,
                                qkinds=("amp", "amp", "prob", "prob", "dist"))
           for j in range(ctx.n(60, 600))]
    ctx.log(f"SLOS(use_symbolic=True): {len(hs)} histories")
    check_backend_stream(ctx, "SLOS", circs, hs, "random-SLOS-symbolic", with_model=False, variant="-symbolic")
    # ---- Simulator / Stepper / Processor (model-free comparison with a fresh object)
    cdesc = [c.desc() for c in circs[:5]]
    sim_corpus = [
        # probs after probs_svd under a herald mask (repaired by bc7ab4f9)
        [["circ", 2], ["heralds", [[2, 0]]], ["q", "probs_svd", [[1.0, [[1.0, 0.0, [1, 0, 0]]]]], None],
         ["q", "probs", [1, 1, 0]]],
        # the same superposed basic states under the heralds mask (PNR), then with threshold detection (8766d55d)
        [["circ", 0], ["heralds", [[1, 0]]], ["q", "probs_svd", [[1.0, [[0.6, 0.0, [2, 0]], [0.0, 0.8, [1, 1]]]]], None],
         ["filter", 2],
         ["q", "probs_svd", [[0.5, [[1.0, 0.0, "|{_:0},{_:1}>"]]], [0.5, [[0.6, 0.0, [1, 1]], [0.0, 0.8, [2, 0]]]]],
          ["thr", "pnr"]]],
        # point queries after probs_svd under a herald mask, for an output the heralds exclude (7e0f70ac)
        [["circ", 2], ["heralds", [[2, 0]]], ["q", "probs_svd", [[1.0, [[1.0, 0.0, [1, 1, 0]]]]], None],
         ["q", "prob", [1, 1, 0], [1, 0, 1]], ["q", "amp", [1, 1, 0], [0, 1, 1]]],
        # a filter lowered to exactly 0 through set_selection
        [["circ", 0], ["filter", 2], ["q", "probs_svd", [[1.0, [[1.0, 0.0, [1, 0]]]]], None],
         ["selection", 0, None, None], ["q", "probs_svd", [[1.0, [[1.0, 0.0, [1, 0]]]]], None]]]
    for backend, n in (("SLOS", ctx.n(300, 3000)), ("Naive", ctx.n(80, 1000))):
        hs = sim_corpus + [rand_sim_flip_history(rng, circs[:5]) if j % 5 < 2 else
                           rand_sim_superposed_history(rng, circs[:5]) if j % 5 == 2 else
                           rand_sim_history(rng, circs[:5]) for j in range(n)]
        ctx.log(f"Simulator({backend}): {len(hs)} histories")
        check_generic_stream(ctx, "simulator:" + backend, "Simulator", cdesc, hs, sim_fresh, sim_signature,
                             f"simulator-{backend}", tol=1e-8)
    ctx.log("Stepper / Processor")
    stepper_streams(ctx, rng, ctx.n(30, 1500))
    processor_streams(ctx, rng, ctx.n(150, 1500))
    # ---- extraction cross-check: a few machine runs inside Coq (vm_compute)
    sample = [(500, [0, 0, model_ops(h, circs)]) for h in cor["SLOS"][:3]] + [(502, [0, [[1, 4], [2, 3], [2, 2]]])]
    a = ctx.model.run(sample)
    b = ctx.model.vm_crosscheck(sample, tag="c05")
    if a != b:
        ctx.fail("extraction-vm-mismatch", "extracted machine and vm_compute disagree", {"requests": len(sample)})
    ctx.streams["vm-crosscheck"] = len(sample)
    ctx.exhaustive = False


def replay(ctx, case):
    """Re-runs the failing history and the fresh object and prints both observables."""
    c = case.get("case", case)
    h = c["history"]
    if "engine" in c:
        target = "backend:" + c["engine"]
        circuits = c.get("circuits", {})
        ids = sorted(int(k) for k in circuits)
        remap = {i: j for j, i in enumerate(ids)}
        cdesc = [circuits[str(i)] for i in ids]
        h = [["circ", remap[op[1]]] if op[0] == "circ" else op for op in h]
        fh = [["circ", remap[op[1]]] if op[0] == "circ" else op for op in c.get("fresh", [])]
    else:
        target = {"Simulator": "simulator:SLOS", "Stepper": "stepper", "Processor": "processor:SLOS"}[c["object"]]
        cdesc = c["circuits"]
        fh = None
    r = run_histories(target, cdesc, [h], whitebox=False, jobs=1)[0]
    print("history:", json.dumps(h))
    print("observed:", json.dumps(r[-1])[:2000])
    if fh:
        f = run_histories(target, cdesc, [fh], whitebox=False, jobs=1)[0]
        print("fresh:", json.dumps(fh))
        print("fresh result:", json.dumps(f[-1])[:2000])
    print("expected (recorded):", json.dumps(case.get("expected"))[:2000])
